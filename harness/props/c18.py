"""C18 — BIP158 compact filters (SipHash-2-4, Golomb-Rice, bit packing), BIP37 bloom filter (MurmurHash3)."""
import hashlib
import struct

from buidl import compactfilter, siphash, helper, bloomfilter
from vp.sexp import ERR

PID = "C18"
RULE = ("Golomb inputs sweep [0,2^26) incl. 0, 2^19-1, 2^19 and every power-of-two boundary, p in 0..24; SipHash and "
        "Murmur3 messages of every length 0..70 with random 16-byte keys, chunked updates at every split point; seeds and "
        "tweaks incl. 0, 2^32-1, values >= 2^32 and negative; element sets of 0..2000 scripts of length 0..600 incl. "
        "duplicates and crafted sets in which two elements collide in [0, N*M); bloom sizes 1..36000 bytes, 1..50 functions.")
RULE += (" Reuse: SipHash_2_4 objects fed incrementally with hash()/digest()/copy() in any order, several CompactFilter / "
         "CFilterMessage objects queried alternately and repeatedly with in-place edits of key / f / hashes / items, "
         "BloomFilter add / filter_bytes / filterload interleaved with edits of tweak / function_count / bit_field, and "
         "the module-level hash / Golomb functions called in sequences with different keys, seeds, ranges and p.")
RULE += (" Second round: every generated filter (0..2000 elements) is also built by the extracted BIP158 transcription "
         "(streaming bit writer) and read back / queried by its streaming reader and gcs_match, incl. accepted "
         "non-canonical filters (trailing bytes, padding bits set), truncations and random byte strings; cfilter / "
         "cfheaders messages are parsed from wire bytes (valid, truncated, bit-flipped, wrong counts); bloom filters "
         "of 1..36001 bytes / 1..51 functions are rebuilt by the transcription of Bitcoin Core's CBloomFilter and their "
         "filterload payload is decoded and queried as the receiving peer does, tweaks outside uint32 included.")
RULE += (" Third round: every public constructor is also called DIRECTLY, not through the in-library producers: "
         "CompactFilter(key, hashes) with hash lists / tuples in element order, ascending, descending, shuffled, "
         "rotated, with one inversion inside / at either end, interleaved runs, duplicates, all-equal, colliding, "
         "0 and F-1, sizes 0, 1, 2.. and 252/253/254 (serialize / hash / membership before and after a serialize -> "
         "parse round trip against the independent BIP158 writer, reader and gcs_match; caller's list untouched and "
         "not aliased); CFilterMessage / CFHeadersMessage / CFCheckPointMessage constructors (positional, keyword, "
         "tuple arguments, filter types 0/1/255, 0..2000 hashes); BloomFilter at the size / function-count / tweak "
         "edges with filterload() default flag; SipHash_2_4 with the data given at construction, by update, split "
         "at every offset, by keyword and through the module aliases.")
RULE += (" Fourth round (entry-point audit): helper._siphash (the second copy) and murmur3 with its default / keyword "
         "seed on messages of every length 0..70 made of one byte class (all 00 / ff / 80 / 7f, digits, half and half) "
         "under keys of one byte class; bytes_to_bit_field / bit_field_to_bytes both ways; the getcfilters / "
         "getcfheaders / getcfcheckpt requests with explicit, keyword and default arguments; == on filters and cfilter "
         "messages that differ in exactly one attribute; filters whose count field is written in a longer CompactSize "
         "form, is smaller than the stream or is 0 before a stream, and streams of one byte value; element sets that "
         "differ only in length / trailing zeros / around the 8-byte block boundary, block hashes of one byte class; "
         "failing calls (wrong key size, truncated bytes, refused elements / flags, raising raw_serialize) followed by "
         "the same call with good arguments on the same objects; every result (lists, filters, messages, bloom "
         "filters, SipHash copies) edited while its source or a sibling from the same input is used again, inputs as "
         "tuple / set / bytearray / memoryview; membership asked with the library's own Script objects.")
TRUSTED = ["hashlib (sha256) for the filter-header chain — hash256 is a universally quantified function in the theorem",
           "modelled, not verified: Script.raw_serialize (a CompactFilter is queried through an object whose "
           "raw_serialize() returns the given bytes); GenericMessage plumbing of filterload"]
ASSUMPTIONS = ["the no-false-negative theorem is stated for an arbitrary keyed hash with range [0,2^64) (SipHash is "
               "tied to its specification separately)",
               "element lists shorter than 2^64 (the varint N field)"]
BUDGET_S = {"quick": 400, "thorough": 1700}

M = 784931
P = 19
M64 = (1 << 64) - 1

# ---------------------------------------------------------------- independent references (written from the standards)


def _rotl64(x, b):
    return ((x << b) | (x >> (64 - b))) & M64


def ref_siphash24(key, msg):
    """SipHash-2-4, reference C code transcribed."""
    k0, k1 = struct.unpack("<QQ", key)
    v0 = 0x736f6d6570736575 ^ k0
    v1 = 0x646f72616e646f6d ^ k1
    v2 = 0x6c7967656e657261 ^ k0
    v3 = 0x7465646279746573 ^ k1

    def rounds(n):
        nonlocal v0, v1, v2, v3
        for _ in range(n):
            v0 = (v0 + v1) & M64
            v1 = _rotl64(v1, 13)
            v1 ^= v0
            v0 = _rotl64(v0, 32)
            v2 = (v2 + v3) & M64
            v3 = _rotl64(v3, 16)
            v3 ^= v2
            v0 = (v0 + v3) & M64
            v3 = _rotl64(v3, 21)
            v3 ^= v0
            v2 = (v2 + v1) & M64
            v1 = _rotl64(v1, 17)
            v1 ^= v2
            v2 = _rotl64(v2, 32)

    n = len(msg)
    end = n - n % 8
    for off in range(0, end, 8):
        m = int.from_bytes(msg[off:off + 8], "little")
        v3 ^= m
        rounds(2)
        v0 ^= m
    b = ((n & 0xff) << 56) | int.from_bytes(msg[end:], "little")
    v3 ^= b
    rounds(2)
    v0 ^= b
    v2 ^= 0xff
    rounds(4)
    return v0 ^ v1 ^ v2 ^ v3


def ref_murmur3(data, seed):
    """MurmurHash3_x86_32 on uint32."""
    m32 = 0xffffffff

    def rotl(x, r):
        return ((x << r) | (x >> (32 - r))) & m32

    c1, c2 = 0xcc9e2d51, 0x1b873593
    h = seed & m32
    n = len(data)
    nb = n // 4
    for i in range(nb):
        k = struct.unpack_from("<I", data, 4 * i)[0]
        k = (k * c1) & m32
        k = rotl(k, 15)
        k = (k * c2) & m32
        h ^= k
        h = rotl(h, 13)
        h = (h * 5 + 0xe6546b64) & m32
    tail = data[4 * nb:]
    if tail:
        k = int.from_bytes(tail, "little")
        k = (k * c1) & m32
        k = rotl(k, 15)
        k = (k * c2) & m32
        h ^= k
    h ^= n & m32
    h ^= h >> 16
    h = (h * 0x85ebca6b) & m32
    h ^= h >> 13
    h = (h * 0xc2b2ae35) & m32
    h ^= h >> 16
    return h


class BitWriter:
    """BIP158 bit stream writer, MSB first."""

    def __init__(self):
        self.acc = 0
        self.n = 0

    def write(self, value, nbits):
        self.acc = (self.acc << nbits) | (value & ((1 << nbits) - 1))
        self.n += nbits

    def unary(self, q):
        self.acc = (self.acc << (q + 1)) | (((1 << q) - 1) << 1)
        self.n += q + 1

    def bytes(self):
        pad = -self.n % 8
        return (self.acc << pad).to_bytes((self.n + pad) // 8, "big")


def ref_varint(n):
    if n < 0xfd:
        return bytes([n])
    if n <= 0xffff:
        return b"\xfd" + struct.pack("<H", n)
    if n <= 0xffffffff:
        return b"\xfe" + struct.pack("<I", n)
    return b"\xff" + struct.pack("<Q", n)


def ref_gcs_from_values(values):
    w = BitWriter()
    last = 0
    for v in sorted(values):
        d = v - last
        w.unary(d >> P)
        w.write(d, P)
        last = v
    return ref_varint(len(values)) + w.bytes()


def ref_hashed(key, items):
    f = len(items) * M
    return sorted((ref_siphash24(key, it) * f) >> 64 for it in items)


def ref_bip158(key, items):
    """BIP158 filter construction: N elements (all of them), F = N*M, hash to range, sort, delta, Golomb-Rice P=19."""
    return ref_gcs_from_values(ref_hashed(key, items))


def ref_gcs_decode(b):
    """BIP158 reader"""
    first = b[0]
    if first < 0xfd:
        n, off = first, 1
    elif first == 0xfd:
        n, off = struct.unpack_from("<H", b, 1)[0], 3
    elif first == 0xfe:
        n, off = struct.unpack_from("<I", b, 1)[0], 5
    else:
        n, off = struct.unpack_from("<Q", b, 1)[0], 9
    bits = int.from_bytes(b[off:], "big")
    total = 8 * (len(b) - off)
    pos = 0

    def bit():
        nonlocal pos
        if pos >= total:
            raise IndexError
        r = (bits >> (total - 1 - pos)) & 1
        pos += 1
        return r

    out = []
    cur = 0
    for _ in range(n):
        q = 0
        while bit():
            q += 1
        r = 0
        for _ in range(P):
            r = (r << 1) | bit()
        cur += (q << P) + r
        out.append(cur)
    return out


# ---------------------------------------------------------------- BIP158 gcs_match / Core's CBloomFilter (references)


class BitReader:
    """BIP158 bit stream reader, MSB first; IndexError past the end"""

    def __init__(self, data):
        self.data = data
        self.pos = 0

    def bit(self):
        byte = self.data[self.pos >> 3]
        r = (byte >> (7 - (self.pos & 7))) & 1
        self.pos += 1
        return r

    def golomb(self):
        q = 0
        while self.bit():
            q += 1
        r = 0
        for _ in range(P):
            r = (r << 1) | self.bit()
        return (q << P) + r


def ref_split_count(fb):
    first = fb[0]
    if first < 0xfd:
        return first, fb[1:]
    width = {0xfd: 2, 0xfe: 4, 0xff: 8}[first]
    return int.from_bytes(fb[1:1 + width], "little"), fb[1 + width:]


def ref_gcs_match(key, gcs, target, n):
    """gcs_match of BIP158: walk the stream, stop at the first value that is not below the target"""
    f = n * M
    th = (ref_siphash24(key, target) * f) >> 64
    rd = BitReader(gcs)
    last = 0
    for _ in range(n):
        item = last + rd.golomb()
        if item == th:
            return True
        if item > th:
            return False
        last = item
    return False


def ref_core_hash(vlen, ntweak, i, data):
    return ref_murmur3(data, (i * 0xfba4c795 + ntweak) & 0xffffffff) % (vlen * 8)


def ref_core_insert(v, nfuncs, ntweak, key):
    """CBloomFilter::insert on the byte vector"""
    if not v:
        return
    for i in range(nfuncs):
        idx = ref_core_hash(len(v), ntweak, i, key)
        v[idx >> 3] |= 1 << (7 & idx)


def ref_core_contains(v, nfuncs, ntweak, key):
    """CBloomFilter::contains"""
    if not v:
        return True
    for i in range(nfuncs):
        idx = ref_core_hash(len(v), ntweak, i, key)
        if not (v[idx >> 3] & (1 << (7 & idx))):
            return False
    return True


def ref_filterload_decode(p):
    """strict deserialisation of a filterload payload: vData, nHashFuncs, nTweak, nFlags"""
    if not p:
        return None
    first = p[0]
    if first < 0xfd:
        n, off = first, 1
    else:
        width = {0xfd: 2, 0xfe: 4, 0xff: 8}[first]
        if len(p) - 1 < width:
            return None
        n, off = int.from_bytes(p[1:1 + width], "little"), 1 + width
    if len(p) - off != n + 9:
        return None
    nf, nt = struct.unpack_from("<II", p, off + n)
    return p[off:off + n], nf, nt, p[off + n + 8]


# ---------------------------------------------------------------- implementation runners


class RawScript:
    """what CompactFilter.__contains__ needs: an object with raw_serialize()"""

    def __init__(self, raw):
        self.raw = raw

    def raw_serialize(self):
        return self.raw


def i_encode_golomb(x, p):
    return bytes(int(b) for b in compactfilter.encode_golomb(x, p))


def i_decode_golomb(bits, p):
    l = list(bits)
    v = compactfilter.decode_golomb(l, p)
    return [v, bytes(l)]


def i_siphash_chunks(key, chunks):
    if chunks:
        s = siphash.SipHash_2_4(key, chunks[0])
        for c in chunks[1:]:
            r = s.update(c)
            assert r is s
    else:
        s = siphash.SipHash_2_4(key)
    h = s.hash()
    if h != s.copy().hash() or h != s.hash():
        return [b"hash() not stable", h]
    if len(chunks) == 1 and compactfilter._siphash(key, chunks[0]) != h:
        return [b"_siphash differs", h]
    return h


def i_cf_parse(key, fb):
    cf = compactfilter.CompactFilter.parse(key, fb)
    return [cf.f, sorted(cf.hashes)]


def _query(cf, raws):
    out = []
    for r in raws:
        try:
            out.append(RawScript(r) in cf)
        except Exception:
            out.append(ERR)
    return out


def i_cf_contains(key, fb, raws):
    cf = compactfilter.CompactFilter.parse(key, fb)
    return _query(cf, raws)


def i_cf_build_query(key, items, raws):
    try:
        cf = compactfilter.CompactFilter.parse(key, compactfilter.encode_gcs(key, list(items)))
    except Exception:
        return [ERR] * len(raws)
    return _query(cf, raws)


def _bloom(size, fc, tweak, items):
    bf = bloomfilter.BloomFilter(size, fc, tweak)
    for it in items:
        bf.add(it)
    return bf


def i_bloom_filterload(size, fc, tweak, items, flag):
    m = _bloom(size, fc, tweak, items).filterload(flag)
    assert m.command == b"filterload"
    return m.serialize()


def i_bloom_bits(size, fc, tweak, item):
    bf = _bloom(size, fc, tweak, [item])
    return [i for i, b in enumerate(bf.bit_field) if b]


def i_cfheader_chain(prev, hashes):
    return compactfilter.CFHeadersMessage(0, b"\x00" * 32, prev, list(hashes)).last_header


def i_sip_object(key, s0, chunks):
    o = siphash.SipHash_2_4(key, s0)
    for c in chunks:
        o.update(c)
    return [o.hash(), o.digest()]


def i_cfmsg_contains(wire, raws):
    from io import BytesIO
    m = compactfilter.CFilterMessage.parse(BytesIO(wire))
    return [m.hash(), _query(m, raws)]


def i_cfmsg_new_contains(bh, fb, raws):
    m = compactfilter.CFilterMessage(0, bh, fb)
    return [len(raws), _query(m, raws)]


def i_bip158_match(key, fb, raws):
    return [len(raws), i_cf_contains(key, fb, raws)]


def i_cfheaders_last(wire):
    from io import BytesIO
    return compactfilter.CFHeadersMessage.parse(BytesIO(wire)).last_header


def i_bloom_core_wire(size, fc, tweak, items, flag, probes):
    """the implementation's filterload payload, decoded and queried by the reference transcription of Core"""
    payload = _bloom(size, fc, tweak, items).filterload(flag).serialize()
    d = ref_filterload_decode(payload)
    if d is None:
        return [payload, ERR]
    v, nf, nt, fl = d
    return [payload, v, nf, nt, fl, [ref_core_contains(v, nf, nt, q) for q in probes],
            len(v) <= 36000 and nf <= 50]


def i_cf_new(key, hashes, raws):
    """CompactFilter(key, hashes) called directly"""
    cf = compactfilter.CompactFilter(key, list(hashes))

    def guard(fn):
        try:
            return fn()
        except Exception:
            return ERR
    return [cf.f, guard(cf.serialize), guard(cf.hash), _query(cf, raws)]


IMPL = {
    "cf_new": i_cf_new,
    "encode_golomb": i_encode_golomb,
    "decode_golomb": i_decode_golomb,
    "pack_bits": lambda bits: compactfilter.pack_bits(list(bits)),
    "unpack_bits": lambda b: bytes(compactfilter.unpack_bits(b)),
    "serialize_gcs": lambda items: compactfilter.serialize_gcs(list(items)),
    "decode_gcs": lambda b: compactfilter.decode_gcs(b"", b),
    "doublesipround": lambda a, b, c, d, m: list(siphash._doublesipround((a, b, c, d), m)),
    "compress_spec": lambda a, b, c, d, m: list(siphash._doublesipround((a, b, c, d), m)),
    "siphash_chunks": i_siphash_chunks,
    "siphash_digest": lambda key, msg: siphash.SipHash_2_4(key, msg).digest(),
    "siphash_spec": lambda key, msg: siphash.SipHash_2_4(key, msg).hash(),
    "hash_to_range": lambda key, v, f: compactfilter.hash_to_range(key, v, f),
    "hashed_items": lambda key, items: compactfilter.hashed_items(key, list(items)),
    "encode_gcs": lambda key, items: compactfilter.encode_gcs(key, list(items)),
    "cf_parse": i_cf_parse,
    "cf_contains": i_cf_contains,
    "cf_reserialize": lambda key, fb: compactfilter.CompactFilter.parse(key, fb).serialize(),
    "cf_hash": lambda key, fb: compactfilter.CompactFilter.parse(key, fb).hash(),
    "cf_build_query": i_cf_build_query,
    "murmur3": lambda data, seed: helper.murmur3(data, seed),
    "murmur3_spec": lambda data, seed: helper.murmur3(data, seed),
    "bloom_filter_bytes": lambda size, fc, tweak, items: _bloom(size, fc, tweak, items).filter_bytes(),
    "bloom_filterload": i_bloom_filterload,
    "bloom_bits": i_bloom_bits,
    "bloom_bits_spec": i_bloom_bits,
    "bit_field_to_bytes": lambda bits: helper.bit_field_to_bytes(list(bits)),
    "cfheader_chain": i_cfheader_chain,
    "bip158_spec": lambda key, items: compactfilter.encode_gcs(key, list(items)),
    "bip158_serialize": lambda items: compactfilter.serialize_gcs(list(items)),
    "bip158_decompress": lambda fb: compactfilter.decode_gcs(b"", fb),
    "bip158_match": i_bip158_match,
    "siphash_hexdigest": lambda key, msg: siphash.SipHash_2_4(key, msg).hexdigest(),
    "sip_object": i_sip_object,
    "cfmsg_contains": i_cfmsg_contains,
    "cfmsg_new_contains": i_cfmsg_new_contains,
    "cfheaders_last": i_cfheaders_last,
    "bloom_core_bytes": lambda size, fc, tweak, items: _bloom(size, fc, tweak, items).filter_bytes(),
    "bloom_core_wire": i_bloom_core_wire,
}

# ---------------------------------------------------------------- property predicates (implementation only)


def p_golomb_rt(x, p, rest):
    bits = compactfilter.encode_golomb(x, p)
    want = [1] * (x >> p) + [0] + [(x >> (p - 1 - i)) & 1 for i in range(p)]
    if [int(b) for b in bits] != want:
        return f"encode_golomb({x},{p}) is not q ones, a zero and the {p} low bits MSB first"
    l = [int(b) for b in bits] + list(rest)
    v = compactfilter.decode_golomb(l, p)
    if v != x or l != list(rest):
        return f"decode_golomb(encode_golomb({x},{p}) + rest) = {v}, {len(l)} bits left (want {len(rest)})"
    # through the byte packing as well
    raw = compactfilter.pack_bits(list(bits))
    if compactfilter.decode_golomb(compactfilter.unpack_bits(raw), p) != x:
        return f"golomb({x},{p}) does not survive pack/unpack"
    return None


def p_pack_unpack(bits):
    bits = list(bits)
    raw = compactfilter.pack_bits(list(bits))
    norm = [1 if b else 0 for b in bits]
    padded = norm + [0] * (-len(norm) % 8)
    if len(raw) * 8 != len(padded):
        return f"pack_bits of {len(bits)} bits gives {len(raw)} bytes"
    want = bytes(sum(padded[8 * i + j] << (7 - j) for j in range(8)) for i in range(len(padded) // 8))
    if raw != want:
        return "pack_bits is not MSB-first packing with zero padding"
    if compactfilter.unpack_bits(raw) != padded:
        return "unpack_bits(pack_bits(bits)) != bits padded with zeros"
    return None


def p_unpack_pack(raw):
    bits = compactfilter.unpack_bits(raw)
    if len(bits) != 8 * len(raw) or any(b not in (0, 1) for b in bits):
        return "unpack_bits does not give 8 bits per byte"
    if compactfilter.pack_bits(list(bits)) != raw:
        return "pack_bits(unpack_bits(raw)) != raw"
    return None


def p_gcs_rt(items):
    items = sorted(items)
    raw = compactfilter.serialize_gcs(list(items))
    if raw != ref_gcs_from_values(items):
        return "serialize_gcs differs from the BIP158 bit stream (varint N, Golomb-Rice P=19 deltas)"
    back = compactfilter.decode_gcs(b"", raw)
    if back != items:
        return f"decode_gcs(serialize_gcs(items)) != items ({len(back)} vs {len(items)} values)"
    if ref_gcs_decode(raw) != items:
        return "independent BIP158 reader disagrees on the serialisation"
    return None


def p_cf_members(key, items):
    """every inserted element is reported present; encoding = BIP158; decoding inverts encoding"""
    items = list(items)
    raw = compactfilter.encode_gcs(key, list(items))
    want_hashes = ref_hashed(key, items)
    if compactfilter.hashed_items(key, list(items)) != want_hashes:
        return "hashed_items differs from sorted (siphash(k, e) * N*M) >> 64 with the reference SipHash-2-4"
    if raw != ref_bip158(key, items):
        return "encode_gcs differs from the BIP158 construction"
    dec = compactfilter.decode_gcs(key, raw)
    if dec != want_hashes:
        return "decode_gcs(encode_gcs(items)) != sorted hashed items"
    cf = compactfilter.CompactFilter.parse(key, raw)
    f = len(items) * M
    missing = [i for i, it in enumerate(items) if RawScript(it) not in cf]
    if missing:
        ncoll = len(items) - len(set(want_hashes))
        return (f"false negative: {len(missing)} of {len(items)} inserted elements reported absent "
                f"(first index {missing[0]}; {ncoll} colliding/duplicate hashed values; the parsed filter "
                f"uses F = {cf.f}, the filter was built with N*M = {f})")
    if cf.f != f:
        return f"parsed filter uses F = {cf.f}, the filter was built with N*M = {f}"
    # the CFilterMessage path derives the key from the block hash
    bh = bytes(16) + key[::-1]
    msg = compactfilter.CFilterMessage(0, bh, raw)
    if bh[::-1][:16] != key:
        return "harness: key derivation"
    missing = [i for i, it in enumerate(items) if RawScript(it) not in msg]
    if missing:
        return f"false negative through CFilterMessage: element {missing[0]}"
    if cf.hash() != helper.hash256(cf.serialize()) or msg.hash() != helper.hash256(raw):
        return "filter hash is not hash256 of the serialisation"
    return None


def p_cf_reserialize(key, items):
    """CompactFilter.parse(raw).serialize() == raw, hash() is the BIP157 filter hash of raw, and the
    re-serialised filter still reports every element"""
    items = list(items)
    raw = compactfilter.encode_gcs(key, list(items))
    cf = compactfilter.CompactFilter.parse(key, raw)
    again = cf.serialize()
    if again != raw:
        ndup = len(items) - len(set(ref_hashed(key, items)))
        return (f"CompactFilter.parse(raw).serialize() differs from raw ({again.hex()[:40]} vs {raw.hex()[:40]}): "
                f"{ndup} equal hashed value(s) are written once, N drops from {len(items)} to {len(items) - ndup}; "
                f"hash() is therefore not the filter hash of the received bytes")
    if cf.hash() != helper.hash256(raw):
        return "CompactFilter.hash() is not hash256 of the filter bytes"
    cf2 = compactfilter.CompactFilter.parse(key, again)
    if not all(RawScript(it) in cf2 for it in items):
        return "false negative after re-serialising the filter"
    if not (cf == cf2):
        return "re-parsed filter compares unequal"
    return None


SIP_VECTORS = """310e0edd47db6f72 fd67dc93c539f874 5a4fa9d909806c0d 2d7efbd796666785 b7877127e09427cf 8da699cd64557618
cee3fe586e46c9cb 37d1018bf50002ab 6224939a79f5f593 b0e4a90bdf82009e f3b9dd94c5bb5d7a a7ad6b22462fb3f4
fbe50e86bc8f1e75 903d84c02756ea14 eef27a8e90ca23f7 e545be4961ca29a1 db9bc2577fcc2a3f 9447be2cf5e99a69
9cd38d96f0b3c14b bd6179a71dc96dbb 98eea21af25cd6be c7673b2eb0cbf2d0 883ea3e395675393 c8ce5ccd8c030ca8
94af49f6c650adb8 eab8858ade92e1bc f315bb5bb835d817 adcf6b0763612e2f a5c91da7acaa4dde 716595876650a2a6
28ef495c53a387ad 42c341d8fa92d832 ce7cf2722f512771 e37859f94623f3a7 381205bb1ab0e012 ae97a10fd434e015
b4a31508beff4d31 81396229f0907902 4d0cf49ee5d4dcca 5c73336a76d8bf9a d0a704536ba93e0e 925958fcd6420cad
a915c29bc8067318 952b79f3bc0aa6d4 f21df2e41d4535f9 87577519048f53a9 10a56cf5dfcd9adb eb75095ccd986cd0
51a9cb9ecba312e6 96afadfc2ce666c7 72fe52975a4364ee 5a1645b276d592a1 b274cb8ebf87870a 6f9bb4203de7b381
eaecb2a30b22a87f 9924a43cc1315724 bd838d3aafbf8db7 0b1a2a3265d51aea 135079a3231ce660 932b2846e4d70666
e1915f5cb1eca46c f325965ca16d629f 575ff28e60381be5 724506eb4c328a95""".split()


def p_siphash_vector(i):
    """the 64 vectors of the SipHash reference implementation (key 00..0f, message 00..i-1)"""
    key = bytes(range(16))
    msg = bytes(range(i))
    want = bytes.fromhex(SIP_VECTORS[i])
    got = siphash.SipHash_2_4(key, msg).digest()
    if got != want:
        return f"SipHash-2-4 test vector {i}: {got.hex()} != {want.hex()}"
    if struct.pack("<Q", ref_siphash24(key, msg)) != want:
        return f"harness reference SipHash fails vector {i}"
    return None


def p_siphash_ref(key, chunks):
    msg = b"".join(chunks)
    s = siphash.SipHash_2_4(key)
    for c in chunks:
        s.update(c)
    got = s.hash()
    want = ref_siphash24(key, msg)
    if got != want:
        return f"SipHash over {len(chunks)} chunks ({len(msg)} bytes) = {got:#x}, standard = {want:#x}"
    if compactfilter._siphash(key, msg) != want:
        return "_siphash differs from the standard"
    return None


def p_sipround(a, b, c, d, m):
    """fused double round = m into v3, two SipRounds, m into v0 (64-bit words)"""
    got = list(siphash._doublesipround((a, b, c, d), m))
    v0, v1, v2, v3 = a, b, c, d ^ m
    for _ in range(2):
        v0 = (v0 + v1) & M64; v1 = _rotl64(v1, 13); v1 ^= v0; v0 = _rotl64(v0, 32)
        v2 = (v2 + v3) & M64; v3 = _rotl64(v3, 16); v3 ^= v2
        v0 = (v0 + v3) & M64; v3 = _rotl64(v3, 21); v3 ^= v0
        v2 = (v2 + v1) & M64; v1 = _rotl64(v1, 17); v1 ^= v2; v2 = _rotl64(v2, 32)
    if got != [v0 ^ m, v1, v2, v3]:
        return "_doublesipround differs from two standard SipRounds"
    return None


MURMUR_VECTORS = [  # (data hex, seed, hash): smhasher verification values / Bitcoin Core hash_tests
    ("", 0, 0x00000000), ("", 1, 0x514e28b7), ("", 0xffffffff, 0x81f16f39), ("ffffffff", 0, 0x76293b50),
    ("21436587", 0, 0xf55b516b), ("21436587", 0x5082edee, 0x2362f9de), ("214365", 0, 0x7e4a8634),
    ("2143", 0, 0xa0f7b07a), ("21", 0, 0x72661cf4), ("00000000", 0, 0x2362f9de), ("000000", 0, 0x85f0b427),
    ("0000", 0, 0x30f4c306), ("00", 0, 0x514e28b7),
    ("", 0xfba4c795, 0x6a396f08), ("00", 0xfba4c795, 0xea3f0b17), ("ff", 0, 0xfd6cf10d), ("0011", 0, 0x16c6b7ab),
    ("001122", 0, 0x8eb51c3d), ("00112233", 0, 0xb4471bf8), ("0011223344", 0, 0xe2301fa8),
    ("001122334455", 0, 0xfc2e4a15), ("00112233445566", 0, 0xb074502c), ("0011223344556677", 0, 0x8034d2a0),
    ("001122334455667788", 0, 0xb4698def),
]


def p_murmur_vector(i):
    d, seed, want = MURMUR_VECTORS[i]
    got = helper.murmur3(bytes.fromhex(d), seed)
    if got != want:
        return f"murmur3({d}, seed={seed:#x}) = {got:#x}, published value {want:#x}"
    return None


def p_murmur_ref(data, seed):
    got = helper.murmur3(data, seed)
    want = ref_murmur3(data, seed)
    if got != want:
        return f"murmur3(len {len(data)}, seed {seed}) = {got:#x}, MurmurHash3_x86_32 with seed mod 2^32 = {want:#x}"
    return None


def ref_bloom_bits(size, fc, tweak, item):
    return [ref_murmur3(item, (i * 0xfba4c795 + tweak) & 0xffffffff) % (size * 8) for i in range(fc)]


def p_bloom(size, fc, tweak, items, flag):
    bf = bloomfilter.BloomFilter(size, fc, tweak)
    if len(bf.bit_field) != size * 8 or any(bf.bit_field):
        return "fresh filter is not size*8 zero bits"
    want = [0] * (size * 8)
    for it in items:
        before = list(bf.bit_field)
        bf.add(it)
        if len(bf.bit_field) != size * 8:
            return "add changed the size of the bit field"
        if any(b and not a for b, a in zip(before, bf.bit_field)):
            return "add cleared a bit"
        for bit in ref_bloom_bits(size, fc, tweak, it):
            want[bit] = 1
            if bf.bit_field[bit] != 1:
                return f"bit {bit} of an inserted element is not set (size {size}, {fc} functions, tweak {tweak})"
        if bf.bit_field != want:
            return "bits set differ from murmur3(seed = i*0xFBA4C795 + tweak) mod (size*8)"
    for it in items:
        if not all(bf.bit_field[b] for b in ref_bloom_bits(size, fc, tweak, it)):
            return "false negative: an inserted element is no longer matched"
    fb = bf.filter_bytes()
    if fb != bytes(sum(want[8 * i + j] << j for j in range(8)) for i in range(size)):
        return "filter_bytes is not the LSB-first packing of the bit field"
    if 0 <= tweak < 2 ** 32 and 0 <= flag < 256:
        m = bf.filterload(flag)
        exp = ref_varint(size) + fb + struct.pack("<II", fc, tweak) + bytes([flag])
        if m.command != b"filterload" or m.serialize() != exp:
            return "filterload payload differs from the BIP37 layout"
    return None


def p_bloom_vectors(k):
    if k == 0:      # Bitcoin Core bloom_tests: bloom_create_insert_serialize (3 bytes, 5 functions)
        for tweak, want in ((0, "03614e9b050000000000000001"), (2147483649, "03ce4299050000000100008001")):
            bf = bloomfilter.BloomFilter(3, 5, tweak)
            for h in ("99108ad8ed9bb6274d3980bab5a85c048f0950c8", "b5a2c786d9ef4658287ced5914b37a1b4aa32eee",
                      "b9300670b4c5366e95b2699e8b18bc75e5f729c5"):
                bf.add(bytes.fromhex(h))
            if bf.filterload(1).serialize().hex() != want:
                return f"Bitcoin Core bloom filter vector (tweak {tweak}): {bf.filterload(1).serialize().hex()}"
    else:
        bf = bloomfilter.BloomFilter(10, 5, 99)
        bf.add(b"Hello World")
        bf.add(b"Goodbye!")
        if bf.filterload().serialize().hex() != "0a4000600a080000010940050000006300000001":
            return "filterload vector"
    return None


GENESIS_SPK = bytes.fromhex("4104678afdb0fe5548271967f1a67130b7105cd6a828e03909a67962e0ea1f61deb649f6bc3f4cef38c4f35504e5"
                            "1ec112de5c384df7ba0b8d578a4c702b6bf11d5fac")
BIP158_VECTORS = [  # block hash, scripts, previous header, filter, header (BIP158 testnet-19.json; mainnet genesis)
    ("000000000933ea01ad0ee984209779baaec3ced90fa3f408719526f8d77f4943", [GENESIS_SPK], "00" * 32, "019dfca8",
     "21584579b7eb08997773e5aeff3a7f932700042d0ed2a6129012b7d7ae81b750"),
    ("000000000019d6689c085ae165831e934ff763ae46a2a6c172b3f1b60a8ce26f", [GENESIS_SPK], "00" * 32, "017fa880", None),
]


def p_bip158_vector(i):
    bh, scripts, prev, want, hdr = BIP158_VECTORS[i]
    key = bytes.fromhex(bh)[::-1][:16]
    got = compactfilter.encode_gcs(key, list(scripts))
    if got.hex() != want:
        return f"BIP158 vector {i}: filter {got.hex()} != {want}"
    if ref_bip158(key, scripts).hex() != want:
        return f"harness BIP158 reference fails vector {i}"
    msg = compactfilter.CFilterMessage(0, bytes.fromhex(bh), got)
    if not all(RawScript(s) in msg for s in scripts):
        return "false negative on a BIP158 vector"
    if hdr is not None:
        fh = helper.hash256(got)
        m = compactfilter.CFHeadersMessage(0, bytes.fromhex(bh), bytes.fromhex(prev)[::-1], [fh])
        if m.last_header[::-1].hex() != hdr:
            return f"BIP158 vector {i}: filter header {m.last_header[::-1].hex()}"
    return None


def p_cfheader_chain(prev, hashes):
    m = compactfilter.CFHeadersMessage(0, b"\x11" * 32, prev, list(hashes))
    cur = prev
    for fh in hashes:
        cur = hashlib.sha256(hashlib.sha256(fh + cur).digest()).digest()
    if m.last_header != cur:
        return "last_header is not the fold of double-SHA256(filter_hash || previous_header)"
    return None


# ---------------------------------------------------------------- one object used repeatedly (stale state)
# SipHash_2_4, CompactFilter, CFilterMessage and BloomFilter objects are kept alive and asked again and again
# (update/hash/copy in any order; membership queries in different orders; add / filter_bytes / filterload
# interleaved), their public fields are edited in place, several objects are used alternately; every answer is
# compared with the independent references above evaluated on the CURRENT state.  Module-level hash functions are
# called in sequences with different keys / seeds / ranges (a cache keyed too coarsely).

def p_reuse_siphash(keys, seed, nops):
    import random
    r = random.Random(seed)
    objs = []          # [object, key, message so far]
    for k in keys:
        first = bytes(r.getrandbits(8) for _ in range(r.choice([0, 0, 3, 8, 13])))
        objs.append([siphash.SipHash_2_4(k, first) if first or r.random() < 0.5 else siphash.SipHash_2_4(k), k, first])
    for step in range(nops):
        i = r.randrange(len(objs))
        o, key, msg = objs[i]
        q = r.random()
        where = f"step {step} (object {i}, {len(msg)} bytes so far)"
        if q < 0.35:
            c = bytes(r.getrandbits(8) for _ in range(r.choice([0, 1, 1, 2, 7, 8, 9, 15, 16, 17, r.randrange(0, 40)])))
            if o.update(c) is not o:
                return f"{where}: update() does not return the object"
            objs[i][2] = msg + c
        elif q < 0.7:
            want = ref_siphash24(key, msg)
            got = o.hash()
            if got != want:
                return f"{where}: hash() of the reused SipHash object = {got:#x}, SipHash-2-4 of everything fed so far = {want:#x}"
            if r.random() < 0.5 and (o.hash() != want or o.digest() != struct.pack("<Q", want)
                                     or o.hexdigest() != struct.pack("<Q", want).hex().encode()):
                return f"{where}: a second hash()/digest()/hexdigest() differs from the first"
        elif q < 0.85:
            c = o.copy()
            if c.hash() != ref_siphash24(key, msg):
                return f"{where}: copy().hash() differs from SipHash-2-4 of everything fed so far"
            if r.random() < 0.5:
                objs.append([c, key, msg])            # both live on and diverge
            else:
                extra = bytes(r.getrandbits(8) for _ in range(r.randrange(1, 20)))
                c.update(extra)
                if c.hash() != ref_siphash24(key, msg + extra) or o.hash() != ref_siphash24(key, msg):
                    return f"{where}: updating a copy changed the original (or the copy is wrong)"
        else:
            fresh = siphash.SipHash_2_4(key, msg)
            if fresh.hash() != o.hash() or compactfilter._siphash(key, msg) != ref_siphash24(key, msg):
                return f"{where}: a fresh object over the same bytes gives another hash"
    return None


def p_hash_order(seq):
    """_siphash / hash_to_range / hashed_items called in the given order with different keys, values and ranges"""
    for n, (key, value, f) in enumerate(seq):
        h = ref_siphash24(key, value)
        if compactfilter._siphash(key, value) != h:
            return f"call {n}: _siphash differs from SipHash-2-4"
        if compactfilter.hash_to_range(key, value, f) != (h * f) >> 64:
            return f"call {n}: hash_to_range differs from (siphash * F) >> 64"
        if n % 4 == 3:
            items = [v for _, v, _ in seq[n - 3: n + 1]]
            if compactfilter.hashed_items(key, list(items)) != ref_hashed(key, items):
                return f"call {n}: hashed_items differs from the sorted range-mapped hashes"
            if compactfilter.encode_gcs(key, list(items)) != ref_bip158(key, items):
                return f"call {n}: encode_gcs differs from the BIP158 construction"
    return None


def p_reuse_cf(filters, probes, altkeys, seed, nops):
    """several CompactFilter objects (and a CFilterMessage) alive together: membership asked in different orders and
    repeatedly, serialize()/hash() in between, the public fields key / f / hashes / items edited in place"""
    import random
    r = random.Random(seed)
    cfs, sets = [], []
    for key, items in filters:
        raw = compactfilter.encode_gcs(key, list(items))
        if r.random() < 0.5:
            cfs.append(compactfilter.CompactFilter.parse(key, raw))
        else:
            cfs.append(compactfilter.CFilterMessage(0, bytes(16) + key[::-1], raw).cf)
        sets.append(list(items))
    msgs = [compactfilter.CFilterMessage(0, bytes(16) + key[::-1], compactfilter.encode_gcs(key, list(items)))
            for key, items in filters[:1]]
    last, removed = None, False
    for step in range(nops):
        i = r.randrange(len(cfs))
        cf = cfs[i]
        q = r.random()
        where = f"step {step} (filter {i})"
        if q < 0.7:
            if last is not None and r.random() < 0.2:
                i, raw = last
                cf = cfs[i]
            else:
                pool = sets[i] + list(probes) + sets[(i + 1) % len(sets)]
                raw = r.choice(pool) if pool else b""
            last = (i, raw)
            want = ((ref_siphash24(cf.key, raw) * cf.f) >> 64) in set(cf.hashes)
            got = RawScript(raw) in cf
            if got != want:
                return (f"{where}: membership of {raw.hex()[:24]}.. on the reused filter is {got}; its range-mapped "
                        f"SipHash under the filter's current key and F is {'in' if want else 'not in'} its current set")
            if cf.compute_hash(raw) != (ref_siphash24(cf.key, raw) * cf.f) >> 64:
                return f"{where}: compute_hash differs from (siphash(key, e) * F) >> 64 for the current key and F"
            if i == 0 and not removed and cf.key == filters[0][0] and cf.f == len(filters[0][1]) * M and raw in sets[0] and not got:
                return f"{where}: false negative on the reused filter"
            if i == 0 and raw in sets[0] and RawScript(raw) not in msgs[0]:
                return f"{where}: false negative on the reused CFilterMessage"
        elif q < 0.8:
            want = ref_gcs_from_values(sorted(cf.items))
            if cf.serialize() != want or cf.hash() != helper.hash256(want):
                return f"{where}: serialize()/hash() of the reused filter differ from the BIP158 coding of its current values"
        else:
            e = r.randrange(5)
            if e == 0 and altkeys:
                cf.key = r.choice(altkeys)
            elif e == 1:
                cf.key = filters[i][0]
                cf.f = len(filters[i][1]) * M
            elif e == 2:
                cf.f = r.choice([M, 2 * M, max(1, len(cf.items)) * M, 1])
            elif e == 3 and probes:
                v = (ref_siphash24(cf.key, r.choice(probes)) * cf.f) >> 64
                cf.hashes.add(v)
                cf.items = sorted(list(cf.items) + [v])
            elif cf.hashes:
                v = r.choice(sorted(cf.hashes))
                removed = removed or i == 0
                cf.hashes.discard(v)
                cf.items = [x for x in cf.items if x != v]
    return None


def p_reuse_bloom(cfgs, items, seed, nops):
    """BloomFilter objects used alternately: add / filter_bytes / filterload interleaved and repeated, the public
    fields tweak, function_count and bit_field edited in place between the calls"""
    import random
    r = random.Random(seed)
    objs = []
    for size, fc, tweak in cfgs:
        objs.append([bloomfilter.BloomFilter(size, fc, tweak), [0] * (size * 8)])
    for step in range(nops):
        i = r.randrange(len(objs))
        bf, want = objs[i]
        where = f"step {step} (filter {i}: {bf.size} bytes, {bf.function_count} functions, tweak {bf.tweak})"
        q = r.random()
        if q < 0.4:
            it = r.choice(items)
            bf.add(it)
            for bit in ref_bloom_bits(bf.size, bf.function_count, bf.tweak, it):
                want[bit] = 1
            if bf.bit_field != want:
                return f"{where}: after add() the bits differ from murmur3(seed = i*0xFBA4C795 + tweak) mod (size*8) accumulated so far"
        elif q < 0.65:
            exp = bytes(sum(want[8 * k + j] << j for j in range(8)) for k in range(bf.size))
            if bf.filter_bytes() != exp or (r.random() < 0.3 and bf.filter_bytes() != exp):
                return f"{where}: filter_bytes() of the reused filter is not the packing of the bits set so far"
        elif q < 0.8:
            flag = r.choice([0, 1, 2, 255])
            exp = bytes(sum(want[8 * k + j] << j for j in range(8)) for k in range(bf.size))
            m = bf.filterload(flag)
            if m.command != b"filterload" or m.serialize() != ref_varint(bf.size) + exp + \
                    struct.pack("<II", bf.function_count, bf.tweak) + bytes([flag]):
                return f"{where}: filterload({flag}) of the reused filter differs from the BIP37 layout of its current state"
        else:
            e = r.randrange(4)
            if e == 0:
                bf.tweak = r.choice([0, 1, 2 ** 32 - 1, r.getrandbits(32)])
            elif e == 1:
                bf.function_count = r.randrange(1, 12)
            elif e == 2:
                k = r.randrange(len(want))
                bf.bit_field[k] = want[k] = 0
            else:
                bf.bit_field = [0] * (bf.size * 8)
                objs[i][1] = [0] * (bf.size * 8)
    for bf, want in objs:
        if bf.bit_field != want:
            return "end: bit field differs"
    return None


def p_murmur_order(seq):
    for n, (data, sd) in enumerate(seq):
        d = p_murmur_ref(data, sd)
        if d:
            return f"call {n}: " + d
    return None


def p_golomb_order(seq):
    """encode/decode_golomb, pack/unpack_bits, serialize/decode_gcs called in the given order with different (x, p)"""
    vals = []
    for n, (x, p) in enumerate(seq):
        d = p_golomb_rt(x, p, bytes([n % 2, 1, 0]))
        if d:
            return f"call {n}: " + d
        if p == P:
            vals.append(x)
            d = p_gcs_rt(vals[-6:])
            if d:
                return f"call {n}: " + d
    return None


def p_cf_match(key, fb, raws):
    """CompactFilter.parse(key, fb).__contains__ == gcs_match of BIP158 on the same bytes (any filter that parses)"""
    cf = compactfilter.CompactFilter.parse(key, fb)
    n, gcs = ref_split_count(fb)
    if cf.f != n * M:
        return f"parsed filter uses F = {cf.f}, the count field says N*M = {n * M}"
    for r in raws:
        got = RawScript(r) in cf
        want = ref_gcs_match(key, gcs, r, n)
        if got != want:
            return f"membership of {r.hex()[:24]}.. is {got}, gcs_match of BIP158 on the filter bytes gives {want}"
    return None


def p_reserialize_stable(key, fb):
    """any filter that parses: its values are non-negative and non-decreasing, the bit stream starts with their
    Golomb-Rice coding, and parse(serialize(parse(fb))) has the same values and F"""
    cf = compactfilter.CompactFilter.parse(key, fb)
    vals = compactfilter.decode_gcs(key, fb)
    if any(v < 0 for v in vals) or any(a > b for a, b in zip(vals, vals[1:])):
        return "decode_gcs returned a negative or decreasing value"
    n, gcs = ref_split_count(fb)
    if len(vals) != n:
        return f"decode_gcs returned {len(vals)} values, the count field says {n}"
    w = BitWriter()
    last = 0
    for v in vals:
        w.unary((v - last) >> P)
        w.write(v - last, P)
        last = v
    nbits = w.n
    have = int.from_bytes(gcs, "big") >> (8 * len(gcs) - nbits) if nbits else 0
    if 8 * len(gcs) < nbits or have != w.acc:
        return "the accepted bit stream does not start with the Golomb-Rice coding of the values returned"
    raw = cf.serialize()
    if raw != ref_gcs_from_values(vals):
        return "serialize() of a parsed filter is not the canonical BIP158 coding of its values"
    cf2 = compactfilter.CompactFilter.parse(key, raw)
    if cf2.hashes != cf.hashes or cf2.f != cf.f or cf2.serialize() != raw or not (cf2 == cf):
        return "parse(serialize(parse(fb))) differs from parse(fb)"
    return None


def p_cfmsg(bh, items, tail):
    """a cfilter message as a BIP157 peer sends it: every element is found through CFilterMessage.parse"""
    from io import BytesIO
    key = bh[::-1][:16]
    fb = compactfilter.encode_gcs(key, list(items))
    if fb != ref_bip158(key, items):
        return "filter differs from the BIP158 construction"
    wire = b"\x00" + bh[::-1] + ref_varint(len(fb)) + fb
    s = BytesIO(wire + tail)
    m = compactfilter.CFilterMessage.parse(s)
    if s.read() != tail:
        return "CFilterMessage.parse consumed the wrong number of bytes"
    if m.filter_type != 0 or m.block_hash != bh or m.filter_bytes != fb or m.cf.key != key:
        return "CFilterMessage.parse fields / key derivation"
    missing = [i for i, it in enumerate(items) if RawScript(it) not in m]
    if missing:
        return f"false negative through CFilterMessage.parse: element {missing[0]} of {len(items)}"
    if m.hash() != helper.hash256(fb) or m.cf.hash() != helper.hash256(fb):
        return "filter hash is not hash256 of the filter bytes"
    if not (m == compactfilter.CFilterMessage(0, bh, fb)):
        return "parsed message differs from the constructed one"
    return None


def p_cfheaders_parse(stop, prev, hashes, cut):
    from io import BytesIO
    wire = b"\x00" + stop[::-1] + prev + ref_varint(len(hashes)) + b"".join(hashes)
    m = compactfilter.CFHeadersMessage.parse(BytesIO(wire))
    cur = prev
    for fh in hashes:
        cur = hashlib.sha256(hashlib.sha256(fh + cur).digest()).digest()
    if m.stop_hash != stop or m.previous_filter_header != prev or m.filter_hashes != list(hashes):
        return "CFHeadersMessage.parse fields"
    if m.last_header != cur:
        return "parsed last_header is not the fold of double-SHA256(filter_hash || previous_header)"
    a = compactfilter.CFHeadersMessage(0, stop, prev, list(hashes[:cut]))
    b = compactfilter.CFHeadersMessage(0, stop, a.last_header, list(hashes[cut:]))
    if b.last_header != cur:
        return "two consecutive batches do not chain to the header of the whole run"
    return None


def p_bloom_wire(size, fc, tweak, items, flag):
    """the filterload payload, decoded and evaluated as Bitcoin Core does: vData = Core's insert()s, contains() holds"""
    bf = _bloom(size, fc, tweak, items)
    v = bytearray(size)
    for it in items:
        ref_core_insert(v, fc, tweak & 0xffffffff, it)
    if bf.filter_bytes() != bytes(v):
        return "filter_bytes() differs from the vData of Core's CBloomFilter after the same insert() calls"
    payload = bf.filterload(flag).serialize()
    d = ref_filterload_decode(payload)
    if d != (bytes(v), fc, tweak, flag):
        return "the filterload payload does not decode to (vData, nHashFuncs, nTweak, nFlags)"
    for it in items:
        if not ref_core_contains(d[0], d[1], d[2], it):
            return f"false negative on the wire: Core's contains() fails for an added element (size {size}, {fc} functions, tweak {tweak})"
    return None


# ---------------------------------------------------------------- public constructors called directly
# Both in-library producers of a CompactFilter (parse -> decode_gcs, encode_gcs -> hashed_items) hand over ascending
# lists; a caller of the public constructor need not.  The same holds for the other classes: the library itself only
# ever builds them from wire bytes.  Everything below calls the constructors with arguments of unusual but valid
# shape and compares with the independent references above.


def _dsha(b):
    return hashlib.sha256(hashlib.sha256(b).digest()).digest()


def _shape(values):
    n = len(values)
    if n < 2:
        return f"{n} value(s)"
    if all(a <= b for a, b in zip(values, values[1:])):
        kind = "ascending"
    elif all(a >= b for a, b in zip(values, values[1:])):
        kind = "descending"
    else:
        kind = f"unsorted ({sum(1 for a, b in zip(values, values[1:]) if a > b)} descents)"
    dup = n - len(set(values))
    return f"{n} values, {kind}" + (f", {dup} duplicate(s)" if dup else "")


def p_cf_ctor(key, values, items, probes, as_tuple):
    """CompactFilter(key, values) built directly from hash values in any order: serialize() is the BIP158 encoding
    (sorted deltas), hash() its double SHA256, every element is present before and after serialize -> parse"""
    CF = compactfilter.CompactFilter
    values = list(values)
    n = len(values)
    f = n * M
    if items and sorted(values) != ref_hashed(key, items):
        return "harness: the values are not the range-mapped reference SipHash of the items"
    shape = _shape(values)
    arg = tuple(values) if as_tuple else list(values)
    cf = CF(key, arg)
    if cf.key != key or cf.f != f:
        return f"CompactFilter(key, {shape}): key / F = {cf.f}, N*M = {f}"
    want = ref_gcs_from_values(values)
    raw = cf.serialize()
    if list(arg) != values:
        return f"CompactFilter(key, {shape}) / serialize() modified the hash list of the caller"
    if raw != want:
        try:
            back = CF.parse(key, raw)
            lost = len(set(values) - set(back.hashes))
            miss = sum(1 for it in items if RawScript(it) not in back)
            extra = (f"; after serialize -> parse {lost} of {len(set(values))} values are gone and {miss} of "
                     f"{len(items)} inserted elements are reported absent")
        except Exception as e:  # noqa
            extra = f"; the bytes do not parse back ({type(e).__name__})"
        return (f"CompactFilter(key, {shape}).serialize() = {raw.hex()[:40]}.. is not the BIP158 encoding "
                f"{want.hex()[:40]}.. (CompactSize N, sorted deltas, Golomb-Rice P=19)" + extra)
    if cf.hash() != _dsha(want):
        return f"CompactFilter(key, {shape}).hash() is not the double SHA256 of the BIP158 encoding"
    if cf.serialize() != want or cf.hash() != _dsha(want):
        return "a second serialize()/hash() differs from the first"
    vs = set(values)
    wants = [((ref_siphash24(key, p) * f) >> 64) in vs for p in probes]
    for i, it in enumerate(items):
        if RawScript(it) not in cf:
            return f"false negative on CompactFilter(key, {shape}): element {i}"
    for p, w in zip(probes, wants):
        if (RawScript(p) in cf) != w:
            return f"membership of {p.hex()[:24]}.. on CompactFilter(key, {shape}) is {not w}, reference says {w}"
    # the bytes as the receiving side reads them
    if ref_gcs_decode(want) != sorted(values):
        return "harness: reference reader"
    back = CF.parse(key, raw)
    if back.f != f or sorted(back.hashes) != sorted(vs):
        return f"parse(serialize()) of CompactFilter(key, {shape}) has other values / F"
    if back.serialize() != want or back.hash() != _dsha(want) or not (back == cf) or not (cf == back):
        return f"parse(serialize()) of CompactFilter(key, {shape}) serialises / compares differently"
    _n, gcs = ref_split_count(raw)
    for i, it in enumerate(items):
        if RawScript(it) not in back:
            return f"false negative after serialize -> parse of CompactFilter(key, {shape}): element {i}"
        if not ref_gcs_match(key, gcs, it, n):
            return f"gcs_match of BIP158 on serialize() of CompactFilter(key, {shape}) misses element {i}"
    for p, w in zip(probes, wants):
        if (RawScript(p) in back) != w:
            return f"membership after serialize -> parse differs from the reference for {p.hex()[:24]}.."
    # the order of the argument is immaterial
    for name, perm in (("ascending", sorted(values)), ("descending", sorted(values, reverse=True)),
                       ("reversed", values[::-1])):
        c2 = CF(key, tuple(perm) if not as_tuple else list(perm))
        if c2.f != f or c2.serialize() != want or c2.hash() != _dsha(want) or not (c2 == cf):
            return f"the same values in {name} order give another filter than {shape}"
    # the filter does not alias the caller's list
    if not as_tuple:
        arg.reverse()
        arg.append(7)
        arg[0] += 1
        if cf.serialize() != want or cf.f != f or any(RawScript(it) not in cf for it in items):
            return "the filter changes when the caller edits the list he passed to the constructor"
    # what the in-library producers make of the same elements
    if items and len(key) == 16:
        if compactfilter.encode_gcs(key, list(items)) != want:
            return "encode_gcs differs from the direct construction"
        if CF(key, compactfilter.hashed_items(key, list(items))).serialize() != want:
            return "CompactFilter(key, hashed_items(...)) differs from the direct construction"
    if len(key) == 16:
        bh = bytes(16) + key[::-1]
        m = compactfilter.CFilterMessage(0, bh, raw)
        if m.hash() != _dsha(want) or not (m.cf == cf) or m.cf.serialize() != want:
            return "CFilterMessage over serialize() of the directly built filter differs"
        if any(RawScript(it) not in m for it in items):
            return "false negative through CFilterMessage over serialize() of the directly built filter"
        prev = bytes(range(32))
        if compactfilter.CFHeadersMessage(0, bh, prev, [cf.hash()]).last_header != _dsha(_dsha(want) + prev):
            return "filter header of the directly built filter is not double-SHA256(filter hash || previous header)"
    return None


def p_cf_chain(prev, filters):
    """filter hashes of directly built filters chained into headers"""
    cur = prev
    fhs = []
    for key, values in filters:
        cf = compactfilter.CompactFilter(key, list(values))
        fhs.append(cf.hash())
        cur = _dsha(_dsha(ref_gcs_from_values(values)) + cur)
    m = compactfilter.CFHeadersMessage(0, bytes(32), prev, fhs)
    if m.last_header != cur:
        return ("the header chain over CompactFilter(key, values).hash() is not the fold of double-SHA256(hash256("
                "BIP158 encoding) || previous header): " + ", ".join(_shape(list(v)) for _, v in filters))
    return None


def p_cfmsg_ctor(ftype, bh, items, probes):
    """CFilterMessage(filter_type, block_hash, filter_bytes) called directly on bytes made by the reference writer"""
    from io import BytesIO
    key = bh[::-1][:16]
    n = len(items)
    fb = ref_bip158(key, items)
    m = compactfilter.CFilterMessage(ftype, bh, fb)
    mk = compactfilter.CFilterMessage(filter_type=ftype, block_hash=bh, filter_bytes=fb)
    for o in (m, mk):
        if o.filter_type != ftype or o.block_hash != bh or o.filter_bytes != fb:
            return "CFilterMessage constructor fields"
        if o.cf.key != key or o.cf.f != n * M:
            return f"CFilterMessage: key / F of the decoded filter (F = {o.cf.f}, N*M = {n * M})"
        if o.hash() != _dsha(fb) or o.cf.hash() != _dsha(fb) or o.cf.serialize() != fb:
            return "CFilterMessage: hash() / cf.serialize() differ from the filter bytes"
        for i, it in enumerate(items):
            if RawScript(it) not in o:
                return f"false negative through CFilterMessage(type {ftype}): element {i} of {n}"
        _n, gcs = ref_split_count(fb)
        for p in probes:
            if (RawScript(p) in o) != ref_gcs_match(key, gcs, p, n):
                return "CFilterMessage membership differs from gcs_match of BIP158"
    if not (m == mk):
        return "positional and keyword construction compare unequal"
    wire = bytes([ftype]) + bh[::-1] + ref_varint(len(fb)) + fb
    q = compactfilter.CFilterMessage.parse(BytesIO(wire))
    if not (q == m) or q.filter_type != ftype or q.block_hash != bh or q.filter_bytes != fb or q.cf.key != key:
        return "CFilterMessage.parse of the wire form differs from the constructed message"
    return None


def p_cfheaders_ctor(ftype, stop, prev, hashes, as_tuple):
    """CFHeadersMessage(filter_type, stop_hash, previous_filter_header, filter_hashes) called directly"""
    from io import BytesIO
    hashes = list(hashes)
    n = len(hashes)
    arg = tuple(hashes) if as_tuple else list(hashes)
    headers = [prev]
    for fh in hashes:
        headers.append(hashlib.sha256(hashlib.sha256(fh + headers[-1]).digest()).digest())
    m = compactfilter.CFHeadersMessage(ftype, stop, prev, arg)
    mk = compactfilter.CFHeadersMessage(filter_type=ftype, stop_hash=stop, previous_filter_header=prev,
                                        filter_hashes=arg)
    if list(arg) != hashes:
        return "the constructor modified the list of filter hashes"
    for o in (m, mk):
        if o.filter_type != ftype or o.stop_hash != stop or o.previous_filter_header != prev or \
                list(o.filter_hashes) != hashes:
            return "CFHeadersMessage constructor fields"
        if o.last_header != headers[n]:
            return (f"CFHeadersMessage({n} hashes).last_header is not the fold of double-SHA256(filter_hash || "
                    f"previous_header)")
    for k in sorted({0, 1, n // 2, n - 1, n} & set(range(n + 1))):
        a = compactfilter.CFHeadersMessage(ftype, stop, prev, hashes[:k])
        if a.last_header != headers[k]:
            return f"the header after {k} of {n} filter hashes is wrong"
        b = compactfilter.CFHeadersMessage(ftype, stop, a.last_header, hashes[k:])
        if b.last_header != headers[n]:
            return f"batches of {k} and {n - k} hashes do not chain to the header of the whole run"
    wire = bytes([ftype]) + stop[::-1] + prev + ref_varint(n) + b"".join(hashes)
    q = compactfilter.CFHeadersMessage.parse(BytesIO(wire))
    if q.filter_type != ftype or q.stop_hash != stop or q.previous_filter_header != prev or \
            list(q.filter_hashes) != hashes or q.last_header != headers[n]:
        return "CFHeadersMessage.parse of the wire form differs from the constructed message"
    return None


def p_cfcheckpt_ctor(ftype, stop, headers, as_tuple, tail):
    """CFCheckPointMessage(filter_type, stop_hash, filter_headers) called directly / parsed"""
    from io import BytesIO
    headers = list(headers)
    arg = tuple(headers) if as_tuple else list(headers)
    m = compactfilter.CFCheckPointMessage(ftype, stop, arg)
    mk = compactfilter.CFCheckPointMessage(filter_type=ftype, stop_hash=stop, filter_headers=arg)
    for o in (m, mk):
        if o.filter_type != ftype or o.stop_hash != stop or list(o.filter_headers) != headers:
            return "CFCheckPointMessage constructor fields"
    if list(arg) != headers or m.command != b"cfcheckpt":
        return "CFCheckPointMessage constructor modified its argument / command"
    s = BytesIO(bytes([ftype]) + stop[::-1] + ref_varint(len(headers)) + b"".join(headers) + tail)
    q = compactfilter.CFCheckPointMessage.parse(s)
    if q.filter_type != ftype or q.stop_hash != stop or list(q.filter_headers) != headers or s.read() != tail:
        return "CFCheckPointMessage.parse of the wire form differs from the constructed message"
    return None


def p_bloom_ctor(size, fc, tweak, items, kw):
    """BloomFilter(size, function_count, tweak) at the edges of the parameter ranges: fresh state, filterload() with
    the default flag, bits = Core's CBloomFilter, order / repetition of add() immaterial"""
    BF = bloomfilter.BloomFilter
    bf = BF(size=size, function_count=fc, tweak=tweak) if kw else BF(size, fc, tweak)
    if bf.size != size or bf.function_count != fc or bf.tweak != tweak:
        return "BloomFilter constructor fields"
    if bf.bit_field != [0] * (size * 8) or bf.filter_bytes() != bytes(size):
        return f"a fresh BloomFilter({size}, {fc}, {tweak}) is not {size} zero bytes"
    trailer = struct.pack("<II", fc, tweak)
    m = bf.filterload()
    if m.command != b"filterload" or m.serialize() != ref_varint(size) + bytes(size) + trailer + b"\x01":
        return "filterload() of a fresh filter: BIP37 layout with the default flag 1 (BLOOM_UPDATE_ALL)"
    v = bytearray(size)
    want = [0] * (size * 8)
    for n, it in enumerate(items):
        bf.add(bytearray(it) if kw and n % 2 else it)
        ref_core_insert(v, fc, tweak, it)
        for bit in ref_bloom_bits(size, fc, tweak, it):
            want[bit] = 1
    if bf.bit_field != want:
        return (f"BloomFilter({size}, {fc}, {tweak}): bits set differ from murmur3(seed = i*0xFBA4C795 + tweak) mod "
                f"(size*8)")
    if bf.filter_bytes() != bytes(v):
        return f"BloomFilter({size}, {fc}, {tweak}).filter_bytes() differs from the vData of Core's CBloomFilter"
    payload = bf.filterload().serialize()
    if payload != ref_varint(size) + bytes(v) + trailer + b"\x01":
        return "filterload() with the default flag differs from the BIP37 layout"
    d = ref_filterload_decode(payload)
    if d != (bytes(v), fc, tweak, 1):
        return "the filterload payload does not decode to (vData, nHashFuncs, nTweak, 1)"
    for it in items:
        if not ref_core_contains(d[0], d[1], d[2], it):
            return f"false negative on the wire (size {size}, {fc} functions, tweak {tweak})"
    for flag in (0, 2):
        if bf.filterload(flag).serialize() != payload[:-1] + bytes([flag]) or \
                bf.filterload(flag=flag).serialize() != payload[:-1] + bytes([flag]):
            return f"filterload({flag}) differs from the BIP37 layout"
    b2 = BF(size, fc, tweak)
    for it in list(items[::-1]) + list(items[:1]):
        b2.add(it)
    if b2.filter_bytes() != bytes(v):
        return "the same elements added in reverse order / twice give other filter bytes"
    return None


def p_sip_ctor(key, msg):
    """SipHash_2_4: the data given at construction, by update(), or split between the two at every offset; keyword
    arguments; module aliases; a fresh object after a used one"""
    S = siphash.SipHash_2_4
    want = ref_siphash24(key, msg)
    forms = [("SipHash_2_4(key, msg)", lambda: S(key, msg)),
             ("SipHash_2_4(key).update(msg)", lambda: S(key).update(msg)),
             ("SipHash_2_4(secret=key, s=msg)", lambda: S(secret=key, s=msg)),
             ("SipHash_2_4(key, s=b'').update(msg)", lambda: S(key, s=b"").update(msg)),
             ("siphash24(key, msg)", lambda: siphash.siphash24(key, msg)),
             ("SipHash24(key).update(msg)", lambda: siphash.SipHash24(key).update(msg)),
             ("SipHash_2_4(bytearray(key), msg)", lambda: S(bytearray(key), msg)),
             ("SipHash_2_4(key, msg).copy()", lambda: S(key, msg).copy()),
             ("SipHash_2_4(key, msg).update(b'')", lambda: S(key, msg).update(b""))]
    for name, mk in forms:
        o = mk()
        got = o.hash()
        if got != want:
            return f"{name}.hash() = {got:#x} for {len(msg)} bytes, SipHash-2-4 = {want:#x}"
        if o.digest() != struct.pack("<Q", want) or o.hexdigest() != struct.pack("<Q", want).hex().encode():
            return f"{name}: digest()/hexdigest() are not the little-endian hash"
    for cut in range(len(msg) + 1):
        got = S(key, msg[:cut]).update(msg[cut:]).hash()
        if got != want:
            return (f"SipHash_2_4(key, msg[:{cut}]).update(msg[{cut}:]).hash() = {got:#x} for {len(msg)} bytes, "
                    f"SipHash-2-4 = {want:#x}")
        c2 = cut + (len(msg) - cut) // 2
        if S(key, msg[:cut]).update(msg[cut:c2]).update(msg[c2:]).hash() != want:
            return f"three pieces (constructor, update, update) split at {cut}, {c2}: wrong hash"
    if S(key).hash() != ref_siphash24(key, b"") or S(key, b"").hash() != ref_siphash24(key, b""):
        return "a fresh SipHash_2_4(key) after used objects is not the hash of the empty message"
    if compactfilter._siphash(key, msg) != want:
        return "_siphash differs from SipHash-2-4"
    return None


# ---------------------------------------------------------------- entry-point audit (fourth round)
# Entry points the rounds above did not reach (the second copy of _siphash in helper.py, murmur3 with its default
# seed, bytes_to_bit_field, the three request messages with their default arguments, __eq__ answering False,
# __repr__), objects that must not share state, and failing calls followed by a retry on the same objects.


def _raises(fn, *exc):
    try:
        fn()
    except exc:
        return True
    except Exception:  # noqa
        return False
    return False


def p_helper_siphash(key, msg):
    """helper._siphash (the copy of compactfilter._siphash that helper.py exports) is SipHash-2-4 as well; both reject
    keys that are not 16 bytes; the Golomb parameters exported by both modules are BIP158's P = 19, M = 784931"""
    if (helper.GOLOMB_P, helper.GOLOMB_M, compactfilter.GOLOMB_P, compactfilter.GOLOMB_M,
            compactfilter.BASIC_FILTER_TYPE) != (P, M, P, M, 0):
        return "GOLOMB_P / GOLOMB_M / BASIC_FILTER_TYPE are not 19 / 784931 / 0"
    for name, fn in (("helper._siphash", helper._siphash), ("compactfilter._siphash", compactfilter._siphash)):
        if len(key) != 16:
            if not _raises(lambda: fn(key, msg), ValueError):
                return f"{name} accepts a key of {len(key)} bytes"
            continue
        want = ref_siphash24(key, msg)
        for form, m in (("bytes", msg), ("bytearray", bytearray(msg))):
            got = fn(key, m)
            if got != want:
                return f"{name}(key, {form} of {len(msg)} bytes) = {got:#x}, SipHash-2-4 = {want:#x}"
        if fn(key, msg) != want:
            return f"{name}: a second call differs"
    return None


def p_murmur_default(data, seed):
    """murmur3(data) uses seed 0; seed by keyword; bytes / bytearray / memoryview / list of ints give the same"""
    w0 = ref_murmur3(data, 0)
    if helper.murmur3(data) != w0:
        return f"murmur3(data) with the default seed = {helper.murmur3(data):#x}, MurmurHash3_x86_32 with seed 0 = {w0:#x}"
    w = ref_murmur3(data, seed)
    for name, got in (("murmur3(data, seed=s)", helper.murmur3(data, seed=seed)),
                      ("murmur3(data=d, seed=s)", helper.murmur3(data=data, seed=seed)),
                      ("murmur3(bytearray, s)", helper.murmur3(bytearray(data), seed)),
                      ("murmur3(memoryview, s)", helper.murmur3(memoryview(data), seed)),
                      ("murmur3(list of ints, s)", helper.murmur3(list(data), seed))):
        if got != w:
            return f"{name} = {got:#x} for {len(data)} bytes, MurmurHash3_x86_32 = {w:#x}"
    if helper.murmur3(data) != w0:
        return "murmur3(data) after calls with another seed no longer uses seed 0"
    return None


def p_bit_field(bits, raw):
    """bit_field_to_bytes / bytes_to_bit_field: bit i of the field is bit (i mod 8) of byte (i div 8), LSB first
    (BIP37 vData); the two invert each other; arguments untouched; a field that is not whole bytes is rejected"""
    bits = list(bits)
    arg = list(bits)
    if len(bits) % 8:
        if not _raises(lambda: helper.bit_field_to_bytes(arg), RuntimeError):
            return f"bit_field_to_bytes accepts {len(bits)} bits"
    else:
        got = helper.bit_field_to_bytes(arg)
        want = bytes(sum((1 if bits[8 * i + j] else 0) << j for j in range(8)) for i in range(len(bits) // 8))
        if got != want:
            return "bit_field_to_bytes is not the LSB-first packing"
        back = helper.bytes_to_bit_field(got)
        if list(back) != [1 if b else 0 for b in bits]:
            return "bytes_to_bit_field(bit_field_to_bytes(bits)) != bits"
    if arg != bits:
        return "bit_field_to_bytes modified its argument"
    f = helper.bytes_to_bit_field(raw)
    if list(f) != [(raw[i // 8] >> (i % 8)) & 1 for i in range(8 * len(raw))]:
        return "bytes_to_bit_field is not the LSB-first expansion"
    if helper.bit_field_to_bytes(f) != raw:
        return "bit_field_to_bytes(bytes_to_bit_field(raw)) != raw"
    g = helper.bytes_to_bit_field(raw)
    if g is f and len(raw):
        return "bytes_to_bit_field returned the same list object twice"
    # a bloom filter whose bit field is loaded from vData answers as Core does
    if raw:
        bf = bloomfilter.BloomFilter(len(raw), 3, 5)
        bf.bit_field = list(f)
        v = bytearray(raw)
        bf.add(b"abc")
        ref_core_insert(v, 3, 5, b"abc")
        if bf.filter_bytes() != bytes(v):
            return "a BloomFilter restored from vData and extended differs from Core's CBloomFilter"
    return None


def p_getcf_msgs(ftype, height, stop):
    """BIP157 requests: getcfilters / getcfheaders = type (1) | start height (uint32 LE) | stop hash (32, internal byte
    order); getcfcheckpt = type | stop hash.  Default arguments: basic filter type; objects built with defaults are
    independent; a missing stop hash is refused"""
    C = compactfilter
    le = struct.pack("<I", height)
    for cls, cmd, dflt in ((C.GetCFiltersMessage, b"getcfilters", 1), (C.GetCFHeadersMessage, b"getcfheaders", 0)):
        for name, m in (("positional", cls(ftype, height, stop)),
                        ("keyword", cls(filter_type=ftype, start_height=height, stop_hash=stop)),
                        ("keyword, other order", cls(stop_hash=stop, start_height=height, filter_type=ftype))):
            if m.command != cmd or (m.filter_type, m.start_height, m.stop_hash) != (ftype, height, stop):
                return f"{cls.__name__} ({name}): fields / command"
            if m.serialize() != bytes([ftype]) + le + stop[::-1] or m.serialize() != bytes([ftype]) + le + stop[::-1]:
                return f"{cls.__name__} ({name}).serialize() is not type | height LE32 | stop hash reversed"
        d = cls(stop_hash=stop)
        if d.filter_type != 0 or d.start_height != dflt:
            return f"{cls.__name__}(stop_hash=..): defaults are not (basic filter, start height {dflt})"
        if d.serialize() != b"\x00" + struct.pack("<I", dflt) + stop[::-1]:
            return f"{cls.__name__}(stop_hash=..).serialize() with the default arguments"
        d2 = cls(stop_hash=stop[::-1])
        d.filter_type, d.start_height = ftype, height
        if d2.serialize() != b"\x00" + struct.pack("<I", dflt) + stop or d.serialize() != bytes([ftype]) + le + stop[::-1]:
            return f"two {cls.__name__} objects built with default arguments are not independent"
        if not _raises(lambda: cls(ftype, height), RuntimeError) or not _raises(lambda: cls(), RuntimeError):
            return f"{cls.__name__} without a stop hash is accepted"
        if cls(stop_hash=stop).serialize() != b"\x00" + struct.pack("<I", dflt) + stop[::-1]:
            return f"{cls.__name__}: the defaults changed after a failed construction / an edited object"
    cls = C.GetCFCheckPointMessage
    for m in (cls(ftype, stop), cls(filter_type=ftype, stop_hash=stop), cls(stop_hash=stop, filter_type=ftype)):
        if m.command != b"getcfcheckpt" or (m.filter_type, m.stop_hash) != (ftype, stop):
            return "GetCFCheckPointMessage: fields / command"
        if m.serialize() != bytes([ftype]) + stop[::-1]:
            return "GetCFCheckPointMessage.serialize() is not type | stop hash reversed"
    if cls(stop_hash=stop).serialize() != b"\x00" + stop[::-1]:
        return "GetCFCheckPointMessage(stop_hash=..) does not default to the basic filter type"
    if not _raises(lambda: cls(ftype), RuntimeError) or not _raises(lambda: cls(), RuntimeError):
        return "GetCFCheckPointMessage without a stop hash is accepted"
    return None


def p_eq_discriminates(key, key2, vals, other, bh, ftype):
    """== on filters / cfilter messages: equal for equal content whatever the order it was given in, UNEQUAL as soon
    as one attribute differs alone (key; one value; block hash; filter type; filter bytes); comparing changes nothing"""
    CF = compactfilter.CompactFilter
    vals, other = list(vals), list(other)
    a = CF(key, list(vals))
    want = ref_gcs_from_values(vals)
    same = [CF(key, vals[::-1]), CF(bytes(key), tuple(sorted(vals))), CF.parse(key, want)]
    for b in same:
        if not (a == b) or not (b == a) or (a != b):
            return f"two filters with the same key and values ({_shape(vals)}) compare unequal"
    if key2 != key:
        b = CF(key2, list(vals))
        if a == b or b == a or not (a != b):
            return "filters with the same values under different keys compare equal"
    if set(other) != set(vals):
        b = CF(key, list(other))
        if a == b or b == a or not (a != b):
            return (f"filters over different value sets ({_shape(vals)} / {_shape(other)}, "
                    f"{len(set(vals) ^ set(other))} value(s) differ) compare equal")
    if a.serialize() != want or a.f != len(vals) * M or a.key != key:
        return "comparing filters changed one of them"
    # cfilter messages
    k = bh[::-1][:16]
    fb = ref_gcs_from_values(vals)
    fb2 = ref_gcs_from_values(other)
    m = compactfilter.CFilterMessage(ftype, bh, fb)
    if not (m == compactfilter.CFilterMessage(ftype, bytes(bh), bytes(fb))):
        return "equal cfilter messages compare unequal"
    bh2 = bh[:31] + bytes([bh[31] ^ 1])             # same SipHash key, other block
    bh3 = bytes([bh[0] ^ 0x80]) + bh[1:]            # other key
    for what, o in (("filter type", compactfilter.CFilterMessage(ftype ^ 1, bh, fb)),
                    ("block hash (same filter key)", compactfilter.CFilterMessage(ftype, bh2, fb)),
                    ("block hash", compactfilter.CFilterMessage(ftype, bh3, fb)),
                    ("filter bytes", compactfilter.CFilterMessage(ftype, bh, fb2) if fb2 != fb else None),
                    ("filter bytes (one more padding byte)", compactfilter.CFilterMessage(ftype, bh, fb + b"\x00"))):
        if o is not None and (m == o or o == m or not (m != o)):
            return f"cfilter messages that differ only in the {what} compare equal"
    if m.cf.key != k or m.filter_bytes != fb or m.hash() != _dsha(fb) or m.cf.serialize() != fb:
        return "comparing cfilter messages changed one of them"
    return None


class _Boom(Exception):
    pass


class BoomScript:
    def raw_serialize(self):
        raise _Boom()


def p_fail_retry(key, items, bh, cut, size, fc, tweak):
    """a call that fails leaves nothing behind: the same call with good arguments — on the same objects where there
    are objects — gives the answer of the references afterwards"""
    from io import BytesIO
    C = compactfilter
    items = list(items)
    n = len(items)
    fb = ref_bip158(key, items)
    vals = ref_hashed(key, items)
    bad = fb[:cut]
    try:
        ref_gcs_decode(bad)
        truncated = False
    except Exception:  # noqa
        truncated = True
    if n and not truncated:
        return "harness: the cut does not truncate the filter"

    def fails(fn):
        return _raises(fn, Exception)

    # module level: wrong key sizes, truncated streams, values that are not bytes
    for attempt in range(2):
        fails(lambda: C._siphash(key[:15], items[0] if items else b""))
        fails(lambda: helper._siphash(key + b"\x00", items[0] if items else b""))
        fails(lambda: C.hash_to_range(key[:3], b"abc", n * M))
        fails(lambda: C.hashed_items(key, list(items) + [None]))
        fails(lambda: C.encode_gcs(key[:15], list(items)))
        fails(lambda: C.encode_gcs(key, list(items) + ["text"]))
        fails(lambda: C.decode_gcs(key, bad))
        fails(lambda: C.decode_golomb([1, 1, 1], P))
        fails(lambda: C.decode_golomb([0, 1, 0, 1], P))
        fails(lambda: C.serialize_gcs([5, None]))
        fails(lambda: C.CompactFilter.parse(key, bad))
        fails(lambda: C.CFilterMessage(0, bh, bad))
        if C.hashed_items(key, list(items)) != vals:
            return f"hashed_items after failing calls (attempt {attempt}) differs from the reference"
        if C.encode_gcs(key, list(items)) != fb:
            return f"encode_gcs after failing calls (attempt {attempt}) differs from the BIP158 construction"
        if C.decode_gcs(key, fb) != vals:
            return f"decode_gcs of a whole filter after a truncated one (attempt {attempt}) differs from its values"
        if C.serialize_gcs(list(vals)) != fb:
            return f"serialize_gcs after a failing call (attempt {attempt}) differs from the BIP158 coding"
        for it in items[:3]:
            if C._siphash(key, it) != ref_siphash24(key, it) or helper._siphash(key, it) != ref_siphash24(key, it):
                return "_siphash after a call with a wrong key size differs from SipHash-2-4"
    # objects: a query that raises, then the same objects again
    cf = C.CompactFilter.parse(key, fb)
    kbh = bytes(16) + key[::-1]
    msg = C.CFilterMessage(0, kbh, fb)
    for attempt in range(2):
        for o in (cf, msg):
            if not _raises(lambda: BoomScript() in o, _Boom):
                return "an exception of raw_serialize() is swallowed by __contains__"
            fails(lambda: RawScript(None) in o)
            fails(lambda: RawScript("text") in o)
            fails(lambda: o == 5)
        good = cf.key
        cf.key = key[:15]
        if items and not fails(lambda: RawScript(items[0]) in cf):
            return "a filter with a 15-byte key answers"
        cf.key = good
        for i, it in enumerate(items):
            if RawScript(it) not in cf or RawScript(it) not in msg:
                return f"false negative after failing queries (attempt {attempt}): element {i}"
        if cf.serialize() != fb or cf.hash() != _dsha(fb) or msg.hash() != _dsha(fb) or cf.f != n * M:
            return "serialize() / hash() / F after failing queries differ"
    # wire parsers: a short read, then the whole message
    wire = b"\x00" + kbh[::-1] + ref_varint(len(fb)) + fb
    for short in (wire[: 33 + (len(wire) - 33) // 2], wire[:20], wire[:-1] if n else wire[:33]):
        fails(lambda: C.CFilterMessage.parse(BytesIO(short)))
        m = C.CFilterMessage.parse(BytesIO(wire))
        if m.filter_bytes != fb or m.block_hash != kbh or any(RawScript(it) not in m for it in items):
            return "CFilterMessage.parse of a whole message after a truncated one: fields / false negative"
    hs = [_dsha(bytes([i]) + key) for i in range(3)]
    hwire = b"\x00" + bh[::-1] + kbh + ref_varint(3) + b"".join(hs)
    cur = kbh
    for fh in hs:
        cur = _dsha(fh + cur)
    fails(lambda: C.CFHeadersMessage.parse(BytesIO(hwire[:40])))
    fails(lambda: C.CFHeadersMessage(0, bh, kbh, [hs[0], None, hs[2]]))
    short = C.CFHeadersMessage.parse(BytesIO(hwire[:-5]))       # a short last hash is what the stream gives
    if C.CFHeadersMessage.parse(BytesIO(hwire)).last_header != cur or \
            C.CFHeadersMessage(0, bh, kbh, list(hs)).last_header != cur:
        return "filter header chain after a failing / short parse differs"
    del short
    # SipHash object: a refused update leaves the state alone
    a, b2 = items[0] if items else b"ab", bytes(range(11))
    o = siphash.SipHash_2_4(key, a)
    fails(lambda: o.update(None))
    fails(lambda: o.update("text"))
    fails(lambda: siphash.SipHash_2_4(key[:15], a))
    fails(lambda: siphash.SipHash_2_4(key, "text"))
    if o.hash() != ref_siphash24(key, a) or o.update(b2).hash() != ref_siphash24(key, a + b2):
        return "a SipHash object that refused an update gives another hash afterwards"
    if siphash.SipHash_2_4(key).hash() != ref_siphash24(key, b""):
        return "a fresh SipHash object after failed constructions is not in the initial state"
    # bloom filter: refused element / refused flag, then on with the same object
    bf = bloomfilter.BloomFilter(size, fc, tweak)
    v = bytearray(size)
    for k, it in enumerate(items[:4] + [b""]):
        fails(lambda: bf.add(None))
        fails(lambda: bf.add("text"))
        fails(lambda: bf.add([1, 2, 3, 4, "x"]))
        fails(lambda: bf.filterload(256))
        fails(lambda: bf.filterload(-1))
        fails(lambda: bf.filterload(None))
        bf.add(it)
        ref_core_insert(v, fc, tweak, it)
        if bf.filter_bytes() != bytes(v):
            return f"filter_bytes() after refused add() / filterload() calls differs from Core's vData (element {k})"
        if bf.filterload().serialize() != ref_varint(size) + bytes(v) + struct.pack("<II", fc, tweak) + b"\x01":
            return "filterload() after a refused filterload(256) differs from the BIP37 layout"
    good = bf.tweak
    bf.tweak = 2 ** 32 + tweak
    fails(lambda: bf.filterload())
    bf.tweak = good
    if bf.filterload(0).serialize() != ref_varint(size) + bytes(v) + struct.pack("<II", fc, tweak) + b"\x00":
        return "filterload(0) after a failed filterload() differs from the BIP37 layout"
    if helper.murmur3(b"abc", 7) != ref_murmur3(b"abc", 7) or _raises(lambda: helper.murmur3(None, 7)) or \
            helper.murmur3(b"abc") != ref_murmur3(b"abc", 0):
        return "murmur3 after refused inputs differs"
    return None


def p_independent(key, key2, items, probes, size, fc, tweak):
    """results do not share state with their sources or with each other: every object / list is edited after it was
    handed out and the source (or a sibling made from the same input) is used again"""
    C = compactfilter
    CF = C.CompactFilter
    items = list(items)
    n = len(items)
    f = n * M
    fb = ref_bip158(key, items)
    vals = ref_hashed(key, items)
    # module functions: arguments untouched, results fresh
    arg = list(items)
    h1 = C.hashed_items(key, arg)
    e1 = C.encode_gcs(key, arg)
    if arg != items:
        return "hashed_items / encode_gcs modified the element list of the caller"
    h1.append(-1)
    h1.reverse()
    if C.hashed_items(key, arg) != vals or e1 != fb or C.encode_gcs(key, arg) != fb:
        return "hashed_items / encode_gcs give another result after the first result was edited"
    d1 = C.decode_gcs(key, fb)
    d1.append(3)
    d1[:1] = []
    if C.decode_gcs(key, fb) != vals or C.decode_gcs(key2, fb) != vals:
        return "decode_gcs gives another result after the list it returned before was edited"
    u1 = C.unpack_bits(fb)
    del u1[: len(u1) // 2]
    u2 = C.unpack_bits(fb)
    if len(u2) != 8 * len(fb) or C.pack_bits(list(u2)) != fb:
        return "unpack_bits gives another result after the list it returned before was consumed"
    g1 = C.encode_golomb(5, P)
    g1.clear()
    if [int(b) for b in C.encode_golomb(5, P)] != [0] + [0] * (P - 3) + [1, 0, 1]:
        return "encode_golomb gives another result after the list it returned before was edited"
    sv = list(vals)
    C.serialize_gcs(sv)
    if sv != vals:
        return "serialize_gcs modified the value list of the caller"
    # the same input in the other container types a caller may hold it in
    try:
        if C.hashed_items(key, tuple(items)) != vals or C.encode_gcs(key, tuple(items)) != fb or \
                C.serialize_gcs(tuple(vals)) != fb:
            return "hashed_items / encode_gcs / serialize_gcs of a tuple differ from those of the list"
    except Exception as e:  # noqa
        return f"hashed_items / encode_gcs / serialize_gcs refuse a tuple of elements ({type(e).__name__}: {e})"
    if len(set(items)) == n and (C.encode_gcs(key, set(items)) != fb or C.encode_gcs(key, dict.fromkeys(items[::-1])) != fb):
        return "encode_gcs of a set / of dict keys of distinct elements differs from that of the list"
    if len(set(vals)) == n and (CF(key, set(vals)).serialize() != fb or CF(key, frozenset(vals)).f != f):
        return "CompactFilter(key, set of distinct values) differs from CompactFilter(key, list)"
    ba = bytearray(fb)
    pb = CF.parse(key, ba)
    if C.decode_gcs(key, ba) != vals or C.decode_gcs(key, memoryview(fb)) != vals or C.unpack_bits(ba) != C.unpack_bits(fb):
        return "decode_gcs / unpack_bits of a bytearray / memoryview differ from those of the bytes"
    for i in range(len(ba)):
        ba[i] ^= 0xff
    if pb.serialize() != fb or pb.f != f or any(RawScript(it) not in pb for it in items):
        return "a filter parsed from a bytearray changes when the caller reuses the buffer"
    # filters from the same bytes / the same list / each other's serialisation
    p1, p2 = CF.parse(key, fb), CF.parse(key, fb)
    c1, c2 = CF(key, vals), CF(key2, vals)
    msg = C.CFilterMessage(0, bytes(16) + key[::-1], fb)
    p3 = CF.parse(key, p1.serialize())
    x = f + 12345
    for victim in (p1, c1):
        victim.hashes.add(x)
        victim.hashes.discard(vals[0] if vals else None)
        victim.items.append(x)
        victim.items.reverse()
        victim.key = key2
        victim.f = 1
    for name, o, k in (("a second parse of the same bytes", p2, key), ("a filter built from the same list", c2, key2),
                       ("the filter of a cfilter message over the same bytes", msg.cf, key),
                       ("a filter parsed from the first one's serialisation", p3, key)):
        if o.key != k or o.f != f or sorted(o.hashes) != sorted(set(vals)) or o.serialize() != fb or o.hash() != _dsha(fb):
            return f"{name} changed when the first filter was edited"
        if k == key and any(RawScript(it) not in o for it in items):
            return f"false negative on {name} after the first filter was edited"
        for p in probes:
            if (RawScript(p) in o) != (((ref_siphash24(k, p) * f) >> 64) in set(vals)):
                return f"membership on {name} differs from the reference after the first filter was edited"
    if any(RawScript(it) not in msg for it in items) or msg.hash() != _dsha(fb) or msg.filter_bytes != fb:
        return "the cfilter message changed when a sibling filter was edited"
    msg.cf.hashes.clear()
    m2 = C.CFilterMessage(0, bytes(16) + key[::-1], fb)
    if any(RawScript(it) not in m2 for it in items) or any(RawScript(it) not in p2 for it in items):
        return "a new cfilter message over the same bytes is affected by the emptied filter of the first"
    # repr() is an observer
    for o in (p2, c2, m2.cf):
        try:
            repr(o)
            str(o)
        except Exception:  # noqa  (the text is not part of the property)
            pass
        if o.serialize() != fb or o.f != f or sorted(o.hashes) != sorted(set(vals)):
            return "repr() of a filter changed it"
    # header messages: parse() hands out fresh lists; repr() is an observer
    from io import BytesIO
    hs = [_dsha(it + key) for it in items[:5]] or [_dsha(key)]
    prev = _dsha(key2)
    cur = prev
    for fh in hs:
        cur = _dsha(fh + cur)
    wire = b"\x00" + bytes(32) + prev + ref_varint(len(hs)) + b"".join(hs)
    q1 = C.CFHeadersMessage.parse(BytesIO(wire))
    q1.filter_hashes.append(b"\x00" * 32)
    q1.filter_hashes.reverse()
    q1.last_header = b""
    q2 = C.CFHeadersMessage.parse(BytesIO(wire))
    q3 = C.CFHeadersMessage(0, bytes(32), prev, list(hs))
    for o in (q2, q3):
        try:
            repr(o)
        except Exception:  # noqa
            pass
        if o.filter_hashes != hs or o.last_header != cur or o.previous_filter_header != prev:
            return "a second cfheaders message is affected by edits of the first / by repr()"
    cwire = b"\x00" + bytes(32) + ref_varint(len(hs)) + b"".join(hs)
    k1 = C.CFCheckPointMessage.parse(BytesIO(cwire))
    k1.filter_headers.clear()
    k2 = C.CFCheckPointMessage.parse(BytesIO(cwire))
    try:
        repr(k2)
    except Exception:  # noqa
        pass
    if k2.filter_headers != hs:
        return "a second cfcheckpt message is affected by edits of the first / by repr()"
    # bloom filters of the same shape, alive together
    b1 = bloomfilter.BloomFilter(size, fc, tweak)
    b2 = bloomfilter.BloomFilter(size, fc, tweak)
    v1, v2 = bytearray(size), bytearray(size)
    if b1.bit_field is b2.bit_field:
        return "two bloom filters share one bit field"
    for it in items[:3] + [b"\x01"]:
        b1.add(it)
        ref_core_insert(v1, fc, tweak, it)
    if b2.filter_bytes() != bytes(size) or any(b2.bit_field):
        return "adding to one bloom filter set bits in another of the same shape"
    fb1 = b1.filter_bytes()
    l1 = b1.filterload()
    b2.add(b"\x02" + key)
    ref_core_insert(v2, fc, tweak, b"\x02" + key)
    b1.bit_field[0] ^= 1
    v1x = bytearray(v1)
    v1x[0] ^= 1
    if fb1 != bytes(v1) or l1.serialize() != ref_varint(size) + bytes(v1) + struct.pack("<II", fc, tweak) + b"\x01":
        return "filter_bytes() / filterload() handed out earlier changed with the filter"
    if b1.filter_bytes() != bytes(v1x) or b2.filter_bytes() != bytes(v2):
        return "two bloom filters of the same shape are not independent"
    b3 = bloomfilter.BloomFilter(size, fc, tweak)
    if b3.filter_bytes() != bytes(size):
        return "a fresh bloom filter made after others of the same shape is not empty"
    # SipHash objects: copies and siblings
    m1 = items[0] if items else b"abcdefghi"
    o = siphash.SipHash_2_4(key, m1)
    c = o.copy()
    s2 = siphash.SipHash_2_4(key2, m1)
    o.update(b"0123456789")
    if c.hash() != ref_siphash24(key, m1) or s2.hash() != ref_siphash24(key2, m1):
        return "updating a SipHash object changed its copy / an object with another key"
    c.update(b"xyz")
    if o.hash() != ref_siphash24(key, m1 + b"0123456789") or c.hash() != ref_siphash24(key, m1 + b"xyz"):
        return "a SipHash object and its copy do not diverge independently"
    if siphash.SipHash_2_4(key).hash() != ref_siphash24(key, b"") or siphash.SipHash_2_4.s != b"" or siphash.SipHash_2_4.b != 0:
        return "the class-level defaults of SipHash_2_4 (s, b) changed"
    return None


def p_real_script(key, raws, absent):
    """membership asked with the library's own Script objects (what a wallet passes), not only with a stand-in"""
    from io import BytesIO
    from buidl.script import Script
    scripts = []
    for raw in raws:
        sc = Script.parse(BytesIO(ref_varint(len(raw)) + raw))
        if sc.raw_serialize() != raw:
            return None         # not this property's business (script serialisation); the case is void
        scripts.append(sc)
    n = len(raws)
    fb = ref_bip158(key, raws)
    cf = compactfilter.CompactFilter.parse(key, fb)
    msg = compactfilter.CFilterMessage(0, bytes(16) + key[::-1], fb)
    direct = compactfilter.CompactFilter(key, [(ref_siphash24(key, r) * n * M) >> 64 for r in raws])
    for i, sc in enumerate(scripts):
        if sc not in cf or sc not in msg or sc not in direct:
            return f"false negative for Script object {i} of {n}"
    _n, gcs = ref_split_count(fb)
    for raw in absent:
        sc = Script.parse(BytesIO(ref_varint(len(raw)) + raw))
        if sc.raw_serialize() == raw and (sc in cf) != ref_gcs_match(key, gcs, raw, n):
            return "membership of a Script object differs from gcs_match of BIP158"
    return None


PROPS = {"helper_siphash": p_helper_siphash, "murmur_default": p_murmur_default, "bit_field": p_bit_field,
         "getcf_msgs": p_getcf_msgs, "eq_discriminates": p_eq_discriminates, "fail_retry": p_fail_retry,
         "independent": p_independent, "real_script": p_real_script,
         "cf_match": p_cf_match, "reserialize_stable": p_reserialize_stable, "cfmsg": p_cfmsg,
         "cfheaders_parse": p_cfheaders_parse, "bloom_wire": p_bloom_wire,
         "cf_reserialize": p_cf_reserialize, "golomb_rt": p_golomb_rt, "pack_unpack": p_pack_unpack, "unpack_pack": p_unpack_pack, "gcs_rt": p_gcs_rt,
         "cf_members": p_cf_members, "siphash_vector": p_siphash_vector, "siphash_ref": p_siphash_ref,
         "sipround": p_sipround, "murmur_vector": p_murmur_vector, "murmur_ref": p_murmur_ref, "bloom": p_bloom,
         "bloom_vectors": p_bloom_vectors, "bip158_vector": p_bip158_vector, "cfheader_chain": p_cfheader_chain,
         "reuse_siphash": p_reuse_siphash, "hash_order": p_hash_order, "reuse_cf": p_reuse_cf,
         "reuse_bloom": p_reuse_bloom, "murmur_order": p_murmur_order, "golomb_order": p_golomb_order,
         "cf_ctor": p_cf_ctor, "cf_chain": p_cf_chain, "cfmsg_ctor": p_cfmsg_ctor, "cfheaders_ctor": p_cfheaders_ctor,
         "cfcheckpt_ctor": p_cfcheckpt_ctor, "bloom_ctor": p_bloom_ctor, "sip_ctor": p_sip_ctor}

# ---------------------------------------------------------------- generators

GOLOMB_EDGE = [0, 1, 2, 2 ** 19 - 1, 2 ** 19, 2 ** 19 + 1, 2 ** 20 - 1, 2 ** 20, 2 ** 25, 2 ** 26 - 1, 784930, 784931,
               3 * 2 ** 19 - 1, 3 * 2 ** 19, 127 * 2 ** 19 + 5]
SEEDS = [0, 1, 2 ** 31 - 1, 2 ** 31, 2 ** 32 - 1, 2 ** 32, 2 ** 32 + 1, 0xfba4c795, 49 * 0xfba4c795 + 2 ** 32 - 1, 2 ** 64 + 12345,
         -1, -2, -2 ** 31, -2 ** 32, -2 ** 32 - 1, -(2 ** 70) + 3]


def rscript(ctx, r):
    k = r.random()
    if k < 0.25:
        return b"\x76\xa9\x14" + ctx.rbytes(20) + b"\x88\xac"
    if k < 0.4:
        return b"\x00\x14" + ctx.rbytes(20)
    if k < 0.5:
        return b"\x00\x20" + ctx.rbytes(32)
    if k < 0.6:
        return b"\x51\x20" + ctx.rbytes(32)
    if k < 0.7:
        return b"\xa9\x14" + ctx.rbytes(20) + b"\x87"
    if k < 0.75:
        return ctx.rbytes(r.randrange(0, 9))
    return ctx.rbytes(r.randrange(0, 601))


def find_collision(ctx, r, key, n, tries=4000):
    """n items, two of which fall on the same value of [0, n*M): search the second one"""
    f = n * M
    seen = {}
    for t in range(tries):
        it = ctx.rbytes(r.randrange(1, 30))
        h = (ref_siphash24(key, it) * f) >> 64
        if h in seen and seen[h] != it:
            out = [seen[h], it]
            while len(out) < n:
                out.append(ctx.rbytes(r.randrange(0, 40)))
            r.shuffle(out)
            return out
        seen[h] = it
    return None


def chunkings(r, msg):
    n = len(msg)
    yield [msg]
    yield [msg[i:i + 1] for i in range(n)]
    for cut in sorted({0, 1, 7, 8, 9, n // 2, n - 1, n} & set(range(n + 1))):
        yield [msg[:cut], msg[cut:]]
    cuts = sorted(r.randrange(0, n + 1) for _ in range(r.randrange(1, 6)))
    out, last = [], 0
    for c in cuts:
        out.append(msg[last:c])
        last = c
    out.append(msg[last:])
    yield out


def generate(ctx):
    r = ctx.rng
    # ---- published vectors
    for i in range(64):
        yield ("prop", "siphash_vector", [i])
        yield ("corr", "siphash_spec", [bytes(range(16)), bytes(range(i))])
    for i in range(len(MURMUR_VECTORS)):
        yield ("prop", "murmur_vector", [i])
    for i in range(len(BIP158_VECTORS)):
        yield ("prop", "bip158_vector", [i])
    yield ("prop", "bloom_vectors", [0])
    yield ("prop", "bloom_vectors", [1])

    # ---- state left behind by failing calls / shared between results: a few self-contained cases FIRST, so that a
    # leak is reported with an input that fails on its own (later cases run in the same process and would trip over
    # what the malformed-input cases of the sections below leave behind, with replays that pass in isolation)
    yield from gen_state(ctx, 4, "first")

    # ---- Golomb-Rice
    xs = list(GOLOMB_EDGE) + [2 ** k for k in range(27)] + [2 ** k - 1 for k in range(1, 27)]
    xs += [r.randrange(0, 2 ** 26) for _ in range(ctx.n(150, 6000))]
    xs += [r.randrange(0, 2 ** 21) for _ in range(ctx.n(100, 4000))]
    for x in xs:
        rest = bytes(r.randrange(2) for _ in range(r.randrange(0, 12)))
        ctx.label("golomb/q=0" if x < 2 ** 19 else "golomb/q>0")
        yield ("prop", "golomb_rt", [x, P, rest])
        yield ("corr", "encode_golomb", [x, P])
        yield ("corr", "decode_golomb", [i_encode_golomb(x, P) + rest, P])
    for p in range(0, 25):
        for x in [0, 1, 2 ** p - 1 if p else 0, 2 ** p, 2 ** p + 1, r.randrange(0, 2 ** (p + 5))]:
            rest = bytes(r.randrange(2) for _ in range(r.randrange(0, 5)))
            yield ("prop", "golomb_rt", [x, p, rest])
            yield ("corr", "encode_golomb", [x, p])
            yield ("corr", "decode_golomb", [i_encode_golomb(x, p) + rest, p])
    # truncated / arbitrary bit strings (IndexError paths); negative x (model of what the code does)
    for _ in range(ctx.n(100, 3000)):
        bits = bytes(r.choice([0, 1, 1, 1]) if r.random() < 0.5 else r.randrange(2) for _ in range(r.randrange(0, 40)))
        yield ("corr", "decode_golomb", [bits, r.choice([0, 1, 5, 19])])
    for x in (-1, -2, -2 ** 19, -2 ** 19 - 1, -5):
        yield ("corr", "encode_golomb", [x, P])

    # ---- bit packing
    for n in list(range(0, 34)) + [r.randrange(34, 3000) for _ in range(ctx.n(40, 1500))]:
        bits = bytes(r.randrange(2) for _ in range(n))
        ctx.label(f"pack/len%8={n % 8}")
        yield ("prop", "pack_unpack", [bits])
        yield ("corr", "pack_bits", [bits])
        raw = ctx.rbytes((n + 7) // 8)
        yield ("prop", "unpack_pack", [raw])
        yield ("corr", "unpack_bits", [raw])
    yield ("corr", "pack_bits", [bytes([0, 2, 255, 0, 7, 0, 0, 1, 9])])      # any non-zero value is a 1
    yield ("prop", "pack_unpack", [bytes([0, 2, 255, 0, 7, 0, 0, 1, 9])])

    # ---- GCS of explicit value lists (sorted, duplicates allowed)
    sizes = [0, 1, 2, 3, 7, 8, 252, 253, 254, 300] + [r.randrange(0, 60) for _ in range(ctx.n(60, 1500))] + \
        [r.randrange(0, 2001) for _ in range(ctx.n(3, 60))]
    for n in sizes:
        f = max(1, n) * M
        vals = sorted(r.randrange(0, f) for _ in range(n))
        if n > 2 and r.random() < 0.4:
            j = r.randrange(1, n)
            vals[j] = vals[j - 1]
            ctx.label("gcs/duplicate-values")
        if n and r.random() < 0.1:
            vals[0] = 0
        ctx.label("gcs/n>=253" if n >= 253 else "gcs/n<253")
        yield ("prop", "gcs_rt", [vals])
        yield ("corr", "serialize_gcs", [vals])
        raw = compactfilter.serialize_gcs(list(vals))
        yield ("corr", "decode_gcs", [raw])
        yield ("corr", "cf_parse", [ctx.rbytes(16), raw])
        if n < 60:
            # malformed: truncation, bit flips, wrong count
            yield ("corr", "decode_gcs", [raw[: r.randrange(0, len(raw) + 1)]])
            bad = bytearray(raw)
            bad[r.randrange(len(bad))] ^= 1 << r.randrange(8)
            yield ("corr", "decode_gcs", [bytes(bad)])
            yield ("corr", "decode_gcs", [ref_varint(n + r.randrange(1, 4)) + raw[1:]])
            yield ("corr", "cf_parse", [ctx.rbytes(16), bytes(bad)])
            yield ("corr", "cf_reserialize", [ctx.rbytes(16), bytes(bad)])
    # unsorted lists: negative deltas (what the code does)
    for _ in range(ctx.n(20, 300)):
        vals = [r.randrange(0, 5 * M) for _ in range(r.randrange(0, 6))]
        yield ("corr", "serialize_gcs", [vals])
    for _ in range(ctx.n(60, 2000)):
        yield ("corr", "decode_gcs", [ctx.rbytes(r.randrange(0, 40))])
    yield ("corr", "decode_gcs", [b""])
    yield ("corr", "decode_gcs", [b"\xfd\x01"])
    yield ("corr", "decode_gcs", [b"\xff" + b"\xff" * 8 + b"\x00" * 5])

    # ---- SipHash: every message length 0..70, random keys, every kind of chunking
    for n in range(0, 71):
        key = ctx.rbytes(16)
        msg = ctx.rbytes(n)
        ctx.label(f"siphash/tail={n % 8}")
        yield ("corr", "siphash_spec", [key, msg])
        yield ("corr", "siphash_digest", [key, msg])
        for ch in chunkings(r, msg):
            yield ("corr", "siphash_chunks", [key, ch])
            yield ("prop", "siphash_ref", [key, ch])
    for _ in range(ctx.n(100, 5000)):
        key = r.choice([bytes(16), b"\xff" * 16, ctx.rbytes(16), ctx.rbytes(16)])
        msg = ctx.rbytes(r.choice([r.randrange(0, 71), r.randrange(0, 601), 255, 256, 257, 263]))
        ch = r.choice(list(chunkings(r, msg))[2:])
        yield ("corr", "siphash_chunks", [key, ch])
        yield ("prop", "siphash_ref", [key, ch])
        yield ("corr", "siphash_spec", [key, msg])
    for kl in (0, 1, 15, 17, 32):       # wrong key sizes raise
        yield ("corr", "siphash_chunks", [ctx.rbytes(kl), [b"abc"]])
        yield ("corr", "hash_to_range", [ctx.rbytes(kl), b"abc", 5 * M])
        yield ("corr", "encode_gcs", [ctx.rbytes(kl), [b"abc"]])
        yield ("corr", "encode_gcs", [ctx.rbytes(kl), []])
    words = [0, 1, M64, 2 ** 63, 2 ** 63 - 1, 2 ** 32, 2 ** 32 - 1, 2 ** 51, 2 ** 47, 2 ** 43, 0x5555555555555555, 0xaaaaaaaaaaaaaaaa]
    for _ in range(ctx.n(300, 20000)):
        st = [r.choice(words) if r.random() < 0.3 else r.getrandbits(64) for _ in range(5)]
        yield ("corr", "doublesipround", st)
        yield ("corr", "compress_spec", st)
        yield ("prop", "sipround", st)
    for _ in range(ctx.n(30, 500)):     # outside 64 bits the model still mirrors the arithmetic
        st = [r.choice([-1, -r.getrandbits(70), r.getrandbits(90), 2 ** 64, r.getrandbits(64)]) for _ in range(5)]
        yield ("corr", "doublesipround", st)

    # ---- compact filters: element sets of 0..2000 scripts of length 0..600
    sizes = [0, 1, 2, 3, 4, 5, 8, 16, 50] + [r.randrange(0, 40) for _ in range(ctx.n(50, 1500))] + \
        [r.randrange(40, 400) for _ in range(ctx.n(5, 100))] + [r.randrange(400, 2001) for _ in range(ctx.n(1, 20))] + \
        [2000] * ctx.n(1, 2)
    for n in sizes:
        key = r.choice([ctx.rbytes(16), ctx.rbytes(16), ctx.rbytes(16), bytes(16), b"\xff" * 16])
        items = [rscript(ctx, r) for _ in range(n)]
        cls = "distinct"
        if n >= 2 and r.random() < 0.35:
            for _ in range(r.randrange(1, 4)):
                items[r.randrange(n)] = items[r.randrange(n)]
            cls = "duplicates"
        ctx.label("cfilter/" + cls)
        ctx.label("cfilter/n=0" if n == 0 else "cfilter/n<=4" if n <= 4 else "cfilter/n<=400" if n <= 400 else "cfilter/n>400")
        yield ("prop", "cf_members", [key, items])
        yield ("corr", "encode_gcs", [key, items])
        others = [rscript(ctx, r) for _ in range(5)]
        if n <= 60:
            yield ("corr", "hashed_items", [key, items])
        if n <= 400:
            yield ("corr", "cf_build_query", [key, items, items[:60] + others])
        raw = compactfilter.encode_gcs(key, list(items))
        if n <= 400:
            yield ("prop", "cf_reserialize", [key, items])
        yield ("corr", "cf_reserialize", [key, raw])
        yield ("corr", "cf_hash", [key, raw])
        yield ("corr", "cf_contains", [key, raw, items[:20] + others])
        yield ("corr", "cf_contains", [ctx.rbytes(16), raw, items[:5] + others])
        for it in items[:3]:
            yield ("corr", "hash_to_range", [key, it, r.choice([n * M, 0, 1, M, 2 ** 64, 2000 * M, -M])])
    # crafted: two different elements collide in [0, N*M), with and without extra duplicates
    for k in range(ctx.n(12, 200)):
        n = r.choice([2, 2, 3, 3, 4, 5, 8])
        key = ctx.rbytes(16)
        items = find_collision(ctx, r, key, n)
        if items is None:
            ctx.label("cfilter/collision-search-failed")
            continue
        if r.random() < 0.3:
            items.append(items[0])
            items = find_collision(ctx, r, key, len(items)) or items
        ctx.label("cfilter/crafted-collision")
        yield ("prop", "cf_members", [key, items])
        yield ("corr", "encode_gcs", [key, items])
        yield ("corr", "cf_build_query", [key, items, items + [b"", b"x"]])
        yield ("corr", "cf_parse", [key, compactfilter.encode_gcs(key, list(items))])
        yield ("prop", "cf_reserialize", [key, items])
        yield ("corr", "cf_reserialize", [key, compactfilter.encode_gcs(key, list(items))])
        yield ("corr", "cf_hash", [key, compactfilter.encode_gcs(key, list(items))])
    # only duplicates
    for n in (2, 3, 7):
        key = ctx.rbytes(16)
        items = [b"\x00\x14" + bytes(20)] * n
        ctx.label("cfilter/all-equal")
        yield ("prop", "cf_members", [key, items])
        yield ("corr", "cf_build_query", [key, items, items[:1] + [b"z"]])
        yield ("prop", "cf_reserialize", [key, items])
        yield ("corr", "cf_reserialize", [key, compactfilter.encode_gcs(key, list(items))])
        yield ("corr", "cf_hash", [key, compactfilter.encode_gcs(key, list(items))])

    # ---- MurmurHash3: every length 0..70, boundary seeds
    for n in range(0, 71):
        data = ctx.rbytes(n)
        ctx.label(f"murmur/tail={n % 4}")
        for seed in SEEDS + [r.getrandbits(32), r.getrandbits(32), r.getrandbits(40), -r.getrandbits(33)]:
            yield ("corr", "murmur3", [data, seed])
            yield ("corr", "murmur3_spec", [data, seed])
            yield ("prop", "murmur_ref", [data, seed])
    for _ in range(ctx.n(200, 20000)):
        data = r.choice([ctx.rbytes(r.randrange(0, 71)), ctx.rbytes(r.randrange(0, 601)), b"\xff" * r.randrange(0, 20),
                         bytes(r.randrange(0, 20))])
        seed = r.choice([r.getrandbits(32), r.getrandbits(32), r.randrange(50) * 0xfba4c795 + r.getrandbits(32),
                         r.choice(SEEDS)])
        yield ("corr", "murmur3", [data, seed])
        yield ("corr", "murmur3_spec", [data, seed])
        yield ("prop", "murmur_ref", [data, seed])

    # ---- bloom filters: sizes 1..36000 bytes, 1..50 functions, boundary tweaks
    tweaks = [0, 1, 99, 2 ** 31, 2 ** 32 - 1, 2147483649]
    # (large filters last: the engine's in-Coq self-check samples the first cases of every function and
    #  writes expected results as Coq literals)
    cfgs = [(1, 1), (1, 50), (2, 3), (3, 5), (10, 5), (255, 7), (256, 7)]
    cfgs += [(r.randrange(1, 40), r.randrange(1, 51)) for _ in range(ctx.n(40, 1500))]
    cfgs += [(r.randrange(40, 2000), r.randrange(1, 51)) for _ in range(ctx.n(15, 300))]
    cfgs += [(r.randrange(2000, 36001), r.randrange(1, 51)) for _ in range(ctx.n(1, 25))]
    cfgs += [(65535 // 8, 9), (36000, 50), (36000, 1)]
    for (size, fc) in cfgs:
        tweak = r.choice(tweaks + [r.getrandbits(32)] * 3)
        items = [r.choice([ctx.rbytes(20), ctx.rbytes(32), ctx.rbytes(36), rscript(ctx, r)]) for _ in range(r.randrange(0, 6 if size < 2000 else 3))]
        if len(items) > 1 and r.random() < 0.2:
            items.append(items[0])
        flag = r.choice([0, 1, 2, 255])
        ctx.label("bloom/size>=2000" if size >= 2000 else "bloom/size<2000")
        yield ("prop", "bloom", [size, fc, tweak, items, flag])
        yield ("corr", "bloom_filterload", [size, fc, tweak, items, flag])
        if size >= 2000:
            continue
        yield ("corr", "bloom_filter_bytes", [size, fc, tweak, items])
        for it in items[:2]:
            yield ("corr", "bloom_bits", [size, fc, tweak, it])
            yield ("corr", "bloom_bits_spec", [size, fc, tweak, it])
    # out-of-range parameters (what the code does): tweak beyond 32 bits / negative, size 0, flag 256
    for (size, fc, tweak, flag) in [(5, 3, 2 ** 32, 1), (5, 3, -1, 1), (5, 3, 2 ** 40 + 7, 1), (0, 2, 0, 1), (0, 0, 0, 1),
                                    (5, 0, 7, 1), (5, 3, 7, 256), (5, 3, 7, -1), (5, 2 ** 32, 7, 1), (-1, 1, 0, 1),
                                    (253, 2, 5, 0), (5, -3, 1, 1)]:
        if fc < 1000:
            yield ("corr", "bloom_filter_bytes", [size, fc, tweak, [b"abc"]])
            yield ("corr", "bloom_filterload", [size, fc, tweak, [b"abc"], flag])
        if size > 0 and 0 <= fc < 1000:
            yield ("corr", "bloom_bits_spec", [size, fc, tweak, b"abc"])     # seeds are reduced mod 2^32 by the standard
            yield ("prop", "bloom", [size, fc, tweak, [b"abc", b""], flag % 256])
    for n in list(range(0, 20)) + [64, 100]:
        yield ("corr", "bit_field_to_bytes", [bytes(r.choice([0, 1, 1, 2]) for _ in range(n))])

    # ---- filter header chain
    for n in [0, 1, 2, 3] + [r.randrange(0, 12) for _ in range(ctx.n(10, 300))]:
        prev = ctx.rbytes(32)
        hs = [ctx.rbytes(32) for _ in range(n)]
        yield ("prop", "cfheader_chain", [prev, hs])
        yield ("corr", "cfheader_chain", [prev, hs])

    # ---- second round: the BIP158 / Core transcriptions, converses, message classes, SipHash object API
    yield ("corr", "bip158_spec", [bytes.fromhex("43497fd7f826957108f4a30fd9cec3ae"), [GENESIS_SPK]])
    yield ("corr", "bip158_serialize", [[56103, 1303493, 2309825]])
    yield ("corr", "bip158_decompress", [bytes.fromhex("019dfca8")])
    yield ("corr", "bip158_match", [bytes.fromhex("43497fd7f826957108f4a30fd9cec3ae"), bytes.fromhex("019dfca8"), [GENESIS_SPK, b"x"]])
    sizes = [0, 1, 2, 3, 5, 8] + [r.randrange(0, 30) for _ in range(ctx.n(40, 800))] + \
        [r.randrange(30, 300) for _ in range(ctx.n(4, 60))] + [r.randrange(300, 2001) for _ in range(ctx.n(1, 6))]
    for n in sizes:
        key = r.choice([ctx.rbytes(16), ctx.rbytes(16), bytes(16), b"\xff" * 16])
        items = [rscript(ctx, r) for _ in range(n)]
        if n >= 2 and r.random() < 0.3:
            items[r.randrange(n)] = items[r.randrange(n)]
        others = [rscript(ctx, r) for _ in range(4)] + [b""]
        fb = compactfilter.encode_gcs(key, list(items))
        ctx.label("bip158-spec/n=0" if n == 0 else "bip158-spec/n<30" if n < 30 else "bip158-spec/n>=30")
        yield ("corr", "bip158_spec", [key, items])
        yield ("corr", "bip158_decompress", [fb])
        if n <= 300:
            yield ("corr", "bip158_match", [key, fb, items[:25] + others])
            yield ("prop", "cf_match", [key, fb, items[:40] + others])
            yield ("prop", "reserialize_stable", [key, fb])
        # accepted but not canonical: bytes after the last value, padding bits set
        for kind in range(3):
            if kind == 0:
                nc = fb + ctx.rbytes(r.randrange(1, 5))
            elif kind == 1:
                pad = -(sum(((v - l) >> P) + 1 + P for v, l in zip(ref_hashed(key, items), [0] + ref_hashed(key, items))) % 8) % 8
                nc = fb[:-1] + bytes([fb[-1] | ((1 << pad) - 1)]) if n and pad else fb + b"\xff"
            else:
                nc = fb[: r.randrange(0, len(fb) + 1)]          # truncated: both sides raise unless n = 0
            ctx.label("bip158-spec/non-canonical" if kind < 2 else "bip158-spec/truncated")
            yield ("corr", "bip158_decompress", [nc])
            yield ("corr", "decode_gcs", [nc])
            if n <= 300:
                yield ("corr", "bip158_match", [key, nc, items[:10] + others])
                yield ("corr", "cf_reserialize", [key, nc])
                if kind < 2:
                    yield ("prop", "cf_match", [key, nc, items[:20] + others])
                    yield ("prop", "reserialize_stable", [key, nc])
    for _ in range(ctx.n(40, 1500)):        # arbitrary bytes: whatever parses must agree with the BIP's reader
        fb = bytes([r.randrange(0, 4)]) + ctx.rbytes(r.randrange(0, 14))
        key = ctx.rbytes(16)
        qs = [ctx.rbytes(r.randrange(0, 8)) for _ in range(3)]
        yield ("corr", "bip158_decompress", [fb])
        yield ("corr", "bip158_match", [key, fb, qs])
        try:
            compactfilter.decode_gcs(b"", fb)
        except Exception:
            ctx.label("bip158-spec/random-rejected")
            continue
        ctx.label("bip158-spec/random-accepted")
        yield ("prop", "cf_match", [key, fb, qs])
        yield ("prop", "reserialize_stable", [key, fb])
    for kl in (0, 15, 17):
        yield ("corr", "bip158_match", [ctx.rbytes(kl), bytes.fromhex("019dfca8"), [b"a"]])
        yield ("corr", "bip158_spec", [ctx.rbytes(kl), [b"a"]])
    for n in [0, 1, 2, 5, 253, 300] + [r.randrange(0, 40) for _ in range(ctx.n(20, 400))]:
        vals = sorted(r.randrange(0, max(1, n) * M) for _ in range(n))
        yield ("corr", "bip158_serialize", [vals])
    for _ in range(ctx.n(10, 100)):         # unsorted: negative deltas, what the code does
        yield ("corr", "bip158_serialize", [[r.randrange(0, 5 * M) for _ in range(r.randrange(0, 6))]])

    # SipHash object API
    yield ("corr", "siphash_hexdigest", [bytes(range(16)), b"\x00"])
    for n in list(range(0, 20)) + [r.randrange(20, 200) for _ in range(ctx.n(10, 200))]:
        key = ctx.rbytes(16)
        msg = ctx.rbytes(n)
        yield ("corr", "siphash_hexdigest", [key, msg])
        cut = r.randrange(0, n + 1)
        rest = msg[cut:]
        c2 = r.randrange(0, len(rest) + 1)
        yield ("corr", "sip_object", [key, msg[:cut], [rest[:c2], rest[c2:]]])
        yield ("corr", "sip_object", [key, msg, []])
    for kl in (0, 15, 17):
        yield ("corr", "siphash_hexdigest", [ctx.rbytes(kl), b"abc"])
        yield ("corr", "sip_object", [ctx.rbytes(kl), b"abc", [b"d"]])

    # BIP157 messages
    for n in [0, 1, 2, 3] + [r.randrange(0, 25) for _ in range(ctx.n(25, 500))] + [r.randrange(25, 400) for _ in range(ctx.n(2, 30))]:
        bh = ctx.rbytes(32)
        items = [rscript(ctx, r) for _ in range(n)]
        if n >= 2 and r.random() < 0.3:
            items[0] = items[1]
        tail = ctx.rbytes(r.choice([0, 0, 1, 5]))
        fb = compactfilter.encode_gcs(bh[::-1][:16], list(items))
        wire = b"\x00" + bh[::-1] + ref_varint(len(fb)) + fb
        others = [rscript(ctx, r) for _ in range(3)]
        ctx.label("cfmsg/valid")
        yield ("prop", "cfmsg", [bh, items, tail])
        yield ("corr", "cfmsg_contains", [wire + tail, items[:20] + others])
        yield ("corr", "cfmsg_new_contains", [bh, fb, items[:20] + others])
        if n < 25:
            ctx.label("cfmsg/malformed")
            yield ("corr", "cfmsg_contains", [wire[: r.randrange(0, len(wire))], items[:3] + others])
            bad = bytearray(wire)
            bad[r.randrange(len(bad))] ^= 1 << r.randrange(8)
            yield ("corr", "cfmsg_contains", [bytes(bad), items[:3] + others])
            yield ("corr", "cfmsg_new_contains", [bh[: r.randrange(0, 32)], fb, items[:3]])
            yield ("corr", "cfmsg_new_contains", [bh, fb[: r.randrange(0, len(fb) + 1)], items[:3]])
    yield ("corr", "cfmsg_contains", [b"", [b"a"]])
    for n in [0, 1, 2, 3, 252, 253] + [r.randrange(0, 12) for _ in range(ctx.n(15, 300))]:
        stop, prev = ctx.rbytes(32), ctx.rbytes(32)
        hs = [ctx.rbytes(32) for _ in range(n)]
        wire = b"\x00" + stop[::-1] + prev + ref_varint(n) + b"".join(hs)
        ctx.label("cfheaders/parse")
        yield ("prop", "cfheaders_parse", [stop, prev, hs, r.randrange(0, n + 1)])
        yield ("corr", "cfheaders_last", [wire])
        yield ("corr", "cfheaders_last", [wire + ctx.rbytes(3)])
        if n < 12:
            yield ("corr", "cfheaders_last", [wire[: r.randrange(0, len(wire) + 1)]])     # short reads
            yield ("corr", "cfheaders_last", [b"\x00" + stop[::-1] + prev + ref_varint(n + r.randrange(1, 4)) + b"".join(hs)])

    # Bitcoin Core's CBloomFilter on the wire bytes
    core_items = [bytes.fromhex(h) for h in ("99108ad8ed9bb6274d3980bab5a85c048f0950c8", "b5a2c786d9ef4658287ced5914b37a1b4aa32eee",
                                             "b9300670b4c5366e95b2699e8b18bc75e5f729c5")]
    yield ("corr", "bloom_core_bytes", [3, 5, 0, core_items])
    yield ("corr", "bloom_core_wire", [3, 5, 2147483649, core_items, 1, core_items + [b"abc"]])
    cfgs = [(1, 1), (1, 50), (2, 3), (10, 5), (252, 7), (253, 7), (256, 3)]
    cfgs += [(r.randrange(1, 40), r.randrange(1, 51)) for _ in range(ctx.n(40, 1200))]
    cfgs += [(r.randrange(40, 1500), r.randrange(1, 51)) for _ in range(ctx.n(8, 150))]
    cfgs += [(36000, 50), (36001, 51), (65536 // 8 + 1, 2)]
    for (size, fc) in cfgs:
        tweak = r.choice(tweaks + [r.getrandbits(32)] * 3)
        items = [r.choice([ctx.rbytes(20), ctx.rbytes(32), ctx.rbytes(36), rscript(ctx, r), b""]) for _ in range(r.randrange(0, 6 if size < 2000 else 3))]
        probes = items + [ctx.rbytes(r.randrange(0, 40)) for _ in range(4)]
        flag = r.choice([0, 1, 2, 255])
        ctx.label("bloom-core/size>=253" if size >= 253 else "bloom-core/size<253")
        yield ("prop", "bloom_wire", [size, fc, tweak, items, flag])
        yield ("corr", "bloom_core_wire", [size, fc, tweak, items, flag, probes])
        if size < 2000:
            yield ("corr", "bloom_core_bytes", [size, fc, tweak, items])
    for tweak in (2 ** 32, 2 ** 32 + 5, -1, 2 ** 40 + 7, -(2 ** 33) - 3):      # seeds >= 2^32 / negative: Core reduces, add() does not
        ctx.label("bloom-core/tweak-outside-uint32")
        yield ("corr", "bloom_core_bytes", [7, 9, tweak, [b"abc", b"", ctx.rbytes(33)]])
        yield ("corr", "bloom_core_wire", [7, 9, tweak, [b"abc"], 1, [b"abc"]])       # filterload raises
    yield ("corr", "bloom_core_wire", [5, 3, 7, [b"abc"], 256, [b"abc"]])

    # ---- one object used repeatedly: stale memoised state, coarse module-level caches
    for _ in range(ctx.n(20, 300)):
        k1 = ctx.rbytes(16)
        keys = [k1, ctx.rbytes(16), k1[:15] + bytes([k1[15] ^ 1])][: r.randrange(1, 4)]
        ctx.label("reuse/siphash-object")
        yield ("prop", "reuse_siphash", [keys, r.getrandbits(30), ctx.n(60, 120)])
    for _ in range(ctx.n(20, 300)):
        k1, k2 = ctx.rbytes(16), ctx.rbytes(16)
        vals = [rscript(ctx, r) for _ in range(4)]
        seq = [[r.choice([k1, k2, k1[:8] + k2[8:]]), r.choice(vals + [ctx.rbytes(r.randrange(0, 30))]),
                r.choice([M, 2 * M, 5 * M, 1, 0, 2 ** 64])] for _ in range(24)]
        ctx.label("reuse/siphash-call-order")
        yield ("prop", "hash_order", [seq])
    for _ in range(ctx.n(20, 300)):
        shared = [rscript(ctx, r) for _ in range(r.randrange(1, 6))]
        filters = []
        for _j in range(r.randrange(1, 4)):
            items = list(shared) + [rscript(ctx, r) for _ in range(r.randrange(0, 12))]
            if r.random() < 0.3:
                items.append(items[0])
            r.shuffle(items)
            filters.append([ctx.rbytes(16), items])
        probes = [rscript(ctx, r) for _ in range(6)]
        ctx.label("reuse/compact-filter")
        yield ("prop", "reuse_cf", [filters, probes, [ctx.rbytes(16), filters[-1][0]], r.getrandbits(30), ctx.n(80, 160)])
    for _ in range(ctx.n(20, 300)):
        cfgs = [[r.choice([1, 2, 3, 10, 33, r.randrange(1, 200)]), r.randrange(1, 12), r.choice([0, 99, 2 ** 32 - 1, r.getrandbits(32)])]
                for _j in range(r.randrange(1, 4))]
        items = [r.choice([ctx.rbytes(20), ctx.rbytes(32), rscript(ctx, r), b""]) for _j in range(6)]
        ctx.label("reuse/bloom-filter")
        yield ("prop", "reuse_bloom", [cfgs, items, r.getrandbits(30), ctx.n(60, 120)])
    for _ in range(ctx.n(10, 200)):
        datas = [ctx.rbytes(r.randrange(0, 40)) for _j in range(4)]
        sd = r.getrandbits(32)
        seq = [[r.choice(datas), r.choice([0, 1, 0xfba4c795, 2 * 0xfba4c795 & 0xffffffff, r.getrandbits(32), 2 ** 32, 2 ** 32 + 1,
                                           sd, sd ^ (1 << 31), sd ^ (1 << 16), sd ^ 1, sd ^ (1 << 8)])]
               for _j in range(40)]
        ctx.label("reuse/murmur-call-order")
        yield ("prop", "murmur_order", [seq])
    for _ in range(ctx.n(10, 200)):
        xs = [r.randrange(0, 2 ** 22) for _j in range(4)]
        seq = [[r.choice(xs), r.choice([P, P, 0, 1, 5, 20])] for _j in range(30)]
        seq = [[x % (1 << (p + 6)), p] for x, p in seq]     # unary part of at most 64 bits
        ctx.label("reuse/golomb-call-order")
        yield ("prop", "golomb_order", [seq])

    # ---- third round: the public constructors called directly with arguments of unusual but valid shape
    yield from gen_constructors(ctx)

    # ---- fourth round: remaining entry points, default arguments, byte classes, field coincidences, shared state
    yield from gen_audit(ctx)


BYTE_CLASSES = [("all-00", lambda n: bytes(n)), ("all-ff", lambda n: b"\xff" * n), ("all-80", lambda n: b"\x80" * n),
                ("all-7f", lambda n: b"\x7f" * n), ("digits", lambda n: (b"0123456789" * 8)[:n]),
                ("00-then-ff", lambda n: bytes(n // 2) + b"\xff" * (n - n // 2)),
                ("ff-then-00", lambda n: b"\xff" * (n // 2) + bytes(n - n // 2))]


def gen_audit(ctx):
    r = ctx.rng
    keys = [bytes(16), b"\xff" * 16, bytes(8) + b"\xff" * 8, b"\xff" * 8 + bytes(8), b"\x80" + bytes(15), bytes(15) + b"\x01",
            b"0123456789012345"]

    # (a) the copy of _siphash in helper.py; (d) messages / keys of one byte class, every length 0..70
    for n in range(0, 71):
        key = ctx.rbytes(16)
        ctx.label("audit/helper-siphash")
        yield ("prop", "helper_siphash", [key, ctx.rbytes(n)])
        for k2, (name, mk) in enumerate(BYTE_CLASSES):
            key = keys[(n + k2) % len(keys)]
            msg = mk(n)
            ctx.label("audit/byte-class/siphash/" + name)
            yield ("prop", "helper_siphash", [key, msg])
            cut = (n * (k2 + 1)) // (len(BYTE_CLASSES) + 1)
            yield ("prop", "siphash_ref", [key, [msg[:cut], msg[cut:]]])
            if k2 == n % len(BYTE_CLASSES):
                yield ("corr", "siphash_spec", [key, msg])
                yield ("corr", "siphash_chunks", [key, [msg[:cut], msg[cut:]]])
    for n in (255, 256, 257, 511, 512, 513, 600):       # the length byte wraps
        for name, mk in BYTE_CLASSES[:3]:
            yield ("prop", "helper_siphash", [keys[n % len(keys)], mk(n)])
    for kl in (0, 1, 8, 15, 17, 32):
        yield ("prop", "helper_siphash", [ctx.rbytes(kl), b"abc"])

    # (b) murmur3 with its default seed / keyword seed; (d) data of one byte class, every length 0..70
    for n in range(0, 71):
        ctx.label("audit/murmur-default-seed")
        yield ("prop", "murmur_default", [ctx.rbytes(n), r.choice([0, 1, 2 ** 32 - 1, r.getrandbits(32)])])
        for k2, (name, mk) in enumerate(BYTE_CLASSES):
            seed = [0, 2 ** 32 - 1, 0xfba4c795, 2 ** 31, 1, r.getrandbits(32), 0x80000000 - 1][(n + k2) % 7]
            ctx.label("audit/byte-class/murmur/" + name)
            yield ("prop", "murmur_default", [mk(n), seed])
            if k2 == n % len(BYTE_CLASSES):
                yield ("corr", "murmur3", [mk(n), seed])
                yield ("corr", "murmur3_spec", [mk(n), seed])

    # (a) bytes_to_bit_field / bit_field_to_bytes
    for n in list(range(0, 26)) + [64, 800]:
        bits = bytes(r.choice([0, 1, 1, 2, 255]) for _ in range(n))
        ctx.label("audit/bit-field")
        yield ("prop", "bit_field", [bits, ctx.rbytes((n + 7) // 8)])
    for raw in (b"\x00", b"\xff", b"\x01", b"\x80", b"\x01\x80", b"\xff" * 9, bytes(9)):
        yield ("prop", "bit_field", [bytes(8 * len(raw)), raw])

    # (a)(b) BIP157 request messages and their default arguments
    for ftype, height in [(0, 0), (0, 1), (1, 2), (255, 2 ** 32 - 1), (0, 2 ** 31), (0, 256), (1, 65536), (0, 0x01020304),
                          (r.randrange(256), r.getrandbits(32)), (r.randrange(256), r.getrandbits(20))]:
        stop = r.choice([ctx.rbytes(32), ctx.rbytes(32), bytes(31) + b"\x01", b"\x01" + bytes(31)])
        ctx.label("audit/getcf-requests")
        yield ("prop", "getcf_msgs", [ftype, height, stop])

    # (f)(c) == must answer False when exactly one attribute differs
    for k in range(ctx.n(24, 300)):
        n = [0, 1, 1, 2, 2, 3, 5, 9][k % 8]
        key = r.choice(keys + [ctx.rbytes(16)] * 3)
        vals = [r.randrange(0, max(1, n) * M) for _ in range(n)]
        if n >= 2 and k % 3 == 0:
            vals[-1] = vals[0]
        kind = k % 6
        other = list(vals)
        if kind == 0 and n:
            other[r.randrange(n)] += r.choice([1, -1, 1 << P]) if vals[0] else 1      # one value moves a little
            other = [abs(v) for v in other]
        elif kind == 1:
            other = vals + [r.randrange(0, max(1, n) * M)]                            # one more value
        elif kind == 2 and n:
            other = vals[1:]                                                           # one value fewer
        elif kind == 3:
            other = [v + 1 for v in vals] or [0]                                       # all shifted
        elif kind == 4 and n:
            other = vals[:-1] + [vals[-1] ^ (1 << r.randrange(0, 20))]                 # one bit of the last value
        else:
            other = vals[::-1]                                                         # same set
        key2 = [key, key[:15] + bytes([key[15] ^ 1]), bytes([key[0] ^ 0x80]) + key[1:], key[::-1], ctx.rbytes(16)][k % 5]
        ctx.label("audit/eq/same-set" if set(other) == set(vals) else "audit/eq/one-attribute-differs")
        yield ("prop", "eq_discriminates", [key, key2, vals, other, ctx.rbytes(32), r.choice([0, 0, 1, 254])])

    # (c)(e) the count field and the bit stream disagree / N in a longer CompactSize form than needed / one byte class
    for n in [0, 1, 2, 3, 5, 8, 20] + [r.randrange(1, 30) for _ in range(ctx.n(8, 150))]:
        key = ctx.rbytes(16)
        items = [rscript(ctx, r) for _ in range(n)]
        fb = ref_bip158(key, items)
        others = [rscript(ctx, r) for _ in range(3)] + [b""]
        variants = [("count-fd", b"\xfd" + struct.pack("<H", n) + fb[1:]),
                    ("count-fe", b"\xfe" + struct.pack("<I", n) + fb[1:]),
                    ("count-ff", b"\xff" + struct.pack("<Q", n) + fb[1:])]
        if n:
            variants.append(("count-smaller", ref_varint(n - 1) + fb[1:]))
            variants.append(("count-smaller", ref_varint(r.randrange(0, n)) + fb[1:]))
            variants.append(("count-fd-smaller", b"\xfd" + struct.pack("<H", n // 2) + fb[1:]))
        variants.append(("count-zero-with-stream", b"\x00" + fb[1:] + ctx.rbytes(2)))
        for name, nc in variants:
            ctx.label("audit/count-vs-stream/" + name)
            yield ("corr", "decode_gcs", [nc])
            yield ("corr", "bip158_decompress", [nc])
            yield ("corr", "cf_parse", [key, nc])
            yield ("corr", "bip158_match", [key, nc, items[:6] + others])
            yield ("corr", "cf_reserialize", [key, nc])
            try:
                compactfilter.decode_gcs(b"", nc)
            except Exception:  # noqa
                ctx.label("audit/count-vs-stream/rejected")
                continue
            yield ("prop", "cf_match", [key, nc, items[:10] + others])
            yield ("prop", "reserialize_stable", [key, nc])
    for n in (0, 1, 2, 3, 5):           # the same for the count of filter hashes in cfheaders
        stop, prev = ctx.rbytes(32), ctx.rbytes(32)
        hs = [ctx.rbytes(32) for _ in range(n)]
        for name, cnt in (("count-fd", b"\xfd" + struct.pack("<H", n)), ("count-fe", b"\xfe" + struct.pack("<I", n)),
                          ("count-ff", b"\xff" + struct.pack("<Q", n)), ("count-smaller", ref_varint(n // 2)),
                          ("count-zero-with-stream", b"\x00")):
            ctx.label("audit/cfheaders-count/" + name)
            yield ("corr", "cfheaders_last", [b"\x00" + stop[::-1] + prev + cnt + b"".join(hs)])
    for cnt in (0, 1, 2, 3, 7):
        for fill, name in ((0, "all-00"), (0xff, "all-ff"), (0x55, "all-55"), (0x80, "all-80")):
            for ln in (0, 1, 3, 8, 20):
                nc = ref_varint(cnt) + bytes([fill]) * ln
                ctx.label("audit/byte-class/stream-" + name)
                yield ("corr", "decode_gcs", [nc])
                yield ("corr", "bip158_decompress", [nc])
                try:
                    compactfilter.decode_gcs(b"", nc)
                except Exception:  # noqa
                    continue
                key = ctx.rbytes(16)
                yield ("corr", "bip158_match", [key, nc, [b"", b"a"]])
                yield ("prop", "cf_match", [key, nc, [b"", b"a", ctx.rbytes(22)]])
                yield ("prop", "reserialize_stable", [key, nc])

    # (d) element sets of one byte class: elements that differ only in their length / in one trailing zero
    fams = [("zeros-by-length", [bytes(k) for k in range(0, 19)]),
            ("ff-by-length", [b"\xff" * k for k in range(0, 19)]),
            ("empty-and-zero", [b"", b"\x00"]), ("only-empty", [b""]), ("empty-twice", [b"", b""]),
            ("trailing-zero", [b"\x51", b"\x51\x00", b"\x51\x00\x00", b"\x00\x51", b"\x00\x00\x51"]),
            ("block-boundary", [bytes(7), bytes(8), bytes(9), bytes(15), bytes(16), bytes(17), b"\x01" + bytes(7), bytes(7) + b"\x01"]),
            ("digits", [(b"0123456789" * 4)[:k] for k in (1, 7, 8, 9, 22, 34)]),
            ("long-zeros", [bytes(k) for k in (255, 256, 257, 600)])]
    for name, items in fams:
        for key in (keys[len(name) % len(keys)], ctx.rbytes(16)):
            ctx.label("audit/byte-class/elements/" + name)
            yield ("prop", "cf_members", [key, items])
            yield ("prop", "cf_reserialize", [key, items])
            yield ("corr", "encode_gcs", [key, items])
            yield ("corr", "bip158_spec", [key, items])
            yield ("corr", "cf_build_query", [key, items, items + [b"\x00" * 19, b"\x52"]])
            yield ("prop", "cfmsg_ctor", [0, bytes(16) + key[::-1], items, [b"\x00" * 19, b"\x52", b""]])
        size, fc = r.choice([(1, 3), (3, 5), (33, 11), (256, 50)])
        tweak = r.choice([0, 2 ** 32 - 1, r.getrandbits(32)])
        ctx.label("audit/byte-class/bloom-elements/" + name)
        yield ("prop", "bloom", [size, fc, tweak, items, 1])
        yield ("prop", "bloom_wire", [size, fc, tweak, items, 0])
        yield ("corr", "bloom_core_wire", [size, fc, tweak, items[:8], 1, items[:8] + [b"\x00" * 19, b"\x52"]])
    # block hashes of one byte class (the filter key is their first 16 bytes in internal order)
    for bh in (bytes(32), b"\xff" * 32, bytes(16) + b"\xff" * 16, b"\xff" * 16 + bytes(16), bytes(range(32)),
               bytes(range(16)) * 2, bytes(range(16)) + bytes(range(16))[::-1]):
        items = [rscript(ctx, r) for _ in range(r.randrange(1, 7))]
        ctx.label("audit/byte-class/block-hash")
        yield ("prop", "cfmsg", [bh, items, b""])
        yield ("prop", "cfmsg_ctor", [0, bh, items, [b"", rscript(ctx, r)]])

    # (g) failing calls followed by a retry; results edited while their sources / siblings are used again
    yield from gen_state(ctx, ctx.n(14, 200), "audit")

    # (a) membership asked with the library's Script objects
    std = [b"\x76\xa9\x14" + ctx.rbytes(20) + b"\x88\xac", b"\x00\x14" + ctx.rbytes(20), b"\x00\x20" + ctx.rbytes(32),
           b"\x51\x20" + ctx.rbytes(32), b"\xa9\x14" + ctx.rbytes(20) + b"\x87", b"\x6a\x04" + ctx.rbytes(4), b"\x51"]
    for k in range(1, len(std) + 1):
        ctx.label("audit/script-objects")
        yield ("prop", "real_script", [ctx.rbytes(16), std[:k], [b"\x00\x14" + ctx.rbytes(20), b"\x52"]])


def gen_state(ctx, count, tag):
    r = ctx.rng
    for k in range(count):
        n = [2, 1, 3, 0, 5, 9, 17][k % 7]
        key = r.choice([ctx.rbytes(16), ctx.rbytes(16), bytes(16)])
        items = [rscript(ctx, r) for _ in range(n)]
        if n >= 3 and k % 2:
            items[-1] = items[0]
        fb = ref_bip158(key, items)
        cut = r.randrange(0, max(1, len(fb) - 1)) if n else 0
        if n and k % 3 == 0:
            cut = len(fb) - 1
        size, fc = r.choice([(1, 1), (2, 50), (10, 5), (64, 7), (300, 3)])
        tweak = r.choice([0, 99, 2 ** 32 - 1, r.getrandbits(32)])
        ctx.label("audit/fail-then-retry")
        yield ("prop", "fail_retry", [key, items, ctx.rbytes(32), cut, size, fc, tweak])
        key2 = r.choice([ctx.rbytes(16), key[:15] + bytes([key[15] ^ 1])])
        ctx.label("audit/independent-objects")
        yield ("prop", "independent", [key, key2, items, [rscript(ctx, r) for _ in range(3)] + [b""], size, fc, tweak])


def orderings(r, vals):
    """the same multiset of hash values in the orders a caller may have them in"""
    n = len(vals)
    asc = sorted(vals)
    out = [("element-order", list(vals)), ("ascending", asc), ("descending", asc[::-1])]
    sh = list(vals)
    r.shuffle(sh)
    out.append(("shuffled", sh))
    if n >= 2:
        out.append(("rotated", asc[1:] + asc[:1]))                  # one descent, at the very end
        out.append(("rotated-back", asc[-1:] + asc[:-1]))           # one descent, at the very start
        a = list(asc)
        a[0], a[1] = a[1], a[0]
        out.append(("first-two-swapped", a))
        a = list(asc)
        a[-1], a[-2] = a[-2], a[-1]
        out.append(("last-two-swapped", a))
        out.append(("two-runs", asc[::2] + asc[1::2]))
    if n >= 4:
        a = list(asc)                                               # smallest first, largest last, one inversion inside
        j = r.randrange(1, n - 2)
        a[j], a[j + 1] = a[j + 1], a[j]
        out.append(("one-inversion-inside", a))
        k = r.randrange(1, n - 1)
        out.append(("one-value-moved", asc[:k] + asc[k + 1:-1] + [asc[k]] + asc[-1:]))
    return out


def gen_constructors(ctx):
    r = ctx.rng

    def cf_cases(key, vals, items, label, few=False):
        probes = [rscript(ctx, r) for _ in range(3)] + [b""]
        ords = orderings(r, vals)
        if few:
            ords = ords[:1] + [ords[r.randrange(1, len(ords))]]
        for k, (name, perm) in enumerate(ords):
            srt = all(a <= b for a, b in zip(perm, perm[1:]))
            ctx.label("ctor/cf/" + label)
            ctx.label("ctor/cf/order=" + name)
            ctx.label("ctor/cf/argument-ascending" if srt else "ctor/cf/argument-not-ascending")
            yield ("prop", "cf_ctor", [key, perm, items, probes, k % 2])
            yield ("corr", "cf_new", [key, perm, (items[:8] + probes) if len(perm) <= 60 else probes[:2]])

    # elements hashed one by one with the reference SipHash, in element order
    sizes = [0, 1, 2, 3, 4, 5, 8, 17, 40] + [r.randrange(2, 30) for _ in range(ctx.n(14, 300))]
    for n in sizes:
        key = r.choice([ctx.rbytes(16), ctx.rbytes(16), bytes(16), b"\xff" * 16])
        items = [rscript(ctx, r) for _ in range(n)]
        cls = "distinct"
        if n >= 3 and r.random() < 0.4:
            for _ in range(r.randrange(1, 3)):
                items[r.randrange(n)] = items[r.randrange(n)]
            cls = "duplicate-elements"
        f = n * M
        vals = [(ref_siphash24(key, it) * f) >> 64 for it in items]
        yield from cf_cases(key, vals, items, cls + ("/n<=1" if n <= 1 else "/n>=2"))
    for n in (252, 253, 254, 300) + ((1000, 2000) if ctx.tier != "quick" else ()):          # CompactSize boundary of N
        key = ctx.rbytes(16)
        items = [ctx.rbytes(r.randrange(0, 40)) for _ in range(n)]
        vals = [(ref_siphash24(key, it) * n * M) >> 64 for it in items]
        yield from cf_cases(key, vals, items, "n>=252", few=True)
    # two different elements on one value, all elements equal
    for _ in range(ctx.n(4, 40)):
        key = ctx.rbytes(16)
        items = find_collision(ctx, r, key, r.choice([2, 3, 4, 6]))
        if items is None:
            continue
        vals = [(ref_siphash24(key, it) * len(items) * M) >> 64 for it in items]
        yield from cf_cases(key, vals, items, "crafted-collision")
    for n in (2, 3, 5):
        key = ctx.rbytes(16)
        items = [b"\x00\x14" + bytes(20)] * n
        vals = [(ref_siphash24(key, it) * n * M) >> 64 for it in items]
        yield from cf_cases(key, vals, items, "all-equal", few=True)
    # explicit value lists (no elements): ends of the range, quotient boundaries of the deltas, repeated values
    q = 1 << P
    explicit = [[0], [M - 1], [0, 0], [2 * M - 1, 0], [q, q - 1], [q - 1, q], [2 * q, q, 0], [5, 5, 5], [3 * M - 1, 0, 3 * M - 1],
                [q + 1, 1, 2 * q + 1, 1], [4 * M - 1, 4 * M - 2, 1, 0], [7, 7, 3, 3, 5, 5], [2 * q - 1, 4 * q, 2 * q, 0, q]]
    for _ in range(ctx.n(10, 200)):
        n = r.randrange(2, 12)
        base = [r.randrange(0, n * M) for _ in range(n)]
        if r.random() < 0.5:
            base[r.randrange(n)] = base[r.randrange(n)]
        if r.random() < 0.3:
            base[r.randrange(n)] = r.choice([0, n * M - 1])
        explicit.append(base)
    for vals in explicit:
        yield from cf_cases(ctx.rbytes(16), vals, [], "explicit-values", few=len(vals) > 4)
    for kl in (0, 15, 17):          # key of the wrong size: the constructor accepts it, the queries raise
        yield ("corr", "cf_new", [ctx.rbytes(kl), [5, 3, 9], [b"a", b""]])
    # filter hashes of directly built filters in a header chain
    for _ in range(ctx.n(8, 100)):
        fl = []
        for _j in range(r.randrange(1, 5)):
            n = r.randrange(0, 9)
            fl.append([ctx.rbytes(16), [r.randrange(0, max(1, n) * M) for _k in range(n)]])
        ctx.label("ctor/cf/header-chain")
        yield ("prop", "cf_chain", [r.choice([bytes(32), ctx.rbytes(32)]), fl])

    # cfilter / cfheaders / cfcheckpt messages
    bhs = [bytes(32), b"\xff" * 32, bytes(8) + ctx.rbytes(24), ctx.rbytes(24) + bytes(8), ctx.rbytes(32)]
    for n in [0, 1, 2, 3, 5, 17, 253] + [r.randrange(0, 30) for _ in range(ctx.n(10, 200))]:
        bh = r.choice(bhs + [ctx.rbytes(32)] * 3)
        items = [rscript(ctx, r) if n < 100 else ctx.rbytes(r.randrange(0, 30)) for _ in range(n)]
        if n >= 2 and r.random() < 0.3:
            items[-1] = items[0]
        ftype = r.choice([0, 0, 1, 255])
        ctx.label(f"ctor/cfilter-message/type={ftype}")
        yield ("prop", "cfmsg_ctor", [ftype, bh, items, [rscript(ctx, r) for _ in range(3)] + [b""]])
        yield ("corr", "cfmsg_new_contains", [bh, ref_bip158(bh[::-1][:16], items), items[:10] + [b""]])
    for k, n in enumerate([0, 1, 2, 3, 252, 253, 2000] + [r.randrange(0, 40) for _ in range(ctx.n(10, 200))]):
        stop = ctx.rbytes(32)
        prev = r.choice([bytes(32), ctx.rbytes(32), ctx.rbytes(32)])
        hs = [ctx.rbytes(32) for _ in range(n)]
        if n >= 2 and r.random() < 0.3:
            hs[r.randrange(n)] = hs[r.randrange(n)]         # the same filter (e.g. empty blocks) twice
        if n >= 2 and r.random() < 0.15:
            hs = [hs[0]] * n
        ctx.label("ctor/cfheaders/n=0" if n == 0 else "ctor/cfheaders/n<253" if n < 253 else "ctor/cfheaders/n>=253")
        yield ("prop", "cfheaders_ctor", [r.choice([0, 0, 1, 255]), stop, prev, hs, k % 2])
        if n < 300:
            yield ("corr", "cfheader_chain", [prev, hs])
    for k, n in enumerate([0, 1, 2, 252, 253] + [r.randrange(0, 20) for _ in range(ctx.n(6, 100))]):
        ctx.label("ctor/cfcheckpt")
        yield ("prop", "cfcheckpt_ctor", [r.choice([0, 0, 1, 255]), ctx.rbytes(32), [ctx.rbytes(32) for _ in range(n)],
                                          k % 2, ctx.rbytes(r.choice([0, 0, 3]))])

    # bloom filters at the edges of size (1..36000 bytes: bit counts around powers of two, CompactSize boundary),
    # function count (1..50) and tweak (uint32)
    bsizes = [1, 2, 3, 4, 31, 32, 33, 252, 253, 254, 255, 256, 257, 511, 512, 513, 8191, 8192, 8193, 35999, 36000]
    edge = [(1, 0), (50, 2 ** 32 - 1), (1, 2 ** 32 - 1), (50, 0), (2, 2 ** 31), (49, 2 ** 31 - 1), (50, 1)]
    for k, size in enumerate(bsizes):
        for j in range(2 if size < 8000 else 1):
            fc, tweak = edge[(k + 3 * j) % len(edge)] if j == 0 else (r.randrange(1, 51), r.getrandbits(32))
            items = [r.choice([ctx.rbytes(20), ctx.rbytes(32), ctx.rbytes(36), b"", ctx.rbytes(r.randrange(1, 8))])
                     for _ in range(r.randrange(0, 4))]
            ctx.label("ctor/bloom/size>=8000" if size >= 8000 else "ctor/bloom/size<8000")
            yield ("prop", "bloom_ctor", [size, fc, tweak, items, (k + j) % 2])
            if size < 600:
                yield ("corr", "bloom_core_wire", [size, fc, tweak, items, 1, items + [b"x"]])
    for (fc, tweak) in edge:
        ctx.label("ctor/bloom/edge-functions-tweak")
        yield ("prop", "bloom_ctor", [r.choice([1, 5, 64]), fc, tweak, [b"", ctx.rbytes(20), ctx.rbytes(33)], r.randrange(2)])

    # SipHash objects: data at construction / by update / split at every offset / keyword / aliases
    for n in list(range(0, 26)) + [31, 32, 33, 63, 64, 65, 255, 256, 257] + [r.randrange(26, 200) for _ in range(ctx.n(3, 60))]:
        key = r.choice([ctx.rbytes(16), ctx.rbytes(16), bytes(16), b"\xff" * 16])
        msg = ctx.rbytes(n)
        ctx.label(f"ctor/siphash/tail={n % 8}")
        yield ("prop", "sip_ctor", [key, msg])
        cut = r.randrange(0, n + 1)
        yield ("corr", "sip_object", [key, msg[:cut], [msg[cut:]]])
        yield ("corr", "sip_object", [key, msg, [b""]])
        yield ("corr", "sip_object", [key, b"", [msg]])
