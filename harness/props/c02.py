"""C02 — BIP340 Schnorr: signatures equal the specification, verification exactly per spec."""
from buidl import ecc as becc, hash as bhash, pecc, phash
from buidl.pecc import PrivateKey, S256Point, SchnorrSignature

from vp.core import ImplTimeout
from vp.sexp import ERR

from . import ecref
from .ecref import N, P

PID = "C02"
BUDGET_S = {"quick": 900, "thorough": 3300}
RULE = ("Keys of both public-key parities and nonces of both R parities (classes counted in the labels); "
        "secrets {1, 2, n-1, n-2, 2^128, 2^255} plus random; every single-bit flip of sampled valid signatures "
        "(all 512 in the thorough tier), flips of message and key bits; R = 0, R >= p, R not the x coordinate "
        "of a curve point, s in {0, n, n+1, 2^256-1}, s+n; public keys 0, >= p, off-curve; the official BIP340 "
        "test vectors; call histories of tagged_hash with repeated and fresh tags; point objects of both parities, the "
        "point at infinity and rejected constructor arguments; signature objects with s in range, s < 0, s >= n and "
        "odd-y R; SEC keys of 33 and 65 bytes and a wrong-parity prefix; signature strings of 0, 1, 31, 32, 33, 48, 62, 63, "
        "64, 65 and 96 bytes including a signature whose s starts with a zero byte; sessions mixing tagged_hash, sign "
        "and verify (succeeding and failing calls) observed together with the tags left in TAG_HASH_CACHE.  Entry-point "
        "audit: keys made by PrivateKey.parse of WIF texts (both networks, both compression flags), by the constructor "
        "with non-default arguments and by tweaked_key (default and explicit root); point objects made by scalar "
        "multiplication, +, point + int, combine of one / two equal / three differing points, negation, even_point(), "
        "parse_sec / parse_xonly and the constructor on field elements; key, point, signature objects and G observed "
        "again after sign / verify / repr / == / != and after calls that raised; every tagged-hash wrapper, failing "
        "tagged-hash calls followed by a retry; keys and R whose x starts with a zero byte; all-zero / all-ff triples; "
        "message = aux = key = R coincidences; signatures with s*G = e*P (R' at infinity); x-only keys p + small x; "
        "SEC strings with every wrong prefix and length.")
# the extraction self-check (vm_compute inside Coq) cannot run secp256k1 scalar multiplications in its time limit:
# the curve entry points are left to the extracted driver; parsers, lift_x, the codec and the tag cache are re-evaluated
VM_SKIP = {"sign_schnorr", "bip340_sign", "bip340_k", "verify_schnorr", "bip340_verify", "sign_schnorr_noaux",
           "bip340_k_noaux", "bip340_nonce", "sign_schnorr_obj", "verify_schnorr_point", "verify_schnorr_obj",
           "bip340_verify_canon", "api_session"}
TRUSTED = ["hashlib (sha256 is a universally quantified function in every theorem)",
           "CPython pow(b, e, m) — modelled by square-and-multiply (Model/Pecc.v modpow)",
           "harness reference implementation props/ecref.py (independent BIP340 on Python ints) — second judge "
           "next to the extracted Coq transcription Spec/Bip340.v"]
ASSUMPTIONS = ["scalar_laws secp256k1 (group axioms, order n, p and n prime) — explicit hypothesis of the C02 "
               "theorems about signing/verification, discharged on the toy curve only",
               "no curve point has x = 0 (7 is not a square mod p) — hypothesis of C02_verify_iff_bip340: the code "
               "maps the x-only key 0 to the point at infinity"]


def i_sign(d, m, a):
    return PrivateKey(d).sign_schnorr(m, a).serialize()


def i_bip340_k(d, m, a):
    return PrivateKey(d).bip340_k(m, a)


_vcache = {}


def i_verify(pk, m, sig):
    """deterministic, so memoised: the same triple is judged by the model, by the spec and by the reference"""
    key = (pk, m, sig)
    if key not in _vcache:
        if len(_vcache) > 20000:
            _vcache.clear()
        try:
            _vcache[key] = S256Point.parse(pk).verify_schnorr(m, SchnorrSignature.parse(sig))
        except Exception as e:  # noqa
            _vcache[key] = e
    v = _vcache[key]
    if isinstance(v, Exception):
        raise v
    return v


def i_accepts(pk, m, sig):
    try:
        return i_verify(pk, m, sig) is True
    except Exception:
        return False


def _pt(p):
    return [] if p.x is None else [p.x.num, p.y.num]


def i_schnorr_parse(sig):
    s = SchnorrSignature.parse(sig)
    return [_pt(s.r), s.s]


def i_lift_x(x):
    if x < 0:
        raise ValueError
    if x == 0:
        # the code maps 0 to the point at infinity; BIP340 lift_x(0) fails (7 is not a square)
        pt = S256Point.parse_xonly(bytes(32))
        if pt.x is None:
            raise ValueError("x = 0 is not on the curve")
        return _pt(pt)
    return _pt(S256Point.parse_xonly(x.to_bytes(32, "big")))


def i_tagged_history(calls):
    phash.TAG_HASH_CACHE.clear()
    return [phash.tagged_hash(t, m) for t, m in calls]


def i_sign_obj(d, m, a):
    so = PrivateKey(d).sign_schnorr(m, a)
    return [_pt(so.r), so.s]


def _mkpt(v):
    """the constructor call S256Point(x, y) on ints; [] = S256Point(None, None)"""
    return S256Point(None, None) if v == [] else S256Point(v[0], v[1])


def i_verify_point(pv, m, sig):
    return _mkpt(pv).verify_schnorr(m, SchnorrSignature.parse(sig))


def i_verify_obj(pv, m, rv, s):
    return _mkpt(pv).verify_schnorr(m, SchnorrSignature(_mkpt(rv), s))


def i_api_session(calls):
    """a call history sharing TAG_HASH_CACHE, started from the empty cache; returns every answer (ERR for an
    exception) and the tags in the cache afterwards, newest first"""
    phash.TAG_HASH_CACHE.clear()
    outs = []
    for c in calls:
        try:
            if c[0] == 0:
                o = phash.tagged_hash(c[1], c[2])
            elif c[0] == 1:
                o = PrivateKey(c[1]).sign_schnorr(c[2], c[3]).serialize()
            else:
                o = S256Point.parse(c[1]).verify_schnorr(c[2], SchnorrSignature.parse(c[3]))
        except ImplTimeout:
            raise
        except Exception:  # noqa
            o = ERR
        outs.append(o)
    return [outs, list(reversed(list(phash.TAG_HASH_CACHE.keys())))]


IMPL = {
    "sign_schnorr_noaux": lambda d, m: PrivateKey(d).sign_schnorr(m).serialize(),
    "bip340_k_noaux": lambda d, m: PrivateKey(d).bip340_k(m),
    "bip340_nonce": i_bip340_k,
    "sign_schnorr_obj": i_sign_obj,
    "schnorr_parse_eq": lambda a, b: SchnorrSignature.parse(a) == SchnorrSignature.parse(b),
    "schnorr_reserialize": lambda sig: SchnorrSignature.parse(sig).serialize(),
    "verify_schnorr_point": i_verify_point,
    "verify_schnorr_obj": i_verify_obj,
    "bip340_verify_canon": i_accepts,
    "api_session": i_api_session,
    "sign_schnorr": i_sign,
    "bip340_sign": i_sign,
    "bip340_k": i_bip340_k,
    "verify_schnorr": i_verify,
    "bip340_verify": i_accepts,
    "schnorr_parse": i_schnorr_parse,
    "parse_point": lambda b: _pt(S256Point.parse(b)),
    "lift_x": i_lift_x,
    "tagged_hash": lambda t, m: phash.tagged_hash(t, m),
    "tagged_hash_history": i_tagged_history,
}

# ---------------------------------------------------------------- property predicates


def p_sign(d, m, a):
    """signature == BIP340 reference, 64 bytes, verifies under the x-only key"""
    key = PrivateKey(d)
    sig = key.sign_schnorr(m, a).serialize()
    want = ecref.bip340_sign(d, m, a)
    if sig != want:
        return f"signature {sig.hex()} differs from BIP340 {want.hex() if want else None}"
    if len(sig) != 64:
        return "signature is not 64 bytes"
    pk = key.point.xonly()
    if pk != ecref.mul(d, ecref.G)[0].to_bytes(32, "big"):
        return "x-only public key differs from the reference"
    if i_verify(pk, m, sig) is not True:
        return "signature does not verify under the x-only key"
    if key.point.verify_schnorr(m, SchnorrSignature.parse(sig)) is not True:
        return "signature does not verify under the full point"
    if a == bytes(32) and key.sign_schnorr(m).serialize() != want:
        return "sign_schnorr without aux differs from BIP340 with 32 zero bytes of auxiliary randomness"
    return None


def p_nonce(d, m, a):
    """bip340_k == the BIP340 nonce int(hash_nonce(bytes(d_even) xor hash_aux(a) || bytes(P) || m)) mod n, where
    the xor operand t is always 32 bytes (leading zero bytes kept)"""
    key = PrivateKey(d)
    got, want = key.bip340_k(m, a), _ref_k0(d, m, a)
    if got != want:
        return f"bip340_k is {got}, BIP340 nonce is {want}"
    if a == bytes(32) and key.bip340_k(m) != want:
        return "bip340_k without aux differs from the nonce for 32 zero bytes of auxiliary randomness"
    return None


def p_verify_ref(pk, m, sig):
    """accept/reject == BIP340 Verify (reference); False and exceptions are both rejections"""
    got = i_accepts(pk, m, sig)
    want = ecref.bip340_verify(pk, m, sig)
    if got != want:
        return f"verify_schnorr {'accepts' if got else 'rejects'}, BIP340 {'accepts' if want else 'rejects'}"
    return None


def p_tagged(calls):
    """every call in the history returns sha256(sha256(tag) || sha256(tag) || msg)"""
    got = i_tagged_history(calls)
    for (t, m), g in zip(calls, got):
        if g != ecref.tagged(t, m):
            return f"tagged_hash({t!r}, {m.hex()}) wrong after history of {len(calls)} calls"
    # the cache is keyed by tag only
    for t, _ in calls:
        if phash.TAG_HASH_CACHE.get(t) != ecref.hashlib.sha256(t).digest() * 2:
            return "cache entry is not sha256(tag) * 2"
    return None


# the named wrappers of tagged_hash and the tag each must use (BIP340 / BIP341)
WRAPPERS = [("hash_aux", b"BIP0340/aux"), ("hash_nonce", b"BIP0340/nonce"), ("hash_challenge", b"BIP0340/challenge"),
            ("hash_taptweak", b"TapTweak"), ("hash_tapleaf", b"TapLeaf"), ("hash_tapbranch", b"TapBranch"),
            ("hash_tapsighash", b"TapSighash"),
            # appended by the entry-point audit (indices of the earlier entries are kept: replays refer to them)
            ("hash_keyaggcoef", b"KeyAgg coefficient"), ("hash_keyagglist", b"KeyAgg list"),
            ("hash_musignonce", b"MuSig/noncecoef")]


def p_tagged_wrappers(calls):
    """State kept across calls (module level).  A history of calls [w, msg] — w < len(WRAPPERS) selects a named
    wrapper (hash_aux, hash_nonce, ...), otherwise [tag, msg] calls tagged_hash directly — made WITHOUT clearing
    TAG_HASH_CACHE (whatever earlier cases left there stays): every answer is sha256(sha256(tag)*2 || msg) of
    the tag and message of THAT call."""
    for step, (w, m) in enumerate(calls):
        if isinstance(w, int):
            name, tag = WRAPPERS[w]
            got = getattr(bhash, name)(m)
        else:
            name, tag = "tagged_hash", w
            got = bhash.tagged_hash(w, m)
        if got != ecref.tagged(tag, m):
            return f"call {step}: {name}({tag!r}, {m.hex()}) is not the tagged hash of this tag and message"
    return None


def _ref_k0(d, m, a):
    pt = ecref.mul(d, ecref.G)
    de = d if pt[1] % 2 == 0 else N - d
    t = bytes(x ^ y for x, y in zip(de.to_bytes(32, "big"), ecref.tagged(b"BIP0340/aux", a)))
    return int.from_bytes(ecref.tagged(b"BIP0340/nonce", t + pt[0].to_bytes(32, "big") + m), "big") % N


def p_key_reuse(d, msgs, auxs, order):
    """State kept across calls.  ONE PrivateKey, ONE full public point, ONE x-only-parsed point and ONE
    SchnorrSignature object live through a call history: bip340_k over every (message, aux) combination forwards
    and backwards, sign_schnorr in the given order of [message index, aux index] pairs (aux index -1 = None,
    which must mean 32 zero bytes; repeats included), a caller editing a returned signature, every
    (message, signature) combination verified on both point objects, SchnorrSignature.r / .s edited in place,
    and a SchnorrSignature.parse history.  Every result must equal BIP340 for the CURRENT arguments."""
    key = PrivateKey(d)
    pkx = key.point.xonly()
    if pkx != ecref.mul(d, ecref.G)[0].to_bytes(32, "big"):
        return "x-only public key differs from the reference"

    def aux_of(j):
        return None if j < 0 else auxs[j]

    def aux_ref(j):
        return bytes(32) if j < 0 else auxs[j]

    combos = [(i, j) for i in range(len(msgs)) for j in range(-1, len(auxs))]
    for (i, j) in combos + combos[::-1]:
        got, want = key.bip340_k(msgs[i], aux_of(j)), _ref_k0(d, msgs[i], aux_ref(j))
        if got != want:
            return f"bip340_k(msg[{i}], aux[{j}]) on a reused key is {got}, BIP340 nonce is {want}"
    made = []
    for step, (i, j) in enumerate(order):
        so = key.sign_schnorr(msgs[i], aux_of(j))
        want = ecref.bip340_sign(d, msgs[i], aux_ref(j))
        if so.serialize() != want:
            return (f"call {step}: sign_schnorr(msg[{i}], aux[{j}]) on a reused key gives {so.serialize().hex()}, "
                    f"BIP340 gives {want.hex()}")
        made.append((i, j, so, want))
    for (i, j, so, want) in made[:2]:
        so.s = (so.s + 1) % N
        so.r = pecc.G
        if key.sign_schnorr(msgs[i], aux_of(j)).serialize() != want:
            return "sign_schnorr changed after the caller edited the SchnorrSignature returned earlier"
    # verification: every (message, signature) combination, on the key's own point object and on ONE parsed one
    sigs = [ecref.bip340_sign(d, m, aux_ref(0)) for m in msgs]
    pts = [("key.point", key.point), ("parse(xonly)", S256Point.parse(pkx))]
    pairs = [(i, j) for i in range(len(msgs)) for j in range(len(msgs))]
    pairs = pairs[:1] + pairs[::-1] + pairs[:1]
    for (i, j) in pairs:
        want = ecref.bip340_verify(pkx, msgs[i], sigs[j])
        for nm, pt in pts:
            got = pt.verify_schnorr(msgs[i], SchnorrSignature.parse(sigs[j]))
            if got is not want:
                return f"verify_schnorr(msg[{i}], signature over msg[{j}]) on the reused {nm} answers {got!r}, BIP340 {want}"
    # ONE SchnorrSignature object edited in place
    a, b = sigs[0], sigs[-1]
    so = SchnorrSignature.parse(a)
    rb = SchnorrSignature.parse(b)
    if so.serialize() != a or key.point.verify_schnorr(msgs[0], so) is not True:
        return "SchnorrSignature object: serialize/verify wrong before any edit"
    cur = a
    for fld, val, enc in (("s", rb.s, a[:32] + b[32:]), ("r", rb.r, b), ("s", (rb.s + 1) % N,
                          b[:32] + ((rb.s + 1) % N).to_bytes(32, "big")), ("s", rb.s, b), ("r", S256Point.parse(a[:32]), a[:32] + b[32:])):
        setattr(so, fld, val)
        cur = enc
        if so.serialize() != cur:
            return f"SchnorrSignature.serialize() after setting .{fld} in place is not the encoding of the current fields"
        i = len(msgs) - 1 if cur == b else 0
        got, want = key.point.verify_schnorr(msgs[i], so), ecref.bip340_verify(pkx, msgs[i], cur)
        if got is not want:
            return f"verify_schnorr with a signature object edited in place (.{fld}) answers {got!r}, BIP340 {want}"
    for e in sigs + sigs[::-1]:
        if SchnorrSignature.parse(e).serialize() != e:
            return f"SchnorrSignature.parse({e.hex()}) in a call history re-serialises differently"
    return None


def canon64(sig):
    """what SchnorrSignature.parse reads of a string of at least 32 bytes, as a 64-byte string"""
    return sig[:32] + int.from_bytes(sig[32:64], "big").to_bytes(32, "big")


def p_any_length(pk, m, sig):
    """signature strings of any length: fewer than 32 bytes are rejected; otherwise accepted exactly when BIP340
    accepts the canonical 64-byte form (first 32 bytes, bytes 32..63 as an integer); the re-serialisation of an
    accepted string is that form"""
    got = i_accepts(pk, m, sig)
    want = len(sig) >= 32 and ecref.bip340_verify(pk, m, canon64(sig))
    if got != want:
        return f"verify_schnorr {'accepts' if got else 'rejects'} a {len(sig)}-byte string, BIP340 on its canonical form {'accepts' if want else 'rejects'}"
    try:
        so = SchnorrSignature.parse(sig)
    except Exception:  # noqa
        return None
    if len(sig) < 32:
        return "SchnorrSignature.parse accepts fewer than 32 bytes"
    if so.serialize() != canon64(sig):
        return "SchnorrSignature.parse(sig).serialize() is not the canonical form of sig"
    return None


def p_sec_key(d, m, sig):
    """a key given as a SEC string (compressed or uncompressed, either parity) or as the point object itself
    verifies exactly like its x-only form"""
    pt = PrivateKey(d).point
    want = ecref.bip340_verify(pt.xonly(), m, sig) if len(sig) == 64 else i_accepts(pt.xonly(), m, sig)
    for nm, kb in (("compressed SEC", pt.sec(True)), ("uncompressed SEC", pt.sec(False)), ("x-only", pt.xonly())):
        if i_accepts(kb, m, sig) != want:
            return f"verification under the {nm} key differs from BIP340 under the x-only key ({want})"
    try:
        got = pt.verify_schnorr(m, SchnorrSignature.parse(sig)) is True
    except Exception:  # noqa
        got = False
    if got != want:
        return f"verification on the point object differs from BIP340 under the x-only key ({want})"
    return None


def p_other_s(d, m, a, sb):
    """for the key, the message and the R of a produced signature exactly one s is accepted"""
    key = PrivateKey(d)
    sig = key.sign_schnorr(m, a).serialize()
    cand = sig[:32] + sb
    got = i_accepts(key.point.xonly(), m, cand)
    if got != (cand == sig):
        return f"R || {sb.hex()} is {'accepted' if got else 'rejected'}; the signature has s = {sig[32:].hex()}"
    return None


def p_sig_object(d, m, a):
    """the SchnorrSignature object returned by sign_schnorr: R has even y, s < n, and
    parse(serialize()) == the object; parse(x) == parse(y) exactly when x == y"""
    so = PrivateKey(d).sign_schnorr(m, a)
    if so.r.x is None or so.r.y.num % 2 != 0:
        return "the signature object's R is not a finite point with even y"
    if not 0 <= so.s < N:
        return "the signature object's s is out of range"
    ser = so.serialize()
    back = SchnorrSignature.parse(ser)
    if not (back == so) or back.r.x.num != so.r.x.num or back.r.y.num != so.r.y.num or back.s != so.s:
        return "SchnorrSignature.parse(sig.serialize()) is not the signature object"
    other = ser[:63] + bytes([ser[63] ^ 1])
    try:
        if SchnorrSignature.parse(other) == so:
            return "two different 64-byte strings parse to == objects"
    except Exception:  # noqa
        pass
    return None


def p_session(calls):
    """State kept across calls.  A history of tagged_hash / sign / verify calls sharing TAG_HASH_CACHE (started from
    whatever earlier cases left in it): every answer equals the reference computed without any cache"""
    for step, c in enumerate(calls):
        try:
            if c[0] == 0:
                got, want = phash.tagged_hash(c[1], c[2]), ecref.tagged(c[1], c[2])
            elif c[0] == 1:
                want = ecref.bip340_sign(c[1], c[2], c[3]) if len(c[2]) == 32 and len(c[3]) == 32 else None
                try:
                    got = PrivateKey(c[1]).sign_schnorr(c[2], c[3]).serialize()
                except ImplTimeout:
                    raise
                except Exception:  # noqa
                    got = None
            else:
                got, want = i_accepts(c[1], c[2], c[3]), ecref.bip340_verify(c[1], c[2], c[3])
        except ImplTimeout:
            raise
        if got != want:
            return f"call {step} of the session (kind {c[0]}) answers differently from the cache-free reference"
    for t, v in phash.TAG_HASH_CACHE.items():
        if v != ecref.hashlib.sha256(t).digest() * 2:
            return "a TAG_HASH_CACHE entry is not sha256(tag) * 2 after the session"
    return None


# ---------------------------------------------------------------- entry-point audit (alternative constructors, defaults,
# derived point objects, sources used again after a result was produced, failing calls followed by a retry)

_B58 = "123456789ABCDEFGHJKLMNPQRSTUVWXYZabcdefghijkmnopqrstuvwxyz"


def ref_b58check(raw):
    """independent Base58Check encoder (hashlib only)"""
    raw = raw + ecref.hashlib.sha256(ecref.hashlib.sha256(raw).digest()).digest()[:4]
    n, out = int.from_bytes(raw, "big"), ""
    while n:
        n, rem = divmod(n, 58)
        out = _B58[rem] + out
    return "1" * (len(raw) - len(raw.lstrip(b"\x00"))) + out


def ref_wif(d, mainnet, compressed):
    return ref_b58check((b"\x80" if mainnet else b"\xef") + b32(d) + (b"\x01" if compressed else b""))


def _pt_is(pt, q):
    """the S256Point object pt is the reference point q (None = infinity), with a consistent parity attribute"""
    if q is None:
        return pt.x is None and pt.y is None
    return (pt.x is not None and pt.x.num == q[0] and pt.y.num == q[1] and pt.parity == q[1] % 2
            and pt.sec(True) == bytes([2 + q[1] % 2]) + b32(q[0]) and pt.sec(False) == b"\x04" + b32(q[0]) + b32(q[1])
            and pt.xonly() == b32(q[0]))


def p_key_entry(d, m, a, mr, which):
    """every way of making a PrivateKey signs like BIP340 for ITS secret: PrivateKey.parse of a WIF text (either
    network, with and without the compression flag), the constructor with non-default network / compressed
    arguments and keywords, and PrivateKey.tweaked_key (default and explicit merkle root: secret =
    even_secret + int(hash_TapTweak(x || root)) mod n)"""
    q = ecref.mul(d, ecref.G)
    want = ecref.bip340_sign(d, m, a)
    k0 = _ref_k0(d, m, a)
    made = []
    for i, (mainnet, compressed) in enumerate(((True, True), (True, False), (False, True), (False, False))):
        made.append(("PrivateKey.parse(%s WIF, %scompressed)" % ("mainnet" if mainnet else "testnet", "" if compressed else "un"),
                     PrivateKey.parse(ref_wif(d, mainnet, compressed)), i == which % 4))
    made.append(("PrivateKey(d, 'testnet', False)", PrivateKey(d, "testnet", False), which % 4 == 0))
    made.append(("PrivateKey(secret=d, compressed=False, network='signet')", PrivateKey(secret=d, compressed=False, network="signet"), which % 4 == 1))
    for nm, key, do_sign in made:
        if key.secret != d or not _pt_is(key.point, q):
            return f"{nm}: secret or public point differ from the reference"
        if key.even_secret() != (d if q[1] % 2 == 0 else N - d):
            return f"{nm}: even_secret() is not the secret of the even-y point"
        if key.bip340_k(m, a) != k0:
            return f"{nm}: bip340_k differs from the BIP340 nonce"
        if do_sign:
            got = key.sign_schnorr(m, a).serialize()
            if got != want:
                return f"{nm}: sign_schnorr gives {got.hex()}, BIP340 gives {want.hex()}"
    # tweaked keys
    de = d if q[1] % 2 == 0 else N - d
    base = PrivateKey(d)
    for nm, root, tk in (("tweaked_key()", b"", base.tweaked_key()), ("tweaked_key(root)", mr, base.tweaked_key(mr))):
        t = int.from_bytes(ecref.tagged(b"TapTweak", b32(q[0]) + root), "big")
        dt = (de + t) % N
        if tk.secret != dt or not _pt_is(tk.point, ecref.mul(dt, ecref.G)):
            return f"{nm}: the tweaked secret is not even_secret + int(hash_TapTweak(x || root)) mod n"
        if (nm == "tweaked_key(root)") == (which % 2 == 0):
            got, wt = tk.sign_schnorr(m, a).serialize(), ecref.bip340_sign(dt, m, a)
            if got != wt:
                return f"{nm}: sign_schnorr of the tweaked key gives {got.hex()}, BIP340 gives {wt.hex()}"
            if not ecref.bip340_verify(b32(ecref.mul(dt, ecref.G)[0]), m, got):
                return f"{nm}: signature of the tweaked key does not verify (reference)"
    if base.secret != d or not _pt_is(base.point, q):
        return "tweaked_key changed the key it was called on"
    return None


NO_VERIFY = ("d1 * G", "parse_xonly", "S256Point(S256Field, S256Field)", "S256Point(x=, y=)")   # main path: verified elsewhere
BAD_TOO = ("combine([P1, P2, P3])", "-1 * P1", "P1.even_point()", "P1 + d2 (int)")


def p_derived_points(d1, d2, d3, m, a):
    """public-key OBJECTS that were not parsed from an x-only string: scalar * G, sums (point + point, point + int,
    S256Point.combine of one, two and three DIFFERENT points), negation, even_point(), parse_sec / parse_xonly
    called directly, the constructor on field elements.  Each equals the reference point, verifies the BIP340
    reference signature of its secret, rejects that signature with one bit flipped, and the operands are unchanged
    afterwards"""
    G0 = pecc.G
    qs = [ecref.mul(d, ecref.G) for d in (d1, d2, d3)]
    ps = [d * G0 for d in (d1, d2, d3)]
    for p_, q in zip(ps, qs):
        if not _pt_is(p_, q):
            return "d * G is not the reference point"
    P1, P2, P3 = ps
    q1 = qs[0]
    cases = [("d1 * G", P1, d1),
             ("P1 + P2", P1 + P2, d1 + d2),
             ("P1 + d2 (int)", P1 + d2, d1 + d2),
             ("combine([P1])", S256Point.combine([P1]), d1),
             ("combine([P1, P2])", S256Point.combine([P1, P2]), d1 + d2),
             ("combine([P1, P2, P3])", S256Point.combine([P1, P2, P3]), d1 + d2 + d3),
             ("combine([P3, P1, P1])", S256Point.combine([P3, P1, P1]), d3 + 2 * d1),
             ("combine([P1, P1])", S256Point.combine([P1, P1]), 2 * d1),
             ("-1 * P1", -1 * P1, N - d1),
             ("P1.even_point()", P1.even_point(), d1 if q1[1] % 2 == 0 else N - d1),
             ("(-1 * P1).even_point()", (-1 * P1).even_point(), d1 if q1[1] % 2 == 0 else N - d1),
             ("parse_sec(compressed)", S256Point.parse_sec(bytes([2 + q1[1] % 2]) + b32(q1[0])), d1),
             ("parse_sec(uncompressed)", S256Point.parse_sec(b"\x04" + b32(q1[0]) + b32(q1[1])), d1),
             ("parse_xonly", S256Point.parse_xonly(b32(q1[0])), d1 if q1[1] % 2 == 0 else N - d1),
             ("S256Point(S256Field, S256Field)", S256Point(pecc.S256Field(q1[0]), pecc.S256Field(q1[1])), d1),
             ("S256Point(x=, y=)", S256Point(y=q1[1], x=q1[0]), d1)]
    sigs = {}
    for nm, pt, dd in cases:
        dd %= N
        if dd == 0:
            continue
        q = ecref.mul(dd, ecref.G)
        if not _pt_is(pt, q):
            return f"{nm} is not the reference point of its secret"
        if nm in NO_VERIFY:
            continue
        if dd not in sigs:
            sigs[dd] = ecref.bip340_sign(dd, m, a)
        sg = sigs[dd]
        bad = sg[:40] + bytes([sg[40] ^ 4]) + sg[41:]        # another s for the same R: never valid
        for s_, want in ((sg, True), (bad, False))[:2 if nm in BAD_TOO else 1]:
            try:
                got = pt.verify_schnorr(m, SchnorrSignature.parse(s_))
            except ImplTimeout:
                raise
            except Exception:  # noqa
                got = False
            if got is not want:
                return f"verify_schnorr on {nm} answers {got!r}, BIP340 under its x coordinate answers {want}"
        if not _pt_is(pt, q):
            return f"{nm} changed during verification"
    # the neutral element produced by the library itself is no key
    inf = S256Point.combine([P1, -1 * P1])
    if inf.x is not None:
        return "combine([P, -P]) is not the point at infinity"
    sv = 2
    while ecref.mul(sv, ecref.G)[1] % 2:
        sv += 1
    crafted = b32(ecref.mul(sv, ecref.G)[0]) + b32(sv)
    try:
        got = inf.verify_schnorr(m, SchnorrSignature.parse(crafted))
    except ImplTimeout:
        raise
    except Exception:  # noqa
        got = False
    if got is not False:
        return "verify_schnorr on the point at infinity accepts a signature (x(sG), s)"
    for p_, q in zip(ps, qs):
        if not _pt_is(p_, q):
            return "an operand of +, combine, negation or even_point() changed"
    if not _pt_is(G0, ecref.G) or pecc.G is not G0:
        return "the generator object changed"
    return None


def p_unchanged(d, m, a, m2):
    """State kept across calls.  Sources are used again AFTER results were produced from them, and failing calls are
    followed by a retry on the same objects: the key's secret and point, the module's G, a SEC-parsed point of the
    key's own parity, a returned signature object and a parsed one keep their values through sign / verify / repr /
    == / != / serialize calls; a sign_schnorr / bip340_k call that raises (wrong lengths) leaves nothing behind"""
    q = ecref.mul(d, ecref.G)
    pkx = b32(q[0])
    G0 = pecc.G
    key = PrivateKey(d)
    sec_pt = S256Point.parse(bytes([2 + q[1] % 2]) + b32(q[0]))
    want, want2, want_def = ecref.bip340_sign(d, m, a), ecref.bip340_sign(d, m2, a), ecref.bip340_sign(d, m, bytes(32))
    Rq = ecref.lift_x(int.from_bytes(want[:32], "big"))

    def state():
        if key.secret != d or key.network != "mainnet" or key.compressed is not True:
            return "the key's secret / network / compressed attribute changed"
        if not _pt_is(key.point, q):
            return "the key's public point changed"
        if not _pt_is(sec_pt, q):
            return "a point parsed from the SEC key changed"
        if not _pt_is(G0, ecref.G) or pecc.G is not G0 or pecc.N != N or pecc.P != P:
            return "the module's generator / constants changed"
        if (becc.PrivateKey is not PrivateKey or becc.S256Point is not S256Point or becc.SchnorrSignature is not SchnorrSignature
                or becc.G is not G0 or becc.N != N or bhash.tagged_hash is not phash.tagged_hash):
            return "buidl.ecc / buidl.hash do not export the objects of buidl.pecc / buidl.phash"
        return None

    def failing(f, *args):
        try:
            f(*args)
        except ImplTimeout:
            raise
        except Exception:  # noqa
            return True
        return False

    # failing calls first, then the retry
    for f, args in ((key.sign_schnorr, (m[:31], a)), (key.bip340_k, (m, a[:31])), (key.sign_schnorr, (m + b"\x00",)),
                    (key.bip340_k, (b"", None)), (key.sign_schnorr, (m, a + a))):
        if not failing(f, *args):
            return "sign_schnorr / bip340_k accepts a message or aux that is not 32 bytes"
        st = state()
        if st:
            return st + " (after a call that raised)"
    so = key.sign_schnorr(m, a)
    if so.serialize() != want:
        return "sign_schnorr after calls that raised differs from BIP340"
    if key.bip340_k(m, a) != _ref_k0(d, m, a):
        return "bip340_k after calls that raised differs from BIP340"
    st = state()
    if st:
        return st + " (after sign_schnorr)"
    repr(so), repr(key.point), repr(sec_pt), key.hex()
    so2 = key.sign_schnorr(m2, a)
    so3 = key.sign_schnorr(m)
    if so2.serialize() != want2 or so3.serialize() != want_def:
        return "second / default-aux signature on the same key differs from BIP340"
    if so.serialize() != want or so.s != int.from_bytes(want[32:], "big") or not _pt_is(so.r, Rq):
        return "a signature object returned earlier changed when the key signed again"
    # verification: valid, invalid, failing (infinity R, short string), valid again - all on the same objects
    ps = SchnorrSignature.parse(want)
    for pt_name, pt in (("key.point", key.point), ("SEC-parsed point", sec_pt)):
        for sgo, msg, w in ((ps, m, True), (so2, m, m == m2), (so2, m2, True))[:3 if pt is key.point else 2]:
            if pt.verify_schnorr(msg, sgo) is not w:
                return f"verify_schnorr on the {pt_name} used again answers differently from BIP340"
        if not failing(lambda: pt.verify_schnorr(m, SchnorrSignature.parse(want[:31]))):
            return "a 31-byte signature string is accepted"
        if pt.verify_schnorr(m, SchnorrSignature(S256Point(None, None), so.s)) is not False:
            return "a signature object whose R is the point at infinity is accepted"
        if pt.verify_schnorr(m, ps) is not True:
            return f"verify_schnorr on the {pt_name} rejects the valid signature after rejected ones"
        st = state()
        if st:
            return st + f" (after verify_schnorr on the {pt_name})"
    if ps.serialize() != want or ps.s != so.s or not _pt_is(ps.r, Rq) or not _pt_is(so.r, Rq):
        return "a signature object changed during verification"
    # == and != of signature objects agree with the encodings
    objs = [(so, want), (ps, want), (so2, want2), (so3, want_def), (SchnorrSignature(so.r, so2.s), want[:32] + want2[32:]),
            (SchnorrSignature(-1 * so.r, so.s), None)]
    for x, ex in objs:
        for y, ey in objs:
            same = ex is not None and ey is not None and ex == ey or x is y
            if (x == y) is not same or (x != y) is same:
                return "== / != of two signature objects disagrees with (R, s) equality"
    return state()


def ref_key_point(kb):
    """independent decoder of a public-key string: 32 bytes = BIP340 x-only (lift_x), 33 bytes = 02/03 || x,
    65 bytes = 04 || x || y on the curve; anything else is no key (None)"""
    if len(kb) == 32:
        return ecref.lift_x(int.from_bytes(kb, "big"))
    if len(kb) == 33 and kb[0] in (2, 3):
        pt = ecref.lift_x(int.from_bytes(kb[1:], "big"))
        return None if pt is None else (pt[0], pt[1] if pt[1] % 2 == kb[0] - 2 else P - pt[1])
    if len(kb) == 65 and kb[0] == 4:
        pt = (int.from_bytes(kb[1:33], "big"), int.from_bytes(kb[33:], "big"))
        return pt if ecref.on_curve(pt) else None
    return None


def p_key_string(kb, m, sig):
    """a key string of any length and prefix: S256Point.parse yields exactly the point of the independent decoder
    (or fails when there is none), and verification under it is BIP340 verification under that point's x"""
    want_pt = ref_key_point(kb)
    try:
        pt = S256Point.parse(kb)
    except ImplTimeout:
        raise
    except Exception:  # noqa
        pt = None
    if pt is not None and pt.x is None:
        pt = None if want_pt is None and int.from_bytes(kb, "big") == 0 and len(kb) == 32 else pt   # x-only 0 (known mapping)
    if (pt is None) != (want_pt is None):
        return f"S256Point.parse {'accepts' if pt is not None else 'rejects'} a {len(kb)}-byte key string with prefix {kb[:1].hex()}, the reference decoder {'accepts' if want_pt else 'rejects'}"
    if pt is not None and not _pt_is(pt, want_pt):
        return "S256Point.parse yields a different point from the reference decoder"
    got = i_accepts(kb, m, sig)
    want = want_pt is not None and ecref.bip340_verify(b32(want_pt[0]), m, sig)
    if got != want:
        return f"verify_schnorr under a {len(kb)}-byte key string {'accepts' if got else 'rejects'}, BIP340 under the decoded point {'accepts' if want else 'rejects'}"
    return None


def p_tagged_retry(tag, msg, w):
    """State kept across calls (TAG_HASH_CACHE is NOT cleared).  A tagged-hash call that raises (message of a
    wrong type) - on tagged_hash itself and on the named wrapper w - is followed by correct answers for the same
    tag, and leaves no wrong cache entry; a tag given as a read-only memoryview is the same tag"""
    name, wtag = WRAPPERS[w]
    for bad in (None, 5, "text"):
        for f, args in ((phash.tagged_hash, (tag, bad)), (getattr(bhash, name), (bad,))):
            try:
                f(*args)
                return "a message that is not bytes is hashed"
            except ImplTimeout:
                raise
            except Exception:  # noqa
                pass
        if phash.tagged_hash(tag, msg) != ecref.tagged(tag, msg):
            return "tagged_hash after a call that raised is wrong"
        if getattr(bhash, name)(msg) != ecref.tagged(wtag, msg):
            return f"{name} after a call that raised is wrong"
    try:
        got = phash.tagged_hash(memoryview(tag), msg)
    except ImplTimeout:
        raise
    except Exception:  # noqa
        got = None
    if got is not None and got != ecref.tagged(tag, msg):
        return "tagged_hash with the tag given as a memoryview is wrong"
    if phash.tagged_hash(tag, msg) != ecref.tagged(tag, msg):
        return "tagged_hash after a memoryview tag is wrong"
    for t, v in phash.TAG_HASH_CACHE.items():
        if bytes(v) != ecref.hashlib.sha256(bytes(t)).digest() * 2:
            return "a TAG_HASH_CACHE entry is not sha256(tag) * 2 after calls that raised"
    return None



PROPS = {"key_entry": p_key_entry, "derived_points": p_derived_points, "unchanged": p_unchanged,
         "tagged_retry": p_tagged_retry, "key_string": p_key_string, "any_length": p_any_length, "sec_key": p_sec_key, "other_s": p_other_s, "sig_object": p_sig_object,
         "session": p_session, "sign": p_sign, "nonce": p_nonce, "verify_ref": p_verify_ref, "tagged": p_tagged,
         "tagged_wrappers": p_tagged_wrappers, "key_reuse": p_key_reuse}

# ---------------------------------------------------------------- official BIP340 test vectors
# (index, secret, pubkey, aux, msg, sig, result) — from bip-0340/test-vectors.csv, 32-byte messages only
VECTORS = [
    (0, "0000000000000000000000000000000000000000000000000000000000000003",
     "F9308A019258C31049344F85F89D5229B531C845836F99B08601F113BCE036F9",
     "0000000000000000000000000000000000000000000000000000000000000000",
     "0000000000000000000000000000000000000000000000000000000000000000",
     "E907831F80848D1069A5371B402410364BDF1C5F8307B0084C55F1CE2DCA821525F66A4A85EA8B71E482A74F382D2CE5EBEEE8FDB2172F477DF4900D310536C0",
     True),
    (1, "B7E151628AED2A6ABF7158809CF4F3C762E7160F38B4DA56A784D9045190CFEF",
     "DFF1D77F2A671C5F36183726DB2341BE58FEAE1DA2DECED843240F7B502BA659",
     "0000000000000000000000000000000000000000000000000000000000000001",
     "243F6A8885A308D313198A2E03707344A4093822299F31D0082EFA98EC4E6C89",
     "6896BD60EEAE296DB48A229FF71DFE071BDE413E6D43F917DC8DCF8C78DE33418906D11AC976ABCCB20B091292BFF4EA897EFCB639EA871CFA95F6DE339E4B0A",
     True),
    (2, "C90FDAA22168C234C4C6628B80DC1CD129024E088A67CC74020BBEA63B14E5C9",
     "DD308AFEC5777E13121FA72B9CC1B7CC0139715309B086C960E18FD969774EB8",
     "C87AA53824B4D7AE2EB035A2B5BBBCCC080E76CDC6D1692C4B0B62D798E6D906",
     "7E2D58D8B3BCDF1ABADEC7829054F90DDA9805AAB56C77333024B9D0A508B75C",
     "5831AAEED7B44BB74E5EAB94BA9D4294C49BCF2A60728D8B4C200F50DD313C1BAB745879A5AD954A72C45A91C3A51D3C7ADEA98D82F8481E0E1E03674A6F3FB7",
     True),
    (3, "0B432B2677937381AEF05BB02A66ECD012773062CF3FA2549E44F58ED2401710",
     "25D1DFF95105F5253C4022F628A996AD3A0D95FBF21D468A1B33F8C160D8F517",
     "FFFFFFFFFFFFFFFFFFFFFFFFFFFFFFFFFFFFFFFFFFFFFFFFFFFFFFFFFFFFFFFF",
     "FFFFFFFFFFFFFFFFFFFFFFFFFFFFFFFFFFFFFFFFFFFFFFFFFFFFFFFFFFFFFFFF",
     "7EB0509757E246F19449885651611CB965ECC1A187DD51B64FDA1EDC9637D5EC97582B9CB13DB3933705B32BA982AF5AF25FD78881EBB32771FC5922EFC66EA3",
     True),
]
# verification-only vectors are checked against the reference before use (see generate): a mis-remembered
# vector is dropped and counted under the label "vectors/dropped".
VERIFY_VECTORS = [
    (4, "D69C3509BB99E412E68B0FE8544E72837DFA30746D8BE2AA65975F29D22DC7B9",
     "4DF3C3F68FCC83B27E9D42C90431A72499F17875C81A599B566C9889B9696703",
     "00000000000000000000003B78CE563F89A0ED9414F5AA28AD0D96D6795F9C6376AFB1548AF603B3EB45C9F8207DEE1060CB71C04E80F593060B07D28308D7F4",
     True),
    (5, "EEFDEA4CDB677750A420FEE807EACF21EB9898AE79B9768766E4FAA04A2D4A34",
     "243F6A8885A308D313198A2E03707344A4093822299F31D0082EFA98EC4E6C89",
     "6CFF5C3BA86C69EA4B7376F31A9BCB4F74C1976089B2D9963DA2E5543E17776969E89B4C5564D00349106B8497785DD7D1D713A8AE82B32FA79D5F7FC407D39B",
     False),   # public key not on the curve
    (14, "FFFFFFFFFFFFFFFFFFFFFFFFFFFFFFFFFFFFFFFFFFFFFFFFFFFFFFFEFFFFFC30",
     "243F6A8885A308D313198A2E03707344A4093822299F31D0082EFA98EC4E6C89",
     "6CFF5C3BA86C69EA4B7376F31A9BCB4F74C1976089B2D9963DA2E5543E17776969E89B4C5564D00349106B8497785DD7D1D713A8AE82B32FA79D5F7FC407D39B",
     False),   # public key is >= p
]

# ---------------------------------------------------------------- generators

SECRETS = [1, 2, 3, N - 1, N - 2, 2 ** 128, 2 ** 255, 2 ** 255 - 1]
BAD_SECRETS = [0, -1, N, N + 1, 2 ** 256]
TWO256 = 2 ** 256


def b32(x):
    return x.to_bytes(32, "big")


def rscalar(r):
    c = r.random()
    if c < 0.15:
        return r.choice(SECRETS)
    if c < 0.25:
        return r.getrandbits(r.randrange(1, 256)) % (N - 1) + 1
    return r.randrange(1, N)


def off_curve_x(r):
    while True:
        x = r.randrange(1, P)
        if ecref.lift_x(x) is None:
            return x


def on_curve_x(r):
    while True:
        x = r.randrange(1, P)
        if ecref.lift_x(x) is not None:
            return x


def sig_mutations(r, d, pk, m, sig, nflips):
    rb, sb = sig[:32], sig[32:]
    rr, s = int.from_bytes(rb, "big"), int.from_bytes(sb, "big")
    yield "valid", (pk, m, sig)
    # signer-side forgery of the parity rule: s' = 2*e*d_even - s gives R' = -R (same x, odd y)
    q = ecref.mul(d, ecref.G)
    de = d if q[1] % 2 == 0 else N - d
    e = int.from_bytes(ecref.tagged(b"BIP0340/challenge", rb + pk + m), "big") % N
    yield "R-negated(odd-y)", (pk, m, rb + b32((2 * e * de - s) % N))
    # ... and of the key parity: the signature made with the un-normalised secret (odd-y key)
    yield "s-for-odd-key", (pk, m, rb + b32((s - 2 * e * de) % N))
    yield "R=0", (pk, m, bytes(32) + sb)
    yield "R=p", (pk, m, b32(P) + sb)
    yield "R=p+x", (pk, m, b32(P + rr) + sb if P + rr < TWO256 else b32(TWO256 - 1) + sb)
    yield "R=2^256-1", (pk, m, b32(TWO256 - 1) + sb)
    yield "R-off-curve", (pk, m, b32(off_curve_x(r)) + sb)
    yield "R-other-point", (pk, m, b32(on_curve_x(r)) + sb)
    yield "R=Px", (pk, m, pk + sb)
    yield "s=0", (pk, m, rb + bytes(32))
    yield "s=n", (pk, m, rb + b32(N))
    yield "s=n+1", (pk, m, rb + b32(N + 1))
    yield "s=n-1", (pk, m, rb + b32(N - 1))
    yield "s=2^256-1", (pk, m, rb + b32(TWO256 - 1))
    if s + N < TWO256:
        yield "s+n", (pk, m, rb + b32(s + N))
    yield "s=n-s", (pk, m, rb + b32((N - s) % N))
    yield "s+1", (pk, m, rb + b32((s + 1) % N))
    yield "msg-flip", (pk, bytes([m[0] ^ 1]) + m[1:], sig)
    yield "msg-empty", (pk, b"", sig)
    yield "key-flip", (bytes([pk[0] ^ 0x40]) + pk[1:], m, sig)
    yield "key=0", (bytes(32), m, sig)
    yield "key=p", (b32(P), m, sig)
    yield "key=p+1", (b32(P + 1), m, sig)
    yield "key-off-curve", (b32(off_curve_x(r)), m, sig)
    yield "key-other", (b32(on_curve_x(r)), m, sig)
    yield "sig-short-63", (pk, m, sig[:63])
    yield "sig-short-32", (pk, m, sig[:32])
    yield "sig-empty", (pk, m, b"")
    yield "sig-long-65", (pk, m, sig + b"\x00")
    bits = list(range(512))
    if nflips < 512:
        bits = r.sample(bits, nflips)
    for b in bits:
        bad = bytearray(sig)
        bad[b // 8] ^= 0x80 >> (b % 8)
        yield "bitflip", (pk, m, bytes(bad))


def leading_zero_t(r, ctx, nz, aux):
    """secrets d (both public-key parities) for which t = bytes(d_even) xor hash_aux(aux) starts with nz zero
    bytes (nz = 32: t is all zero): the even secret e copies the first nz bytes of the mask; e*G must have
    even y (then even_secret(e) = even_secret(n - e) = e)"""
    mask = ecref.tagged(b"BIP0340/aux", aux)
    for _ in range(400):
        rest = ctx.rbytes(32 - nz)
        if rest and rest[0] == mask[nz]:
            continue                      # exactly nz leading zero bytes
        e = int.from_bytes(mask[:nz] + rest, "big")
        if 1 <= e < N and ecref.mul(e, ecref.G)[1] % 2 == 0:
            return [e, N - e]
    return []


# a signature whose s starts with a zero byte (found by search over aux): dropping that byte gives a 63-byte
# string that SchnorrSignature.parse reads as the same (R, s) — the "short read" class of the any-length theorems
LEADING_ZERO_S = (3, bytes(32), (339).to_bytes(32, "big"))


def _generate_ext(ctx):
    """object-level API, defaults, SEC keys, signature strings of any length, the 64-byte codec, s uniqueness, sessions
    sharing TAG_HASH_CACHE (theorems C02_verify_object .. C02_api_session_transparent)"""
    r = ctx.rng
    keys = [3, N - 3, 2 ** 200 + 7] + [rscalar(r) for _ in range(ctx.n(2, 40))]
    # make sure both public-key parities occur
    par = {ecref.mul(d, ecref.G)[1] % 2 for d in keys}
    d = 5
    while len(par) < 2:
        if ecref.mul(d, ecref.G)[1] % 2 not in par:
            keys.append(d)
            par.add(ecref.mul(d, ecref.G)[1] % 2)
        d += 1
    signed = []
    for i, d in enumerate(keys):
        m, a = ctx.rbytes(32), ctx.rbytes(32)
        q = ecref.mul(d, ecref.G)
        sig = ecref.bip340_sign(d, m, a)
        signed.append((d, q, m, a, sig))
        ctx.label("ext/P-odd" if q[1] % 2 else "ext/P-even")
        yield ("corr", "sign_schnorr_obj", [d, m, a])
        yield ("corr", "bip340_nonce", [d, m, a])
        yield ("prop", "sig_object", [d, m, a])
        if i < ctx.n(2, 12):
            yield ("corr", "sign_schnorr_noaux", [d, m])
            yield ("corr", "bip340_k_noaux", [d, m])
            ctx.label("ext/aux-default")
    for d in (0, N, -1):
        yield ("corr", "bip340_nonce", [d, bytes(32), bytes(32)])
        yield ("corr", "sign_schnorr_obj", [d, bytes(32), bytes(32)])
        yield ("corr", "sign_schnorr_noaux", [d, bytes(32)])
        yield ("corr", "bip340_k_noaux", [d, bytes(32)])
    for ml in (0, 31, 33):
        yield ("corr", "sign_schnorr_noaux", [7, ctx.rbytes(ml)])
        yield ("corr", "bip340_k_noaux", [7, ctx.rbytes(ml)])
        yield ("corr", "sign_schnorr_obj", [7, ctx.rbytes(ml), bytes(32)])
        ctx.label("ext/bad-length")

    # ---- the 64-byte codec, == of signature objects
    for i, (d, q, m, a, sig) in enumerate(signed[:ctx.n(3, 30)]):
        rb, sb = sig[:32], sig[32:]
        s = int.from_bytes(sb, "big")
        other = signed[(i + 1) % len(signed)][4]
        pairs = [(sig, sig), (sig, rb + b32((s + 1) % N)), (sig, other), (sig, other[:32] + sb), (sig, sig + b"\x00"),
                 (sig, rb + b32(N)), (b32(P) + sb, sig), (bytes(32) + sb, bytes(32) + sb), (bytes(32) + sb, sig),
                 (sig[:40], rb + bytes(24) + sig[32:40]), (sig, sig[:31]), (b"", b"")]
        for x, y in pairs:
            ctx.label("codec/eq")
            yield ("corr", "schnorr_parse_eq", [x, y])
        for x in (sig, sig + b"\x01\x02", sig[:63], sig[:40], sig[:33], sig[:32], sig[:31], b"", bytes(32) + sb, b32(P) + sb,
                  b32(off_curve_x(r)) + sb, rb + b32(N), rb + b32(N - 1), rb + bytes(32), ctx.rbytes(64), ctx.rbytes(r.randrange(0, 100))):
            ctx.label("codec/reserialize/len=%s" % ("64" if len(x) == 64 else "<32" if len(x) < 32 else "<64" if len(x) < 64 else ">64"))
            yield ("corr", "schnorr_reserialize", [x])
            yield ("corr", "schnorr_parse", [x])

    # ---- verify_schnorr on point OBJECTS of either parity and on signature OBJECTS
    for i, (d, q, m, a, sig) in enumerate(signed[:ctx.n(4, 40)]):
        rb, sb = sig[:32], sig[32:]
        s = int.from_bytes(sb, "big")
        R = ecref.lift_x(int.from_bytes(rb, "big"))
        pv, rv = [q[0], q[1]], [R[0], R[1]]
        bad = bytearray(sig)
        bad[r.randrange(64)] ^= 1 << r.randrange(8)
        for pvx, sg in ((pv, sig), (pv, bytes(bad)), ([q[0], P - q[1]], sig), ([], sig), ([q[0], (q[1] + 1) % P], sig),
                        ([q[0] + P, q[1]], sig), ([-1, q[1]], sig), (pv, sig[:63]), (pv, bytes(32) + sb), (pv, sig + b"x")):
            ctx.label("object/verify-on-point/" + ("infinity" if pvx == [] else "P-odd" if pvx[1] % 2 else "P-even"))
            yield ("corr", "verify_schnorr_point", [pvx, m, sg])
        if i < ctx.n(2, 20):
            for pvx, rvx, sv in ((pv, rv, s), (pv, [R[0], P - R[1]], s), (pv, rv, s - N), (pv, rv, s + N), (pv, rv, (s + 1) % N),
                                 (pv, [], s), ([], rv, s), (pv, rv, -1), (pv, rv, 0), ([q[0], P - q[1]], [R[0], P - R[1]], s - 2 * N),
                                 (pv, [R[0], (R[1] + 1) % P], s), (pv, pv, s)):
                ctx.label("object/signature-object/" + ("s<0" if sv < 0 else "s>=n" if sv >= N else "s-in-range"))
                yield ("corr", "verify_schnorr_obj", [pvx, m, rvx, sv])
        # SEC keys
        key = PrivateKey(d)
        for kb in (key.point.sec(True), key.point.sec(False), bytes([5 - key.point.sec(True)[0]]) + key.point.sec(True)[1:]):
            ctx.label("sec-key/%d-bytes" % len(kb))
            yield ("corr", "verify_schnorr", [kb, m, sig])
            yield ("corr", "verify_schnorr", [kb, m, bytes(bad)])
        yield ("prop", "sec_key", [d, m, sig])
        yield ("prop", "sec_key", [d, m, bytes(bad)])
        yield ("prop", "sec_key", [d, m, sig + b"\x00"])

    # ---- signature strings of any length
    d0, m0, a0 = LEADING_ZERO_S
    lz = ecref.bip340_sign(d0, m0, a0)
    pk0 = b32(ecref.mul(d0, ecref.G)[0])
    lzs = [(pk0, m0, lz)] if lz and lz[32] == 0 else []
    if not lzs:
        ctx.label("any-length/leading-zero-vector-dropped")
    if ctx.tier != "quick":
        for d in keys[:3]:
            m = ctx.rbytes(32)
            for _ in range(1500):
                sg = ecref.bip340_sign(d, m, ctx.rbytes(32))
                if sg[32] == 0:
                    lzs.append((b32(ecref.mul(d, ecref.G)[0]), m, sg))
                    break
    for pk, m, sg in lzs:
        for x in (sg, sg[:32] + sg[33:], sg[:32] + sg[34:], sg[:32] + b"\x00" + sg[32:], sg[:32] + sg[33:] + b"\x00", sg[:63]):
            ctx.label("any-length/leading-zero-s/len=%d" % len(x))
            yield ("corr", "verify_schnorr", [pk, m, x])
            yield ("corr", "bip340_verify_canon", [pk, m, x])
            yield ("prop", "any_length", [pk, m, x])
    for i, (d, q, m, a, sig) in enumerate(signed[:ctx.n(2, 20)]):
        pk = b32(q[0])
        for x in (sig, sig + b"\x00", sig + ctx.rbytes(32), sig[:63], sig[:48], sig[:33], sig[:32], sig[:31], sig[:1], b""):
            ctx.label("any-length/len=%s" % ("64" if len(x) == 64 else "<32" if len(x) < 32 else "<64" if len(x) < 64 else ">64"))
            if len(x) >= 32:
                yield ("corr", "bip340_verify_canon", [pk, m, x])
            yield ("corr", "verify_schnorr", [pk, m, x])
            yield ("prop", "any_length", [pk, m, x])

    # ---- for one key, message and R exactly one s is accepted
    for i, (d, q, m, a, sig) in enumerate(signed[:ctx.n(2, 25)]):
        s = int.from_bytes(sig[32:], "big")
        for sv in (s, (s + 1) % N, (N - s) % N, 0, 1, N - 1, r.randrange(N), s ^ (1 << r.randrange(250))):
            ctx.label("s-unique/" + ("same" if sv == s else "other"))
            yield ("prop", "other_s", [d, m, a, b32(sv % N)])

    # ---- sessions sharing TAG_HASH_CACHE
    tags = [b"BIP0340/aux", b"BIP0340/nonce", b"BIP0340/challenge", b"TapTweak", b"", b"BIP0340/auy"]
    for i in range(ctx.n(3, 40)):
        d, q, m, a, sig = signed[i % len(signed)]
        pk = b32(q[0])
        bad = bytearray(sig)
        bad[r.randrange(64)] ^= 1 << r.randrange(8)
        pool = [[0, r.choice(tags), ctx.rbytes(r.randrange(0, 40))], [0, r.choice(tags), ctx.rbytes(r.randrange(0, 40))],
                [1, d, m, a], [2, pk, m, sig], [2, pk, m, bytes(bad)], [1, d, ctx.rbytes(31), a], [1, 0, m, a],
                [2, pk, m, sig[:31]], [2, b32(P), m, sig], [2, pk, m, bytes(32) + sig[32:]], [0, b"BIP0340/challenge", b""]]
        calls = [r.choice(pool) for _ in range(r.randrange(3, 7))]
        if i == 0:
            calls = [[2, pk, m, sig[:31]], [1, 0, m, a], [1, d, ctx.rbytes(31), a], [2, pk, m, sig], [1, d, m, a], [0, b"x", b""]]
        ctx.label("session/%d-calls" % len(calls))
        yield ("corr", "api_session", [calls])
        yield ("prop", "session", [calls])


# keys whose x coordinate starts with a zero byte (even / odd y), and (d, m, aux-int) whose BIP340 R starts with a
# zero byte - found by search with the reference, re-checked before use
LEADING_ZERO_PX = (153, 1158)
LEADING_ZERO_R = (3, bytes(32), 34)


def _generate_audit(ctx):
    """entry-point audit: alternative entry points, defaults, coincidences of fields, byte classes, lenient
    decoding, containers with differing elements, sources used again / failing calls retried"""
    r = ctx.rng
    # both public-key parities, deterministic small search
    evens, odds = [], []
    d = r.randrange(1, N)
    while not (evens and odds):
        (odds if ecref.mul(d, ecref.G)[1] % 2 else evens).append(d)
        d = d * 3 % N or 1
    pair = [evens[0], odds[0]]

    # ---- (a)/(b) alternative constructors of the key, non-default constructor arguments, tweaked keys
    for i, d in enumerate(pair + [rscalar(r) for _ in range(0 if ctx.tier == "quick" else ctx.n(2, 10))]):
        ctx.label("audit/key-entry-points")
        yield ("prop", "key_entry", [d, ctx.rbytes(32), ctx.rbytes(32), ctx.rbytes(32), i])

    # ---- (a)/(f)/(g) derived point objects, combine of differing points, operands unchanged
    for i, d in enumerate(pair[1:] + [rscalar(r) for _ in range(0 if ctx.tier == "quick" else ctx.n(2, 10))]):
        ctx.label("audit/derived-point-objects")
        yield ("prop", "derived_points", [d, rscalar(r), rscalar(r), ctx.rbytes(32), ctx.rbytes(32)])

    # ---- (g) sources used again after the result, failing calls then retry; d = 1: key.point IS pecc.G
    for d in pair[1:] + [1] + [rscalar(r) for _ in range(0 if ctx.tier == "quick" else ctx.n(2, 10))]:
        ctx.label("audit/objects-unchanged+retry-after-failure")
        yield ("prop", "unchanged", [d, ctx.rbytes(32), ctx.rbytes(32), ctx.rbytes(32)])

    # ---- (g) tagged hash: failing call, retry; every wrapper once
    for w in range(len(WRAPPERS)):
        ctx.label("audit/tagged-failing-call-then-retry")
        yield ("prop", "tagged_retry", [WRAPPERS[(w + 3) % len(WRAPPERS)][1] if w % 2 else ctx.rbytes(r.randrange(0, 9)),
                                        ctx.rbytes(r.randrange(0, 70)), w])
    yield ("prop", "tagged_wrappers", [[[w, ctx.rbytes(w)] for w in list(range(len(WRAPPERS))) * 2]])

    # ---- (d) byte classes: public key x / R x with a leading zero byte; all-zero and all-ff fields
    for d in LEADING_ZERO_PX:
        q = ecref.mul(d, ecref.G)
        if q[0] >> 248:
            ctx.label("audit/leading-zero-vector-dropped")
            continue
        for m, a in ((ctx.rbytes(32), ctx.rbytes(32)), (b32(q[0]), b32(q[0])))[:2 if q[1] % 2 or ctx.tier != "quick" else 1]:
            ctx.label("audit/key-x-leading-zero-byte/" + ("P-odd" if q[1] % 2 else "P-even"))
            yield ("corr", "sign_schnorr", [d, m, a])
            yield ("corr", "bip340_k", [d, m, a])
            yield ("prop", "sign", [d, m, a])
            yield ("prop", "nonce", [d, m, a])
        sig = ecref.bip340_sign(d, m, a)
        for nm, (pk2, m2, sg2) in sig_mutations(r, d, b32(q[0]), m, sig, 2):
            if nm in ("valid", "R-negated(odd-y)", "s-for-odd-key", "R=Px", "msg-flip", "bitflip"):
                yield ("corr", "verify_schnorr", [pk2, m2, sg2])
                yield ("prop", "verify_ref", [pk2, m2, sg2])
        if q[1] % 2:
            yield ("prop", "sec_key", [d, m, sig])
    d, m, ai = LEADING_ZERO_R
    a = b32(ai)
    sig = ecref.bip340_sign(d, m, a)
    if sig[0] == 0:
        ctx.label("audit/R-x-leading-zero-byte")
        pk = b32(ecref.mul(d, ecref.G)[0])
        yield ("corr", "sign_schnorr", [d, m, a])
        yield ("corr", "sign_schnorr_obj", [d, m, a])
        yield ("prop", "sign", [d, m, a])
        yield ("prop", "sig_object", [d, m, a])
        for x in (sig, sig[1:], sig[:63], b"\x00" + sig):
            yield ("corr", "schnorr_reserialize", [x])
            yield ("corr", "verify_schnorr", [pk, m, x])
            yield ("prop", "any_length", [pk, m, x])
    else:
        ctx.label("audit/leading-zero-vector-dropped")
    dk = pair[1]
    qk = ecref.mul(dk, ecref.G)
    pkk = b32(qk[0])
    z32, f32 = bytes(32), b"\xff" * 32
    vsig = ecref.bip340_sign(dk, z32, z32)
    for pk, m, sg in ((z32, z32, bytes(64)), (f32, f32, f32 * 2), (pkk, z32, bytes(64)), (pkk, f32, f32 * 2), (z32, z32, vsig),
                      (pkk, z32, vsig), (pkk, z32, vsig[:32] + z32), (pkk, z32, z32 + vsig[32:]), (pkk, pkk, vsig),
                      (pkk, z32, b32(ecref.GX) + b32(1)), (b32(ecref.GX), z32, b32(ecref.GX) + b32(1)),
                      (pkk, z32, b32(N) + b32(N - 1)), (pkk, z32, b32(N - 1) + b32(N - 1)), (pkk, z32, b32(P - 1) + b32(1))):
        ctx.label("audit/all-zero,all-ff,constant fields")
        yield ("corr", "verify_schnorr", [pk, m, sg])
        yield ("corr", "bip340_verify", [pk, m, sg])
        yield ("prop", "verify_ref", [pk, m, sg])
    for d, m, a in ((dk, z32, f32), (pair[0], b32(pair[0]), b32(pair[0])), (dk, f32, z32), (dk, pkk, pkk))[:2 if ctx.tier == "quick" else 4]:
        ctx.label("audit/sign: message = aux = key bytes, constant fields")
        yield ("corr", "sign_schnorr", [d, m, a])
        yield ("prop", "sign", [d, m, a])

    # ---- (c) coincidences: s*G = e*P (R' is the point at infinity whatever R says); message = key = R
    for d in pair:
        q = ecref.mul(d, ecref.G)
        de = d if q[1] % 2 == 0 else N - d
        pk = b32(q[0])
        for j, rb in enumerate((b32(on_curve_x(r)), pk, b32(ecref.GX))):
            for m in (ctx.rbytes(32), pk) if j == 1 else (ctx.rbytes(32),):
                e = int.from_bytes(ecref.tagged(b"BIP0340/challenge", rb + pk + m), "big") % N
                for sv in (e * de % N, (N - e * de) % N)[:2 if j == 0 else 1]:
                    ctx.label("audit/R'-is-infinity" if sv == e * de % N else "audit/s=-e*d")
                    sg = rb + b32(sv)
                    yield ("corr", "verify_schnorr", [pk, m, sg])
                    yield ("corr", "bip340_verify", [pk, m, sg])
                    yield ("prop", "verify_ref", [pk, m, sg])

    # ---- (e) lenient decoding of keys: x >= p next to small on-curve x, SEC strings with every wrong prefix / length
    for x in list(range(0, 9)) + [2 ** 32 + 976]:
        ctx.label("audit/lift_x(p + small)")
        yield ("corr", "lift_x", [P + x])
        yield ("corr", "parse_point", [b32(P + x)])
        yield ("corr", "verify_schnorr", [b32(P + x), z32, vsig])
        yield ("prop", "key_string", [b32(P + x), z32, vsig])
    q = qk
    xb, yb = b32(q[0]), b32(q[1])
    off = b32((q[1] + 1) % P)
    secs = [bytes([pfx]) + xb + yb for pfx in (0, 2, 3, 4, 5, 6, 7, 0x84)] + [bytes([pfx]) + xb for pfx in (0, 1, 2, 3, 4, 5, 6, 0x82)]
    secs += [b"\x04" + xb + off, b"\x04" + xb + b32(P - q[1]), b"\x04" + yb + xb, b"\x04" + z32 + z32, b"\x04" + b32(P) + yb,
             b"\x04" + xb + f32, b"\x02" + z32, b"\x03" + z32, b"\x02" + b32(P), b"\x02" + b32(P + 1), b"\x03" + f32,
             b"\x02" + b32(off_curve_x(r)), b"\x04" + xb + yb + b"\x00", b"\x02" + xb + b"\x00", b"\x04" + xb + yb[:31], xb + yb,
             b"\x00" + xb[:31], xb[1:], b"\x00" + xb]
    sgk = ecref.bip340_sign(dk, z32, f32)
    for kb in secs:
        ctx.label("audit/SEC-key-prefix-and-length/%d-bytes" % len(kb))
        yield ("corr", "parse_point", [kb])
        yield ("corr", "verify_schnorr", [kb, z32, sgk])
        yield ("prop", "key_string", [kb, z32, sgk])


def generate(ctx):
    yield from _generate(ctx)
    yield from _generate_ext(ctx)
    yield from _generate_audit(ctx)
    r = ctx.rng
    # ---- boundary class: the xor operand t of the nonce derivation has leading zero bytes (a t serialised without
    # them changes the nonce hash input from 96 to fewer bytes; the signature stays valid but is not BIP340's)
    full = 0
    for nz in (1, 2, 3, 1, 2, 4, 32):
        for default_aux in (False, True):
            if nz == 32:
                if default_aux:
                    continue
                ds, aux = [], None
                for _ in range(60):
                    aux = ctx.rbytes(32)
                    ds = leading_zero_t(r, ctx, 32, aux)
                    if ds:
                        break
            else:
                aux = bytes(32) if default_aux else ctx.rbytes(32)
                ds = leading_zero_t(r, ctx, nz, aux)
            for which, d in enumerate(ds):
                m = ctx.rbytes(32)
                lab = "nonce/t-leading-zero-bytes=%d%s/%s" % (nz, "/default-aux" if default_aux else "", "P-odd" if which else "P-even")
                ctx.label(lab)
                yield ("corr", "bip340_k", [d, m, aux])
                yield ("prop", "nonce", [d, m, aux])
                if (full + which) % 2 == 0 and (full < 5 or ctx.tier != "quick"):
                    ctx.label("sign/t-leading-zero-bytes")
                    yield ("corr", "sign_schnorr", [d, m, aux])
                    yield ("corr", "bip340_sign", [d, m, aux])
                    yield ("prop", "sign", [d, m, aux])
            full += 1


def _generate(ctx):
    r = ctx.rng
    # ---- tagged hash and its cache
    tags = [b"BIP0340/aux", b"BIP0340/nonce", b"BIP0340/challenge", b"TapTweak", b"TapLeaf", b"", b"\x00", b"x" * 100]
    for t in tags:
        yield ("corr", "tagged_hash", [t, ctx.rbytes(r.randrange(0, 80))])
    for _ in range(ctx.n(60, 1500)):
        calls = []
        for _ in range(r.randrange(0, 12)):
            t = r.choice(tags) if r.random() < 0.8 else ctx.rbytes(r.randrange(0, 20))
            calls.append([t, ctx.rbytes(r.randrange(0, 70))])
        yield ("corr", "tagged_hash_history", [calls])
        yield ("prop", "tagged", [calls])
        ctx.label("tagged/history-with-repeats" if len({bytes(c[0]) for c in calls}) < len(calls) else "tagged/all-fresh")

    # ---- lift_x / parse
    for x in [0, 1, 2, 3, P - 1, P, P + 1, TWO256 - 1, ecref.GX] + [r.randrange(0, P) for _ in range(ctx.n(40, 2000))]:
        yield ("corr", "lift_x", [x])
        yield ("corr", "parse_point", [b32(x)])
        ctx.label("lift_x/on-curve" if ecref.lift_x(x) else "lift_x/fails")
    for ln in (0, 1, 31, 33, 64, 65):
        yield ("corr", "parse_point", [ctx.rbytes(ln)])

    # ---- official vectors
    for idx, sk, pk, aux, msg, sig, res in VECTORS:
        d, pkb, a, m, sg = int(sk, 16), bytes.fromhex(pk), bytes.fromhex(aux), bytes.fromhex(msg), bytes.fromhex(sig)
        if ecref.bip340_sign(d, m, a) != sg or not ecref.bip340_verify(pkb, m, sg):
            ctx.label("vectors/dropped")
            continue
        ctx.label("vectors/sign")
        yield ("corr", "sign_schnorr", [d, m, a])
        yield ("corr", "bip340_sign", [d, m, a])
        yield ("prop", "sign", [d, m, a])
        yield ("corr", "verify_schnorr", [pkb, m, sg])
        yield ("corr", "bip340_verify", [pkb, m, sg])
    for idx, pk, msg, sig, res in VERIFY_VECTORS:
        pkb, m, sg = bytes.fromhex(pk), bytes.fromhex(msg), bytes.fromhex(sig)
        if ecref.bip340_verify(pkb, m, sg) != res:
            ctx.label("vectors/dropped")
            continue
        ctx.label("vectors/verify")
        yield ("corr", "verify_schnorr", [pkb, m, sg])
        yield ("corr", "bip340_verify", [pkb, m, sg])
        yield ("prop", "verify_ref", [pkb, m, sg])

    # ---- signing
    cases = [(d, ctx.rbytes(32), ctx.rbytes(32)) for d in SECRETS]
    cases += [(3, bytes(32), bytes(32)), (N - 1, b"\xff" * 32, b"\xff" * 32)]
    cases += [(rscalar(r), ctx.rbytes(32), ctx.rbytes(32)) for _ in range(ctx.n(14, 500))]
    signed = []
    for d, m, a in cases:
        yield ("corr", "sign_schnorr", [d, m, a])
        yield ("corr", "bip340_sign", [d, m, a])
        yield ("corr", "bip340_k", [d, m, a])
        yield ("prop", "sign", [d, m, a])
        q = ecref.mul(d, ecref.G)
        sig = ecref.bip340_sign(d, m, a)
        k0 = i_bip340_k(d, m, a)
        ctx.label("sign/P-odd" if q[1] % 2 else "sign/P-even")
        ctx.label("sign/R-odd" if ecref.mul(k0, ecref.G)[1] % 2 else "sign/R-even")
        signed.append((d, b32(q[0]), m, sig))
    for d in BAD_SECRETS:
        yield ("corr", "sign_schnorr", [d, bytes(32), bytes(32)])
        if d >= 0:
            yield ("corr", "bip340_sign", [d, bytes(32), bytes(32)])
        ctx.label("sign/bad-secret")
    for ml, al in ((31, 32), (33, 32), (32, 31), (32, 33), (0, 32), (32, 0)):
        yield ("corr", "sign_schnorr", [5, ctx.rbytes(ml), ctx.rbytes(al)])
        yield ("corr", "bip340_k", [5, ctx.rbytes(ml), ctx.rbytes(al)])
        ctx.label("sign/bad-length")

    # ---- verification: catalogue + bit flips
    nsig = ctx.n(3, 12)
    nfull = 0 if ctx.tier == "quick" else max(1, int(4 * ctx.scale))     # signatures with all 512 single-bit flips
    for i, (d, pk, m, sig) in enumerate(signed[:: max(1, len(signed) // nsig)][:nsig]):
        nflips = 512 if i < nfull else (16 if ctx.tier == "quick" else 24)
        ctx.label("verify/all-512-flips" if i < nfull else "verify/sampled-flips")
        for name, (pk2, m2, sig2) in sig_mutations(r, d, pk, m, sig, nflips):
            ctx.label("verify/" + name)
            yield ("corr", "verify_schnorr", [pk2, m2, sig2])
            yield ("corr", "bip340_verify", [pk2, m2, sig2])
            if len(sig2) == 64 and len(pk2) == 32:      # the property's quantifier: 64-byte signatures
                yield ("prop", "verify_ref", [pk2, m2, sig2])
            if name not in ("valid", "bitflip"):
                yield ("corr", "schnorr_parse", [sig2])
    # random 64-byte strings / keys
    for _ in range(ctx.n(10, 300)):
        pk, m, sig = b32(on_curve_x(r)), ctx.rbytes(32), ctx.rbytes(64)
        yield ("corr", "verify_schnorr", [pk, m, sig])
        yield ("corr", "bip340_verify", [pk, m, sig])
        yield ("prop", "verify_ref", [pk, m, sig])
        yield ("corr", "schnorr_parse", [sig])
        ctx.label("verify/random")

    # ---- keys that are no curve point, with signatures CRAFTED to pass if the key were taken for the neutral
    # element (R = s*G with even y, so s*G - e*P = R whatever the message): must be rejected for every message
    crafted = []
    sv = 1
    while len(crafted) < ctx.n(4, 30):
        R = ecref.mul(sv, ecref.G)
        if R[1] % 2 == 0:
            crafted.append(b32(R[0]) + b32(sv))
        sv = sv + 1 if len(crafted) < 3 else r.randrange(1, N)
    off = 5
    while ecref.lift_x(off) is not None:
        off += 1
    for pk in (bytes(32), b32(off), b32(P), b32(P + 1), b"\xff" * 32):
        for sg in crafted:
            for m in (bytes(32), ctx.rbytes(32)):
                ctx.label("verify/invalid-key-crafted-signature")
                yield ("corr", "verify_schnorr", [pk, m, sg])
                yield ("corr", "bip340_verify", [pk, m, sg])
                yield ("prop", "verify_ref", [pk, m, sg])

    # ---- state kept across calls: tag cache under look-alike tags, wrappers, no clearing between histories
    near = [b"BIP0340/aux", b"BIP0340/auy", b"BIP0340/nonce", b"BIP0340/nonc", b"TapLeaf", b"TapLeag", b"TapTweak",
            b"TapBranc", b"TapBranch", b"tapleaf", b"TapLeaf\x00", b"", b"\x00"]
    for _ in range(ctx.n(40, 800)):
        calls = []
        shared = ctx.rbytes(r.randrange(0, 70))
        for _ in range(r.randrange(2, 14)):
            c = r.random()
            w = r.randrange(len(WRAPPERS)) if c < 0.45 else r.choice(near) if c < 0.9 else ctx.rbytes(r.randrange(0, 12))
            c = r.random()
            m = shared if c < 0.4 else shared[:-1] + bytes([shared[-1] ^ 1]) if c < 0.6 and shared else \
                ctx.rbytes(len(shared)) if c < 0.8 else ctx.rbytes(r.randrange(0, 70))
            calls.append([w, m])
        ctx.label("tagged/wrappers+look-alike-tags")
        yield ("prop", "tagged_wrappers", [calls])

    # ---- state kept across calls: one key / point / signature object through a call history
    for i in range(ctx.n(3, 30)):
        d = SECRETS[i % len(SECRETS)] if i % 3 == 2 else rscalar(r)
        m0 = ctx.rbytes(32)
        msgs = [m0, m0[:31] + bytes([m0[31] ^ 1]) if i % 2 else ctx.rbytes(32)]
        a0 = ctx.rbytes(32)
        auxs = [a0, bytes(32) if i % 3 == 0 else ctx.rbytes(32)]
        order = [[0, 0], [0, 1], [1, 0], [0, 0], [r.randrange(2), -1]]
        if i % 2:
            order = order[::-1]
        q = ecref.mul(d, ecref.G)
        ctx.label("reuse/one-key-many-messages/" + ("P-odd" if q[1] % 2 else "P-even"))
        yield ("prop", "key_reuse", [d, msgs, auxs, order])
