"""C19 — P2P framing and primitive wire codecs."""
import struct
from io import BytesIO

from buidl import helper, network, block, compactfilter
from vp.sexp import ERR

PID = "C19"
NETS = ["mainnet", "testnet", "signet", "regtest"]
RULE = ("Integers sweep every width boundary (0xfc/0xfd/0xffff/0x10000/0xffffffff/2^32/2^64-1, out of range "
        "on both sides); envelopes: commands of every length 0..12, payloads 0..100000 bytes, all four networks, "
        "every truncation offset and single-byte corruption of sampled envelopes; messages: random field values "
        "plus boundary counts.")
TRUSTED = ["hashlib (sha256) — hash256 is a universally quantified function in the theorems",
           "modelled, not verified: object plumbing of the message classes; SimpleNode socket I/O is out of scope"]
ASSUMPTIONS = ["hash256 has 32-byte output (hypothesis of the envelope theorems)",
               "count fields of cfheaders/cfcheckpt bodies in generated inputs stay below 20000 "
               "(the parsers loop count times without raising; not an error behaviour)"]


def _hdr(h):
    return [h.version, h.prev_block, h.merkle_root, h.timestamp, h.bits, h.nonce]


def i_read_varint(s):
    st = BytesIO(s)
    n = helper.read_varint(st)
    return [n, st.read()]


def i_read_varstr(s):
    st = BytesIO(s)
    b = helper.read_varstr(st)
    return [b, st.read()]


def i_env_serialize(net, cmd, payload):
    return network.NetworkEnvelope(cmd, payload, network=NETS[net]).serialize()


def i_env_parse(net, s):
    st = BytesIO(s)
    e = network.NetworkEnvelope.parse(st, network=NETS[net])
    assert e.magic == network.MAGIC[NETS[net]]
    return [e.command, e.payload, st.read()]


def i_parse_header(s):
    st = BytesIO(s)
    h = block.Block.parse_header(st)
    return [_hdr(h), st.read()]


def i_serialize_header(v, p, m, t, b, n):
    return block.Block(v, p, m, t, b, n).serialize()


def i_version_serialize(v, sv, ts, rs, rip, rp, ss, sip, sp, nonce, ua, lb, relay):
    return network.VersionMessage(version=v, services=sv, timestamp=ts, receiver_services=rs, receiver_ip=rip,
                                  receiver_port=rp, sender_services=ss, sender_ip=sip, sender_port=sp,
                                  nonce=nonce, user_agent=ua, latest_block=lb, relay=bool(relay)).serialize()


def i_getheaders_serialize(v, n, s, e):
    return network.GetHeadersMessage(version=v, num_hashes=n, start_block=s, end_block=e).serialize()


def i_headers_parse(s):
    st = BytesIO(s)
    m = network.HeadersMessage.parse(st)
    return [[_hdr(h) for h in m.headers], st.read()]


def i_getdata_serialize(types, ids):
    m = network.GetDataMessage()
    for t, i in zip(types, ids):
        m.add_data(t, i)
    return m.serialize()


def i_ping_parse(s):
    st = BytesIO(s)
    a = network.PingMessage.parse(st)
    ra = st.read()
    st = BytesIO(s)
    b = network.PongMessage.parse(st)
    rb = st.read()
    if a.nonce != b.nonce or ra != rb or a.serialize() != a.nonce or b.serialize() != b.nonce:
        return [b"ping/pong differ", a.nonce, b.nonce]
    return [a.nonce, ra]


def i_getcfilters_serialize(t, h, stop):
    a = compactfilter.GetCFiltersMessage(filter_type=t, start_height=h, stop_hash=stop).serialize()
    b = compactfilter.GetCFHeadersMessage(filter_type=t, start_height=h, stop_hash=stop).serialize()
    if a != b:
        return [b"getcfilters/getcfheaders differ", a, b]
    return a


def i_getcfcheckpt_serialize(t, stop):
    return compactfilter.GetCFCheckPointMessage(filter_type=t, stop_hash=stop).serialize()


def i_cfilter_parse(s):
    st = BytesIO(s)
    m = compactfilter.CFilterMessage.parse(st)
    return [m.filter_type, m.block_hash, m.filter_bytes, sorted(m.cf.hashes), st.read()]


def i_cfheaders_parse(s):
    st = BytesIO(s)
    m = compactfilter.CFHeadersMessage.parse(st)
    return [m.filter_type, m.stop_hash, m.previous_filter_header, list(m.filter_hashes), m.last_header, st.read()]


def i_cfcheckpt_parse(s):
    st = BytesIO(s)
    m = compactfilter.CFCheckPointMessage.parse(st)
    return [m.filter_type, m.stop_hash, list(m.filter_headers), st.read()]


IMPL = {
    "int_to_le": lambda n, l: helper.int_to_little_endian(n, l),
    "int_to_be": lambda n, l: helper.int_to_big_endian(n, l),
    "from_le": lambda b: helper.little_endian_to_int(b),
    "from_be": lambda b: helper.big_endian_to_int(b),
    "encode_varint": lambda n: helper.encode_varint(n),
    "read_varint": i_read_varint,
    "encode_varstr": lambda b: helper.encode_varstr(b),
    "read_varstr": i_read_varstr,
    "env_serialize": i_env_serialize,
    "env_parse": i_env_parse,
    "parse_header": i_parse_header,
    "serialize_header": i_serialize_header,
    "version_serialize": i_version_serialize,
    "getheaders_serialize": i_getheaders_serialize,
    "headers_parse": i_headers_parse,
    "getdata_serialize": i_getdata_serialize,
    "ping_parse": i_ping_parse,
    "getcfilters_serialize": i_getcfilters_serialize,
    "getcfcheckpt_serialize": i_getcfcheckpt_serialize,
    "cfilter_parse": i_cfilter_parse,
    "cfheaders_parse": i_cfheaders_parse,
    "cfcheckpt_parse": i_cfcheckpt_parse,
}

# ---------------------------------------------------------------- property predicates


def _raises(f, *a):
    try:
        f(*a)
    except Exception:
        return True
    return False


def p_varint_rt(i, rest):
    if 0 <= i < 2 ** 64:
        e = helper.encode_varint(i)
        want = 1 if i < 0xfd else 3 if i < 0x10000 else 5 if i < 2 ** 32 else 9
        if len(e) != want:
            return f"encode_varint({i}) has {len(e)} bytes, the protocol says {want}"
        st = BytesIO(e + rest)
        j = helper.read_varint(st)
        if j != i or st.read() != rest:
            return f"varint {i} decodes to {j}"
    else:
        if not _raises(helper.encode_varint, i):
            return f"encode_varint({i}) outside [0,2^64) did not raise"
    return None


def p_varstr_rt(b, rest):
    st = BytesIO(helper.encode_varstr(b) + rest)
    if helper.read_varstr(st) != b or st.read() != rest:
        return "varstr does not round-trip"
    return None


def p_int_rt(n, l):
    if 0 <= n < 256 ** l:
        le = helper.int_to_little_endian(n, l)
        be = helper.int_to_big_endian(n, l)
        if len(le) != l or len(be) != l or le != be[::-1]:
            return "wrong width/order"
        if le != bytes((n >> (8 * k)) & 255 for k in range(l)):
            return "little-endian layout wrong"
        if helper.little_endian_to_int(le) != n or helper.big_endian_to_int(be) != n:
            return "int does not round-trip"
    else:
        if not _raises(helper.int_to_little_endian, n, l) or not _raises(helper.int_to_big_endian, n, l):
            return f"{n} does not fit {l} bytes but was encoded"
    return None


def p_env_rt(net, cmd, payload, rest):
    e = network.NetworkEnvelope(cmd, payload, network=NETS[net])
    raw = e.serialize()
    exp = network.MAGIC[NETS[net]] + cmd.ljust(12, b"\x00") + struct.pack("<I", len(payload)) + \
        helper.hash256(payload)[:4] + payload
    if raw != exp:
        return "envelope layout differs from the protocol"
    st = BytesIO(raw + rest)
    e2 = network.NetworkEnvelope.parse(st, network=NETS[net])
    if e2.command != cmd or e2.payload != payload or st.read() != rest:
        return "envelope does not round-trip"
    for other in range(4):
        if other != net and not _raises(network.NetworkEnvelope.parse, BytesIO(raw), NETS[other]):
            return f"envelope for {NETS[net]} accepted as {NETS[other]}"
    return None


def p_env_reject(net, cmd, payload, kind, pos, val):
    """kind 0: truncate to pos bytes; 1: xor byte pos with val (outside the command field)"""
    raw = network.NetworkEnvelope(cmd, payload, network=NETS[net]).serialize()
    if kind == 0:
        pos %= len(raw)
        bad = raw[:pos]
    else:
        pos %= len(raw)
        if 4 <= pos < 16:
            pos = 16 + (pos % 8)
        val = (val % 255) + 1
        bad = raw[:pos] + bytes([raw[pos] ^ val]) + raw[pos + 1:]
    try:
        e = network.NetworkEnvelope.parse(BytesIO(bad), network=NETS[net])
    except Exception:
        return None
    return (f"corrupted envelope accepted (kind={kind} pos={pos}): command={e.command!r} "
            f"payload_len={len(e.payload)} declared/original={len(payload)}")


def p_env_short(net, cmd, payload, cut):
    """declared length = len(payload) but only payload[:cut] follows, with the checksum of what follows"""
    part = payload[:cut]
    raw = network.MAGIC[NETS[net]] + cmd.ljust(12, b"\x00") + struct.pack("<I", len(payload)) + \
        helper.hash256(part)[:4] + part
    if len(part) == len(payload):
        return None
    try:
        e = network.NetworkEnvelope.parse(BytesIO(raw), network=NETS[net])
    except Exception:
        return None
    return f"envelope declaring {len(payload)} payload bytes accepted with only {len(e.payload)} present"


def p_header_rt(raw):
    h = block.Block.parse_header(BytesIO(raw))
    if h.serialize() != raw:
        return "80-byte header does not re-serialise to itself"
    v, ts = struct.unpack("<I", raw[:4])[0], struct.unpack("<I", raw[68:72])[0]
    if [h.version, h.prev_block, h.merkle_root, h.timestamp, h.bits, h.nonce] != \
            [v, raw[4:36][::-1], raw[36:68][::-1], ts, raw[72:76], raw[76:80]]:
        return "header fields differ from the protocol layout"
    return None


def p_layouts(v, sv, ts, rip, rp, sip, sp, nonce, ua, lb, relay, n, h1, h2, types, ids):
    got = i_version_serialize(v, sv, ts, sv, rip, rp, sv, sip, sp, nonce, ua, lb, relay)
    exp = struct.pack("<IQQ", v, sv, ts) + struct.pack("<Q", sv) + b"\x00" * 10 + b"\xff\xff" + rip + \
        struct.pack("<H", rp) + struct.pack("<Q", sv) + b"\x00" * 10 + b"\xff\xff" + sip + struct.pack("<H", sp) + \
        nonce + helper.encode_varint(len(ua)) + ua + struct.pack("<I", lb) + (b"\x01" if relay else b"\x00")
    if got != exp:
        return "version message layout"
    if i_getheaders_serialize(v, n, h1, h2) != struct.pack("<I", v) + helper.encode_varint(n) + h1[::-1] + h2[::-1]:
        return "getheaders layout"
    exp = helper.encode_varint(len(types)) + b"".join(struct.pack("<I", t) + i[::-1] for t, i in zip(types, ids))
    if i_getdata_serialize(types, ids) != exp:
        return "getdata layout"
    t = v % 256
    if i_getcfilters_serialize(t, lb, h1) != bytes([t]) + struct.pack("<I", lb) + h1[::-1]:
        return "getcfilters/getcfheaders layout"
    if i_getcfcheckpt_serialize(t, h1) != bytes([t]) + h1[::-1]:
        return "getcfcheckpt layout"
    return None


def p_msgs_rt(nonce, hdrs, t, stop, prev, hashes, fitems):
    for cls in (network.PingMessage, network.PongMessage):
        m = cls.parse(BytesIO(nonce))
        if m.nonce != nonce or m.serialize() != nonce:
            return cls.__name__ + " does not round-trip"
    raw = helper.encode_varint(len(hdrs)) + b"".join(h + b"\x00" for h in hdrs)
    m = network.HeadersMessage.parse(BytesIO(raw))
    if [x.serialize() for x in m.headers] != list(hdrs):
        return "headers message does not round-trip"
    raw = bytes([t]) + stop[::-1] + prev + helper.encode_varint(len(hashes)) + b"".join(hashes)
    m = compactfilter.CFHeadersMessage.parse(BytesIO(raw))
    if (m.filter_type, m.stop_hash, m.previous_filter_header, list(m.filter_hashes)) != (t, stop, prev, list(hashes)):
        return "cfheaders does not round-trip"
    cur = prev
    for fh in hashes:
        cur = helper.hash256(fh + cur)
    if m.last_header != cur:
        return "cfheaders chain"
    raw = bytes([t]) + stop[::-1] + helper.encode_varint(len(hashes)) + b"".join(hashes)
    m = compactfilter.CFCheckPointMessage.parse(BytesIO(raw))
    if (m.filter_type, m.stop_hash, list(m.filter_headers)) != (t, stop, list(hashes)):
        return "cfcheckpt does not round-trip"
    fb = compactfilter.serialize_gcs(sorted(fitems))
    raw = bytes([t]) + stop[::-1] + helper.encode_varstr(fb)
    m = compactfilter.CFilterMessage.parse(BytesIO(raw))
    if (m.filter_type, m.block_hash, m.filter_bytes) != (t, stop, fb) or m.cf.hashes != set(fitems):
        return "cfilter does not round-trip"
    return None


PROPS = {"varint_rt": p_varint_rt, "varstr_rt": p_varstr_rt, "int_rt": p_int_rt, "env_rt": p_env_rt,
         "env_reject": p_env_reject, "env_short": p_env_short, "header_rt": p_header_rt, "layouts": p_layouts, "msgs_rt": p_msgs_rt}

# ---------------------------------------------------------------- generators

BOUNDS = [0, 1, 2, 0x7f, 0x80, 0xfb, 0xfc, 0xfd, 0xfe, 0xff, 0x100, 0x101, 0xfffe, 0xffff, 0x10000, 0x10001,
          0xfffffe, 0xffffff, 0x1000000, 0xfffffffe, 0xffffffff, 0x100000000, 0x100000001,
          2 ** 63 - 1, 2 ** 63, 2 ** 64 - 2, 2 ** 64 - 1, 2 ** 64, 2 ** 64 + 1, 2 ** 65, -1, -2, -255, -256]


def rint(r, maxbits=66):
    b = r.randrange(0, maxbits + 1)
    return r.getrandbits(b) if b else 0


def rcmd(r):
    n = r.randrange(0, 13)
    c = bytes(r.randrange(1, 256) for _ in range(n))
    return c


def rheader(r, ctx):
    return ctx.rbytes(80)


def generate(ctx):
    r = ctx.rng
    # --- integers
    for n in BOUNDS:
        yield ("corr", "encode_varint", [n])
        yield ("prop", "varint_rt", [n, ctx.rbytes(r.randrange(0, 4))])
        for l in (0, 1, 2, 3, 4, 8, 32):
            yield ("corr", "int_to_le", [n, l])
            yield ("corr", "int_to_be", [n, l])
            yield ("prop", "int_rt", [n, l])
    for _ in range(ctx.n(300, 20000)):
        n = rint(r)
        if r.random() < 0.1:
            n = -n
        l = r.choice([1, 2, 4, 8, 8, 9, 16, 32])
        yield ("corr", "encode_varint", [n])
        yield ("prop", "varint_rt", [n, ctx.rbytes(r.randrange(0, 4))])
        yield ("corr", "int_to_le", [n, l])
        yield ("corr", "int_to_be", [n, l])
        yield ("prop", "int_rt", [n, l])
        b = ctx.rbytes(r.randrange(0, 40))
        yield ("corr", "from_le", [b])
        yield ("corr", "from_be", [b])
    # --- read_varint on every prefix shape, incl. short reads
    for first in (0, 1, 0xfc, 0xfd, 0xfe, 0xff):
        for tail in range(0, 11):
            s = bytes([first]) + ctx.rbytes(tail)
            ctx.label("read_varint/short" if tail < {0xfd: 2, 0xfe: 4, 0xff: 8}.get(first, 0) else "read_varint/full")
            yield ("corr", "read_varint", [s])
    yield ("corr", "read_varint", [b""])
    for _ in range(ctx.n(200, 5000)):
        yield ("corr", "read_varint", [ctx.rbytes(r.randrange(0, 12))])
    # --- varstr
    for ln in [0, 1, 0xfc, 0xfd, 0xfe, 0xff, 0x100, 0xffff, 0x10000, 70000] + [r.randrange(0, 600) for _ in range(ctx.n(40, 600))]:
        b = ctx.rbytes(ln)
        yield ("corr", "encode_varstr", [b])
        yield ("prop", "varstr_rt", [b, ctx.rbytes(r.randrange(0, 5))])
        e = helper.encode_varstr(b) + ctx.rbytes(r.randrange(0, 5))
        yield ("corr", "read_varstr", [e])
        if ln < 600:
            yield ("corr", "read_varstr", [e[: r.randrange(0, len(e) + 1)]])
    for _ in range(ctx.n(100, 3000)):
        yield ("corr", "read_varstr", [ctx.rbytes(r.randrange(0, 30))])
    # declared lengths >= 2^63: BytesIO.read raises OverflowError
    for top in (0x7f, 0x80, 0xff):
        yield ("corr", "read_varstr", [b"\xff" + ctx.rbytes(7) + bytes([top]) + ctx.rbytes(3)])
        ctx.label("read_varstr/length>=2^63" if top >= 0x80 else "read_varstr/length<2^63")
    # --- envelopes
    sizes = [0, 1, 2, 31, 32, 33, 255, 256, 1000, 65535, 65536, 100000]
    envs = []
    for i in range(ctx.n(60, 1500)):
        net = r.randrange(4)
        cmd = rcmd(r) if i >= 13 else bytes(r.randrange(1, 256) for _ in range(i))
        if i % 7 == 3:
            cmd = r.choice([b"version", b"verack", b"ping", b"pong", b"headers", b"getheaders", b"getdata",
                            b"cfilter", b"cfheaders", b"cfcheckpt", b"getcfilters", b"getcfcheckpt"])
        ln = sizes[i] if i < len(sizes) else r.randrange(0, 300)
        payload = ctx.rbytes(ln)
        rest = ctx.rbytes(r.randrange(0, 6))
        envs.append((net, cmd, payload))
        yield ("corr", "env_serialize", [net, cmd, payload])
        yield ("prop", "env_rt", [net, cmd, payload, rest])
        raw = i_env_serialize(net, cmd, payload) + rest
        yield ("corr", "env_parse", [net, raw])
        yield ("corr", "env_parse", [(net + 1) % 4, raw])
        ctx.label("envelope/payload>=64k" if ln >= 65536 else "envelope/small")
    # commands with NULs inside / at the ends, over-long commands (model only: what the codec does)
    for cmd in [b"\x00abc", b"abc\x00", b"a\x00b", b"\x00", b"\x00" * 12, b"abcdefghijklm", b"a" * 20]:
        yield ("corr", "env_serialize", [0, cmd, b"xyz"])
        try:
            yield ("corr", "env_parse", [0, i_env_serialize(0, cmd, b"xyz")])
        except Exception:
            pass
    # every truncation offset and every single-byte corruption of small envelopes
    small = [e for e in envs if len(e[2]) <= 40][: ctx.n(6, 60)]
    for (net, cmd, payload) in small:
        raw = i_env_serialize(net, cmd, payload)
        for pos in range(len(raw)):
            yield ("prop", "env_reject", [net, cmd, payload, 0, pos, 0])
            yield ("corr", "env_parse", [net, raw[:pos]])
            ctx.label("envelope/truncated")
        for pos in range(len(raw)):
            val = r.randrange(256)
            yield ("prop", "env_reject", [net, cmd, payload, 1, pos, val])
            bad = raw[:pos] + bytes([raw[pos] ^ ((val % 255) + 1)]) + raw[pos + 1:]
            yield ("corr", "env_parse", [net, bad])
            ctx.label("envelope/byte-corrupted")
    # declared length larger than what follows but checksum of what arrived is right (short payload)
    for (net, cmd, payload) in envs[: ctx.n(20, 300)]:
        if not payload:
            continue
        cut = r.randrange(0, len(payload))
        part = payload[:cut]
        raw = network.MAGIC[NETS[net]] + cmd.ljust(12, b"\x00") + struct.pack("<I", len(payload)) + \
            helper.hash256(part)[:4] + part
        ctx.label("envelope/short-payload-matching-checksum")
        yield ("prop", "env_short", [net, cmd, payload, cut])
        yield ("corr", "env_parse", [net, raw])
    for _ in range(ctx.n(100, 3000)):
        yield ("corr", "env_parse", [r.randrange(4), ctx.rbytes(r.randrange(0, 60))])
    # --- block headers
    for _ in range(ctx.n(80, 3000)):
        raw = ctx.rbytes(80)
        yield ("prop", "header_rt", [raw])
        yield ("corr", "parse_header", [raw + ctx.rbytes(r.randrange(0, 4))])
        yield ("corr", "parse_header", [raw[: r.randrange(0, 81)]])
        h = block.Block.parse_header(BytesIO(raw))
        v, t = h.version, h.timestamp
        if r.random() < 0.2:
            v = r.choice([-1, 2 ** 32, 2 ** 32 - 1, 0])
        if r.random() < 0.2:
            t = r.choice([-1, 2 ** 32, 2 ** 32 - 1, 0])
        yield ("corr", "serialize_header", [v, h.prev_block, h.merkle_root, t, h.bits, h.nonce])
    # --- fixed-layout messages
    for _ in range(ctx.n(60, 2000)):
        v = r.choice([70015, 0, 2 ** 32 - 1, r.getrandbits(32)])
        sv = r.choice([0, 1, 2 ** 64 - 1, r.getrandbits(64)])
        ts = r.choice([0, 2 ** 64 - 1, r.getrandbits(40)])
        rip, sip = ctx.rbytes(4), ctx.rbytes(4)
        rp, sp = r.choice([0, 8333, 65535]), r.getrandbits(16)
        nonce = ctx.rbytes(8)
        ua = ctx.rbytes(r.choice([0, 1, 27, 252, 253, 300]))
        lb = r.choice([0, 2 ** 32 - 1, r.getrandbits(32)])
        relay = r.randrange(2)
        n = r.choice([0, 1, 252, 253, 65535, 65536, 2 ** 32, 2 ** 64 - 1])
        h1, h2 = ctx.rbytes(32), ctx.rbytes(32)
        k = r.choice([0, 1, 2, 3, 252, 253]) if r.random() < 0.3 else r.randrange(0, 5)
        types = [r.choice([1, 2, 3, 4, (1 << 30) + 1, (1 << 30) + 2, r.getrandbits(32)]) for _ in range(k)]
        ids = [ctx.rbytes(32) for _ in range(k)]
        yield ("corr", "version_serialize", [v, sv, ts, sv, rip, rp, sv, sip, sp, nonce, ua, lb, relay])
        yield ("corr", "getheaders_serialize", [v, n, h1, h2])
        yield ("corr", "getdata_serialize", [types, ids])
        yield ("corr", "getcfilters_serialize", [v % 256, lb, h1])
        yield ("corr", "getcfcheckpt_serialize", [v % 256, h1])
        yield ("prop", "layouts", [v, sv, ts, rip, rp, sip, sp, nonce, ua, lb, relay, n, h1, h2, types, ids])
        # out-of-range fields must raise on both sides
        yield ("corr", "version_serialize", [r.choice([-1, 2 ** 32]), sv, ts, sv, rip, r.choice([rp, 65536]), sv, sip, sp, nonce, ua, lb, relay])
        yield ("corr", "getcfilters_serialize", [r.choice([256, -1, 255]), r.choice([lb, 2 ** 32]), h1])
    for _ in range(ctx.n(60, 1500)):
        nh = r.choice([0, 1, 2, 3, 5])
        hdrs = [ctx.rbytes(80) for _ in range(nh)]
        raw = helper.encode_varint(nh) + b"".join(h + b"\x00" for h in hdrs)
        yield ("corr", "headers_parse", [raw + ctx.rbytes(r.randrange(0, 3))])
        if raw:
            bad = bytearray(raw)
            bad[r.randrange(len(bad))] ^= 1 << r.randrange(8)
            yield ("corr", "headers_parse", [bytes(bad)])
            yield ("corr", "headers_parse", [raw[: r.randrange(0, len(raw))]])
        s = ctx.rbytes(r.randrange(0, 20))
        yield ("corr", "ping_parse", [s])
        t = r.randrange(256)
        stop, prev = ctx.rbytes(32), ctx.rbytes(32)
        nhash = r.choice([0, 1, 2, 5, 252, 253]) if r.random() < 0.2 else r.randrange(0, 6)
        hashes = [ctx.rbytes(32) for _ in range(nhash)]
        raw = bytes([t]) + stop[::-1] + prev + helper.encode_varint(nhash) + b"".join(hashes)
        yield ("corr", "cfheaders_parse", [raw + ctx.rbytes(r.randrange(0, 3))])
        yield ("corr", "cfheaders_parse", [raw[: r.randrange(0, len(raw))]])
        raw = bytes([t]) + stop[::-1] + helper.encode_varint(nhash) + b"".join(hashes)
        yield ("corr", "cfcheckpt_parse", [raw + ctx.rbytes(r.randrange(0, 3))])
        yield ("corr", "cfcheckpt_parse", [raw[: r.randrange(0, len(raw))]])
        nit = r.randrange(0, 12)
        fitems = sorted(r.randrange(0, max(1, nit) * 784931) for _ in range(nit))
        if nit > 2 and r.random() < 0.3:
            fitems[1] = fitems[0]
        fb = compactfilter.serialize_gcs(sorted(fitems))
        raw = bytes([t]) + stop[::-1] + helper.encode_varstr(fb)
        yield ("corr", "cfilter_parse", [raw + ctx.rbytes(r.randrange(0, 3))])
        yield ("corr", "cfilter_parse", [raw[: r.randrange(0, len(raw))]])
        bad = bytearray(raw)
        bad[r.randrange(33, len(bad))] ^= 1 << r.randrange(8)
        yield ("corr", "cfilter_parse", [bytes(bad)])
        yield ("prop", "msgs_rt", [ctx.rbytes(8), hdrs, t, stop, prev, hashes, sorted(set(fitems))])
