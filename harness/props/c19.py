"""C19 — P2P framing and primitive wire codecs."""
import struct
from io import BytesIO

from buidl import helper, network, block, compactfilter
from vp.sexp import ERR

PID = "C19"
NETS = ["mainnet", "testnet", "signet", "regtest"]
RULE = ("Integers sweep every width boundary (0xfc/0xfd/0xffff/0x10000/0xffffffff/2^32/2^64-1, out of range "
        "on both sides); envelopes: commands of every length 0..12, payloads 0..100000 bytes, all four networks, "
        "every truncation offset and single-byte corruption of sampled envelopes; messages: random field values "
        "plus boundary counts; strict protocol decoders on the bytes the serialize-only messages emit, on a recorded "
        "mainnet version message and on damaged copies; SimpleNode.wait_for / handshake on in-memory streams of 0..5 "
        "envelopes before the wanted one (valid, truncated, byte-corrupted, other network, wanted never arriving); "
        "Block.parse_header(hex=...) on valid / upper-case / white-space / odd / non-hex text. After the mutation triage: "
        "every integer codec at 256^l-1 / 256^l / -1 / top bit for widths 0..33; every message class built with its required "
        "arguments only (defaults) and the module constants; cfilter messages built here as BIP158 says (independent "
        "SipHash-2-4 and Golomb-Rice coder): key of the parsed filter, membership through the message; every parser "
        "started in the middle of a stream; item counts 0/1/2/0xfc/0xfd/0xfe/0x100/0xffff/0x10000 of headers, cfheaders, "
        "cfcheckpt, getdata, var-strings; a non-zero transaction count after the first/middle/last header; compact targets "
        "on both sides of negative / 2^256; header lists whose proof of work holds with intact and broken links. Cases are "
        "laid out by reference encoders of this module, never by the library's own. After the audit of entry points: "
        "wait_for with every ordered pair of classes (the second one arrives); ONE node answering several wait_for calls "
        "with damaged envelopes in between (failure, then retry), also with logging on; SimpleNode built through its "
        "constructor (socket module replaced: default network, default port per network, explicit port); get_filtered_txs / "
        "is_tx_accepted against merkleblock + tx envelopes laid out here (blocks with different hashes, right and wrong "
        "order); Block.parse with 0..3 whole transactions and a second block afterwards; HeadersMessage / CFHeadersMessage / "
        "CFCheckPointMessage through their constructors; falsy arguments (0, b\"\", False) of every message; headers and "
        "header hex text of one character class (all zero, all ff, digits only, letters only, upper / mixed case); cfilter "
        "bodies whose count disagrees with the bits that follow.")
TRUSTED = ["hashlib (sha256) — hash256 is a universally quantified function in the theorems",
           "modelled, not verified: object plumbing of the message classes; real socket I/O is out of scope — SimpleNode "
           "runs on a BytesIO stream and a recording socket (its constructor: with the socket module replaced), time.time / "
           "randint / sleep are substituted from the harness; Tx.parse and MerkleBlock (other properties) are used as they "
           "are by the get_filtered_txs / is_tx_accepted / Block.parse cases",
           "coq/Spec/P2P.v (protocol transcription) — compared on every run with independent struct-based reference "
           "decoders and with a version message recorded on mainnet"]
ASSUMPTIONS = ["hash256 has 32-byte output (hypothesis of the envelope theorems)",
               "count fields of cfheaders/cfcheckpt bodies in generated inputs stay below 20000 "
               "(the parsers loop count times without raising; not an error behaviour)"]


def _hdr(h):
    return [h.version, h.prev_block, h.merkle_root, h.timestamp, h.bits, h.nonce]


def i_read_varint(s):
    st = BytesIO(s)
    n = helper.read_varint(st)
    return [n, st.read()]


def i_read_varstr(s):
    st = BytesIO(s)
    b = helper.read_varstr(st)
    return [b, st.read()]


def i_env_serialize(net, cmd, payload):
    return network.NetworkEnvelope(cmd, payload, network=NETS[net]).serialize()


def i_env_parse(net, s):
    st = BytesIO(s)
    e = network.NetworkEnvelope.parse(st, network=NETS[net])
    assert e.magic == REF_MAGIC[net]
    return [e.command, e.payload, st.read()]


def i_parse_header(s):
    st = BytesIO(s)
    h = block.Block.parse_header(st)
    return [_hdr(h), st.read()]


def i_serialize_header(v, p, m, t, b, n):
    return block.Block(v, p, m, t, b, n).serialize()


def i_version_serialize(v, sv, ts, rs, rip, rp, ss, sip, sp, nonce, ua, lb, relay):
    return network.VersionMessage(version=v, services=sv, timestamp=ts, receiver_services=rs, receiver_ip=rip,
                                  receiver_port=rp, sender_services=ss, sender_ip=sip, sender_port=sp,
                                  nonce=nonce, user_agent=ua, latest_block=lb, relay=bool(relay)).serialize()


def i_getheaders_serialize(v, n, s, e):
    return network.GetHeadersMessage(version=v, num_hashes=n, start_block=s, end_block=e).serialize()


def i_headers_parse(s):
    st = BytesIO(s)
    m = network.HeadersMessage.parse(st)
    return [[_hdr(h) for h in m.headers], st.read()]


def i_getdata_serialize(types, ids):
    m = network.GetDataMessage()
    for t, i in zip(types, ids):
        m.add_data(t, i)
    return m.serialize()


def i_ping_parse(s):
    st = BytesIO(s)
    a = network.PingMessage.parse(st)
    ra = st.read()
    st = BytesIO(s)
    b = network.PongMessage.parse(st)
    rb = st.read()
    if a.nonce != b.nonce or ra != rb or a.serialize() != a.nonce or b.serialize() != b.nonce:
        return [b"ping/pong differ", a.nonce, b.nonce]
    return [a.nonce, ra]


def i_getcfilters_serialize(t, h, stop):
    a = compactfilter.GetCFiltersMessage(filter_type=t, start_height=h, stop_hash=stop).serialize()
    b = compactfilter.GetCFHeadersMessage(filter_type=t, start_height=h, stop_hash=stop).serialize()
    if a != b:
        return [b"getcfilters/getcfheaders differ", a, b]
    return a


def i_getcfcheckpt_serialize(t, stop):
    return compactfilter.GetCFCheckPointMessage(filter_type=t, stop_hash=stop).serialize()


def i_cfilter_parse(s):
    st = BytesIO(s)
    m = compactfilter.CFilterMessage.parse(st)
    return [m.filter_type, m.block_hash, m.filter_bytes, sorted(m.cf.hashes), st.read()]


def i_cfheaders_parse(s):
    st = BytesIO(s)
    m = compactfilter.CFHeadersMessage.parse(st)
    return [m.filter_type, m.stop_hash, m.previous_filter_header, list(m.filter_hashes), m.last_header, st.read()]


def i_cfcheckpt_parse(s):
    st = BytesIO(s)
    m = compactfilter.CFCheckPointMessage.parse(st)
    return [m.filter_type, m.stop_hash, list(m.filter_headers), st.read()]


IMPL = {
    "int_to_le": lambda n, l: helper.int_to_little_endian(n, l),
    "int_to_be": lambda n, l: helper.int_to_big_endian(n, l),
    "from_le": lambda b: helper.little_endian_to_int(b),
    "from_be": lambda b: helper.big_endian_to_int(b),
    "encode_varint": lambda n: helper.encode_varint(n),
    "read_varint": i_read_varint,
    "encode_varstr": lambda b: helper.encode_varstr(b),
    "read_varstr": i_read_varstr,
    "env_serialize": i_env_serialize,
    "env_parse": i_env_parse,
    "parse_header": i_parse_header,
    "serialize_header": i_serialize_header,
    "version_serialize": i_version_serialize,
    "getheaders_serialize": i_getheaders_serialize,
    "headers_parse": i_headers_parse,
    "getdata_serialize": i_getdata_serialize,
    "ping_parse": i_ping_parse,
    "getcfilters_serialize": i_getcfilters_serialize,
    "getcfcheckpt_serialize": i_getcfcheckpt_serialize,
    "cfilter_parse": i_cfilter_parse,
    "cfheaders_parse": i_cfheaders_parse,
    "cfcheckpt_parse": i_cfcheckpt_parse,
}

# ---------------------------------------------------------------- deepening: protocol reference decoders (strict),
# written from the protocol documentation (CompactSize as in Bitcoin Core's ReadCompactSize; the port of a network
# address is BIG-endian), independent of buidl/network.py and of coq/Spec/P2P.v

# a version message recorded on mainnet (Satoshi:0.9.3), from buidl/test/test_network.py: port 8333 is "208d" on the wire
REAL_VERSION_ENVELOPE = bytes.fromhex(
    "f9beb4d976657273696f6e0000000000650000005f1a69d2721101000100000000000000bc8f5e5400000000010000000000000000000000"
    "000000000000ffffc61b6409208d010000000000000000000000000000000000ffffcb0071c0208d128035cbc97953f80f2f5361746f7368"
    "693a302e392e332fcf05050001")


def _take(s, n):
    if n < 0 or len(s) < n:
        raise ValueError("short")
    return s[:n], s[n:]


def _le(b):
    return int.from_bytes(b, "little")


def _ref_read_cs(s):
    """ReadCompactSize: end of stream and non-canonical encodings are errors"""
    if not s:
        raise ValueError("empty")
    c = s[0]
    if c < 253:
        return c, s[1:]
    w, low = {253: (2, 253), 254: (4, 0x10000), 255: (8, 0x100000000)}[c]
    b, r = _take(s[1:], w)
    n = _le(b)
    if n < low:
        raise ValueError("non-canonical")
    return n, r


def _ref_addr(s):
    sv, s = _take(s, 8)
    ip, s = _take(s, 16)
    pt, s = _take(s, 2)
    return [_le(sv), ip, struct.unpack(">H", pt)[0]], s


def _ref_version_decode(s):
    v, s = _take(s, 4)
    sv, s = _take(s, 8)
    ts, s = _take(s, 8)
    ar, s = _ref_addr(s)
    af, s = _ref_addr(s)
    nonce, s = _take(s, 8)
    n, s = _ref_read_cs(s)
    ua, s = _take(s, n)
    sh, s = _take(s, 4)
    r, s = _take(s, 1)
    return [[_le(v), _le(sv), _le(ts), ar, af, nonce, ua, _le(sh), int(r[0] != 0)], s]


def _ref_getheaders_decode(s):
    v, s = _take(s, 4)
    n, s = _ref_read_cs(s)
    if len(s) < 32 * n:
        raise ValueError("short")
    loc = []
    for _ in range(n):
        h, s = _take(s, 32)
        loc.append(h[::-1])
    stop, s = _take(s, 32)
    return [_le(v), loc, stop[::-1], s]


def _ref_getdata_decode(s):
    n, s = _ref_read_cs(s)
    if len(s) < 36 * n:
        raise ValueError("short")
    items = []
    for _ in range(n):
        t, s = _take(s, 4)
        h, s = _take(s, 32)
        items.append([_le(t), h[::-1]])
    return [items, s]


def _ref_getcfilters_decode(s):
    t, s = _take(s, 1)
    h, s = _take(s, 4)
    st, s = _take(s, 32)
    return [t[0], _le(h), st[::-1], s]


def _ref_getcfcheckpt_decode(s):
    t, s = _take(s, 1)
    st, s = _take(s, 32)
    return [t[0], st[::-1], s]


def _ref_version_layout(f, port_fmt=">H"):
    """the protocol's version message for the field list of i_version_serialize"""
    v, sv, ts, rs, rip, rp, ss, sip, sp, nonce, ua, lb, relay = f
    return struct.pack("<IQQ", v, sv, ts) + struct.pack("<Q", rs) + b"\x00" * 10 + b"\xff\xff" + rip + \
        struct.pack(port_fmt, rp) + struct.pack("<Q", ss) + b"\x00" * 10 + b"\xff\xff" + sip + \
        struct.pack(port_fmt, sp) + nonce + _ref_varint(len(ua)) + ua + struct.pack("<I", lb) + \
        (b"\x01" if relay else b"\x00")


# ---------------------------------------------------------------- deepening: SimpleNode on an in-memory stream

class _FakeSock:
    def __init__(self):
        self.sent = []

    def sendall(self, b):
        self.sent.append(bytes(b))


def _node(net, stream):
    n = object.__new__(network.SimpleNode)      # no connection: the socket is replaced
    n.network = NETS[net]
    n.logging = False
    n.socket = _FakeSock()
    n.stream = BytesIO(stream)
    return n


CLASSES = {b"verack": network.VerAckMessage, b"ping": network.PingMessage, b"pong": network.PongMessage,
           b"headers": network.HeadersMessage, b"cfilter": compactfilter.CFilterMessage,
           b"cfheaders": compactfilter.CFHeadersMessage, b"cfcheckpt": compactfilter.CFCheckPointMessage}


def _msgval(m):
    if isinstance(m, network.VerAckMessage):
        return [0]
    if isinstance(m, network.PingMessage):
        return [1, m.nonce]
    if isinstance(m, network.PongMessage):
        return [2, m.nonce]
    if isinstance(m, network.HeadersMessage):
        return [3, [_hdr(h) for h in m.headers]]
    if isinstance(m, compactfilter.CFilterMessage):
        return [4, m.filter_type, m.block_hash, m.filter_bytes, sorted(m.cf.hashes)]
    if isinstance(m, compactfilter.CFHeadersMessage):
        return [5, m.filter_type, m.stop_hash, m.previous_filter_header, list(m.filter_hashes), m.last_header]
    if isinstance(m, compactfilter.CFCheckPointMessage):
        return [6, m.filter_type, m.stop_hash, list(m.filter_headers)]
    raise TypeError(m)


def i_node_wait_for(net, wanted, stream):
    n = _node(net, stream)
    m = n.wait_for(*[CLASSES[w] for w in wanted])
    return [_msgval(m), n.stream.read(), list(n.socket.sent)]


def i_node_send(net, cmd, payload):
    n = _node(net, b"")
    n.send(network.GenericMessage(cmd, payload))
    assert len(n.socket.sent) == 1
    return n.socket.sent[0]


class _Patched:
    """time.time() and randint as seen by buidl.network replaced for the duration of a call"""

    def __init__(self, now, pick):
        self.now, self.pick = now, pick

    def __enter__(self):
        self.old = (network.time, network.randint)
        now, pick = self.now, self.pick

        class _T:
            @staticmethod
            def time():
                return now
        network.time = _T
        network.randint = lambda a, b: pick(a, b)

    def __exit__(self, *exc):
        network.time, network.randint = self.old


def _pick_value(r):
    def pick(a, b):
        if (a, b) != (0, 2 ** 64 - 1):
            raise AssertionError(f"randint called with ({a}, {b}); the model assumes (0, 2**64 - 1)")
        return r
    return pick


def i_randint_bounds():
    """the arguments VersionMessage() passes to randint (Model/Wire.v randint_lo / randint_hi)"""
    seen = []

    def pick(a, b):
        seen.append([a, b])
        return a
    with _Patched(0, pick):
        network.VersionMessage()
    assert len(seen) == 1
    return seen[0]


def i_version_default_serialize(now, r):
    with _Patched(now, _pick_value(r)):
        return network.VersionMessage().serialize()


def i_node_handshake(net, now, r, stream):
    n = _node(net, stream)
    with _Patched(now, _pick_value(r)):
        n.handshake()
    return [n.stream.read(), list(n.socket.sent)]


def i_int_to_byte(n):
    return helper.int_to_byte(n)


def i_byte_to_int(b):
    return helper.byte_to_int(b)


def i_parse_header_hex(text):
    h = block.Block.parse_header(hex=text.decode("utf-8"))
    return _hdr(h)


def i_cfilter_eq(raw1, raw2):
    a = compactfilter.CFilterMessage.parse(BytesIO(raw1))
    b = compactfilter.CFilterMessage.parse(BytesIO(raw2))
    return a == b


IMPL.update({
    "hex_decode": lambda t: bytes.fromhex(t.decode("utf-8")),
    "hex_encode": lambda b: b.hex(),
    "parse_header_hex": i_parse_header_hex,
    "cfilter_eq": i_cfilter_eq,
    "cfilter_hash": lambda raw: compactfilter.CFilterMessage.parse(BytesIO(raw)).hash(),
    "int_to_byte": i_int_to_byte,
    "byte_to_int": i_byte_to_int,
    "read_cs": lambda s: list(_ref_read_cs(s)),
    "p2p_version_decode": _ref_version_decode,
    "p2p_getheaders_decode": _ref_getheaders_decode,
    "p2p_getdata_decode": _ref_getdata_decode,
    "p2p_getcfilters_decode": _ref_getcfilters_decode,
    "p2p_getcfcheckpt_decode": _ref_getcfcheckpt_decode,
    "version_default_serialize": i_version_default_serialize,
    "randint_bounds": i_randint_bounds,
    "node_send": i_node_send,
    "node_wait_for": i_node_wait_for,
    "node_handshake": i_node_handshake,
})

# ---------------------------------------------------------------- property predicates


def _raises(f, *a):
    try:
        f(*a)
    except Exception:
        return True
    return False


def p_varint_rt(i, rest):
    if 0 <= i < 2 ** 64:
        e = helper.encode_varint(i)
        want = 1 if i < 0xfd else 3 if i < 0x10000 else 5 if i < 2 ** 32 else 9
        if len(e) != want:
            return f"encode_varint({i}) has {len(e)} bytes, the protocol says {want}"
        st = BytesIO(e + rest)
        j = helper.read_varint(st)
        if j != i or st.read() != rest:
            return f"varint {i} decodes to {j}"
    else:
        if not _raises(helper.encode_varint, i):
            return f"encode_varint({i}) outside [0,2^64) did not raise"
    return None


def p_varstr_rt(b, rest):
    st = BytesIO(helper.encode_varstr(b) + rest)
    if helper.read_varstr(st) != b or st.read() != rest:
        return "varstr does not round-trip"
    return None


def p_int_rt(n, l):
    if 0 <= n < 256 ** l:
        le = helper.int_to_little_endian(n, l)
        be = helper.int_to_big_endian(n, l)
        if len(le) != l or len(be) != l or le != be[::-1]:
            return "wrong width/order"
        if le != bytes((n >> (8 * k)) & 255 for k in range(l)):
            return "little-endian layout wrong"
        if helper.little_endian_to_int(le) != n or helper.big_endian_to_int(be) != n:
            return "int does not round-trip"
    else:
        if not _raises(helper.int_to_little_endian, n, l) or not _raises(helper.int_to_big_endian, n, l):
            return f"{n} does not fit {l} bytes but was encoded"
    return None


def p_env_rt(net, cmd, payload, rest):
    e = network.NetworkEnvelope(cmd, payload, network=NETS[net])
    raw = e.serialize()
    exp = REF_MAGIC[net] + cmd.ljust(12, b"\x00") + struct.pack("<I", len(payload)) + _h256(payload)[:4] + payload
    if raw != exp:
        return "envelope layout differs from the protocol"
    st = BytesIO(raw + rest)
    e2 = network.NetworkEnvelope.parse(st, network=NETS[net])
    if e2.command != cmd or e2.payload != payload or st.read() != rest:
        return "envelope does not round-trip"
    if e2.magic != REF_MAGIC[net] or e2.serialize() != raw or e2.stream().read() != payload:
        return "a parsed envelope does not serialise back to the bytes it was parsed from"
    for other in range(4):
        if other != net and not _raises(network.NetworkEnvelope.parse, BytesIO(raw), NETS[other]):
            return f"envelope for {NETS[net]} accepted as {NETS[other]}"
    return None


def p_env_reject(net, cmd, payload, kind, pos, val):
    """kind 0: truncate to pos bytes; 1: xor byte pos with val (outside the command field)"""
    raw = _lay_env((cmd, payload, REF_MAGIC[net]))
    if kind == 0:
        pos %= len(raw)
        bad = raw[:pos]
    else:
        pos %= len(raw)
        if 4 <= pos < 16:
            pos = 16 + (pos % 8)
        val = (val % 255) + 1
        bad = raw[:pos] + bytes([raw[pos] ^ val]) + raw[pos + 1:]
    try:
        e = network.NetworkEnvelope.parse(BytesIO(bad), network=NETS[net])
    except Exception:
        return None
    return (f"corrupted envelope accepted (kind={kind} pos={pos}): command={e.command!r} "
            f"payload_len={len(e.payload)} declared/original={len(payload)}")


def p_env_short(net, cmd, payload, cut):
    """declared length = len(payload) but only payload[:cut] follows, with the checksum of what follows"""
    part = payload[:cut]
    raw = REF_MAGIC[net] + cmd.ljust(12, b"\x00") + struct.pack("<I", len(payload)) + _h256(part)[:4] + part
    if len(part) == len(payload):
        return None
    try:
        e = network.NetworkEnvelope.parse(BytesIO(raw), network=NETS[net])
    except Exception:
        return None
    return f"envelope declaring {len(payload)} payload bytes accepted with only {len(e.payload)} present"


def p_header_rt(raw):
    h = block.Block.parse_header(BytesIO(raw))
    if h.serialize() != raw:
        return "80-byte header does not re-serialise to itself"
    v, ts = struct.unpack("<I", raw[:4])[0], struct.unpack("<I", raw[68:72])[0]
    if [h.version, h.prev_block, h.merkle_root, h.timestamp, h.bits, h.nonce] != \
            [v, raw[4:36][::-1], raw[36:68][::-1], ts, raw[72:76], raw[76:80]]:
        return "header fields differ from the protocol layout"
    return None


def p_layouts(v, sv, ts, rip, rp, sip, sp, nonce, ua, lb, relay, n, h1, h2, types, ids):
    got = i_version_serialize(v, sv, ts, sv, rip, rp, sv, sip, sp, nonce, ua, lb, relay)
    exp = struct.pack("<IQQ", v, sv, ts) + struct.pack("<Q", sv) + b"\x00" * 10 + b"\xff\xff" + rip + \
        struct.pack("<H", rp) + struct.pack("<Q", sv) + b"\x00" * 10 + b"\xff\xff" + sip + struct.pack("<H", sp) + \
        nonce + _ref_varint(len(ua)) + ua + struct.pack("<I", lb) + (b"\x01" if relay else b"\x00")
    if got != exp:
        return "version message layout"
    if i_getheaders_serialize(v, n, h1, h2) != struct.pack("<I", v) + _ref_varint(n) + h1[::-1] + h2[::-1]:
        return "getheaders layout"
    exp = _ref_varint(len(types)) + b"".join(struct.pack("<I", t) + i[::-1] for t, i in zip(types, ids))
    if i_getdata_serialize(types, ids) != exp:
        return "getdata layout"
    t = v % 256
    if i_getcfilters_serialize(t, lb, h1) != bytes([t]) + struct.pack("<I", lb) + h1[::-1]:
        return "getcfilters/getcfheaders layout"
    if i_getcfcheckpt_serialize(t, h1) != bytes([t]) + h1[::-1]:
        return "getcfcheckpt layout"
    return None


def p_msgs_rt(nonce, hdrs, t, stop, prev, hashes, fitems):
    for cls in (network.PingMessage, network.PongMessage):
        m = cls.parse(BytesIO(nonce))
        if m.nonce != nonce or m.serialize() != nonce:
            return cls.__name__ + " does not round-trip"
    raw = _ref_varint(len(hdrs)) + b"".join(h + b"\x00" for h in hdrs)
    m = network.HeadersMessage.parse(BytesIO(raw))
    if [x.serialize() for x in m.headers] != list(hdrs):
        return "headers message does not round-trip"
    raw = bytes([t]) + stop[::-1] + prev + _ref_varint(len(hashes)) + b"".join(hashes)
    m = compactfilter.CFHeadersMessage.parse(BytesIO(raw))
    if (m.filter_type, m.stop_hash, m.previous_filter_header, list(m.filter_hashes)) != (t, stop, prev, list(hashes)):
        return "cfheaders does not round-trip"
    cur = prev
    for fh in hashes:
        cur = _h256(fh + cur)
    if m.last_header != cur:
        return "cfheaders chain"
    raw = bytes([t]) + stop[::-1] + _ref_varint(len(hashes)) + b"".join(hashes)
    m = compactfilter.CFCheckPointMessage.parse(BytesIO(raw))
    if (m.filter_type, m.stop_hash, list(m.filter_headers)) != (t, stop, list(hashes)):
        return "cfcheckpt does not round-trip"
    fb = _ref_gcs(fitems)
    raw = bytes([t]) + stop[::-1] + _ref_varint(len(fb)) + fb
    m = compactfilter.CFilterMessage.parse(BytesIO(raw))
    if (m.filter_type, m.block_hash, m.filter_bytes) != (t, stop, fb) or m.cf.hashes != set(fitems):
        return "cfilter does not round-trip"
    return None


# ---------------------------------------------------------------- histories: one message / header object, many calls
# Objects live in slots; every query is compared with the byte layout computed (struct + hashlib) from a shadow copy
# of the CURRENT field values, so a serialization / hash remembered from before an edit, or a module-level cache keyed
# by part of the arguments, shows up as a failing step.

import hashlib  # noqa: E402

REF_MAGIC = [bytes.fromhex(x) for x in ("f9beb4d9", "0b110907", "0a03cf40", "fabfb5da")]


def _h256(b):
    return hashlib.sha256(hashlib.sha256(b).digest()).digest()


def _tryE(f, *a, **kw):
    try:
        return f(*a, **kw)
    except Exception:
        return ERR


def _lay_env(f):
    cmd, payload, magic = f
    return magic + cmd.ljust(12, b"\x00") + struct.pack("<I", len(payload)) + _h256(payload)[:4] + payload


def _lay_block(f):
    v, prev, root, ts, bits, nonce = f
    return struct.pack("<I", v) + prev[::-1] + root[::-1] + struct.pack("<I", ts) + bits + nonce


def _lay_version(f):
    v, sv, ts, rs, rip, rp, ss, sip, sp, nonce, ua, lb, relay = f
    return struct.pack("<IQQQ", v, sv, ts, rs) + b"\x00" * 10 + b"\xff\xff" + rip + struct.pack("<H", rp) + \
        struct.pack("<Q", ss) + b"\x00" * 10 + b"\xff\xff" + sip + struct.pack("<H", sp) + nonce + \
        _ref_varint(len(ua)) + ua + struct.pack("<I", lb) + (b"\x01" if relay else b"\x00")


def _ref_varint(n):
    if n < 0 or n >= 2 ** 64:
        raise ValueError
    if n < 0xfd:
        return bytes([n])
    if n < 0x10000:
        return b"\xfd" + struct.pack("<H", n)
    if n < 2 ** 32:
        return b"\xfe" + struct.pack("<I", n)
    return b"\xff" + struct.pack("<Q", n)


def _ref_read_varint(s):
    """(value, rest) with the silent short reads of BytesIO; None when there is no first byte"""
    if not s:
        return None
    w = {0xfd: 2, 0xfe: 4, 0xff: 8}.get(s[0])
    if w is None:
        return s[0], s[1:]
    return int.from_bytes(s[1:1 + w], "little"), s[1 + w:]


KINDS = [
    # name, constructor, attribute names, layout
    ("envelope", lambda f: network.NetworkEnvelope(f[0], f[1], network=NETS[REF_MAGIC.index(f[2])]),
     ["command", "payload", "magic"], _lay_env),
    ("block-header", lambda f: block.Block(*f), ["version", "prev_block", "merkle_root", "timestamp", "bits", "nonce"],
     _lay_block),
    ("version", lambda f: network.VersionMessage(*f[:12], relay=bool(f[12])),
     ["version", "services", "timestamp", "receiver_services", "receiver_ip", "receiver_port", "sender_services",
      "sender_ip", "sender_port", "nonce", "user_agent", "latest_block", "relay"], _lay_version),
    ("getheaders", lambda f: network.GetHeadersMessage(*f), ["version", "num_hashes", "start_block", "end_block"],
     lambda f: struct.pack("<I", f[0]) + _ref_varint(f[1]) + f[2][::-1] + f[3][::-1]),
    ("ping", lambda f: network.PingMessage(*f), ["nonce"], lambda f: f[0]),
    ("pong", lambda f: network.PongMessage(*f), ["nonce"], lambda f: f[0]),
    ("getcfilters", lambda f: compactfilter.GetCFiltersMessage(*f), ["filter_type", "start_height", "stop_hash"],
     lambda f: bytes([f[0]]) + struct.pack("<I", f[1]) + f[2][::-1]),
    ("getcfheaders", lambda f: compactfilter.GetCFHeadersMessage(*f), ["filter_type", "start_height", "stop_hash"],
     lambda f: bytes([f[0]]) + struct.pack("<I", f[1]) + f[2][::-1]),
    ("getcfcheckpt", lambda f: compactfilter.GetCFCheckPointMessage(*f), ["filter_type", "stop_hash"],
     lambda f: bytes([f[0]]) + f[1][::-1]),
    ("generic", lambda f: network.GenericMessage(*f), ["command", "payload"], lambda f: f[1]),
]
K_ENV, K_BLOCK = 0, 1


def _ref_target(bits):
    """Bitcoin Core's arith_uint256::SetCompact; ValueError where Core reports a negative or overflowing target
    (the library raises there since de6be4c)"""
    size, word = bits[-1], int.from_bytes(bits[:-1], "little")
    mant = word & 0x7FFFFF
    t = mant >> 8 * (3 - size) if size < 3 else mant << 8 * (size - 3)
    if (word & 0x800000 and t != 0) or t >= 2 ** 256:
        raise ValueError("negative or overflowing target")
    return t


def _obj_step(op, st):
    """returns (got, want) for queries, (None, None) for constructions and edits"""
    act, slot = op[0], op[1]
    if act == b"new":
        kind, f = op[2], list(op[3])
        if kind == K_ENV:
            f[2] = REF_MAGIC[f[2]]
        st[slot] = [kind, KINDS[kind][1](f), f]
        return None, None
    if act == b"newdata":
        st[slot] = [-1, network.GetDataMessage(), []]
        return None, None
    if act == b"newheaders":                 # a headers message parsed from the wire
        raws = list(op[2])
        raw = _ref_varint(len(raws)) + b"".join(h + b"\x00" for h in raws)
        m = network.HeadersMessage.parse(BytesIO(raw))
        st[slot] = [-2, m, [[struct.unpack("<I", h[:4])[0], h[4:36][::-1], h[36:68][::-1],
                             struct.unpack("<I", h[68:72])[0], h[72:76], h[76:80]] for h in raws]]
        return None, None
    kind, obj, f = st[slot]
    if act == b"set":
        i, v = op[2], op[3]
        if kind == K_ENV and i == 2:
            v = REF_MAGIC[v]
        setattr(obj, KINDS[kind][2][i], v)
        f[i] = v
        return None, None
    if act == b"ser":
        if kind == -1:
            return _tryE(obj.serialize), _tryE(lambda: _ref_varint(len(f)) + b"".join(
                struct.pack("<I", t) + i[::-1] for t, i in f))
        return _tryE(obj.serialize), _tryE(KINDS[kind][3], f)
    if act == b"add":
        obj.add_data(op[2], op[3])
        f.append((op[2], op[3]))
        return None, None
    if act == b"pop":
        if f:
            obj.data.pop(op[2] % len(f))
            f.pop(op[2] % len(f))
        return None, None
    if act == b"hash":                        # block header: hash(), id()
        lay = _tryE(_lay_block, f)
        want = ERR if lay is ERR else [_h256(lay)[::-1], _h256(lay)[::-1].hex()]
        return _tryE(lambda: [obj.hash(), obj.id()]), want
    if act == b"pow":                         # block header: proof of work and version-bit queries
        lay = _tryE(_lay_block, f)
        def num(x):                           # targets of exponents below 3 are floats
            return x if isinstance(x, int) else repr(x)
        want = ERR if lay is ERR else _tryE(lambda: [
            int.from_bytes(_h256(lay), "little") <= _ref_target(f[4]), num(_ref_target(f[4])),
            f[0] >> 29 == 1, f[0] >> 4 & 1 == 1, f[0] >> 1 & 1 == 1])
        return _tryE(lambda: [obj.check_pow(), num(obj.target()), obj.bip9(), obj.bip91(), obj.bip141()]), want
    if act == b"rt":                          # serialize, parse back, compare with the current fields
        if kind == K_ENV:
            cmd, payload, magic = f
            if len(cmd) > 12 or cmd.strip(b"\x00") != cmd or len(payload) >= 2 ** 32:
                return None, None
            net = (REF_MAGIC.index(magic) + op[2]) % 4          # 0: the envelope's own network, else another one
            want = [cmd, payload, magic, payload] if REF_MAGIC[net] == magic else ERR

            def go():
                e = network.NetworkEnvelope.parse(BytesIO(obj.serialize() + b"tail"), network=NETS[net])
                return [e.command, e.payload, e.magic, obj.stream().read()]
            return _tryE(go), want
        if kind == K_BLOCK:
            def go():
                h = block.Block.parse_header(BytesIO(obj.serialize()))
                return _hdr(h)
            return _tryE(go), (ERR if _tryE(_lay_block, f) is ERR else list(f))
        return None, None
    if act == b"hset":                        # edit one field of one header inside a headers message
        i, j, v = op[2] % len(f), op[3], op[4]
        setattr(obj.headers[i], KINDS[K_BLOCK][2][j], v)
        f[i][j] = v
        return None, None
    if act == b"chain":                       # make header i+1 point to the current hash of header i
        i = op[2] % max(1, len(f) - 1)
        if len(f) >= 2 and _tryE(_lay_block, f[i]) is not ERR:
            hh = _h256(_lay_block(f[i]))[::-1]
            obj.headers[i + 1].prev_block = hh
            f[i + 1][1] = hh
        return None, None
    if act == b"valid":
        def ref():
            last = None
            for h in f:
                lay = _lay_block(h)
                try:
                    target = _ref_target(h[4])
                except ValueError:                    # invalid bits never satisfy proof of work (check_pow: False)
                    return False
                if not int.from_bytes(_h256(lay), "little") <= target:
                    return False
                if last and h[1] != last:
                    return False
                last = _h256(lay)[::-1]
            return True
        return _tryE(lambda: [obj.is_valid(), [x.serialize() for x in obj.headers]]), \
            _tryE(lambda: [ref(), [_lay_block(h) for h in f]])
    raise ValueError(act)


def _codec_step(op):
    k, a = op[0], op[1:]
    if k == b"le":
        return _tryE(helper.int_to_little_endian, a[0], a[1]), _tryE(lambda: a[0].to_bytes(a[1], "little"))
    if k == b"be":
        return _tryE(helper.int_to_big_endian, a[0], a[1]), _tryE(lambda: a[0].to_bytes(a[1], "big"))
    if k == b"fle":
        return _tryE(helper.little_endian_to_int, a[0]), sum(b << (8 * i) for i, b in enumerate(a[0]))
    if k == b"fbe":
        return _tryE(helper.big_endian_to_int, a[0]), sum(b << (8 * i) for i, b in enumerate(a[0][::-1]))
    if k == b"vi":
        return _tryE(helper.encode_varint, a[0]), _tryE(_ref_varint, a[0])
    if k == b"rvi":
        r = _ref_read_varint(a[0])
        return _tryE(i_read_varint, a[0]), (ERR if r is None else list(r))
    if k == b"vs":
        return _tryE(helper.encode_varstr, a[0]), _ref_varint(len(a[0])) + a[0]
    if k == b"rvs":
        r = _ref_read_varint(a[0])
        want = ERR if r is None or r[0] >= 2 ** 63 else [r[1][:r[0]], r[1][r[0]:]]
        return _tryE(i_read_varstr, a[0]), want
    if k == b"h256":
        return _tryE(helper.hash256, a[0]), _h256(a[0])
    if k == b"envp":                          # parse an envelope built here from (magic, command, length, checksum)
        net, mnet, cmd, payload, declared, badsum, tail = a
        chk = _h256(payload)[:4]
        if badsum:
            chk = bytes([chk[0] ^ badsum]) + chk[1:]
        raw = REF_MAGIC[mnet] + cmd.ljust(12, b"\x00") + struct.pack("<I", declared) + chk + payload
        ok = net == mnet and declared == len(payload) and not badsum
        if declared < len(payload):           # the declared prefix is what gets read and checked
            ok = net == mnet and _h256(payload[:declared])[:4] == chk
        want = [cmd.strip(b"\x00"), payload[:declared], (payload[declared:] + tail)] if ok else ERR
        return _tryE(i_env_parse, net, raw + tail), want
    if k == b"hdr":
        raw = a[0]
        want = [[int.from_bytes(raw[:4], "little"), raw[4:36][::-1], raw[36:68][::-1],
                                                      int.from_bytes(raw[68:72], "little"), raw[72:76], raw[76:80]], raw[80:]]
        return _tryE(i_parse_header, raw), want
    raise ValueError(k)


def _run(ops, step):
    from vp.sexp import canon
    for i, op in enumerate(ops):
        got, want = step(op)
        if got is None and want is None:
            continue
        if got is ERR and want is ERR:
            continue
        if got is ERR or want is ERR or canon(got) != canon(want):
            def sh(v):
                return "an exception" if v is ERR else repr(v)[:140]
            head = [x if not isinstance(x, (bytes, list)) or len(x) < 24 else "..." for x in op]
            return (f"step {i} {head!r}: got {sh(got)}, the layout of the current fields/arguments is {sh(want)} — after "
                    f"{i} earlier call(s)/edit(s) in this session")
    return None


def p_object_session(ops):
    """envelope / header / message objects kept alive: serialize(), hash(), id(), check_pow(), round trips and
    HeadersMessage.is_valid() asked repeatedly, interleaved with edits of every public field"""
    st = {}
    return _run(ops, lambda op: _obj_step(op, st))


def p_codec_session(ops):
    """the module-level codecs called in arbitrary order on related arguments (same number / other width, same bytes /
    other byte order, same envelope / other network)"""
    return _run(ops, _codec_step)


# ---------------------------------------------------------------- deepening: predicates

def p_version_protocol_layout(v, sv, ts, rs, rip, rp, ss, sip, sp, nonce, ua, lb, relay):
    """VersionMessage.serialize against the protocol layout (ports in network byte order)"""
    f = [v, sv, ts, rs, rip, rp, ss, sip, sp, nonce, ua, lb, relay]
    got = i_version_serialize(*f)
    if got == _ref_version_layout(f, ">H"):
        return None
    if got == _ref_version_layout(f, "<H"):
        return (f"ports-little-endian: receiver_port={rp} sender_port={sp} are serialised little-endian "
                f"({struct.pack('<H', rp).hex()}/{struct.pack('<H', sp).hex()}); the protocol puts the port of a "
                f"network address in network byte order ({struct.pack('>H', rp).hex()}/{struct.pack('>H', sp).hex()})")
    return "version message differs from the protocol layout in more than the byte order of the ports"


def p_version_decodes(v, sv, ts, rs, rip, rp, ss, sip, sp, nonce, ua, lb, relay, rest):
    """a strict protocol decoder reads back every field (the ports byte-swapped: C19_version_decoded_by_protocol_peer)"""
    raw = i_version_serialize(v, sv, ts, rs, rip, rp, ss, sip, sp, nonce, ua, lb, relay)
    got = _ref_version_decode(raw + rest)

    def sw(p):
        return (p % 256) * 256 + p // 256
    want = [[v, sv, ts, [rs, b"\x00" * 10 + b"\xff\xff" + rip, sw(rp)], [ss, b"\x00" * 10 + b"\xff\xff" + sip, sw(sp)],
             nonce, ua, lb, int(bool(relay))], rest]
    if got != want:
        return f"protocol decoder reads {got!r}, fields were {want!r}"
    return None


def p_version_default_nonce(now, upper):
    """VersionMessage() with randint returning its lower (upper=0) or upper (upper=1) bound must not raise"""
    seen = []

    def pick(a, b):
        seen.append((a, b))
        return b if upper else a
    try:
        with _Patched(now, pick):
            m = network.VersionMessage()
    except Exception as e:
        return (f"randint-upper-bound: VersionMessage() raised {type(e).__name__} when randint{seen[-1] if seen else ''} "
                f"returned its {'upper' if upper else 'lower'} bound (randint is inclusive on both ends)")
    if len(m.nonce) != 8 or m.timestamp != now:
        return "default VersionMessage has a wrong nonce length or timestamp"
    return None


def p_requests_decode(v, h1, h2, types, ids, t, height, rest):
    """strict protocol decoders read back what the serialize-only request messages emit"""
    raw = i_getheaders_serialize(v, 1, h1, h2)
    if _ref_getheaders_decode(raw + rest) != [v, [h1], h2, rest]:
        return "getheaders is not decoded back by a protocol decoder"
    raw = i_getdata_serialize(types, ids)
    if _ref_getdata_decode(raw + rest) != [[[a, b] for a, b in zip(types, ids)], rest]:
        return "getdata is not decoded back by a protocol decoder"
    for cls in (compactfilter.GetCFiltersMessage, compactfilter.GetCFHeadersMessage):
        raw = cls(filter_type=t, start_height=height, stop_hash=h1).serialize()
        if _ref_getcfilters_decode(raw + rest) != [t, height, h1, rest]:
            return cls.__name__ + " is not decoded back by a protocol decoder"
    raw = i_getcfcheckpt_serialize(t, h1)
    if _ref_getcfcheckpt_decode(raw + rest) != [t, h1, rest]:
        return "getcfcheckpt is not decoded back by a protocol decoder"
    return None


def p_varint_strict(s):
    """whatever a strict ReadCompactSize accepts, read_varint reads identically; encode_varint is canonical"""
    try:
        n, r = _ref_read_cs(s)
    except Exception:
        return None
    got = _tryE(i_read_varint, s)
    if got is ERR or got != [n, r]:
        return f"strict reader gives ({n}, {r!r}), read_varint gives {got!r}"
    e = helper.encode_varint(n)
    if e + r != s:
        return "canonical encoding accepted by the strict reader is not what encode_varint produces"
    return None


def p_int_byte(n):
    if 0 <= n < 256:
        b = helper.int_to_byte(n)
        if b != bytes([n]) or helper.byte_to_int(b) != n or b != helper.int_to_little_endian(n, 1) or \
                b != helper.int_to_big_endian(n, 1):
            return "int_to_byte / byte_to_int do not round-trip"
    elif not _raises(helper.int_to_byte, n):
        return f"int_to_byte({n}) did not raise"
    return None


def p_node_stream(net, pre, final_cmd, final_payload, rest):
    """SimpleNode.wait_for on envelopes laid out by the reference: skips what is not wanted, answers version with
    verack and ping with pong(nonce) in order, returns the wanted message intact, leaves the stream behind it"""
    magic = REF_MAGIC[net]
    stream = b"".join(_lay_env((c, pl, magic)) for c, pl in pre) + _lay_env((final_cmd, final_payload, magic)) + rest
    want_sent = []
    for c, pl in list(pre) + [(final_cmd, final_payload)]:
        if c == b"version":
            want_sent.append(_lay_env((b"verack", b"", magic)))
        elif c == b"ping":
            want_sent.append(_lay_env((b"pong", pl, magic)))
    cls = CLASSES[final_cmd]
    want_msg = _tryE(lambda: _msgval(cls.parse(BytesIO(final_payload))))
    n = _node(net, stream)
    try:
        m = n.wait_for(cls)
    except Exception as e:
        if want_msg is ERR:
            return None
        return f"wait_for raised {type(e).__name__}: {e}"
    if want_msg is ERR:
        return "wait_for returned although the payload does not parse"
    if _msgval(m) != want_msg:
        return "wait_for returned a different message than the payload carries"
    if n.stream.read() != rest:
        return "wait_for left the stream at the wrong place"
    if n.socket.sent != want_sent:
        return f"wait_for sent {len(n.socket.sent)} envelope(s), expected {len(want_sent)} (verack per version, pong per ping)"
    return None


# ---------------------------------------------------------------- hardening (mutation triage): independent builders

M64 = (1 << 64) - 1
GCS_P, GCS_M = 19, 784931                     # BIP158 basic filter parameters


def _lay_getdata(items):
    items = list(items)
    return _ref_varint(len(items)) + b"".join(struct.pack("<I", t) + i[::-1] for t, i in items)


def _ref_gcs(values):
    """BIP158: N as CompactSize, then the Golomb-Rice (P = 19) coded differences of the sorted values, most significant
    bit first, the last byte padded with zero bits"""
    bits, last = [], 0
    for x in sorted(values):
        d, last = x - last, x
        bits += [1] * (d >> GCS_P) + [0] + [(d >> (GCS_P - 1 - i)) & 1 for i in range(GCS_P)]
    bits += [0] * (-len(bits) % 8)
    return _ref_varint(len(values)) + bytes(
        sum(b << (7 - k) for k, b in enumerate(bits[i:i + 8])) for i in range(0, len(bits), 8))


def _rotl(x, b):
    return ((x << b) | (x >> (64 - b))) & M64


def _ref_siphash(key, msg):
    """SipHash-2-4 (Aumasson / Bernstein reference), 16-byte key, 64-bit result"""
    k0, k1 = struct.unpack("<QQ", key)
    v = [k0 ^ 0x736f6d6570736575, k1 ^ 0x646f72616e646f6d, k0 ^ 0x6c7967656e657261, k1 ^ 0x7465646279746573]

    def rnd():
        v[0] = (v[0] + v[1]) & M64
        v[1] = _rotl(v[1], 13) ^ v[0]
        v[0] = _rotl(v[0], 32)
        v[2] = (v[2] + v[3]) & M64
        v[3] = _rotl(v[3], 16) ^ v[2]
        v[0] = (v[0] + v[3]) & M64
        v[3] = _rotl(v[3], 21) ^ v[0]
        v[2] = (v[2] + v[1]) & M64
        v[1] = _rotl(v[1], 17) ^ v[2]
        v[2] = _rotl(v[2], 32)
    full = len(msg) - len(msg) % 8
    words = [msg[i:i + 8] for i in range(0, full, 8)] + [msg[full:].ljust(7, b"\x00") + bytes([len(msg) & 255])]
    for w in words:
        m = _le(w)
        v[3] ^= m
        rnd()
        rnd()
        v[0] ^= m
    v[2] ^= 0xff
    for _ in range(4):
        rnd()
    return v[0] ^ v[1] ^ v[2] ^ v[3]


class _Spk:
    """stands for a script: the filter only asks for raw_serialize()"""

    def __init__(self, raw):
        self.raw = raw

    def raw_serialize(self):
        return self.raw


def _items32(seed, count, width=32):
    """count pseudo-random strings of this width derived from a seed (so that a replay stays small)"""
    out = []
    for i in range(count):
        b = b""
        k = 0
        while len(b) < width:
            b += hashlib.sha256(seed + struct.pack("<IB", i, k)).digest()
            k += 1
        out.append(b[:width])
    return out


# ---------------------------------------------------------------- hardening: predicates

def p_cfilter_key(t, bh, items, others, prefix, rest):
    """a cfilter message built here as BIP158 says (key = first 16 bytes of the block hash as it is on the wire,
    values = siphash(key, element) * N * M >> 64), parsed from the middle of a stream: the parsed filter has that key,
    contains every element, and answers other queries as the reference does — through the message object"""
    wire = bh[::-1]
    key = wire[:16]
    f = len(items) * GCS_M
    vals = sorted((_ref_siphash(key, it) * f) >> 64 for it in items)
    fb = _ref_gcs(vals)
    raw = bytes([t]) + wire + _ref_varint(len(fb)) + fb
    st = BytesIO(prefix + raw + rest)
    st.read(len(prefix))
    m = compactfilter.CFilterMessage.parse(st)
    if st.read() != rest:
        return "cfilter parse leaves the stream at the wrong place"
    if (m.filter_type, m.block_hash, m.filter_bytes) != (t, bh, fb):
        return "cfilter fields differ from the wire"
    for how, msg in (("parsed", m), ("constructed", compactfilter.CFilterMessage(t, bh, fb))):
        if msg.cf.key != key:
            return (f"the filter of the {how} cfilter message has key {msg.cf.key.hex()} ({len(msg.cf.key)} bytes); BIP158: "
                    f"the first 16 bytes of the block hash in wire order, {key.hex()}")
        if msg.cf.hashes != set(vals) or msg.cf.f != f:
            return f"the filter of the {how} cfilter message holds other values / another range than the wire"
        for it in items:
            if not _tryE(lambda: _Spk(it) in msg) is True:
                return f"an element of the filter is not found through the {how} cfilter message (or the query raised)"
        for o in others:
            want = ((_ref_siphash(key, o) * f) >> 64) in set(vals)
            got = _tryE(lambda: _Spk(o) in msg)
            if got is ERR or got != want:
                return f"membership query through the {how} cfilter message gives {got!r}, BIP158 says {want}"
        if not (msg == m) or msg.hash() != _h256(fb):
            return "cfilter message equality / hash"
    return None


DEFAULT_UA = b"/programmingblockchain:0.1/"


def p_defaults(h1, h2, ts, nonce, payload):
    """what each message is when only the required arguments are given (the documented defaults), and the module
    constants callers pass in"""
    zero32, ip0 = b"\x00" * 32, b"\x00" * 4
    if [network.MAGIC.get(n) for n in NETS] != REF_MAGIC or len(network.MAGIC) != 4:
        return "network magic table"
    if [network.TX_DATA_TYPE, network.BLOCK_DATA_TYPE, network.FILTERED_BLOCK_DATA_TYPE, network.COMPACT_BLOCK_DATA_TYPE,
            network.WITNESS_TX_DATA_TYPE, network.WITNESS_BLOCK_DATA_TYPE] != [1, 2, 3, 4, 0x40000001, 0x40000002]:
        return "inventory type constants"
    if compactfilter.BASIC_FILTER_TYPE != 0 or network.BASIC_FILTER_TYPE != 0:
        return "basic filter type constant"
    cmds = [(network.VersionMessage, b"version"), (network.VerAckMessage, b"verack"), (network.PingMessage, b"ping"),
            (network.PongMessage, b"pong"), (network.GetHeadersMessage, b"getheaders"), (network.HeadersMessage, b"headers"),
            (network.GetDataMessage, b"getdata"), (compactfilter.GetCFiltersMessage, b"getcfilters"),
            (compactfilter.CFilterMessage, b"cfilter"), (compactfilter.GetCFHeadersMessage, b"getcfheaders"),
            (compactfilter.CFHeadersMessage, b"cfheaders"), (compactfilter.GetCFCheckPointMessage, b"getcfcheckpt"),
            (compactfilter.CFCheckPointMessage, b"cfcheckpt")]
    for cls, c in cmds:
        if cls.command != c:
            return f"{cls.__name__}.command is {cls.command!r}"
    # version
    got = network.VersionMessage(timestamp=ts, nonce=nonce).serialize()
    if got != _lay_version([70015, 0, ts, 0, ip0, 8333, 0, ip0, 8333, nonce, DEFAULT_UA, 0, 1]):
        return "VersionMessage(timestamp, nonce): defaults are version 70015, no services, 0.0.0.0:8333 twice, height 0, relay"
    # getheaders
    if network.GetHeadersMessage(start_block=h1).serialize() != struct.pack("<I", 70015) + b"\x01" + h1[::-1] + zero32:
        return "GetHeadersMessage(start_block): defaults are version 70015, one locator hash, zero stop hash"
    if network.GetHeadersMessage(start_block=h1, end_block=h2).serialize() != \
            struct.pack("<I", 70015) + b"\x01" + h1[::-1] + h2[::-1]:
        return "GetHeadersMessage(start_block, end_block)"
    if not _raises(network.GetHeadersMessage) or not _raises(lambda: network.GetHeadersMessage(end_block=h2)):
        return "GetHeadersMessage without a start block did not raise"
    if network.GetDataMessage().serialize() != b"\x00" or network.VerAckMessage().serialize() != b"":
        return "empty getdata / verack"
    # compact-filter requests
    if compactfilter.GetCFiltersMessage(stop_hash=h1).serialize() != b"\x00" + struct.pack("<I", 1) + h1[::-1]:
        return "GetCFiltersMessage(stop_hash): defaults are the basic filter type and start height 1"
    if compactfilter.GetCFHeadersMessage(stop_hash=h1).serialize() != b"\x00" + struct.pack("<I", 0) + h1[::-1]:
        return "GetCFHeadersMessage(stop_hash): defaults are the basic filter type and start height 0"
    if compactfilter.GetCFCheckPointMessage(stop_hash=h1).serialize() != b"\x00" + h1[::-1]:
        return "GetCFCheckPointMessage(stop_hash): default is the basic filter type"
    for cls in (compactfilter.GetCFiltersMessage, compactfilter.GetCFHeadersMessage, compactfilter.GetCFCheckPointMessage):
        if not _raises(cls) or not _raises(lambda: cls(filter_type=0)):
            return cls.__name__ + " without a stop hash did not raise"
    # envelope: mainnet unless told otherwise, on both sides
    raw = network.NetworkEnvelope(b"ping", payload).serialize()
    if raw != _lay_env((b"ping", payload, REF_MAGIC[0])):
        return "NetworkEnvelope(command, payload) is not a mainnet envelope"
    e = network.NetworkEnvelope.parse(BytesIO(raw))
    if (e.command, e.payload, e.magic) != (b"ping", payload, REF_MAGIC[0]):
        return "NetworkEnvelope.parse(stream) does not read a mainnet envelope"
    for net in (1, 2, 3):
        if not _raises(network.NetworkEnvelope.parse, BytesIO(_lay_env((b"ping", payload, REF_MAGIC[net])))):
            return f"NetworkEnvelope.parse(stream) accepted a {NETS[net]} envelope"
    # block header entry points
    hraw = (h1 + h2 + h1)[:80]
    want = [_le(hraw[:4]), hraw[4:36][::-1], hraw[36:68][::-1], _le(hraw[68:72]), hraw[72:76], hraw[76:80]]
    if _hdr(block.Block.parse_header(BytesIO(hraw))) != want or _hdr(block.Block.parse_header(hex=hraw.hex())) != want \
            or _hdr(block.Block.parse_header(stream=BytesIO(hraw))) != want:
        return "Block.parse_header(stream) / (hex=...) disagree with the layout"
    if not _raises(lambda: block.Block.parse_header(BytesIO(hraw), hex=hraw.hex())):
        return "Block.parse_header with both a stream and hex did not raise"
    return None


def _parse_at(kind, net, st):
    if kind == 0:
        return helper.read_varint(st)
    if kind == 1:
        return helper.read_varstr(st)
    if kind == 2:
        e = network.NetworkEnvelope.parse(st, network=NETS[net])
        return [e.command, e.payload, e.magic]
    if kind == 3:
        return _hdr(block.Block.parse_header(st))
    cls = [network.HeadersMessage, network.PingMessage, network.PongMessage, compactfilter.CFilterMessage,
           compactfilter.CFHeadersMessage, compactfilter.CFCheckPointMessage, network.VerAckMessage][kind - 4]
    return _msgval(cls.parse(st))


def p_mid_stream(kind, net, prefix, raw, rest):
    """an object read from the middle of a stream (bytes before and after it) is the object read from a stream that
    starts with it, and the stream is left right behind it"""
    def run(pre):
        st = BytesIO(pre + raw + rest)
        st.read(len(pre))
        return [_parse_at(kind, net, st), st.read()]
    a, b = _tryE(run, b""), _tryE(run, prefix)
    if a is ERR and b is ERR:
        return None
    if a is ERR or b is ERR:
        return f"parser kind {kind}: {'raises' if b is ERR else 'succeeds'} after {len(prefix)} leading bytes, the opposite without"
    from vp.sexp import canon
    if canon(a) != canon(b):
        return f"parser kind {kind}: a different result / stream position after {len(prefix)} leading bytes"
    return None


def p_count_boundary(kind, count, seed, rest):
    """containers whose ITEM COUNT sits at a compact-size boundary"""
    it = _items32(seed, count if kind < 4 else 3, 80 if kind == 0 else 32)
    t, stop, prev = seed[0] if seed else 0, _items32(seed + b"s", 1)[0], _items32(seed + b"p", 1)[0]
    if kind == 0:                                             # headers
        st = BytesIO(_ref_varint(count) + b"".join(h + b"\x00" for h in it) + rest)
        m = network.HeadersMessage.parse(st)
        if len(m.headers) != count or st.read() != rest:
            return f"headers message with {count} headers: {len(m.headers)} parsed or wrong stream position"
        if any(h.serialize() != x for h, x in zip(m.headers, it)):
            return f"headers message with {count} headers does not give the headers back"
        return None
    if kind == 1:                                             # cfheaders
        st = BytesIO(bytes([t]) + stop[::-1] + prev + _ref_varint(count) + b"".join(it) + rest)
        m = compactfilter.CFHeadersMessage.parse(st)
        cur = prev
        for fh in it:
            cur = _h256(fh + cur)
        if (m.filter_type, m.stop_hash, m.previous_filter_header, list(m.filter_hashes), m.last_header) != \
                (t, stop, prev, it, cur) or st.read() != rest:
            return f"cfheaders with {count} filter hashes does not round-trip"
        return None
    if kind == 2:                                             # cfcheckpt
        st = BytesIO(bytes([t]) + stop[::-1] + _ref_varint(count) + b"".join(it) + rest)
        m = compactfilter.CFCheckPointMessage.parse(st)
        if (m.filter_type, m.stop_hash, list(m.filter_headers)) != (t, stop, it) or st.read() != rest:
            return f"cfcheckpt with {count} filter headers does not round-trip"
        return None
    if kind == 3:                                             # getdata
        m = network.GetDataMessage()
        types = [[1, 2, 3, 4, 0x40000001, 0x40000002][x[0] % 6] for x in it]
        for ty, x in zip(types, it):
            m.add_data(ty, x)
        raw = m.serialize()
        if raw != _lay_getdata(zip(types, it)):
            return f"getdata with {count} items differs from the layout"
        if _ref_getdata_decode(raw + rest) != [[[a, b] for a, b in zip(types, it)], rest]:
            return f"getdata with {count} items is not decoded back"
        return None
    if kind == 4:                                             # var-string / version user agent of `count` bytes
        b = (b"".join(it) * (count // 96 + 1))[:count]
        e = helper.encode_varstr(b)
        if e != _ref_varint(count) + b:
            return f"encode_varstr of {count} bytes"
        st = BytesIO(e + rest)
        if helper.read_varstr(st) != b or st.read() != rest:
            return f"read_varstr of {count} bytes"
        f = [70015, 1, 2, 3, b"\x01\x02\x03\x04", 8333, 4, b"\x05\x06\x07\x08", 8333, seed[:8].ljust(8, b"\x00"), b, 5, 1]
        raw = i_version_serialize(*f)
        if raw != _lay_version(f):
            return f"version message with a user agent of {count} bytes"
        return None
    raise ValueError(kind)


def p_headers_txcount(hdrs, j, cnt, rest):
    """headers message whose j-th header is followed by the compact-size `cnt` (raw bytes) instead of a zero byte:
    rejected unless it encodes zero"""
    n = _ref_read_varint(cnt)[0]
    raw = _ref_varint(len(hdrs)) + b"".join(h + (cnt if i == j else b"\x00") for i, h in enumerate(hdrs)) + rest
    st = BytesIO(raw)
    try:
        m = network.HeadersMessage.parse(st)
    except Exception:
        return None if n != 0 else "headers message with zero transaction counts rejected"
    if n != 0:
        return f"headers message accepted although header {j} of {len(hdrs)} is followed by a transaction count of {n}"
    if [h.serialize() for h in m.headers] != list(hdrs) or st.read() != rest:
        return "headers message does not give the headers back"
    return None


def p_cfilter_eq(a, b):
    """CFilterMessage.__eq__ is equality of (filter type, block hash, filter bytes), for parsed and constructed ones"""
    ms = []
    for t, bh, fb in (a, b):
        ms.append(compactfilter.CFilterMessage(t, bh, fb))
        ms.append(compactfilter.CFilterMessage.parse(BytesIO(bytes([t]) + bh[::-1] + _ref_varint(len(fb)) + fb)))
    want = list(a) == list(b)
    for x in ms[:2]:
        for y in ms[2:]:
            if (x == y) != want or (y == x) != want:
                return f"cfilter messages compare {x == y}, their fields are {'equal' if want else 'different'}"
    if not (ms[0] == ms[1]) or not (ms[2] == ms[3]) or ms[0].hash() != _h256(a[2]):
        return "a parsed cfilter message differs from the one constructed from the same fields"
    return None


def p_handshake(net, now, rnd, peer, rest):
    """SimpleNode.handshake on an in-memory stream: sends the default version message first, answers what the peer sends
    (verack per version, pong per ping), returns right behind the peer's verack, raises when none arrives"""
    magic, ip0 = REF_MAGIC[net], b"\x00" * 4
    stream = b"".join(_lay_env((c, pl, magic)) for c, pl in peer) + rest
    ver = _lay_version([70015, 0, now, 0, ip0, 8333, 0, ip0, 8333, struct.pack("<Q", rnd), DEFAULT_UA, 0, 1])
    want_sent, used, done = [_lay_env((b"version", ver, magic))], 0, False
    for c, pl in peer:
        used += 24 + len(pl)
        if c == b"version":
            want_sent.append(_lay_env((b"verack", b"", magic)))
        elif c == b"ping":
            want_sent.append(_lay_env((b"pong", pl, magic)))
        if c == b"verack":
            done = True
            break
    n = _node(net, stream)
    try:
        with _Patched(now, _pick_value(rnd)):
            n.handshake()
    except Exception as e:
        return f"handshake raised {type(e).__name__} although the peer's verack arrives" if done else None
    if not done:
        return "handshake returned although no verack arrived"
    if n.socket.sent != want_sent:
        return (f"handshake sent {len(n.socket.sent)} envelope(s); expected the default version message, then a verack per "
                f"version and a pong per ping ({len(want_sent)} in all)")
    if n.stream.read() != stream[used:]:
        return "handshake left the stream at the wrong place"
    return None


# ---------------------------------------------------------------- audit (round 3 blind spots): alternative entry points,
# falsy / default arguments, several wanted classes, one node used for many calls (failure, then retry), coinciding fields

REF_PORT = [8333, 18333, 38333, 18444]        # default P2P ports of mainnet / testnet3 / signet / regtest (chainparams)


def _ref_gcs_decode(fb):
    """BIP158 Golomb-Rice decoder (P = 19) of a well-formed filter: the N values"""
    n, body = _ref_read_cs(fb)
    bits = [(byte >> (7 - k)) & 1 for byte in body for k in range(8)]
    pos, cur, out = 0, 0, []
    for _ in range(n):
        q = 0
        while bits[pos]:
            q, pos = q + 1, pos + 1
        pos += 1
        rem = 0
        for _ in range(GCS_P):
            rem, pos = (rem << 1) | bits[pos], pos + 1
        cur += (q << GCS_P) + rem
        out.append(cur)
    return out


def _ref_decode_msg(cmd, pl):
    """the value _msgval gives for a WELL-FORMED payload of this command, decoded here from the protocol layout"""
    if cmd == b"verack":
        return [0]
    if cmd in (b"ping", b"pong"):
        return [1 if cmd == b"ping" else 2, _take(pl, 8)[0]]
    if cmd == b"headers":
        n, s = _ref_read_cs(pl)
        out = []
        for _ in range(n):
            h, s = _take(s, 80)
            z, s = _take(s, 1)
            if z != b"\x00":
                raise ValueError("transaction count")
            out.append([_le(h[:4]), h[4:36][::-1], h[36:68][::-1], _le(h[68:72]), h[72:76], h[76:80]])
        return [3, out]
    t, s = _take(pl, 1)
    stop, s = _take(s, 32)
    if cmd == b"cfilter":
        n, s = _ref_read_cs(s)
        fb, s = _take(s, n)
        return [4, t[0], stop[::-1], fb, sorted(set(_ref_gcs_decode(fb)))]
    if cmd == b"cfheaders":
        prev, s = _take(s, 32)
        n, s = _ref_read_cs(s)
        hs = [_take(s[32 * i:], 32)[0] for i in range(n)]
        cur = prev
        for fh in hs:
            cur = _h256(fh + cur)
        return [5, t[0], stop[::-1], prev, hs, cur]
    if cmd == b"cfcheckpt":
        n, s = _ref_read_cs(s)
        return [6, t[0], stop[::-1], [_take(s[32 * i:], 32)[0] for i in range(n)]]
    raise ValueError(cmd)


def _quiet(f):
    """runs f with sys.stdout replaced; returns (result-or-ERR, what was printed)"""
    import contextlib
    import io
    buf = io.StringIO()
    with contextlib.redirect_stdout(buf):
        got = _tryE(f)
    return got, buf.getvalue()


def p_node_session(net, envs, calls, rest, logging):
    """ONE SimpleNode answering several wait_for calls (each for one or more classes, in any order) over a stream laid
    out here; envelopes whose checksum is damaged make the call raise, the next call carries on behind them. Compared with
    a simulation written from the protocol: which envelope ends each call, the message it carries, every verack / pong
    sent so far, the stream position at the end. logging=1: the same with the node's logging switched on."""
    magic = REF_MAGIC[net]
    raws = []
    for c, pl, dmg in envs:
        raw = _lay_env((c, pl, magic))
        if dmg:
            raw = raw[:20] + bytes([raw[20] ^ dmg]) + raw[21:]
        raws.append(raw)
    n = _node(net, b"".join(raws) + rest)
    n.logging = bool(logging)
    k, sent = 0, []
    for ci, wanted in enumerate(calls):
        want, ended = ERR, False
        while True:
            if k >= len(envs):
                ended = True
                break
            c, pl, dmg = envs[k]
            k += 1
            if dmg:
                break
            if c == b"version":
                sent.append(_lay_env((b"verack", b"", magic)))
            elif c == b"ping":
                sent.append(_lay_env((b"pong", pl, magic)))
            if c in wanted:
                want = _tryE(_ref_decode_msg, c, pl)
                break
        got, out = _quiet(lambda: _msgval(n.wait_for(*[CLASSES[w] for w in wanted])))
        where = f"call {ci} (wait_for {[w.decode() for w in wanted]}) on one node, logging={'on' if logging else 'off'}"
        if (got is ERR) != (want is ERR):
            return f"{where}: {'raised' if got is ERR else 'returned'}, the protocol simulation {'raises' if want is ERR else 'returns a message'}"
        if got is not ERR and got != want:
            return f"{where}: returned {got!r:.120}, the stream carries {want!r:.120}"
        if n.socket.sent != sent:
            return f"{where}: {len(n.socket.sent)} envelope(s) sent so far, expected {len(sent)} (verack per version, pong per ping)"
        if not logging and out:
            return f"{where}: printed although logging is off"
        if ended:
            return None
    if n.stream.read() != b"".join(raws[k:]) + rest:
        return "after the last call the stream is not right behind the last envelope read"
    return None


class _ConnSock(_FakeSock):
    def __init__(self, log, stream, fam, typ):
        _FakeSock.__init__(self)
        self.log, self.stream_bytes = log, stream
        log.append(["socket", fam, typ])

    def connect(self, addr):
        self.log.append(["connect", addr[0], addr[1]])

    def makefile(self, *a, **kw):
        self.log.append(["makefile"])
        return BytesIO(self.stream_bytes)


def p_node_ctor(net, how, host, port, cmd, payload, nonce):
    """SimpleNode(...) through its CONSTRUCTOR (socket module replaced): connects once to (host, port or the network's
    default port), and the node then frames what it sends / accepts what it reads with the magic of the network given
    (mainnet when none is given), without printing.  how: 0 SimpleNode(host); 1 (host, network=); 2 (host, port,
    network) positional; 3 (host, port=, network=, logging=False)"""
    import socket as real
    log = []
    if how == 0:
        net = 0
    magic = REF_MAGIC[net]
    stream = _lay_env((b"ping", nonce, magic)) + b"xy"

    class _Mod:
        AF_INET, SOCK_STREAM = real.AF_INET, real.SOCK_STREAM

        @staticmethod
        def socket(fam=-1, typ=-1, *a):
            return _ConnSock(log, stream, fam, typ)
    old = network.socket
    network.socket = _Mod
    try:
        host = host.decode("ascii")
        n = [lambda: network.SimpleNode(host), lambda: network.SimpleNode(host, network=NETS[net]),
             lambda: network.SimpleNode(host, port, NETS[net]),
             lambda: network.SimpleNode(host, port=port, network=NETS[net], logging=False)][how]()
    finally:
        network.socket = old
    wport = port if how >= 2 else REF_PORT[net]
    if [x for x in log if x[0] == "connect"] != [["connect", host, wport]]:
        return f"SimpleNode (form {how}, {NETS[net]}) connected to {[x[1:] for x in log if x[0] == 'connect']!r}, expected {(host, wport)!r}"
    if log[0] != ["socket", real.AF_INET, real.SOCK_STREAM]:
        return "SimpleNode did not open an IPv4 stream socket"

    def go():
        n.send(network.GenericMessage(cmd, payload))
        m = n.wait_for(network.PingMessage)
        return [list(n.socket.sent), m.nonce, n.stream.read()]
    got, out = _quiet(go)
    want = [[_lay_env((cmd, payload, magic)), _lay_env((b"pong", nonce, magic))], nonce, b"xy"]
    if got is ERR or got != want:
        return (f"a node constructed as form {how} for {NETS[net]} does not frame / accept envelopes of that network "
                f"(sent or read differ from the layout with magic {magic.hex()})")
    if out:
        return "a node constructed without logging prints"
    return None


def _lay_merkleblock(hdr, total, hashes, flags):
    return hdr + struct.pack("<I", total) + _ref_varint(len(hashes)) + b"".join(hashes) + _ref_varint(len(flags)) + flags


def _lay_hdr_for(root, seed):
    """an 80-byte header committing to this merkle root (internal byte order)"""
    x = hashlib.sha256(seed).digest()
    return x[:4] + hashlib.sha256(x).digest() + root + x[4:8] + b"\xff\xff\x7f\x20" + x[8:12]


class _TxStub:
    def __init__(self, h):
        self.h = h

    def hash(self):
        return self.h

    def id(self):
        return self.h.hex()


def p_node_requests(net, blocks, noise, swap, rest):
    """the request helpers of SimpleNode (get_filtered_txs, is_tx_accepted) — other routes to getdata + envelope +
    wait_for. blocks: per block [seed, raw transactions (1 or 2), how many of them match the filter]; the peer answers
    each with merkleblock + the matched transactions (a ping in front when noise), all laid out here. Expected: ONE
    getdata envelope listing (3, hash of block i) for every i in order, a pong per ping, the matched transactions in
    order. swap=1: the peer answers with the blocks in reverse order -> must raise when the hashes differ."""
    magic = REF_MAGIC[net]
    infos = []
    for seed, raws, nmatch in blocks:
        hs = [_h256(x) for x in raws]
        root = hs[0] if len(hs) == 1 else _h256(hs[0] + hs[1])
        hdr = _lay_hdr_for(root, seed)
        flags = b"\x01" if len(hs) == 1 else (b"\x07" if nmatch == 2 else b"\x03")
        infos.append((_h256(hdr)[::-1], _lay_merkleblock(hdr, len(hs), hs, flags), list(raws[:nmatch])))
    order = infos[::-1] if swap else infos
    stream, pongs = b"", []
    for bh, mb, matched in order:
        if noise:
            stream += _lay_env((b"ping", bh[:8], magic))
            pongs.append(_lay_env((b"pong", bh[:8], magic)))
        stream += _lay_env((b"merkleblock", mb, magic))
        for x in matched:
            stream += _lay_env((b"tx", x, magic))
    hashes = [i[0] for i in infos]
    n = _node(net, stream + rest)
    got, _ = _quiet(lambda: [[t.hash(), t.id()] for t in n.get_filtered_txs(list(hashes))])
    getdata = _lay_env((b"getdata", _lay_getdata([(3, h) for h in hashes]), magic))
    if not n.socket.sent or n.socket.sent[0] != getdata:
        return (f"get_filtered_txs for {len(hashes)} block(s) did not first send one getdata envelope listing "
                f"(3 = filtered block, hash) for every block in order")
    bad_order = swap and hashes != hashes[::-1]
    if bad_order:
        return None if got is ERR else "get_filtered_txs accepted merkle blocks that answer other hashes than asked, in order"
    want = [[_h256(x)[::-1], _h256(x)[::-1].hex()] for _, _, matched in infos for x in matched]
    if got is ERR or got != want:
        return f"get_filtered_txs returned {'an exception' if got is ERR else len(got)} — expected the {len(want)} matched transaction(s) in order"
    if n.socket.sent[1:] != pongs or n.stream.read() != rest:
        return "get_filtered_txs: pongs sent / stream position differ from the simulation"
    # is_tx_accepted: getdata (1, txid); True when that transaction comes back, not true for another one
    allraw = [x for _, raws, _ in blocks for x in raws]
    slept = []
    old = network.sleep
    network.sleep = lambda t: slept.append(t)
    try:
        for i, x in enumerate(allraw[:2]):
            other = allraw[(i + 1) % len(allraw)]
            for back, expect in ((x, True), (other, other == x)):
                n = _node(net, _lay_env((b"tx", back, magic)) + rest)
                got, _ = _quiet(lambda: bool(n.is_tx_accepted(_TxStub(_h256(x)[::-1]))))
                if n.socket.sent != [_lay_env((b"getdata", _lay_getdata([(1, _h256(x)[::-1])]), magic))]:
                    return "is_tx_accepted did not send one getdata envelope for (1 = tx, txid)"
                if got is ERR or got != expect or n.stream.read() != rest:
                    return f"is_tx_accepted gives {got!r} when {'the' if expect else 'another'} transaction comes back"
    finally:
        network.sleep = old
    return None


def p_block_parse(hdr, raws, rest, hdr2):
    """Block.parse (header + transaction count + whole transactions, laid out here) — the other route to the header
    codec: same header fields as parse_header, serialize() gives the 80 bytes back, one hash per transaction, the stream
    is left behind the last transaction; a second block parsed afterwards leaves the first untouched; Block(...) built
    from the six header fields has no transactions"""
    def fields(h):
        return [_le(h[:4]), h[4:36][::-1], h[36:68][::-1], _le(h[68:72]), h[72:76], h[76:80]]
    st = BytesIO(hdr + _ref_varint(len(raws)) + b"".join(raws) + rest)
    b = block.Block.parse(st)
    hashes = [_h256(x)[::-1] for x in raws]

    def bad(b, h, hashes):
        if _hdr(b) != fields(h) or b.serialize() != h or b.hash() != _h256(h)[::-1]:
            return "header fields / serialize() / hash() differ from the 80 header bytes"
        if b.tx_hashes != hashes or b.txs is None or [t.hash() for t in b.txs] != hashes:
            return f"{len(hashes)} transaction(s) follow the header, the block holds {b.tx_hashes if b.tx_hashes is None else len(b.tx_hashes)} hash(es) / other hashes"
        return None
    e = bad(b, hdr, hashes)
    if e:
        return "Block.parse: " + e
    if st.read() != rest:
        return "Block.parse leaves the stream at the wrong place"
    b2 = block.Block.parse(BytesIO(hdr2 + _ref_varint(len(raws[:1])) + b"".join(raws[:1])))
    e = bad(b2, hdr2, hashes[:1]) or bad(b, hdr, hashes)
    if e:
        return "Block.parse, after another block was parsed: " + e
    h1, h3 = block.Block.parse_header(BytesIO(hdr)), block.Block(*fields(hdr2))
    if _hdr(block.Block.parse_header(BytesIO(hdr), hex="")) != fields(hdr) or _hdr(block.Block.parse_header(BytesIO(hdr), None)) != fields(hdr):
        return "parse_header(stream, hex='' / None) does not read the stream"
    if h1.txs is not None or h1.tx_hashes is not None or h3.txs is not None or h3.tx_hashes is not None or \
            h1.serialize() != hdr or h3.serialize() != hdr2:
        return "a header-only Block (parse_header / six-argument constructor) carries transactions or another header"
    return None


def p_header_hex(text):
    """Block.parse_header(hex=text) for a text of 160 hexadecimal digits (any case, digits only, letters only): the
    fields are those of the 80 bytes the text spells, decoded here digit by digit"""
    t = text.decode("ascii")
    digits = "0123456789abcdef"
    raw = bytes(16 * digits.index(t[i].lower()) + digits.index(t[i + 1].lower()) for i in range(0, len(t), 2))
    want = [_le(raw[:4]), raw[4:36][::-1], raw[36:68][::-1], _le(raw[68:72]), raw[72:76], raw[76:80]]
    got = _tryE(lambda: block.Block.parse_header(hex=t))
    if got is ERR:
        return f"parse_header(hex=...) raised on a well-formed header text ({'digits only' if t.isdigit() else 'upper case' if t.isupper() else 'hex'})"
    if _hdr(got) != want or got.serialize() != raw:
        return "parse_header(hex=...) gives other fields than the bytes the text spells"
    return None


def p_direct_ctor(hdrs, t, stop, prev, hashes):
    """message objects built through their CONSTRUCTORS (not parse): HeadersMessage(list of Block).is_valid(),
    CFHeadersMessage(...).last_header, CFCheckPointMessage(...) are what the parsed ones are"""
    fs = [[_le(h[:4]), h[4:36][::-1], h[36:68][::-1], _le(h[68:72]), h[72:76], h[76:80]] for h in hdrs]
    m = network.HeadersMessage([block.Block(*f) for f in fs])
    pm = network.HeadersMessage.parse(BytesIO(_ref_varint(len(hdrs)) + b"".join(h + b"\x00" for h in hdrs)))

    def ref():
        last = None
        for h in hdrs:
            try:
                target = _ref_target(h[72:76])
            except ValueError:
                return False
            if _le(_h256(h)) > target or (last and h[4:36][::-1] != last):
                return False
            last = _h256(h)[::-1]
        return True
    want = ref()
    for how, x in (("constructed", m), ("parsed", pm)):
        if [y.serialize() for y in x.headers] != list(hdrs):
            return f"{how} headers message holds other headers"
        for _ in range(2):
            if x.is_valid() is not want:
                return f"{how} headers message of {len(hdrs)}: is_valid() is {x.is_valid()!r}, proof of work and links say {want}"
    cur = prev
    for fh in hashes:
        cur = _h256(fh + cur)
    for hs in (list(hashes), tuple(hashes)):
        c = compactfilter.CFHeadersMessage(t, stop, prev, hs)
        if (c.filter_type, c.stop_hash, c.previous_filter_header, list(c.filter_hashes), c.last_header) != \
                (t, stop, prev, list(hashes), cur):
            return "CFHeadersMessage built through its constructor: fields / last_header differ from the filter-header chain"
    k = compactfilter.CFCheckPointMessage(t, stop, list(hashes))
    pk = compactfilter.CFCheckPointMessage.parse(BytesIO(bytes([t]) + stop[::-1] + _ref_varint(len(hashes)) + b"".join(hashes)))
    for x in (k, pk):
        if (x.filter_type, x.stop_hash, list(x.filter_headers)) != (t, stop, list(hashes)):
            return "CFCheckPointMessage constructed / parsed: fields differ"
    return None


def classify(v):
    """maps a violation to the key of a known finding, or None"""
    if v.get("kind") != "prop":
        return None
    d = v.get("detail") or ""
    if v["name"] == "version_protocol_layout" and d.startswith("ports-little-endian:"):
        return "K-C19-version-port-byte-order"
    return None


PROPS = {"varint_rt": p_varint_rt, "varstr_rt": p_varstr_rt, "int_rt": p_int_rt, "env_rt": p_env_rt,
         "env_reject": p_env_reject, "env_short": p_env_short, "header_rt": p_header_rt, "layouts": p_layouts, "msgs_rt": p_msgs_rt,
         "object_session": p_object_session, "codec_session": p_codec_session,
         "version_protocol_layout": p_version_protocol_layout, "version_decodes": p_version_decodes,
         "version_default_nonce": p_version_default_nonce, "requests_decode": p_requests_decode,
         "varint_strict": p_varint_strict, "int_byte": p_int_byte, "node_stream": p_node_stream,
         "cfilter_key": p_cfilter_key, "defaults": p_defaults, "mid_stream": p_mid_stream,
         "count_boundary": p_count_boundary, "headers_txcount": p_headers_txcount, "cfilter_eq": p_cfilter_eq,
         "handshake": p_handshake, "node_session": p_node_session, "node_ctor": p_node_ctor,
         "node_requests": p_node_requests, "block_parse": p_block_parse, "direct_ctor": p_direct_ctor,
         "header_hex": p_header_hex}

# ---------------------------------------------------------------- generators

BOUNDS = [0, 1, 2, 0x7f, 0x80, 0xfb, 0xfc, 0xfd, 0xfe, 0xff, 0x100, 0x101, 0xfffe, 0xffff, 0x10000, 0x10001,
          0xfffffe, 0xffffff, 0x1000000, 0xfffffffe, 0xffffffff, 0x100000000, 0x100000001,
          2 ** 63 - 1, 2 ** 63, 2 ** 64 - 2, 2 ** 64 - 1, 2 ** 64, 2 ** 64 + 1, 2 ** 65, -1, -2, -255, -256]


def rint(r, maxbits=66):
    b = r.randrange(0, maxbits + 1)
    return r.getrandbits(b) if b else 0


def rcmd(r):
    n = r.randrange(0, 13)
    c = bytes(r.randrange(1, 256) for _ in range(n))
    return c


def rheader(r, ctx):
    return ctx.rbytes(80)


# compact targets on both sides of "negative" and of 2^256 (SetCompact), and exponents below 3
EDGE_BITS = [b"\x00\x01\x00\x22", b"\xff\x00\x00\x22", b"\x00\x00\x01\x21", b"\xff\xff\x00\x21", b"\xff\xff\x7f\x20",
             b"\x00\x00\x80\x03", b"\x01\x00\x80\x03", b"\x01\x00\x00\x03", b"\x00\x00\x80\x20", b"\x00\x01\x80\x01",
             b"\x00\x01\x80\x02", b"\x00\x01\x00\x02", b"\xff\xff\x7f\x00", b"\x00\x00\x00\xff", b"\x01\x00\x00\x23"]


def _rfield(ctx, kind, i):
    """a value for attribute i of an object of this kind: mostly in range, sometimes a boundary / out of range"""
    r = ctx.rng
    rare = r.random() < 0.04
    u32 = lambda: r.choice([2 ** 32, -1]) if rare else r.choice([0, 1, 2 ** 32 - 1] + [r.getrandbits(32)] * 5)  # noqa: E731
    u64 = lambda: 2 ** 64 if rare else r.choice([0, 2 ** 64 - 1] + [r.getrandbits(64)] * 4)  # noqa: E731
    u16 = lambda: 65536 if rare else r.choice([0, 8333, 65535, r.getrandbits(16)])  # noqa: E731
    h32 = lambda: ctx.rbytes(32)  # noqa: E731
    if kind == K_ENV:
        return [lambda: rcmd(r) if r.random() < 0.8 else r.choice([b"", b"getcfheaders", b"version"]),
                lambda: ctx.rbytes(r.choice([0, 1, 31, 32, 33, 100, r.randrange(0, 300)])),
                lambda: r.randrange(4)][i]()
    if kind == K_BLOCK:
        bits = lambda: r.choice(EDGE_BITS) if r.random() < 0.3 else \
            ctx.rbytes(3) + bytes([r.choice([0, 1, 2, 3, 4, 0x1d, 0x20, 0x21, 0x22, r.randrange(3, 60)])])  # noqa: E731
        return [u32, h32, h32, u32, bits, lambda: ctx.rbytes(4)][i]()
    name = KINDS[kind][0]
    if name == "version":
        ip = lambda: ctx.rbytes(4)  # noqa: E731
        return [u32, u64, u64, u64, ip, u16, u64, ip, u16, lambda: ctx.rbytes(8),
                lambda: ctx.rbytes(r.choice([0, 1, 27, 252, 253, 300])), u32, lambda: r.randrange(2)][i]()
    if name == "getheaders":
        return [u32, lambda: r.choice([0, 1, 252, 253, 65535, 65536, 2 ** 32, 2 ** 64 - 1, 2 ** 64 if rare else 3]), h32, h32][i]()
    if name in ("ping", "pong"):
        return ctx.rbytes(8)
    t8 = lambda: r.choice([256, -1]) if rare else r.choice([0, 1, 255, r.randrange(256)])  # noqa: E731
    if name in ("getcfilters", "getcfheaders"):
        return [t8, u32, h32][i]()
    if name == "getcfcheckpt":
        return [t8, h32][i]()
    return [lambda: rcmd(r), lambda: ctx.rbytes(r.randrange(0, 60))][i]()      # generic


def _rheader80(ctx, prev=None):
    r = ctx.rng
    raw = bytearray(ctx.rbytes(80))
    raw[75] = r.choice([0x21, 0x22, 0x23, 0x30, 0x1f, 0x20, 0x20])     # exponent near 2^256: proof of work both ways
    if prev is not None:
        raw[4:36] = _h256(bytes(prev))
    if r.random() < 0.5:                      # proof of work that holds: target 0x7fffff << 232, nonce ground here
        raw[72:76] = b"\xff\xff\x7f\x20"
        for _ in range(64):
            if _le(_h256(bytes(raw))) <= 0x7fffff << 232:
                break
            raw[76:80] = ctx.rbytes(4)
    return bytes(raw)


def object_session(ctx):
    r = ctx.rng
    ops, live = [], []
    kinds = r.sample(range(len(KINDS)), 3) + [K_ENV, K_BLOCK]
    for slot, kind in enumerate(kinds):
        ops.append([b"new", slot, kind, [_rfield(ctx, kind, i) for i in range(len(KINDS[kind][2]))]])
        live.append((slot, kind))
    nd, nh = len(kinds), len(kinds) + 1
    ops.append([b"newdata", nd])
    hdrs = []
    for _ in range(r.choice([1, 2, 3, 4])):
        hdrs.append(_rheader80(ctx, hdrs[-1] if hdrs and r.random() < 0.85 else None))
    ops.append([b"newheaders", nh, hdrs])
    for _ in range(r.randrange(30, 60)):
        x = r.random()
        if x < 0.12:
            y = r.random()
            if y < 0.45:
                ops.append([b"add", nd, r.choice([1, 2, 3, 4, (1 << 30) + 1, r.getrandbits(32), 2 ** 32]), ctx.rbytes(32)])
            elif y < 0.55:
                ops.append([b"pop", nd, r.randrange(8)])
            ops.append([b"ser", nd])
            continue
        if x < 0.3:
            y = r.random()
            if y < 0.4:
                ops.append([b"valid", nh])
            elif y < 0.75:
                j = r.randrange(6)
                ops.append([b"hset", nh, r.randrange(4), j, _rfield(ctx, K_BLOCK, j)])
                if r.random() < 0.3 and j not in (0, 3):
                    ops[-1][4] = _rfield(ctx, K_BLOCK, j)
            else:
                ops.append([b"chain", nh, r.randrange(4)])
            if r.random() < 0.6:
                ops.append([b"valid", nh])
            continue
        slot, kind = r.choice(live)
        if x < 0.6:
            i = r.randrange(len(KINDS[kind][2]))
            ops.append([b"set", slot, i, _rfield(ctx, kind, i)])
        q = [b"ser"]
        if kind == K_BLOCK:
            q += [b"hash", b"hash", b"pow", b"rt"]
        if kind == K_ENV:
            q += [b"rt", b"rt"]
        for _ in range(r.choice([1, 1, 2, 3])):
            a = r.choice(q)
            ops.append([a, slot] + ([r.choice([0, 0, 0, 1, 2, 3])] if a == b"rt" else []))
    for slot, kind in live:
        ops.append([b"ser", slot])
        if kind == K_BLOCK:
            ops.append([b"hash", slot])
    ops += [[b"ser", nd], [b"valid", nh]]
    return ops


def codec_session(ctx):
    r = ctx.rng
    ops = []
    ns = [r.choice(BOUNDS), rint(r), rint(r, 32)]
    ns += [ns[1] + 1, ns[1] ^ 0x100, ns[2] << 8]
    for n in ns:
        for l in r.sample([0, 1, 2, 3, 4, 8, 9, 32], 4):
            ops.append([r.choice([b"le", b"be"]), n, l])
        ops.append([b"vi", n])
        if 0 <= n < 2 ** 64:
            e = _ref_varint(n) + ctx.rbytes(r.randrange(0, 3))
            ops.append([b"rvi", e])
            ops.append([b"rvi", e[:-1]])
            ops.append([b"rvs", e + ctx.rbytes(r.randrange(0, 5))])
    bs = [ctx.rbytes(r.choice([0, 1, 2, 4, 8, 32, r.randrange(0, 40)])) for _ in range(3)]
    bs += [bs[0][::-1], bs[1] + b"\x00", b"\x00" + bs[1]]
    for b in bs:
        ops += [[b"fle", b], [b"fbe", b], [b"vs", b], [b"h256", b], [b"rvs", _ref_varint(len(b)) + b + b"xy"],
                [b"rvs", _ref_varint(len(b) + 1) + b]]
    cmd, payload = rcmd(r), ctx.rbytes(r.choice([0, 1, 32, r.randrange(0, 120)]))
    net = r.randrange(4)
    tail = ctx.rbytes(r.randrange(0, 4))
    for p2 in (payload, payload + b"\x00", payload[:-1], ctx.rbytes(len(payload))):
        for c2 in (cmd, cmd[:-1], r.choice([b"getcfheaders", b"getcfcheckpt", b"ping"])):
            ops.append([b"envp", net, net, c2, p2, len(p2), 0, tail])
        ops.append([b"envp", (net + 1) % 4, net, cmd, p2, len(p2), 0, tail])
        ops.append([b"envp", net, (net + r.randrange(1, 4)) % 4, cmd, p2, len(p2), 0, tail])
        ops.append([b"envp", net, net, cmd, p2, len(p2), r.randrange(1, 256), tail])
        ops.append([b"envp", net, net, cmd, p2, len(p2) + r.choice([1, 2, 256]), 0, tail])
        if p2:
            ops.append([b"envp", net, net, cmd, p2, len(p2) - 1, 0, tail])
    raw = ctx.rbytes(80)
    for h in (raw, raw[:76] + ctx.rbytes(4), raw + b"zz", raw[: r.randrange(0, 80)], ctx.rbytes(4) + raw[4:]):
        ops.append([b"hdr", h])
    r.shuffle(ops)
    for op in list(ops):
        if r.random() < 0.25:
            ops.insert(r.randrange(len(ops) + 1), op)
    return ops


# ---------------------------------------------------------------- deepening: generators

def _rpayload(ctx, cmd):
    """a payload for a message of this command: mostly valid, sometimes malformed"""
    r = ctx.rng
    bad = r.random() < 0.15
    if cmd == b"verack":
        return b"" if not bad else ctx.rbytes(r.randrange(1, 4))
    if cmd in (b"ping", b"pong"):
        return ctx.rbytes(8 if not bad else r.choice([0, 1, 7, 9, 12]))
    if cmd == b"headers":
        nh = r.choice([0, 1, 2, 3])
        raw = _ref_varint(nh) + b"".join(ctx.rbytes(80) + b"\x00" for _ in range(nh))
        if bad and nh:
            raw = raw[:-1] + b"\x01" if r.random() < 0.5 else raw[: r.randrange(1, len(raw))]
        return raw
    t, stop = r.randrange(256), ctx.rbytes(32)
    if cmd == b"cfilter":
        nit = r.randrange(0, 6)
        fb = _ref_gcs([r.randrange(0, max(1, nit) * 784931) for _ in range(nit)])
        raw = bytes([t]) + stop[::-1] + _ref_varint(len(fb)) + fb
        return raw if not bad else raw[: r.randrange(0, len(raw))]
    hashes = [ctx.rbytes(32) for _ in range(r.randrange(0, 4))]
    if cmd == b"cfheaders":
        raw = bytes([t]) + stop[::-1] + ctx.rbytes(32) + _ref_varint(len(hashes)) + b"".join(hashes)
    else:
        raw = bytes([t]) + stop[::-1] + _ref_varint(len(hashes)) + b"".join(hashes)
    if bad:                                   # keep the count byte: a cut only shortens the hashes
        raw = raw[: r.randrange(1, len(raw) + 1)] if cmd == b"cfcheckpt" else raw[: r.randrange(34, len(raw) + 1)]
        if len(raw) < (66 if cmd == b"cfheaders" else 34):
            raw = raw[:1]                     # cut before the count: read_varint raises
    return raw


def deep(ctx):
    r = ctx.rng
    # --- int_to_byte / byte_to_int
    for n in [-2, -1, 0, 1, 127, 128, 254, 255, 256, 257, 2 ** 64] + [r.randrange(-300, 600) for _ in range(ctx.n(20, 300))]:
        ctx.label("int_to_byte/in-range" if 0 <= n < 256 else "int_to_byte/out-of-range")
        yield ("corr", "int_to_byte", [n])
        yield ("prop", "int_byte", [n])
    for b in [b"", b"\x00", b"\xff", b"\x01\x02"] + [ctx.rbytes(r.randrange(0, 4)) for _ in range(ctx.n(10, 100))]:
        yield ("corr", "byte_to_int", [b])
    # --- strict CompactSize reader of the Spec against the reference; read_varint extends it
    cs = [bytes([f]) + ctx.rbytes(t) for f in (0, 1, 0xfc, 0xfd, 0xfe, 0xff) for t in range(0, 10)]
    cs += [_ref_varint(n) + ctx.rbytes(r.randrange(0, 3)) for n in BOUNDS if 0 <= n < 2 ** 64]
    cs += [b"\xfd\x00\x00", b"\xfd\xfc\x00", b"\xfd\xfd\x00", b"\xfe\xff\xff\x00\x00", b"\xfe\x00\x00\x01\x00",
           b"\xff\xff\xff\xff\xff\x00\x00\x00\x00", b"\xff\x00\x00\x00\x00\x01\x00\x00\x00", b"", b"\xfd", b"\xfd\xfd"]
    cs += [ctx.rbytes(r.randrange(0, 12)) for _ in range(ctx.n(100, 3000))]
    for x in cs:
        try:
            _ref_read_cs(x)
            ctx.label("read_cs/accepted")
        except Exception:
            ctx.label("read_cs/rejected (short, non-canonical or empty)")
        yield ("corr", "read_cs", [x])
        yield ("prop", "varint_strict", [x])
    # --- version: the strict protocol decoder on what the library emits, on a message recorded on mainnet, on damage
    real = REAL_VERSION_ENVELOPE[24:]
    ctx.label("version/recorded-mainnet-message")
    yield ("corr", "p2p_version_decode", [real])
    yield ("corr", "env_parse", [0, REAL_VERSION_ENVELOPE])
    for k in range(0, len(real), 7):
        yield ("corr", "p2p_version_decode", [real[:k]])
    ports = [0, 257, 0x1f1f, 8333, 18333, 65535, 36128, 1, 256]
    for i in range(ctx.n(40, 1500)):
        v = r.choice([70015, 0, 2 ** 32 - 1, r.getrandbits(32)])
        sv, rs, ss = (r.choice([0, 1, 2 ** 64 - 1, r.getrandbits(64)]) for _ in range(3))
        ts = r.choice([0, 2 ** 64 - 1, r.getrandbits(40)])
        rip, sip = ctx.rbytes(4), ctx.rbytes(4)
        rp = ports[i] if i < len(ports) else r.getrandbits(16)
        sp = r.choice([rp, r.getrandbits(16)])
        nonce = ctx.rbytes(8)
        ua = ctx.rbytes(r.choice([0, 1, 27, 252, 253, 300]))
        lb = r.choice([0, 2 ** 32 - 1, r.getrandbits(32)])
        relay = r.randrange(2)
        f = [v, sv, ts, rs, rip, rp, ss, sip, sp, nonce, ua, lb, relay]
        raw = _lay_version(f)                 # what the library emits today (ports little-endian), laid out here
        rest = ctx.rbytes(r.randrange(0, 4))
        yield ("corr", "version_serialize", f)
        yield ("corr", "p2p_version_decode", [raw + rest])
        yield ("corr", "p2p_version_decode", [raw[: r.randrange(0, len(raw))]])
        bad = bytearray(raw)
        bad[r.randrange(len(bad))] ^= 1 << r.randrange(8)
        yield ("corr", "p2p_version_decode", [bytes(bad)])
        yield ("prop", "version_decodes", f + [rest])
        pal = rp // 256 == rp % 256 and sp // 256 == sp % 256
        ctx.label("version/ports-read-the-same-in-both-byte-orders" if pal else "version/ports-little-endian (known finding)")
        if pal or i < 12 or r.random() < 0.05:
            yield ("prop", "version_protocol_layout", f)
        # IP / nonce of other lengths are serialised as they are: the strict decoder then mis-frames or fails
        if r.random() < 0.2:
            g = list(f)
            g[4] = ctx.rbytes(r.choice([0, 3, 5, 16]))
            g[9] = ctx.rbytes(r.choice([0, 7, 8, 9]))
            yield ("corr", "version_serialize", g)
            yield ("corr", "p2p_version_decode", [_lay_version(g)])
    # --- default VersionMessage(): timestamp from time.time(), nonce from randint(0, 2**64 - 1); 2**64 (the inclusive
    #     bound before the fix 7914d9d) is outside what randint can return and is kept as an int_to_little_endian case
    yield ("corr", "randint_bounds", [])
    for now in [0, 1, 1700000000, 2 ** 64 - 1, 2 ** 64, -1]:
        for rr in [0, 1, 2 ** 63, 2 ** 64 - 1, 2 ** 64, r.getrandbits(64)]:
            ctx.label("version-default/value-beyond-randint-range" if rr == 2 ** 64 else "version-default/ok-or-timestamp-range")
            yield ("corr", "version_default_serialize", [now, rr])
    yield ("prop", "version_default_nonce", [1700000000, 0])
    yield ("prop", "version_default_nonce", [1700000000, 1])
    # --- serialize-only requests against the strict decoders
    for _ in range(ctx.n(40, 1500)):
        v = r.choice([70015, 0, 2 ** 32 - 1, r.getrandbits(32)])
        h1, h2 = ctx.rbytes(32), ctx.rbytes(32)
        k = r.choice([0, 1, 2, 3, 252, 253]) if r.random() < 0.2 else r.randrange(0, 5)
        types = [r.choice([1, 2, 3, 4, (1 << 30) + 1, r.getrandbits(32)]) for _ in range(k)]
        ids = [ctx.rbytes(32) for _ in range(k)]
        t, height = r.randrange(256), r.choice([0, 2 ** 32 - 1, r.getrandbits(32)])
        rest = ctx.rbytes(r.randrange(0, 4))
        yield ("prop", "requests_decode", [v, h1, h2, types, ids, t, height, rest])
        for nh in (1, 1, r.choice([0, 2, 3, 252, 253, 65536, 2 ** 32, 2 ** 64 - 1])):
            raw = struct.pack("<I", v) + _ref_varint(nh) + h1[::-1] + h2[::-1]
            ctx.label("getheaders/num_hashes=1" if nh == 1 else "getheaders/num_hashes!=1 (count does not match)")
            yield ("corr", "p2p_getheaders_decode", [raw + rest])
            yield ("corr", "p2p_getheaders_decode", [raw[: r.randrange(0, len(raw))]])
        raw = _lay_getdata(zip(types, ids))
        yield ("corr", "p2p_getdata_decode", [raw + rest])
        yield ("corr", "p2p_getdata_decode", [raw[: r.randrange(0, len(raw))]])
        raw = bytes([t]) + struct.pack("<I", height) + h1[::-1]
        yield ("corr", "p2p_getcfilters_decode", [raw + rest])
        yield ("corr", "p2p_getcfilters_decode", [raw[: r.randrange(0, len(raw))]])
        raw = bytes([t]) + h1[::-1]
        yield ("corr", "p2p_getcfcheckpt_decode", [raw + rest])
        yield ("corr", "p2p_getcfcheckpt_decode", [raw[: r.randrange(0, len(raw))]])
        for fn in ("p2p_getheaders_decode", "p2p_getdata_decode"):
            yield ("corr", fn, [ctx.rbytes(r.randrange(0, 80))])
    # --- Block.parse_header(hex=...), bytes.fromhex / hex; CFilterMessage.__eq__ / hash
    for _ in range(ctx.n(40, 1000)):
        raw = ctx.rbytes(r.choice([80, 80, 80, 0, 1, 79, 81, r.randrange(0, 100)]))
        text = raw.hex()
        x = r.random()
        if x < 0.15:
            text = text.upper()
        elif x < 0.3 and text:               # white space between pairs / inside a pair, odd length, a non-hex character
            k = r.randrange(0, len(text) + 1)
            text = text[:k] + r.choice([" ", "\n", "\t ", "\x0b", "g", "\u00e9", "0", "_"]) + text[k:]
        ctx.label("parse_header/hex-entry")
        yield ("corr", "parse_header_hex", [text])
        yield ("corr", "hex_decode", [text])
        yield ("corr", "hex_encode", [raw])
    for _ in range(ctx.n(30, 600)):
        def one():
            nit = r.randrange(0, 5)
            fb = _ref_gcs([r.randrange(0, max(1, nit) * 784931) for _ in range(nit)])
            return [r.randrange(3), ctx.rbytes(32), fb]
        a = one()
        b = list(a) if r.random() < 0.5 else one()
        if r.random() < 0.4:
            i = r.randrange(3)
            b[i] = one()[i]
        ra, rb = (bytes([m[0]]) + m[1][::-1] + _ref_varint(len(m[2])) + m[2] for m in (a, b))
        ctx.label("cfilter/__eq__ equal" if a == b else "cfilter/__eq__ different")
        yield ("prop", "cfilter_eq", [a, b])
        yield ("corr", "cfilter_eq", [ra, rb + ctx.rbytes(r.randrange(0, 3))])
        yield ("corr", "cfilter_hash", [ra])
        yield ("corr", "cfilter_eq", [ra, rb[: r.randrange(0, len(rb))]])
    # --- SimpleNode.send / wait_for / handshake on an in-memory stream
    for cmd in [b"", b"a", b"version", b"getcfcheckpt", b"abcdefghijklm", b"\x00x", b"x\x00"]:
        for ln in (0, 1, 100):
            yield ("corr", "node_send", [r.randrange(4), cmd, ctx.rbytes(ln)])
    others = [b"version", b"ping", b"pong", b"verack", b"inv", b"addr", b"sendheaders", b"feefilter", b""]
    for i in range(ctx.n(80, 3000)):
        net = r.randrange(4)
        magic = REF_MAGIC[net]
        final = r.choice(list(CLASSES))
        pre = []
        for _ in range(r.choice([0, 0, 1, 2, 3, 5])):
            c = r.choice(others + [rcmd(r)])
            if c == final:
                continue
            pl = _rpayload(ctx, c) if c in CLASSES else ctx.rbytes(r.choice([0, 8, r.randrange(0, 120)]))
            pre.append([c, pl])
        fpl = _rpayload(ctx, final)
        rest = ctx.rbytes(r.randrange(0, 5))
        wanted = [final] + ([r.choice(list(CLASSES))] if r.random() < 0.3 else [])
        stream = b"".join(_lay_env((c, pl, magic)) for c, pl in pre) + _lay_env((final, fpl, magic)) + rest
        ctx.label(f"node/wait_for {final.decode()} after {min(len(pre), 3)}{'+' if len(pre) > 3 else ''} other envelope(s)")
        yield ("corr", "node_wait_for", [net, wanted, stream])
        if len(wanted) == 1:
            yield ("prop", "node_stream", [net, pre, final, fpl, rest])
        x = r.random()
        if x < 0.25:                          # stream ends early
            ctx.label("node/stream-truncated")
            yield ("corr", "node_wait_for", [net, wanted, stream[: r.randrange(0, len(stream))]])
        elif x < 0.5:                         # one byte damaged somewhere
            ctx.label("node/stream-byte-corrupted")
            bad = bytearray(stream)
            bad[r.randrange(len(bad))] ^= 1 << r.randrange(8)
            yield ("corr", "node_wait_for", [net, wanted, bytes(bad)])
        elif x < 0.6:                         # read as another network
            ctx.label("node/other-network")
            yield ("corr", "node_wait_for", [(net + 1) % 4, wanted, stream])
        elif x < 0.7:                         # nothing wanted ever arrives
            ctx.label("node/wanted-never-arrives")
            yield ("corr", "node_wait_for", [net, [c for c in CLASSES if c != final and all(c != p[0] for p in pre)][:2],
                                            stream])
        elif x < 0.75:
            ctx.label("node/no-class-given")
            yield ("corr", "node_wait_for", [net, [], stream])
    for i in range(ctx.n(12, 200)):
        net = r.randrange(4)
        magic = REF_MAGIC[net]
        now = r.choice([0, 1700000000, 2 ** 64 - 1, 2 ** 64]) if i % 5 == 4 else 1600000000 + r.getrandbits(28)
        rr = r.choice([0, 2 ** 64 - 1, 2 ** 64]) if i % 4 == 3 else r.getrandbits(64)
        peer = [(b"version", REAL_VERSION_ENVELOPE[24:] if r.random() < 0.5 else ctx.rbytes(r.randrange(0, 120)))]
        if r.random() < 0.3:
            peer.append((b"ping", ctx.rbytes(8)))
        if r.random() < 0.85:
            peer.append((b"verack", b""))
        if r.random() < 0.2:
            r.shuffle(peer)
        stream = b"".join(_lay_env((c, pl, magic)) for c, pl in peer) + ctx.rbytes(r.randrange(0, 4))
        ctx.label("node/handshake")
        yield ("corr", "node_handshake", [net, now, rr, stream])
        if 0 <= now < 2 ** 64 and 0 <= rr < 2 ** 64:
            yield ("prop", "handshake", [net, now, rr, [list(x) for x in peer], stream[sum(24 + len(pl) for _, pl in peer):]])


# ---------------------------------------------------------------- hardening (mutation triage): generators

def hardening(ctx):
    r = ctx.rng
    # --- every integer codec on both sides of every width boundary (and -1, the top bit, a leading 0x01 byte)
    for l in (0, 1, 2, 3, 4, 5, 8, 9, 16, 32, 33):
        top = 256 ** l
        for n in sorted({-1, 0, 1, top - 2, top - 1, top, top + 1, top // 2 - 1, top // 2, top // 256, top // 256 - 1, -top}):
            ctx.label("int-codec/width-boundary " + ("fits" if 0 <= n < top else "does not fit"))
            yield ("corr", "int_to_le", [n, l])
            yield ("corr", "int_to_be", [n, l])
            yield ("prop", "int_rt", [n, l])
    yield ("corr", "int_to_le", [1, -1])
    yield ("corr", "int_to_be", [1, -1])
    for b in [b"", b"\x00", b"\x01", b"\x80", b"\xff", b"\x00\x01", b"\x01\x00", b"\x00\x00\x01", b"\x01\x00\x00",
              b"\xff" * 8, b"\x00" * 8 + b"\x01", b"\x01" + b"\x00" * 8, b"\x80" + b"\x00" * 31, b"\x00" * 31 + b"\x80"]:
        ctx.label("int-codec/decode leading-or-trailing-zero bytes")
        yield ("corr", "from_le", [b])
        yield ("corr", "from_be", [b])
        yield ("prop", "codec_session", [[[b"fle", b], [b"fbe", b], [b"le", _le(b), len(b)], [b"be", _le(b), len(b)]]])
    for n in (-1, 0, 1, 254, 255, 256, 257, -256, 2 ** 63):
        yield ("corr", "int_to_byte", [n])
        yield ("prop", "int_byte", [n])
    for n in (0xfb, 0xfc, 0xfd, 0xfe, 0xff, 0x100, 0xfffe, 0xffff, 0x10000, 0x10001, 2 ** 32 - 1, 2 ** 32, 2 ** 32 + 1,
              2 ** 64 - 1, 2 ** 64, -1):
        # compact-size in the middle of a stream; its encodings cut short by one byte; non-canonical spellings of it
        if 0 <= n < 2 ** 64:
            e = _ref_varint(n)
            yield ("prop", "mid_stream", [0, 0, ctx.rbytes(r.randrange(1, 9)), e, ctx.rbytes(r.randrange(0, 3))])
            yield ("corr", "read_varint", [e])
            yield ("corr", "read_varint", [e[:-1]])
            for w, f in ((2, 0xfd), (4, 0xfe), (8, 0xff)):
                if n < 256 ** w:
                    yield ("corr", "read_varint", [bytes([f]) + n.to_bytes(w, "little") + b"\x07"])
                    yield ("prop", "varint_strict", [bytes([f]) + n.to_bytes(w, "little") + b"\x07"])
        yield ("prop", "varint_rt", [n, b"\xfd\x00"])
        yield ("prop", "codec_session", [[[b"vi", n], [b"vi", n + 1], [b"vi", n - 1]]])
    # --- defaults of every message class, module constants, both entry points of parse_header
    for i in range(ctx.n(6, 60)):
        ctx.label("defaults/constructors-with-required-arguments-only")
        yield ("prop", "defaults", [ctx.rbytes(32), ctx.rbytes(32), r.choice([0, 1, 2 ** 64 - 1, r.getrandbits(40)]),
                                    ctx.rbytes(8), ctx.rbytes(r.choice([0, 1, 32, 100]))])
    # --- cfilter: key of the parsed filter and membership through the message (BIP158 built independently)
    for i in range(ctx.n(24, 400)):
        bh = bytearray(ctx.rbytes(32))
        if i % 4 == 1:                      # the bytes around the 16-byte cut carry particular values
            for k in (15, 16, 17, 14):
                bh[k] = r.choice([0, 1, 0x80, 0xff])
        if i % 8 == 2:
            bh = bytearray(b"\x00" * 32)
        if i % 8 == 6:
            bh[:16] = bh[16:]
        nit = [0, 1, 2, 3, 5, 20][i % 6] if i >= 2 else [0xfc, 0xfd][i]
        items = [ctx.rbytes(r.choice([0, 1, 7, 8, 9, 22, 25, 34, 64])) for _ in range(nit)]
        if nit >= 3 and i % 3 == 0:
            items[1] = items[0]             # the same element twice (N counts it twice)
        others = [ctx.rbytes(r.randrange(0, 40)) for _ in range(4 if nit > 50 else 12)]
        ctx.label(f"cfilter/key+membership N={'>=252' if nit >= 252 else nit}")
        yield ("prop", "cfilter_key", [r.choice([0, 0, 1, 255]), bytes(bh), items if nit < 50 else items[:1] * nit, others,
                                       ctx.rbytes(r.choice([0, 1, 5, 33])), ctx.rbytes(r.randrange(0, 4))])
    # --- cfilter messages that differ in exactly one field (type / first or last byte of the hash / filter bytes)
    for k in range(ctx.n(3, 30)):
        a = [r.choice([0, 1, 255]), ctx.rbytes(32), _ref_gcs([r.randrange(0, 3 * GCS_M) for _ in range(3)])]
        for i in range(4):
            b = list(a)
            if i == 0:
                b[0] = (a[0] + r.choice([1, 255])) % 256
            elif i < 3:
                pos = 0 if i == 1 else 31
                b[1] = a[1][:pos] + bytes([a[1][pos] ^ (1 << r.randrange(8))]) + a[1][pos + 1:]
            else:
                b[2] = _ref_gcs([r.randrange(0, 3 * GCS_M) for _ in range(3)])
            ctx.label("cfilter/__eq__ one field different")
            yield ("prop", "cfilter_eq", [a, b])
            yield ("prop", "cfilter_eq", [a, list(a)])
            ra, rb = (bytes([m[0]]) + m[1][::-1] + _ref_varint(len(m[2])) + m[2] for m in (a, b))
            yield ("corr", "cfilter_eq", [ra, rb])
    # --- every parser from the middle of a stream
    for i in range(ctx.n(30, 600)):
        net = r.randrange(4)
        pre = ctx.rbytes(r.choice([1, 2, 4, 24, 80, 81]))
        rest = ctx.rbytes(r.choice([0, 1, 3, 9]))
        hs = [ctx.rbytes(80) for _ in range(r.choice([0, 1, 2, 3]))]
        hashes = [ctx.rbytes(32) for _ in range(r.choice([0, 1, 2, 3]))]
        fb = _ref_gcs([r.randrange(0, 5 * GCS_M) for _ in range(r.randrange(0, 5))])
        vs = ctx.rbytes(r.choice([0, 1, 0xfc, 0xfd, 300]))
        t, stop, prev = r.randrange(256), ctx.rbytes(32), ctx.rbytes(32)
        raws = [None, _ref_varint(len(vs)) + vs, _lay_env((rcmd(r), ctx.rbytes(r.randrange(0, 50)), REF_MAGIC[net])),
                ctx.rbytes(80), _ref_varint(len(hs)) + b"".join(h + b"\x00" for h in hs), ctx.rbytes(8), ctx.rbytes(8),
                bytes([t]) + stop + _ref_varint(len(fb)) + fb,
                bytes([t]) + stop + prev + _ref_varint(len(hashes)) + b"".join(hashes),
                bytes([t]) + stop + _ref_varint(len(hashes)) + b"".join(hashes), b""]
        for kind in range(1, 11):
            raw = raws[kind]
            if r.random() < 0.15 and raw:
                raw = raw[: r.randrange(0, len(raw))]
                rest = b""
            ctx.label("mid-stream/parser after leading bytes")
            yield ("prop", "mid_stream", [kind, net, pre, raw, rest])
    # --- item COUNTS at the compact-size boundaries (through the model up to 0x100, property only for 0xffff/0x10000)
    for count in (0, 1, 2, 0xfc, 0xfd, 0xfe, 0x100):
        seed = ctx.rbytes(4)
        for kind in range(5):
            ctx.label("count-boundary/<=0x100")
            yield ("prop", "count_boundary", [kind, count, seed, ctx.rbytes(r.randrange(0, 3))])
        it = _items32(seed, count)
        dup = it[:1] * count                # the same item in every position
        hd = _items32(seed, count, 80)
        t, stop, prev = r.randrange(256), ctx.rbytes(32), ctx.rbytes(32)
        yield ("corr", "headers_parse", [_ref_varint(count) + b"".join(h + b"\x00" for h in hd) + b"\x01"])
        yield ("corr", "cfheaders_parse", [bytes([t]) + stop + prev + _ref_varint(count) + b"".join(it)])
        yield ("corr", "cfheaders_parse", [bytes([t]) + stop + prev + _ref_varint(count) + b"".join(dup)])
        yield ("corr", "cfcheckpt_parse", [bytes([t]) + stop + _ref_varint(count) + b"".join(it) + b"\x02\x03"])
        yield ("corr", "cfcheckpt_parse", [bytes([t]) + stop + _ref_varint(count + 1) + b"".join(it)])   # one short
        yield ("corr", "getdata_serialize", [[r.choice([1, 2, 3, 4, 0x40000001]) for _ in it], it])
        yield ("corr", "getdata_serialize", [[2] * count, dup])
    for count in (0xffff, 0x10000):
        for kind in ((0, 1, 2, 3, 4) if ctx.tier == "thorough" else (0, 1, 2, 4)):
            ctx.label("count-boundary/0xffff-0x10000")
            yield ("prop", "count_boundary", [kind, count, ctx.rbytes(4), b"\x09"])
    for ln in (0xffff, 0x10000):
        ua = ctx.rbytes(ln)
        f = [70015, 0, 1, 0, ctx.rbytes(4), 8333, 0, ctx.rbytes(4), 8333, ctx.rbytes(8), ua, 0, 1]
        yield ("corr", "version_serialize", f)
        yield ("prop", "version_decodes", f + [b"\x00"])
    # --- headers message: a non-zero transaction count after the first / a middle / the last header
    for nh in (1, 2, 3, 4):
        hdrs = [ctx.rbytes(80) for _ in range(nh)]
        if nh == 4:
            hdrs[2] = hdrs[1]
        for j in range(nh):
            for cnt in (b"\x01", b"\xfc", b"\xfd\x00\x00", b"\xfd\x01\x00", b"\xfe\x00\x00\x00\x00", b"\xff" + b"\x00" * 7 + b"\x01",
                        b"\x00"):
                ctx.label("headers/transaction-count after header first/middle/last")
                rest = ctx.rbytes(r.randrange(0, 3))
                yield ("prop", "headers_txcount", [hdrs, j, cnt, rest])
                yield ("corr", "headers_parse", [_ref_varint(nh) + b"".join(
                    h + (cnt if i == j else b"\x00") for i, h in enumerate(hdrs)) + rest])
    # --- block headers whose compact target sits on an edge: target(), check_pow() and the header list validity
    for k, bits in enumerate(EDGE_BITS):
        f = [r.getrandbits(32), ctx.rbytes(32), ctx.rbytes(32), r.getrandbits(32), bits, ctx.rbytes(4)]
        ctx.label("block-header/compact-target-edge")
        yield ("prop", "object_session", [[[b"new", 0, K_BLOCK, f], [b"pow", 0], [b"hash", 0],
                                           [b"set", 0, 4, EDGE_BITS[(k + 1) % len(EDGE_BITS)]], [b"pow", 0], [b"rt", 0, 0],
                                           [b"newheaders", 1, [_lay_block(f), _rheader80(ctx)]], [b"valid", 1]]])
    # --- envelopes: declared length at the 32-bit boundary, payload-length field boundaries from the middle of a stream
    for (cmd, payload, declared) in [(b"ping", b"12345678", 2 ** 32 - 1), (b"ping", b"", 2 ** 32 - 1), (b"", b"", 0),
                                     (b"abcdefghijkl", b"x" * 255, 255), (b"abcdefghijkl", b"x" * 256, 256),
                                     (b"a", b"x" * 256, 0), (b"a", b"x" * 257, 1)]:
        net = r.randrange(4)
        yield ("prop", "codec_session", [[[b"envp", net, net, cmd, payload, declared, 0, b"tail"],
                                          [b"envp", net, net, cmd, payload, len(payload), 0, b""]]])
        raw = REF_MAGIC[net] + cmd.ljust(12, b"\x00") + struct.pack("<I", declared) + _h256(payload[:declared])[:4] + payload
        yield ("corr", "env_parse", [net, raw])
        yield ("prop", "mid_stream", [2, net, ctx.rbytes(5), raw, b""])


def histories(ctx):
    for _ in range(ctx.n(40, 600)):
        ctx.label("history/message-and-header-objects")
        yield ("prop", "object_session", [object_session(ctx)])
    for _ in range(ctx.n(25, 400)):
        ctx.label("history/module-level-codecs")
        yield ("prop", "codec_session", [codec_session(ctx)])



# ---------------------------------------------------------------- audit (round 3 blind spots): generators

def _good_payload(ctx, cmd):
    """a well-formed payload for this command"""
    for _ in range(50):
        pl = _rpayload(ctx, cmd)
        want = 8 if cmd in (b"ping", b"pong") else 0 if cmd == b"verack" else None
        if want is not None:
            if len(pl) == want:
                return pl
            continue
        try:
            _ref_decode_msg(cmd, pl)
            return pl
        except Exception:
            continue
    raise AssertionError("no well-formed payload")


def _lay_tx(version, ins, outs, locktime):
    """a legacy transaction: ins [(previous txid, index, raw script, sequence)], outs [(amount, raw script)]"""
    return struct.pack("<I", version) + _ref_varint(len(ins)) + b"".join(
        p[::-1] + struct.pack("<I", i) + _ref_varint(len(ss)) + ss + struct.pack("<I", sq) for p, i, ss, sq in ins) + \
        _ref_varint(len(outs)) + b"".join(struct.pack("<Q", a) + _ref_varint(len(spk)) + spk for a, spk in outs) + \
        struct.pack("<I", locktime)


def _rtx(ctx):
    r = ctx.rng
    spks = [b"\x51", b"\x76\xa9\x14" + ctx.rbytes(20) + b"\x88\xac", b"\x00\x14" + ctx.rbytes(20), b"\x6a\x04" + ctx.rbytes(4)]
    ins = [(ctx.rbytes(32), r.choice([0, 1, 2 ** 32 - 1]), r.choice([b"", b"\x51", b"\x04" + ctx.rbytes(4)]),
            r.choice([0xffffffff, 0xfffffffe, 0])) for _ in range(r.choice([1, 1, 2]))]
    outs = [(r.choice([0, 1, 5000, 21 * 10 ** 14]), r.choice(spks)) for _ in range(r.choice([1, 2, 3]))]
    return _lay_tx(r.choice([1, 2]), ins, outs, r.choice([0, 499999999, 500000000, 0xffffffff]))


def audit(ctx):
    r = ctx.rng
    cls = list(CLASSES)
    # --- (f) wait_for with SEVERAL classes: every ordered pair (A, B), the message that arrives is of class B (never the
    #     first one named), its payload would mostly also parse as A
    for a in cls:
        for b in cls:
            if a == b:
                continue
            net = r.randrange(4)
            pl = _good_payload(ctx, b)
            pre = [[b"inv", ctx.rbytes(3)]] if r.random() < 0.5 else []
            rest = ctx.rbytes(r.randrange(0, 3))
            stream = b"".join(_lay_env((c, x, REF_MAGIC[net])) for c, x in pre + [[b, pl]]) + rest
            ctx.label("audit/wait_for two classes, the second one arrives")
            yield ("corr", "node_wait_for", [net, [a, b], stream])
            yield ("prop", "node_session", [net, [[c, x, 0] for c, x in pre + [[b, pl]]], [[a, b]], rest, 0])
    yield ("prop", "node_session", [0, [[c, _good_payload(ctx, c), 0] for c in cls[::-1]], [cls], b"", 0])
    yield ("prop", "node_session", [1, [[c, _good_payload(ctx, c), 0] for c in cls], [cls[::-1]] * len(cls), b"\x00", 0])
    # --- (g) one node, many calls: a damaged envelope makes one call raise, the retry reads on; answers accumulate
    for i in range(ctx.n(30, 400)):
        net = r.randrange(4)
        envs, calls = [], []
        for _ in range(r.choice([2, 3, 4, 6])):
            c = r.choice(cls + [b"version", b"ping", b"inv", b"addr"])
            pl = _good_payload(ctx, c) if c in CLASSES else ctx.rbytes(8 if c == b"ping" else r.randrange(0, 40))
            envs.append([c, pl, r.choice([0, 0, 0, 0, 1, 0x80]) if i % 3 else 0])
        targets = [e[0] for e in envs if e[0] in CLASSES]
        for _ in range(r.choice([1, 2, 3, 4])):
            w = [r.choice(targets)] if targets and r.random() < 0.8 else [r.choice(cls)]
            if r.random() < 0.4:
                w = [r.choice(cls)] + w
            calls.append(w)
        if i % 5 == 0 and targets:                      # the same class asked for again and again
            calls = [[targets[0]]] * 3
        ctx.label("audit/one node, several wait_for calls" + (", with a damaged envelope" if any(e[2] for e in envs) else ""))
        yield ("prop", "node_session", [net, envs, calls, ctx.rbytes(r.randrange(0, 3)), 1 if i % 4 == 3 else 0])
    # --- (a)/(b) SimpleNode through its constructor: default network / default port per network / explicit port
    for net in range(4):
        for how in range(4):
            ctx.label("audit/SimpleNode constructor (socket replaced)")
            yield ("prop", "node_ctor", [net, how, r.choice([b"127.0.0.1", b"example.org"]), r.choice([1, 8333, 18444, 65535]),
                                         r.choice([b"getdata", b"x", b""]), ctx.rbytes(r.choice([0, 5])), ctx.rbytes(8)])
    # --- (a)/(f) the request helpers: several blocks with DIFFERENT hashes, one or two transactions, partly matched
    for i in range(ctx.n(8, 80)):
        nb = [1, 2, 3, 0, 2][i % 5]
        blocks = []
        for _ in range(nb):
            raws = [_rtx(ctx) for _ in range(r.choice([1, 2]))]
            blocks.append([ctx.rbytes(4), raws, r.randrange(1, len(raws) + 1)])
        ctx.label("audit/get_filtered_txs + is_tx_accepted")
        yield ("prop", "node_requests", [r.randrange(4), blocks, i % 2, 1 if i % 5 == 4 else 0, ctx.rbytes(r.randrange(0, 3))])
    # --- (a)/(c) Block.parse: a transaction count of 0 / 1 / 3 behind the header, then another block
    for i in range(ctx.n(8, 100)):
        raws = [_rtx(ctx) for _ in range([0, 1, 3, 2][i % 4])]
        hdr = [ctx.rbytes(80), b"\x00" * 80, b"\xff" * 80, ctx.rbytes(80)][i % 4]
        ctx.label("audit/Block.parse (header + whole transactions)")
        yield ("prop", "block_parse", [hdr, raws, ctx.rbytes(r.randrange(0, 3)), ctx.rbytes(80)])
    # --- (a) constructors of the parsed-only messages
    for i in range(ctx.n(10, 100)):
        hdrs = []
        for _ in range([0, 1, 2, 3, 4][i % 5]):
            hdrs.append(_rheader80(ctx, hdrs[-1] if hdrs and r.random() < 0.85 else None))
        hashes = [ctx.rbytes(32) for _ in range(r.choice([0, 1, 2, 5]))]
        ctx.label("audit/HeadersMessage, CFHeadersMessage, CFCheckPointMessage through their constructors")
        yield ("prop", "direct_ctor", [hdrs, r.randrange(256), ctx.rbytes(32), ctx.rbytes(32), hashes])
    # --- (b)/(c) FALSY arguments where the code tests `is None`: timestamp 0, empty nonce / user agent / addresses,
    #     relay False, port 0; empty start / end block; zero filter type / height
    ip, z8 = b"\x01\x02\x03\x04", b"\x00" * 8
    for f in ([0, 0, 0, 0, b"", 0, 0, b"", 0, b"", b"", 0, 0],
              [70015, 0, 0, 0, ip, 8333, 0, ip, 8333, b"", DEFAULT_UA, 0, 1],
              [70015, 1, 0, 1, ip, 0, 1, ip, 0, z8, b"", 0, 0],
              [0, 0, 1, 0, b"\x00" * 4, 8333, 0, b"\x00" * 4, 8333, z8, b"\x00", 0, 1]):
        ctx.label("audit/falsy arguments (0, empty bytes, False)")
        yield ("corr", "version_serialize", f)
        yield ("prop", "object_session", [[[b"new", 0, 2, f], [b"ser", 0], [b"set", 0, 2, 0], [b"set", 0, 9, b""], [b"ser", 0]]])
    for v, nh, s, e in ((0, 0, b"", b""), (70015, 1, b"\x00" * 32, b""), (70015, 1, b"", b"\x00" * 32), (0, 0, b"\x00" * 32, b"\x00" * 32),
                        (70015, 1, ctx.rbytes(32), b"\x00")):
        ctx.label("audit/falsy arguments (0, empty bytes, False)")
        yield ("corr", "getheaders_serialize", [v, nh, s, e])
        yield ("prop", "object_session", [[[b"new", 0, 3, [v, nh, s, e]], [b"ser", 0]]])
    for t, h, stop in ((0, 0, b""), (0, 0, b"\x00" * 32), (0, 1, b"\xff" * 32), (255, 2 ** 32 - 1, b"\x00")):
        yield ("corr", "getcfilters_serialize", [t, h, stop])
        yield ("corr", "getcfcheckpt_serialize", [t, stop])
    yield ("corr", "getdata_serialize", [[0, 0], [b"", b"\x00" * 32]])
    for cmd, pl in ((b"", b""), (b"\x00", b"\x00"), (b"\xff" * 12, b"\xff" * 4), (b"\x00" * 12, b"\x00" * 32)):
        for net in (0, 3):
            yield ("corr", "env_serialize", [net, cmd, pl])
            yield ("corr", "env_parse", [net, _lay_env((cmd, pl, REF_MAGIC[net]))])
            yield ("prop", "codec_session", [[[b"envp", net, net, cmd.strip(b"\x00"), pl, len(pl), 0, b""]]])
    # --- (d) header bytes / header hex text of one character class: all zero, all ff, decimal digits only, letters only,
    #     upper case only, mixed case
    for k, raw in enumerate([b"\x00" * 80, b"\xff" * 80, bytes([0x10 * r.randrange(10) + r.randrange(10) for _ in range(80)]),
                             bytes([0x10 * r.randrange(10, 16) + r.randrange(10, 16) for _ in range(80)]),
                             b"\x99" * 80, b"\xaa" * 80, ctx.rbytes(80)]):
        for text in sorted({raw.hex(), raw.hex().upper(), raw.hex().upper()[:80] + raw.hex()[80:], raw.hex().title()}):
            ctx.label("audit/header and header-hex of one character class")
            yield ("corr", "parse_header_hex", [text])
            yield ("corr", "hex_decode", [text])
            yield ("prop", "header_hex", [text.encode("ascii")])
        yield ("corr", "parse_header", [raw])
        yield ("corr", "hex_encode", [raw])
        yield ("prop", "header_rt", [raw])
        yield ("prop", "codec_session", [[[b"hdr", raw], [b"hdr", raw + raw[:3]]]])
        yield ("prop", "mid_stream", [3, 0, raw[:7], raw, raw[:2]])
    # --- (c) cfilter: N = 0 with filter bits present, N larger than the bits hold, non-zero padding, all-one bits,
    #     a block hash of one byte class
    for bh in (b"\x00" * 32, b"\xff" * 32, ctx.rbytes(32)):
        two = _ref_gcs([5, 3 * GCS_M])
        for fb in (b"\x00", b"\x00\xff\xff\xff", b"\x00" + two[1:], b"\x03" + two[1:], two[:-1] + bytes([two[-1] | 1]),
                   b"\x01" + b"\xff" * 6, b"\x01\x00\x00", b"\x01\x00\x00\x00", b"\xfd\x00\x00", b"\xfd\x02\x00" + two[1:], b""):
            ctx.label("audit/cfilter count-vs-bits coincidences")
            yield ("corr", "cfilter_parse", [b"\x00" + bh + _ref_varint(len(fb)) + fb + b"\x07"])
    # --- (c)/(f) headers / cfheaders whose elements are all EQUAL or differ only in one position
    h = ctx.rbytes(80)
    for hs in ([h, h, h], [h, h[:79] + bytes([h[79] ^ 1]), h], [b"\x00" * 80, b"\xff" * 80]):
        yield ("corr", "headers_parse", [_ref_varint(len(hs)) + b"".join(x + b"\x00" for x in hs)])
        yield ("prop", "direct_ctor", [hs, 0, b"\x00" * 32, b"\x00" * 32, [x[:32] for x in hs]])



def generate(ctx):
    r = ctx.rng
    # --- integers
    for n in BOUNDS:
        yield ("corr", "encode_varint", [n])
        yield ("prop", "varint_rt", [n, ctx.rbytes(r.randrange(0, 4))])
        for l in (0, 1, 2, 3, 4, 8, 32):
            yield ("corr", "int_to_le", [n, l])
            yield ("corr", "int_to_be", [n, l])
            yield ("prop", "int_rt", [n, l])
    for _ in range(ctx.n(300, 20000)):
        n = rint(r)
        if r.random() < 0.1:
            n = -n
        l = r.choice([1, 2, 4, 8, 8, 9, 16, 32])
        yield ("corr", "encode_varint", [n])
        yield ("prop", "varint_rt", [n, ctx.rbytes(r.randrange(0, 4))])
        yield ("corr", "int_to_le", [n, l])
        yield ("corr", "int_to_be", [n, l])
        yield ("prop", "int_rt", [n, l])
        b = ctx.rbytes(r.randrange(0, 40))
        yield ("corr", "from_le", [b])
        yield ("corr", "from_be", [b])
    # --- read_varint on every prefix shape, incl. short reads
    for first in (0, 1, 0xfc, 0xfd, 0xfe, 0xff):
        for tail in range(0, 11):
            s = bytes([first]) + ctx.rbytes(tail)
            ctx.label("read_varint/short" if tail < {0xfd: 2, 0xfe: 4, 0xff: 8}.get(first, 0) else "read_varint/full")
            yield ("corr", "read_varint", [s])
    yield ("corr", "read_varint", [b""])
    for _ in range(ctx.n(200, 5000)):
        yield ("corr", "read_varint", [ctx.rbytes(r.randrange(0, 12))])
    # --- varstr
    for ln in [0, 1, 0xfc, 0xfd, 0xfe, 0xff, 0x100, 0xffff, 0x10000, 70000] + [r.randrange(0, 600) for _ in range(ctx.n(40, 600))]:
        b = ctx.rbytes(ln)
        yield ("corr", "encode_varstr", [b])
        yield ("prop", "varstr_rt", [b, ctx.rbytes(r.randrange(0, 5))])
        e = _ref_varint(len(b)) + b + ctx.rbytes(r.randrange(0, 5))
        yield ("corr", "read_varstr", [e])
        if ln < 600:
            yield ("corr", "read_varstr", [e[: r.randrange(0, len(e) + 1)]])
    for _ in range(ctx.n(100, 3000)):
        yield ("corr", "read_varstr", [ctx.rbytes(r.randrange(0, 30))])
    # declared lengths >= 2^63: BytesIO.read raises OverflowError
    for top in (0x7f, 0x80, 0xff):
        yield ("corr", "read_varstr", [b"\xff" + ctx.rbytes(7) + bytes([top]) + ctx.rbytes(3)])
        ctx.label("read_varstr/length>=2^63" if top >= 0x80 else "read_varstr/length<2^63")
    # --- envelopes
    sizes = [0, 1, 2, 31, 32, 33, 255, 256, 1000, 65535, 65536, 100000]
    envs = []
    for i in range(ctx.n(60, 1500)):
        net = r.randrange(4)
        cmd = rcmd(r) if i >= 13 else bytes(r.randrange(1, 256) for _ in range(i))
        if i % 7 == 3:
            cmd = r.choice([b"version", b"verack", b"ping", b"pong", b"headers", b"getheaders", b"getdata",
                            b"cfilter", b"cfheaders", b"cfcheckpt", b"getcfilters", b"getcfcheckpt"])
        ln = sizes[i] if i < len(sizes) else r.randrange(0, 300)
        payload = ctx.rbytes(ln)
        rest = ctx.rbytes(r.randrange(0, 6))
        envs.append((net, cmd, payload))
        yield ("corr", "env_serialize", [net, cmd, payload])
        yield ("prop", "env_rt", [net, cmd, payload, rest])
        raw = _lay_env((cmd, payload, REF_MAGIC[net])) + rest
        yield ("corr", "env_parse", [net, raw])
        yield ("corr", "env_parse", [(net + 1) % 4, raw])
        ctx.label("envelope/payload>=64k" if ln >= 65536 else "envelope/small")
    # commands with NULs inside / at the ends, over-long commands (model only: what the codec does)
    for cmd in [b"\x00abc", b"abc\x00", b"a\x00b", b"\x00", b"\x00" * 12, b"abcdefghijklm", b"a" * 20]:
        yield ("corr", "env_serialize", [0, cmd, b"xyz"])
        yield ("corr", "env_parse", [0, _lay_env((cmd, b"xyz", REF_MAGIC[0]))])
    # every truncation offset and every single-byte corruption of small envelopes
    small = [e for e in envs if len(e[2]) <= 40][: ctx.n(6, 60)]
    for (net, cmd, payload) in small:
        raw = _lay_env((cmd, payload, REF_MAGIC[net]))
        for pos in range(len(raw)):
            yield ("prop", "env_reject", [net, cmd, payload, 0, pos, 0])
            yield ("corr", "env_parse", [net, raw[:pos]])
            ctx.label("envelope/truncated")
        for pos in range(len(raw)):
            val = r.randrange(256)
            yield ("prop", "env_reject", [net, cmd, payload, 1, pos, val])
            bad = raw[:pos] + bytes([raw[pos] ^ ((val % 255) + 1)]) + raw[pos + 1:]
            yield ("corr", "env_parse", [net, bad])
            ctx.label("envelope/byte-corrupted")
    # declared length larger than what follows but checksum of what arrived is right (short payload)
    for (net, cmd, payload) in envs[: ctx.n(20, 300)]:
        if not payload:
            continue
        cut = r.randrange(0, len(payload))
        part = payload[:cut]
        raw = REF_MAGIC[net] + cmd.ljust(12, b"\x00") + struct.pack("<I", len(payload)) + _h256(part)[:4] + part
        ctx.label("envelope/short-payload-matching-checksum")
        yield ("prop", "env_short", [net, cmd, payload, cut])
        yield ("corr", "env_parse", [net, raw])
    for _ in range(ctx.n(100, 3000)):
        yield ("corr", "env_parse", [r.randrange(4), ctx.rbytes(r.randrange(0, 60))])
    # --- block headers
    for _ in range(ctx.n(80, 3000)):
        raw = ctx.rbytes(80)
        yield ("prop", "header_rt", [raw])
        yield ("corr", "parse_header", [raw + ctx.rbytes(r.randrange(0, 4))])
        yield ("corr", "parse_header", [raw[: r.randrange(0, 81)]])
        v, t = _le(raw[:4]), _le(raw[68:72])
        if r.random() < 0.2:
            v = r.choice([-1, 2 ** 32, 2 ** 32 - 1, 0])
        if r.random() < 0.2:
            t = r.choice([-1, 2 ** 32, 2 ** 32 - 1, 0])
        yield ("corr", "serialize_header", [v, raw[4:36][::-1], raw[36:68][::-1], t, raw[72:76], raw[76:80]])
    # --- fixed-layout messages
    for _ in range(ctx.n(60, 2000)):
        v = r.choice([70015, 0, 2 ** 32 - 1, r.getrandbits(32)])
        sv = r.choice([0, 1, 2 ** 64 - 1, r.getrandbits(64)])
        ts = r.choice([0, 2 ** 64 - 1, r.getrandbits(40)])
        rip, sip = ctx.rbytes(4), ctx.rbytes(4)
        rp, sp = r.choice([0, 8333, 65535]), r.getrandbits(16)
        nonce = ctx.rbytes(8)
        ua = ctx.rbytes(r.choice([0, 1, 27, 252, 253, 300]))
        lb = r.choice([0, 2 ** 32 - 1, r.getrandbits(32)])
        relay = r.randrange(2)
        n = r.choice([0, 1, 252, 253, 65535, 65536, 2 ** 32, 2 ** 64 - 1])
        h1, h2 = ctx.rbytes(32), ctx.rbytes(32)
        k = r.choice([0, 1, 2, 3, 252, 253]) if r.random() < 0.3 else r.randrange(0, 5)
        types = [r.choice([1, 2, 3, 4, (1 << 30) + 1, (1 << 30) + 2, r.getrandbits(32)]) for _ in range(k)]
        ids = [ctx.rbytes(32) for _ in range(k)]
        yield ("corr", "version_serialize", [v, sv, ts, sv, rip, rp, sv, sip, sp, nonce, ua, lb, relay])
        yield ("corr", "getheaders_serialize", [v, n, h1, h2])
        yield ("corr", "getdata_serialize", [types, ids])
        yield ("corr", "getcfilters_serialize", [v % 256, lb, h1])
        yield ("corr", "getcfcheckpt_serialize", [v % 256, h1])
        yield ("prop", "layouts", [v, sv, ts, rip, rp, sip, sp, nonce, ua, lb, relay, n, h1, h2, types, ids])
        # out-of-range fields must raise on both sides
        yield ("corr", "version_serialize", [r.choice([-1, 2 ** 32]), sv, ts, sv, rip, r.choice([rp, 65536]), sv, sip, sp, nonce, ua, lb, relay])
        yield ("corr", "getcfilters_serialize", [r.choice([256, -1, 255]), r.choice([lb, 2 ** 32]), h1])
    for _ in range(ctx.n(60, 1500)):
        nh = r.choice([0, 1, 2, 3, 5])
        hdrs = [ctx.rbytes(80) for _ in range(nh)]
        raw = _ref_varint(nh) + b"".join(h + b"\x00" for h in hdrs)
        yield ("corr", "headers_parse", [raw + ctx.rbytes(r.randrange(0, 3))])
        if raw:
            bad = bytearray(raw)
            bad[r.randrange(len(bad))] ^= 1 << r.randrange(8)
            yield ("corr", "headers_parse", [bytes(bad)])
            yield ("corr", "headers_parse", [raw[: r.randrange(0, len(raw))]])
        s = ctx.rbytes(r.randrange(0, 20))
        yield ("corr", "ping_parse", [s])
        t = r.randrange(256)
        stop, prev = ctx.rbytes(32), ctx.rbytes(32)
        nhash = r.choice([0, 1, 2, 5, 252, 253]) if r.random() < 0.2 else r.randrange(0, 6)
        hashes = [ctx.rbytes(32) for _ in range(nhash)]
        raw = bytes([t]) + stop[::-1] + prev + _ref_varint(nhash) + b"".join(hashes)
        yield ("corr", "cfheaders_parse", [raw + ctx.rbytes(r.randrange(0, 3))])
        yield ("corr", "cfheaders_parse", [raw[: r.randrange(0, len(raw))]])
        raw = bytes([t]) + stop[::-1] + _ref_varint(nhash) + b"".join(hashes)
        yield ("corr", "cfcheckpt_parse", [raw + ctx.rbytes(r.randrange(0, 3))])
        yield ("corr", "cfcheckpt_parse", [raw[: r.randrange(0, len(raw))]])
        nit = r.randrange(0, 12)
        fitems = sorted(r.randrange(0, max(1, nit) * 784931) for _ in range(nit))
        if nit > 2 and r.random() < 0.3:
            fitems[1] = fitems[0]
        fb = _ref_gcs(fitems)
        raw = bytes([t]) + stop[::-1] + _ref_varint(len(fb)) + fb
        yield ("corr", "cfilter_parse", [raw + ctx.rbytes(r.randrange(0, 3))])
        yield ("corr", "cfilter_parse", [raw[: r.randrange(0, len(raw))]])
        bad = bytearray(raw)
        bad[r.randrange(33, len(bad))] ^= 1 << r.randrange(8)
        yield ("corr", "cfilter_parse", [bytes(bad)])
        yield ("prop", "msgs_rt", [ctx.rbytes(8), hdrs, t, stop, prev, hashes, sorted(set(fitems))])
    # --- deepening: protocol decoders, default version message, SimpleNode on an in-memory stream
    yield from deep(ctx)
    # --- hardening after the mutation triage: constructed boundary classes
    yield from hardening(ctx)
    # --- histories: objects queried repeatedly and edited in between; module-level codecs in arbitrary order
    yield from histories(ctx)
    # --- audit of round-3 blind spots: other entry points, falsy arguments, several classes, node reuse
    yield from audit(ctx)
