"""C10 — PSBT codec (global / input / output maps) and the create-update-sign-combine-finalise workflow."""
import base64
import contextlib
import hashlib
import hmac
import io
import itertools
import os
import re
from io import BytesIO

import buidl.tx as btx
from buidl.ecc import G, N as _N, PrivateKey, S256Point
from buidl.hd import HDPrivateKey, HDPublicKey
from buidl.helper import encode_varint, encode_varstr, hash160, parse_binary_path, read_varint, read_varstr
from buidl.psbt import PSBT, NamedHDPublicKey, NamedPublicKey, PSBTIn, PSBTOut, serialize_binary_path
from buidl.script import (P2PKHScriptPubKey, P2SHScriptPubKey, P2TRScriptPubKey, P2WPKHScriptPubKey,
                          P2WSHScriptPubKey, RedeemScript, Script, ScriptPubKey, WitnessScript)
from buidl.tx import Tx, TxFetcher, TxIn, TxOut
from buidl.witness import Witness

PID = "C10"
RULE = ("Wallets: single-key P2PKH / P2WPKH / P2SH-P2WPKH and m-of-n P2SH / P2WSH / P2SH-P2WSH for every "
        "1 <= m <= n <= 3 (<= 4 in the thorough tier), 1..3 inputs, every subset of signers and every order of "
        "signing/combining (n <= 3); PSBTs with unknown key-value pairs in all three map kinds and global xpubs; "
        "every PSBT byte string the workflow produces plus the PSBT vectors of the repository's tests is "
        "re-serialised; malformed stream = truncation at every offset, byte flips, duplicated / reordered / "
        "dropped entries, wrong key lengths, empty-value duplicates, corrupted and swapped partial signatures; "
        "finaliser fed with foreign-key, empty and surplus signatures.  Creator/Updater compared with an "
        "independent reference for all six own script types and nine foreign output shapes (create / update / "
        "update twice / partial lookups / witness UTXO already present), the validate flag of create in both "
        "directions and by default, PSBTs created from signed transactions; one PSBT with inputs of three wallets "
        "of different types; finalised PSBTs on both sides of combine and partially finalised multi-input PSBTs; "
        "every refusal path of finalize; extraction of an invalid finalised PSBT; PSBTIn/PSBTOut.validate on the "
        "product scriptPubKey x UTXO form x RedeemScript x WitnessScript x derivations incl. constructed hash "
        "coincidences; typed entries duplicated / re-keyed inside valid maps; global xpub shapes and ancestry, "
        "derivation networks spread over xpubs, inputs and outputs; combine field by field; compact-size boundaries "
        "0xfc/0xfd/0xffff/0x10000 for lengths and map counts; PSBTs read from the middle of a stream.  Entry points next "
        "to the main path: NamedHDPublicKey.from_hd_priv / bip44_lookup / pubkey_lookup / redeem_script_lookup (default "
        "and explicit limits) feeding update() with its optional arguments left out, PSBT.sign(hd_priv) with different "
        "keys per input and two keys of one root in one input, replace_root_xfps / remove_global_xpubs against a "
        "byte-level reference, parse / parse_base64 with the network given, constructors with all optional arguments "
        "left out edited in place next to a second object, two extractions from one PSBT; empty input / output lists, "
        "both UTXO forms in one map, global xpubs colliding after version normalisation, depth-0 xpubs with parent "
        "data, all-zero / all-ff fingerprints, indices and chain codes, declared lengths the parser does not need and "
        "over-long compact sizes.  Modelled and compared on every run since the second deepening pass: "
        "sign_with_private_keys (keys in order / reversed / foreign / repeated / none / already signed) on the PSBT of every "
        "workflow, validate() as a state transformer of the unsigned transaction (updated, signed, finalised, finalised with "
        "a final scriptSig / witness that does not verify), helper.base64_encode / base64_decode (every length class, "
        "truncation at every offset, inserted junk / padding / non-ASCII characters, data after the padding, str and bytes "
        "arguments) and PSBT.parse_base64 on the text of workflow PSBTs, PSBTIn/PSBTOut/PSBT.update on single maps (six script "
        "types x origin of the UTXO x lookups given x scripts already present, right and stale; foreign and unsupported "
        "scriptPubKeys; an existing RedeemScript the lookup lacks), sighash-type values of 0..9 bytes through parse and "
        "serialize, PSBT.sign(hd_priv) with every wallet root, a root nobody names and a derivation filed under another key's path.")
TRUSTED = ["hashlib / hmac (sha256, ripemd160, sha512) — hash functions are universally quantified in the theorems",
           "oracles of the model, served by the implementation's own Tx methods at run time: Tx.sig_hash_legacy, "
           "Tx.sig_hash_bip143 (C05) and Tx.verify_input (C06/C07); ECDSA verification, SEC/DER parsing and "
           "BIP32 public derivation are the extracted Model/Pecc.v on secp256k1",
           "PrivateKey.sign and S256Point.verify are memoised by the harness (pure functions; same results)",
           "signature producers of the Signer model: Tx.get_sig_segwit / get_sig_legacy of the implementation (table per key and input); PSBT.sign_with_private_keys, PSBTIn/PSBTOut/PSBT.update, validate() as a state transformer and the base64 layer ARE modelled and compared on every run; PSBT.create and PSBT.sign(hd_priv) stay tied by the workflow cases only"]
ASSUMPTIONS = ["Python dicts are modelled as key-sorted association lists: insertion order is not modelled; it is "
               "observable only in PSBT.validate's `for hd_pub in hd_pubs.values(): ... break` when two global "
               "xpubs are both ancestors of one key and disagree",
               "named_pubs dictionary keys equal the SEC encoding of the stored point (true for parse and update)",
               "PSBT.parse is exercised with network=None (the default)"]
BUDGET_S = {"quick": 3000, "thorough": 7200}   # wall clock incl. waiting for the shared coq build lock
# the extraction self-check re-evaluates sampled cases with vm_compute inside Coq: whole-PSBT parse / validate run
# ECDSA verification and BIP32 derivation on secp256k1 there, which does not finish within the time limit
VM_SKIP = {"parse", "validate", "validate_state", "parse_base64"}

NETS = [None, "mainnet", "testnet"]


def quiet(f):
    def g(*a):
        with contextlib.redirect_stdout(io.StringIO()):
            return f(*a)
    g.__name__ = getattr(f, "__name__", "impl")
    return g


# ---------------------------------------------------------------- no network, memoised ECDSA

def _no_net(*a, **k):
    raise RuntimeError("network access is disabled in the verification harness")


btx.urlopen = _no_net
try:
    TxFetcher.load_cache(os.path.join(os.path.dirname(btx.__file__), "test", "tx.cache"))
except Exception:  # noqa
    pass

_SIGN, _VERIFY = {}, {}
_orig_sign, _orig_verify = PrivateKey.sign, S256Point.verify


def _sign(self, z):
    k = (self.secret, z)
    if k not in _SIGN:
        _SIGN[k] = _orig_sign(self, z)
    return _SIGN[k]


def _verify(self, z, sig):
    try:
        k = (self.x.num if self.x is not None else None, self.y.num if self.y is not None else None, z, sig.r, sig.s)
    except Exception:  # noqa
        return _orig_verify(self, z, sig)
    if k not in _VERIFY:
        _VERIFY[k] = _orig_verify(self, z, sig)
    return _VERIFY[k]


_MUL = {}
_orig_rmul = S256Point.__rmul__


def _rmul(self, coefficient):
    """k * P memoised on (P, k mod N): BIP32 derivations repeat the same multiplications on every load"""
    if self.x is None or not isinstance(coefficient, int):
        return _orig_rmul(self, coefficient)
    k = (self.x.num, self.y.num, coefficient % _N)
    if k not in _MUL:
        res = _orig_rmul(self, coefficient)
        _MUL[k] = None if res.x is None else (res.x.num, res.y.num)
        return res
    v = _MUL[k]
    return S256Point(None, None) if v is None else S256Point(v[0], v[1])


PrivateKey.sign = _sign
S256Point.verify = _verify
S256Point.__rmul__ = _rmul

# ---------------------------------------------------------------- canonical value <-> object


def opt(x, f=lambda v: v):
    return [] if x is None else [f(x)]


def un_dict(d, f=lambda v: v):
    return [[k, f(d[k])] for k in sorted(d)]


def un_script(s):
    return [list(s.commands), [] if s.raw is None else [s.raw]]


def un_txin(i):
    return [i.prev_tx, i.prev_index, un_script(i.script_sig), int(i.sequence), list(i.witness.items)]


def un_txout(o):
    return [o.amount, un_script(o.script_pubkey)]


def un_tx(t):
    return [t.version, [un_txin(i) for i in t.tx_ins], [un_txout(o) for o in t.tx_outs], int(t.locktime),
            1 if t.segwit else 0]


def un_in(p):
    return [opt(p.prev_tx, un_tx), opt(p.prev_out, un_txout), un_dict(p.sigs), opt(p.hash_type),
            opt(p.redeem_script, un_script), opt(p.witness_script, un_script),
            un_dict(p.named_pubs, lambda n: n.raw_path), opt(p.script_sig, un_script),
            opt(p.witness, lambda w: list(w.items)), un_dict(p.extra_map)]


def un_out(p):
    return [opt(p.redeem_script, un_script), opt(p.witness_script, un_script),
            un_dict(p.named_pubs, lambda n: n.raw_path), un_dict(p.extra_map)]


def un_psbt(p):
    return [un_tx(p.tx_obj), [un_in(i) for i in p.psbt_ins], [un_out(o) for o in p.psbt_outs],
            un_dict(p.hd_pubs, lambda h: [h.raw_serialize(), h.raw_path]), un_dict(p.extra_map)]


def mk_script(v, cls=Script):
    cmds, raw = v
    s = cls(list(cmds))
    if len(raw):
        s.raw = raw[0]
    return s


def mk_spk(v):
    cmds, raw = v
    if not len(raw):
        p = Script(list(cmds))
        if p.is_p2pkh():
            return P2PKHScriptPubKey(cmds[2])
        if p.is_p2sh():
            return P2SHScriptPubKey(cmds[1])
        if p.is_p2wpkh():
            return P2WPKHScriptPubKey(cmds[1])
        if p.is_p2wsh():
            return P2WSHScriptPubKey(cmds[1])
        if p.is_p2tr():
            return P2TRScriptPubKey(cmds[1])
    return mk_script(v, ScriptPubKey)


def mk_txin(v):
    pt, pi, sc, sq, w = v
    i = TxIn(pt, pi, mk_script(sc), sq)
    i.witness = Witness(list(w))
    return i


def mk_txout(v):
    return TxOut(v[0], mk_spk(v[1]))


def mk_tx(v):
    ver, ins, outs, lt, sw = v
    t = Tx(ver, [mk_txin(i) for i in ins], [mk_txout(o) for o in outs], lt, segwit=bool(sw))
    return t


def mk_named(sec, raw_path):
    pt = S256Point.parse(sec)
    pt.__class__ = NamedPublicKey
    pt.root_fingerprint = raw_path[:4]
    pt.raw_path = raw_path
    pt.network = "mainnet"
    try:
        pt.root_path = parse_binary_path(raw_path[4:])
    except Exception:  # noqa
        pt.root_path = None
    return pt


def mk_hd(v):
    key, raw_path = v
    h = HDPublicKey.raw_parse(BytesIO(key))
    h.__class__ = NamedHDPublicKey
    h.root_fingerprint = raw_path[:4]
    h.raw_path = raw_path
    try:
        h.root_path = parse_binary_path(raw_path[4:])
    except Exception:  # noqa
        h.root_path = None
    h._raw = key
    h.sync_point()
    return h


def mk_in(v, tx_in):
    ptx, pout, sigs, ht, rs, ws, named, ss, wit, extra = v
    p = PSBTIn.__new__(PSBTIn)
    p.tx_in = tx_in
    p.prev_tx = mk_tx(ptx[0]) if ptx else None
    p.prev_out = mk_txout(pout[0]) if pout else None
    p.sigs = {k: x for k, x in sigs}
    p.hash_type = ht[0] if ht else None
    p.redeem_script = mk_script(rs[0], RedeemScript) if rs else None
    p.witness_script = mk_script(ws[0], WitnessScript) if ws else None
    p.named_pubs = {k: mk_named(k, x) for k, x in named}
    p.script_sig = mk_script(ss[0]) if ss else None
    p.witness = Witness(list(wit[0])) if wit else None
    p.extra_map = {k: x for k, x in extra}
    # what parse / update record on the TxIn so that no node is needed
    if p.prev_tx is not None and 0 <= tx_in.prev_index < len(p.prev_tx.tx_outs):
        o = p.prev_tx.tx_outs[tx_in.prev_index]
        tx_in._value, tx_in._script_pubkey = o.amount, o.script_pubkey
    elif p.prev_out is not None:
        tx_in._value, tx_in._script_pubkey = p.prev_out.amount, p.prev_out.script_pubkey
    return p


def mk_out(v, tx_out):
    rs, ws, named, extra = v
    p = PSBTOut.__new__(PSBTOut)
    p.tx_out = tx_out
    p.redeem_script = mk_script(rs[0], RedeemScript) if rs else None
    p.witness_script = mk_script(ws[0], WitnessScript) if ws else None
    p.named_pubs = {k: mk_named(k, x) for k, x in named}
    p.extra_map = {k: x for k, x in extra}
    return p


def mk_psbt(v):
    """rebuilds the objects WITHOUT running any validate()"""
    t, ins, outs, hd, extra = v
    tx = mk_tx(t)
    tx.network = "mainnet"
    dummy_in = lambda: TxIn(b"\x00" * 32, 0)  # noqa: E731
    dummy_out = lambda: TxOut(0, Script([]))  # noqa: E731
    p = PSBT.__new__(PSBT)
    p.tx_obj = tx
    p.psbt_ins = [mk_in(x, tx.tx_ins[i] if i < len(tx.tx_ins) else dummy_in()) for i, x in enumerate(ins)]
    p.psbt_outs = [mk_out(x, tx.tx_outs[i] if i < len(tx.tx_outs) else dummy_out()) for i, x in enumerate(outs)]
    p.hd_pubs = {k: mk_hd(x) for k, x in hd}
    p.extra_map = {k: x for k, x in extra}
    p.network = "mainnet"
    return p


def net_code(n):
    return {None: 0, "mainnet": 1, "testnet": 2}.get(n, 9)


# ---------------------------------------------------------------- oracle tables


def _try(f):
    try:
        with contextlib.redirect_stdout(io.StringIO()):
            v = f()
        if isinstance(v, bool):
            return 1 if v else 0
        return v
    except Exception:  # noqa
        from vp.sexp import ERR
        return ERR


def oracle_table(p):
    """per input: Tx.sig_hash_legacy, Tx.sig_hash_bip143, Tx.verify_input with the final fields put in"""
    rows = []
    tx = p.tx_obj
    for i, pin in enumerate(p.psbt_ins):
        if i >= len(tx.tx_ins):
            break
        zl = _try(lambda: tx.sig_hash_legacy(i, pin.redeem_script))
        zs = _try(lambda: tx.sig_hash_bip143(i, pin.redeem_script, pin.witness_script))
        vin = 0
        if pin.script_sig is not None:
            ti = tx.tx_ins[i]
            old = (ti.script_sig, ti.witness)
            ti.script_sig, ti.witness = pin.script_sig, pin.witness
            vin = _try(lambda: tx.verify_input(i))
            ti.script_sig, ti.witness = old
        rows.append([zl, zs, vin])
    return rows


def table_for_stream(s):
    orig = PSBT.validate
    PSBT.validate = lambda self: True
    try:
        with contextlib.redirect_stdout(io.StringIO()):
            p = PSBT.parse(BytesIO(s))
    except Exception:  # noqa
        return []
    finally:
        PSBT.validate = orig
    return oracle_table(p)


# ---------------------------------------------------------------- implementation entry points


def i_kv_parse(s):
    """the unknown-key branch of the map parsers, reached through PSBTOut.parse on a p2tr output
    (no validation rule applies); the generator only uses key types >= 3"""
    st = BytesIO(s)
    o = PSBTOut.parse(st, TxOut(0, P2TRScriptPubKey(b"\x01" * 32)))
    if o.redeem_script or o.witness_script or o.named_pubs:
        return [b"typed entry in a generic-layer case"]
    return [un_dict(o.extra_map), st.read()]


def i_kv_serialize(d):
    o = PSBTOut.__new__(PSBTOut)
    o.redeem_script = o.witness_script = None
    o.named_pubs = {}
    o.extra_map = {k: v for k, v in d}
    return o.serialize()


def i_in_parse(s, ti, n):
    st = BytesIO(s)
    p = PSBTIn.parse(st, mk_txin(ti), network=NETS[n])
    return [un_in(p), st.read()]


def i_out_parse(s, to, n):
    st = BytesIO(s)
    p = PSBTOut.parse(st, mk_txout(to), network=NETS[n])
    return [un_out(p), st.read()]


def i_parse(s, tbl):
    p = PSBT.parse(BytesIO(s))
    return [un_psbt(p), net_code(p.network)]


def i_validate(v, tbl):
    return 1 if mk_psbt(v).validate() else 0


def i_combine(a, b):
    pa, pb = mk_psbt(a), mk_psbt(b)
    pa.combine(pb)
    return un_psbt(pa)


def i_finalize(v):
    p = mk_psbt(v)
    p.finalize()
    return un_psbt(p)


def i_in_finalize(v, ti):
    p = mk_in(v, mk_txin(ti))
    p.finalize()
    return un_in(p)


def i_assemble_tx(v):
    p = mk_psbt(v)
    orig = Tx.verify
    Tx.verify = lambda self: True
    try:
        t = p.final_tx()
    finally:
        Tx.verify = orig
    return un_tx(t)


IMPL = {
    "kv_parse": quiet(i_kv_parse),
    "kv_serialize": quiet(i_kv_serialize),
    "in_parse": quiet(i_in_parse),
    "out_parse": quiet(i_out_parse),
    "in_serialize": quiet(lambda v: mk_in(v, TxIn(b"\x00" * 32, 0)).serialize()),
    "out_serialize": quiet(lambda v: mk_out(v, TxOut(0, Script([]))).serialize()),
    "parse": quiet(i_parse),
    "serialize": quiet(lambda v: mk_psbt(v).serialize()),
    "validate": quiet(i_validate),
    "in_validate": quiet(lambda v, ti: 1 if mk_in(v, mk_txin(ti)).validate() is None else 0),
    "out_validate": quiet(lambda v, to: 1 if mk_out(v, mk_txout(to)).validate() is None else 0),
    "combine": quiet(i_combine),
    "finalize": quiet(i_finalize),
    "in_finalize": quiet(i_in_finalize),
    "assemble_tx": quiet(i_assemble_tx),
}

# ---------------------------------------------------------------- wallets and the workflow

KINDS = ["p2pkh", "p2wpkh", "p2sh-p2wpkh", "p2sh", "p2wsh", "p2sh-p2wsh"]
_KEYS = {}


def key(j):
    if j not in _KEYS:
        _KEYS[j] = PrivateKey(0x1000000000000000000000000000000000000000000000000000000000000001 * (j + 3) % (2 ** 255) + 7 * j + 11)
    return _KEYS[j]


class NP:
    """what a pubkey_lookup maps to: .sec() and .point (a NamedPublicKey)"""

    def __init__(self, point):
        self.point = point

    def sec(self):
        return self.point.sec()


def named_point(priv, j, coin=0):
    pt = S256Point.parse(priv.point.sec())
    pt.__class__ = NamedPublicKey
    path = f"m/48'/{coin}'/0'/2'/0/{j}"
    pt.add_raw_path_data(hash160(priv.point.sec())[:4] + serialize_binary_path(path), network="mainnet")
    return pt


def op_n(k):
    return 80 + k


class Wallet:
    def __init__(self, kind, m, n, first_key=0, hd=False):
        self.kind, self.m, self.n, self.hd = kind, m, n, hd
        self.hd_pubs = {}
        self.roots = []
        if hd:
            self.privs, self.named = [], []
            for j in range(n):
                root = HDPrivateKey(PrivateKey(0xABCDEF00 + 17 * (first_key + j)), bytes([first_key + j + 1]) * 32)
                self.roots.append(root)
                acct = NamedHDPublicKey.from_hd_priv(root, "m/48'/0'/0'/2'")
                self.hd_pubs[acct.raw_serialize()] = acct
                child = acct.child(0).child(j)
                self.privs.append(root.traverse(f"m/48'/0'/0'/2'/0/{j}").private_key)
                self.named.append(child)
        else:
            self.privs = [key(first_key + j) for j in range(n)]
            self.named = [NP(named_point(k, j)) for j, k in enumerate(self.privs)]
        secs = [k.point.sec() for k in self.privs]
        self.secs = secs
        self.redeem = self.wscript = None
        h160 = hash160(secs[0])
        if kind == "p2pkh":
            self.spk = P2PKHScriptPubKey(h160)
        elif kind == "p2wpkh":
            self.spk = P2WPKHScriptPubKey(h160)
        elif kind == "p2sh-p2wpkh":
            self.redeem = RedeemScript([0, h160])
            self.spk = self.redeem.script_pubkey()
        elif kind == "p2sh":
            self.redeem = RedeemScript([op_n(m)] + secs + [op_n(n), 174])
            self.spk = self.redeem.script_pubkey()
        elif kind == "p2wsh":
            self.wscript = WitnessScript([op_n(m)] + secs + [op_n(n), 174])
            self.spk = self.wscript.script_pubkey()
        else:
            self.wscript = WitnessScript([op_n(m)] + secs + [op_n(n), 174])
            self.redeem = RedeemScript([0, self.wscript.sha256()])
            self.spk = self.redeem.script_pubkey()

    def lookups(self):
        pk = {}
        for npub in self.named:
            pk[npub.sec()] = npub
            pk[hash160(npub.sec())] = npub
        rl = {self.redeem.hash160(): self.redeem} if self.redeem else {}
        wl = {self.wscript.sha256(): self.wscript} if self.wscript else {}
        return pk, rl, wl


def build_psbt(w, n_inputs, salt, extras=False, segwit_flag=False, validate=True):
    """create + update through the library API; returns the PSBT object"""
    tx_lookup = {}
    tx_ins = []
    for i in range(n_inputs):
        funding = Tx(1, [TxIn(bytes([salt % 256, i]) * 16, i)],
                     [TxOut(1000, P2PKHScriptPubKey(bytes([i + 1]) * 20)), TxOut(60000 + 1000 * i, w.spk)], 0)
        funding.network = "mainnet"
        tx_lookup[funding.hash()] = funding
        tx_ins.append(TxIn(funding.hash(), 1))
    tx_outs = [TxOut(30000 * n_inputs, P2WPKHScriptPubKey(bytes([salt % 256]) * 20)),
               TxOut(20000 * n_inputs, w.spk)]
    tx = Tx(2, tx_ins, tx_outs, 0, segwit=segwit_flag)
    tx.network = "mainnet"
    pk, rl, wl = w.lookups()
    p = PSBT.create(tx, validate=validate, tx_lookup=tx_lookup, pubkey_lookup=pk, redeem_lookup=rl,
                    witness_lookup=wl, hd_pubs=dict(w.hd_pubs))
    if extras:
        p.extra_map[b"\xfc\x05buidl\x00"] = b"global proprietary"
        p.extra_map[b"\x0a"] = b""
        p.psbt_ins[0].extra_map[b"\x0f\x01\x02"] = b"unknown input entry"
        p.psbt_ins[-1].extra_map[b"\xfc\x01x"] = bytes(range(40))
        p.psbt_outs[0].extra_map[b"\x09"] = b"por?"
        p.psbt_outs[-1].extra_map[b"\xfc\x02y\x01"] = b"\x00" * 3
    return p


def reparse(b):
    with contextlib.redirect_stdout(io.StringIO()):
        return PSBT.parse(BytesIO(b))


def sign_as(base_bytes, w, j):
    p = reparse(base_bytes)
    if w.hd:
        ok = p.sign(w.roots[j])
    else:
        ok = p.sign_with_private_keys([w.privs[j]])
    if not ok:
        raise AssertionError("signer found nothing to sign")
    return p.serialize()


def combine_bytes(first, others):
    p = reparse(first)
    for o in others:
        p.combine(reparse(o))
    return p.serialize()


def finalise_bytes(b):
    """returns (finalised psbt bytes, final tx bytes) or raises"""
    p = reparse(b)
    p.finalize()
    fb = p.serialize()
    with contextlib.redirect_stdout(io.StringIO()):
        t = p.final_tx()
    return fb, t.serialize(), t


def expected_stack(w, signed, sigs_by_input, i):
    """the signatures the finaliser must emit for input i: the first m signers in script key order"""
    return [sigs_by_input[i][w.secs[j]] for j in sorted(signed)][: w.m]


def p_workflow(kind_i, m, n, n_inputs, flags):
    """flags: bit0 extras, bit1 hd wallet with global xpubs, bit2 reduced orders"""
    kind = KINDS[kind_i]
    extras, hd, reduced = bool(flags & 1), bool(flags & 2), bool(flags & 4)
    w = Wallet(kind, m, n, first_key=(kind_i * 5 + m + 3 * n) % 11, hd=hd)
    single = kind in ("p2pkh", "p2wpkh", "p2sh-p2wpkh")
    need = 1 if single else m
    nsig = 1 if single else n
    try:
        built = build_psbt(w, n_inputs, salt=kind_i * 16 + m * 4 + n, extras=extras)
        base = built.serialize()
    except Exception as e:  # noqa
        return f"PSBT.create/update for a {kind} {m}-of-{n} wallet raises {type(e).__name__}: {e}"
    seen = {base}
    try:
        reparse(base)
    except Exception as e:  # noqa
        return f"the updated PSBT of a {kind} {m}-of-{n} wallet does not load again: {type(e).__name__}: {e}"
    # a signer that owns no key of the PSBT reports False and leaves it alone
    q = reparse(base)
    try:
        with contextlib.redirect_stdout(io.StringIO()):
            took = q.sign(HDPrivateKey(PrivateKey(0x51515151), b"\x0b" * 32)) if hd else \
                q.sign_with_private_keys([key(60), key(61)])
    except Exception as e:  # noqa
        return f"a signer without keys of the {kind} PSBT raises {type(e).__name__}: {e}"
    if took or q.serialize() != base:
        return (f"a signer without keys of the {kind} PSBT "
                + ("reports that it signed" if took else "changed the PSBT"))
    signed_by = {}
    for j in range(nsig):
        try:
            signed_by[j] = sign_as(base, w, j)
        except Exception as e:  # noqa
            return f"signer {j} of {kind} {m}-of-{n} failed: {type(e).__name__}: {e}"
        seen.add(signed_by[j])
    everyone = combine_bytes(base, list(signed_by.values()))
    # all signers on the object create() returned (never serialised and parsed in between): same PSBT
    try:
        with contextlib.redirect_stdout(io.StringIO()):
            for j in range(nsig):
                if not (built.sign(w.roots[j]) if hd else built.sign_with_private_keys([w.privs[j]])):
                    return f"signer {j} of {kind} {m}-of-{n} found nothing to sign on the object create() returned"
            inmem = built.serialize()
    except Exception as e:  # noqa
        return f"signing the object create() returned failed: {type(e).__name__}: {e}"
    if inmem != everyone:
        return (f"{kind} {m}-of-{n}: signing the object create() returned differs from signing its serialisation "
                f"and combining")
    sigs_by_input = [dict(pi.sigs) for pi in reparse(everyone).psbt_ins]
    subsets = [s for r in range(0, nsig + 1) for s in itertools.combinations(range(nsig), r)]
    for sub in subsets:
        orders = list(itertools.permutations(sub)) if (nsig <= 3 and not reduced) else [sub, tuple(reversed(sub))]
        results = set()
        for order in orders:
            # (a) every signer signs the base PSBT, a combiner merges them in this order
            results.add(combine_bytes(base, [signed_by[j] for j in order]))
            if order:
                # (b) the first signed PSBT is the accumulator
                results.add(combine_bytes(signed_by[order[0]], [signed_by[j] for j in order[1:]] + [base]))
                # (c) the PSBT is handed from signer to signer
                cur = base
                if not reduced or order == orders[0]:
                    for j in order:
                        cur = sign_as(cur, w, j)
                    results.add(cur)
        if len(results) != 1:
            return f"{kind} {m}-of-{n}, signers {sub}: {len(results)} different combined PSBTs over the orders"
        comb = results.pop()
        seen.add(comb)
        try:
            fb, txb, t = finalise_bytes(comb)
            ok = True
        except Exception as e:  # noqa
            ok, err = False, f"{type(e).__name__}: {e}"
        if ok != (len(sub) >= need):
            return (f"{kind} {m}-of-{n}, signers {sub}: finalize/final_tx "
                    + ("succeeded with fewer than the required signers" if ok else "failed: " + err))
        if ok:
            seen.add(fb)
            if single and len(sub) > 1:
                continue
            for i, ti in enumerate(t.tx_ins):
                if single:
                    continue
                want = expected_stack(w, sub, sigs_by_input, i)
                if kind == "p2sh":
                    got = [c for c in ti.script_sig.commands[1:-1]]
                else:
                    got = list(ti.witness.items[1:-1])
                if got != want:
                    return f"{kind} {m}-of-{n}, signers {sub}, input {i}: emitted signatures are not the first m in key order"
            with contextlib.redirect_stdout(io.StringIO()):
                if not t.verify():
                    return "final transaction does not verify"
                if Tx.parse(BytesIO(txb), network="mainnet").serialize() != txb:
                    return "final transaction does not re-serialise"
    for b in seen:
        r = p_reserialize(b)
        if r:
            return f"{kind} {m}-of-{n}: {r}"
    return None


def p_reserialize(b):
    try:
        p = reparse(b)
    except Exception:  # noqa
        return None            # not a PSBT the library accepts: nothing to re-serialise
    try:
        s1 = p.serialize()
    except Exception as e:  # noqa
        return f"a PSBT that parse() accepted cannot be serialised: {type(e).__name__}: {e}"
    try:
        p2 = reparse(s1)
    except Exception as e:  # noqa
        return f"serialize() of a loaded PSBT is rejected by parse(): {type(e).__name__}: {e}"
    s2 = p2.serialize()
    if s2 != s1:
        return "serialize(parse(serialize(p))) differs from serialize(p)"
    # the global unsigned transaction: non-witness format, empty scriptSigs
    st = BytesIO(s1[5:])
    if read_varstr(st) != b"\x00":
        return "first global entry is not the unsigned transaction"
    raw = read_varstr(st)
    if raw != p.tx_obj.serialize_legacy() or (len(raw) > 5 and raw[4] == 0 and len(p.tx_obj.tx_ins) > 0):
        return "embedded transaction is not in non-witness format"
    if any(i.script_sig.commands for i in p.tx_obj.tx_ins):
        return "embedded transaction has a non-empty scriptSig"
    # the base64 text form (what the roles actually exchange) = RFC 4648 base64 of the same bytes, and loads back
    t64 = p.serialize_base64()
    if t64 != base64.b64encode(s1).decode("ascii"):
        return "serialize_base64() is not the base64 text of serialize()"
    try:
        if PSBT.parse_base64(t64).serialize() != s1:
            return "parse_base64(serialize_base64(p)) re-serialises differently"
    except Exception as e:  # noqa
        return f"parse_base64 rejects serialize_base64(p): {type(e).__name__}: {e}"
    return None


def p_segwit_flag(kind_i, n_inputs):
    """regression of acac2c0: a tx_obj with segwit=True must serialise in non-witness format and load again"""
    w = Wallet(KINDS[kind_i], 1, 1)
    p = build_psbt(w, n_inputs, salt=77, segwit_flag=True)
    b = p.serialize()
    try:
        q = reparse(b)
    except Exception as e:  # noqa
        return f"PSBT whose tx_obj.segwit is True does not parse back: {type(e).__name__}: {e}"
    if q.serialize() != b:
        return "re-serialisation differs"
    return p_reserialize(b)


def p_scriptsig_rejected(kind_i, where):
    """validate rejects an unsigned transaction that carries a scriptSig / witness"""
    w = Wallet(KINDS[kind_i], 1, 1)
    p = build_psbt(w, 2, salt=78)
    b = p.serialize()
    tx = Tx.parse(BytesIO(p.tx_obj.serialize_legacy()), network="mainnet")
    tx.tx_ins[where % 2].script_sig = Script([b"\x01\x02"])
    raw = tx.serialize_legacy()
    st = BytesIO(b[5:])
    read_varstr(st), read_varstr(st)
    rest = st.read()
    bad = b[:5] + encode_varstr(b"\x00") + encode_varstr(raw) + rest
    try:
        reparse(bad)
    except Exception:  # noqa
        pass
    else:
        return "a PSBT whose unsigned transaction has a scriptSig was accepted"
    # the same through the constructor
    p.tx_obj.tx_ins[where % 2].script_sig = Script([b"\x01\x02"])
    try:
        p.validate()
    except Exception:  # noqa
        return None
    return "validate() accepted a non-empty scriptSig in the unsigned transaction"


def split_maps(b):
    """valid PSBT bytes -> list of maps, each a list of (key, value) pairs"""
    st = BytesIO(b[5:])
    maps, cur = [], []
    while True:
        pos = st.tell()
        if pos >= len(b) - 5:
            break
        k = read_varstr(st)
        if k == b"":
            maps.append(cur)
            cur = []
            continue
        cur.append((k, read_varstr(st)))
    return maps


def join_maps(maps):
    out = b"psbt\xff"
    for m in maps:
        for k, v in m:
            out += encode_varstr(k) + encode_varstr(v)
        out += b"\x00"
    return out


def p_bad_sig(kind_i, m, n, mode, pos):
    """a partial signature that does not verify makes the load fail.
    mode 0: flip one byte inside the DER body; 1: swap the signatures of two keys / two inputs;
    2: replace by a valid signature of the same key over another message; 3: attribute it to another key"""
    kind = KINDS[kind_i]
    w = Wallet(kind, m, n, first_key=2)
    single = kind in ("p2pkh", "p2wpkh", "p2sh-p2wpkh")
    try:
        base = build_psbt(w, 2, salt=90 + mode).serialize()
    except Exception:  # noqa
        return None
    sb = combine_bytes(base, [sign_as(base, w, j) for j in range(1 if single else n)])
    maps = split_maps(sb)
    im = maps[1]
    idx = [i for i, (k, v) in enumerate(im) if k[:1] == b"\x02"]
    if not idx:
        return "no partial signature in the signed PSBT"
    a = idx[pos % len(idx)]
    k, v = im[a]
    if mode == 0:
        off = 4 + pos % (len(v) - 6)
        nv = v[:off] + bytes([v[off] ^ (1 + pos % 255)]) + v[off + 1:]
        im[a] = (k, nv)
    elif mode == 1:
        im2 = maps[2]
        b_ = [i for i, (k2, _) in enumerate(im2) if k2 == k][0]
        im[a], im2[b_] = (k, im2[b_][1]), (k, v)
    elif mode == 2:
        z = int.from_bytes(hash160(v) * 2, "big") % (2 ** 255)
        priv = [p for p in w.privs if b"\x02" + p.point.sec() == k][0]
        im[a] = (k, priv.sign(z).der() + b"\x01")
    else:
        other = key(9).point.sec()
        if single:
            return None
        im[a] = (b"\x02" + other, v)
    bad = join_maps(maps)
    if bad == sb:
        return None
    try:
        reparse(bad)
    except Exception:  # noqa
        return None
    return f"{kind} {m}-of-{n}: a PSBT with a corrupted partial signature (mode {mode}) was loaded without error"


def p_finalize_threshold(kind_i, m, n, n_script_sigs, n_foreign):
    """finalize succeeds only if at least m signatures BY KEYS OF THE SCRIPT are present.
    The partial signatures are real (they verify at load); n_foreign of them are made with keys that are
    not in the script."""
    kind = KINDS[kind_i]
    w = Wallet(kind, m, n, first_key=4)
    base_p = build_psbt(w, 1, salt=120)
    base = base_p.serialize()
    p = reparse(base)
    pin = p.psbt_ins[0]
    tx = p.tx_obj
    signers = [w.privs[j] for j in range(n_script_sigs)] + [key(20 + j) for j in range(n_foreign)]
    for priv in signers:
        if pin.use_segwit_signature():
            sig = tx.get_sig_segwit(0, priv, pin.redeem_script, pin.witness_script)
        else:
            sig = tx.get_sig_legacy(0, priv, pin.redeem_script)
        pin.sigs[priv.point.sec()] = sig
    b = p.serialize()
    try:
        q = reparse(b)           # foreign signatures are dropped by the serialiser for script inputs
    except Exception as e:  # noqa
        return f"PSBT with valid partial signatures does not load: {e}"
    for obj, tag in ((p, "in memory"), (q, "after a serialise/parse cycle")):
        try:
            with contextlib.redirect_stdout(io.StringIO()):
                obj.validate()
                obj.finalize()
        except Exception:  # noqa
            continue
        if n_script_sigs < m:
            got = obj.psbt_ins[0]
            cnt = (len(got.script_sig.commands) - 2) if kind == "p2sh" else (len(got.witness.items) - 2)
            return (f"{kind} {m}-of-{n} ({tag}): finalize succeeded with {n_script_sigs} signature(s) by script "
                    f"keys and {n_foreign} by foreign keys; {cnt} signature(s) emitted, {m} required")
    return None


def p_xpub_order(first_testnet):
    """two global xpubs whose paths name different networks: re-serialisation must be stable"""
    w = Wallet("p2wpkh", 1, 1)
    base = build_psbt(w, 1, salt=130).serialize()
    maps = split_maps(base)
    ra = HDPrivateKey(PrivateKey(0x5151), b"\x07" * 32)
    a = NamedHDPublicKey.from_hd_priv(ra, "m/45'")
    b = NamedHDPublicKey.from_hd_priv(ra, "m/48'/1'/0'/2'")
    es = []
    for h in ([b, a] if first_testnet else [a, b]):
        st = BytesIO(h.serialize())
        es.append((read_varstr(st), read_varstr(st)))
    maps[0] = maps[0] + es
    return p_reserialize(join_maps(maps))


def p_nonwitness_utxo_segwit(kind_i):
    """a segwit input that arrives with only a non-witness UTXO (BIP174 allows it): load, update(), reload,
    sign, reload, finalize, final_tx — every PSBT the library writes on the way must load again"""
    w = Wallet(KINDS[kind_i], 1, 1)
    p0 = build_psbt(w, 1, salt=140, validate=False)
    tx = Tx.parse(BytesIO(p0.tx_obj.serialize_legacy()), network="mainnet")
    p = PSBT.create(tx)
    funding = Tx(1, [TxIn(bytes([140, 0]) * 16, 0)],
                 [TxOut(1000, P2PKHScriptPubKey(bytes([1]) * 20)), TxOut(60000, w.spk)], 0)
    funding.network = "mainnet"
    if funding.hash() != tx.tx_ins[0].prev_tx:
        return "harness: funding transaction mismatch"
    p.psbt_ins[0].prev_tx = funding
    b0 = p.serialize()
    try:
        p1 = reparse(b0)
    except Exception:  # noqa
        return None            # the library does not accept such input at all: nothing built
    pk, rl, wl = w.lookups()
    try:
        p1.update({funding.hash(): funding}, pk, rl, wl)
        b1 = p1.serialize()
    except Exception:  # noqa
        return None
    r = p_reserialize_strict(b1)
    if r:
        return "after update(): " + r
    p2 = reparse(b1)
    if not p2.sign_with_private_keys(w.privs):
        return "nothing signed"
    b2 = p2.serialize()
    r = p_reserialize_strict(b2)
    if r:
        return "after signing: " + r
    try:
        fb, txb, t = finalise_bytes(b2)
    except Exception as e:  # noqa
        return f"finalize/final_tx failed: {type(e).__name__}: {e}"
    return p_reserialize_strict(fb)


def p_reserialize_strict(b):
    try:
        reparse(b)
    except Exception as e:  # noqa
        return f"serialize() of a PSBT the library built is rejected by parse(): {type(e).__name__}: {e}"
    return p_reserialize(b)


def p_inmem_p2sh_p2wpkh(n_inputs):
    """the P2SH-P2WPKH signing path on one object without any validate(): create(validate=False) / update /
    sign / finalize / final_tx, as the repository's own test does; the signed PSBT must load again"""
    w = Wallet("p2sh-p2wpkh", 1, 1)
    tx_lookup, tx_ins = {}, []
    for i in range(n_inputs):
        funding = Tx(1, [TxIn(bytes([9, i]) * 16, i)], [TxOut(60000 + i, w.spk)], 0)
        tx_lookup[funding.hash()] = funding
        tx_ins.append(TxIn(funding.hash(), 0))
    tx = Tx(2, tx_ins, [TxOut(50000 * n_inputs, w.spk)], 0)
    pk, rl, wl = w.lookups()
    p = PSBT.create(tx, validate=False, tx_lookup=tx_lookup, pubkey_lookup=pk, redeem_lookup=rl, witness_lookup=wl)
    if not p.sign_with_private_keys(w.privs):
        return "nothing signed"
    b = p.serialize()
    p.finalize()
    with contextlib.redirect_stdout(io.StringIO()):
        t = p.final_tx()
        if not t.verify():
            return "final transaction does not verify"
    return p_reserialize_strict(b)


# ---- ONE PSBT object used repeatedly: serialise, sign, combine, finalise, edit, serialise again
# Oracle for "what a fresh object would write": mk_psbt(un_psbt(p)) builds a brand-new object graph from the
# DECLARED fields of p (never through parse or a constructor), so whatever else p has accumulated (memoised
# bytes, hashes, digests) is not carried over.


def _stale(p, where):
    """serialize() twice on the object and once on a new object with the same field values"""
    s1 = p.serialize()
    s2 = p.serialize()
    if s1 != s2:
        return f"{where}: two consecutive serialize() calls on one object give different bytes"
    ref = mk_psbt(un_psbt(p)).serialize()
    if s1 != ref:
        return f"{where}: serialize() of the used object differs from serialize() of a new object with the same fields"
    try:
        back = reparse(s1).serialize()
    except Exception as e:  # noqa
        return f"{where}: the bytes written by the used object do not load: {type(e).__name__}: {e}"
    if back != s1:
        return f"{where}: parse/serialize of the bytes written by the used object is not the identity"
    return None


def p_reuse_workflow(kind_i, m, n, n_inputs, flags, perm):
    """flags as in p_workflow; perm selects the order of the signers.  Every step is done on ONE object that has
    already been serialised, and compared with the same step done on freshly parsed objects."""
    from buidl.timelock import Locktime
    kind = KINDS[kind_i]
    extras, hd = bool(flags & 1), bool(flags & 2)
    w = Wallet(kind, m, n, first_key=(kind_i * 5 + m + 3 * n + 1) % 11, hd=hd)
    single = kind in ("p2pkh", "p2wpkh", "p2sh-p2wpkh")
    need = 1 if single else m
    nsig = 1 if single else n
    base = build_psbt(w, n_inputs, salt=kind_i * 16 + m * 4 + n + 1, extras=extras).serialize()
    orders = list(itertools.permutations(range(nsig)))
    order = orders[perm % len(orders)]
    signed_by = {j: sign_as(base, w, j) for j in range(nsig)}

    def sign_in_place(p, j):
        return p.sign(w.roots[j]) if w.hd else p.sign_with_private_keys([w.privs[j]])

    with contextlib.redirect_stdout(io.StringIO()):
        # A. one object handed from signer to signer, serialised after every signature
        p = reparse(base)
        r = _stale(p, "freshly parsed")
        if r:
            return r
        cur = base
        for j in order:
            if not sign_in_place(p, j):
                return f"signer {j} found nothing to sign on the reused object"
            cur = sign_as(cur, w, j)
            r = _stale(p, f"after signer {j} signed the reused object")
            if r:
                return r
            if p.serialize() != cur:
                return f"signing the reused object (signer {j}) and signing a freshly parsed PSBT give different bytes"
        # B. one accumulator, combined in two orders, serialised after every combine
        finals = []
        for od in (order, tuple(reversed(order))):
            acc = reparse(base)
            acc.serialize()
            for k, j in enumerate(od):
                acc.combine(reparse(signed_by[j]))
                r = _stale(acc, f"accumulator after combining {od[:k + 1]}")
                if r:
                    return r
                if acc.serialize() != combine_bytes(base, [signed_by[i] for i in od[:k + 1]]):
                    return f"accumulator after combining {od[:k + 1]} differs from a fresh combine of the same PSBTs"
            before = acc.serialize()
            acc.combine(reparse(before))          # combining its own bytes changes nothing
            acc.combine(reparse(base))
            if acc.serialize() != before:
                return "combining a PSBT with its own serialisation / with the unsigned PSBT changed it"
            finals.append((acc, before))
        if finals[0][1] != finals[1][1] or finals[0][1] != cur:
            return "the combined PSBT depends on the order of combining / differs from the hand-to-hand PSBT"
        # C. finalise and extract on the used accumulators (only `need` signers on the second one)
        for which, (acc, comb) in enumerate(finals):
            if which == 1 and nsig > need:
                acc = reparse(base)
                acc.serialize()
                for j in order[:need]:
                    acc.combine(reparse(signed_by[j]))
                comb = acc.serialize()
            fb, txb, _ = finalise_bytes(comb)
            acc.finalize()
            r = _stale(acc, "after finalize() on the used object")
            if r:
                return r
            if acc.serialize() != fb:
                return "finalize() on the used object and on a freshly parsed PSBT give different bytes"
            for k in range(2):
                if acc.final_tx().serialize() != txb:
                    return f"final_tx() call {k} on the used object differs from the transaction of a fresh PSBT"
            if acc.serialize() != fb:
                return "final_tx() changed the PSBT"
        # too few signers: finalize must fail on a used object as it does on a fresh one
        if need >= 2:
            few = reparse(combine_bytes(base, [signed_by[order[0]]]))
            few.serialize()
            few.combine(reparse(base))
            try:
                few.finalize()
                few.final_tx()
            except Exception:  # noqa
                pass
            else:
                return "finalize/final_tx succeeded on a used object with fewer than the required signers"
        # D. in-place edits of a parsed and already serialised object
        q = reparse(cur)
        q.serialize()
        q.tx_obj.hash()
        edits = [
            ("global unknown entry added", lambda: q.extra_map.__setitem__(b"\xfc\x03abc", b"later")),
            ("input unknown entry added", lambda: q.psbt_ins[0].extra_map.__setitem__(b"\x0f\x07", b"x" * 5)),
            ("output unknown entry added", lambda: q.psbt_outs[-1].extra_map.__setitem__(b"\xfc\x01z", b"")),
            ("sighash type set", lambda: setattr(q.psbt_ins[-1], "hash_type", 1)),
            ("a partial signature removed", lambda: q.psbt_ins[0].sigs.pop(sorted(q.psbt_ins[0].sigs)[0])),
            ("output derivations removed", lambda: q.psbt_outs[-1].named_pubs.clear()),
            ("input unknown entry changed", lambda: q.psbt_ins[0].extra_map.__setitem__(b"\x0f\x07", b"y")),
            ("all partial signatures removed", lambda: [pi.sigs.clear() for pi in q.psbt_ins]),
        ]
        for what, f in edits:
            v0, s0 = un_psbt(q), q.serialize()
            f()
            r = _stale(q, "after edit: " + what)
            if r:
                return r
            if (q.serialize() != s0) != (un_psbt(q) != v0):
                return f"after edit: {what}: serialize() {'changed' if q.serialize() != s0 else 'did not change'}"
        # E. the unsigned transaction edited in place: it is another transaction now
        q.tx_obj.locktime = Locktime((int(q.tx_obj.locktime) + 1) % 2 ** 32)
        r = _stale(q, "after edit: locktime of the unsigned transaction")
        if r:
            return r
        for other in (reparse(base), reparse(signed_by[order[0]])):
            try:
                q.combine(other)
            except ValueError:
                continue
            return "combine accepted a PSBT for a different transaction (unsigned transaction edited in place after hash())"
        q.tx_obj.locktime = Locktime((int(q.tx_obj.locktime) - 1) % 2 ** 32)
        q.combine(reparse(cur))                  # the same transaction again: the signatures come back
        r = _stale(q, "after restoring the locktime and combining with the signed PSBT")
        if r:
            return r
        if [pi.sigs for pi in q.psbt_ins] != [pi.sigs for pi in reparse(cur).psbt_ins]:
            return "after restoring the locktime, combine did not bring the partial signatures back"
    return None


def p_stage_orders(kind_i, m, n, n_inputs, flags):
    """Order independence over PSBTs taken at DIFFERENT stages of the workflow: the Creator's bare PSBT (no
    update), the updated PSBT and the PSBT signed by each signer of a subset are combined with each of them as the
    accumulator and the others in every order (flags bit 3 clear: for five PSBTs six orders per accumulator).
    Every result must be byte-identical to the updated PSBT combined with the signed ones, finalise exactly when
    enough signers took part, and give the same final transaction.  flags bit 0 extras, bit 1 HD wallet."""
    kind = KINDS[kind_i]
    extras, hd, exhaustive = bool(flags & 1), bool(flags & 2), bool(flags & 8)
    w = Wallet(kind, m, n, first_key=(kind_i * 5 + m + 3 * n + 2) % 11, hd=hd)
    single = kind in ("p2pkh", "p2wpkh", "p2sh-p2wpkh")
    need = 1 if single else m
    nsig = 1 if single else n
    with contextlib.redirect_stdout(io.StringIO()):
        p0 = build_psbt(w, n_inputs, salt=kind_i * 16 + m * 4 + n + 2, extras=extras)
        base = p0.serialize()
        bare = PSBT.create(Tx.parse(BytesIO(p0.tx_obj.serialize_legacy()), network="mainnet")).serialize()
        signed = {j: sign_as(base, w, j) for j in range(nsig)}
        subs = [tuple(range(nsig))]
        for s in (tuple(range(nsig))[-need:], (nsig - 1,), ()):
            if s not in subs:
                subs.append(s)
        for sub in subs:
            stages = [("bare", bare), ("updated", base)] + [("signed by %d" % j, signed[j]) for j in sub]
            want = combine_bytes(base, [signed[j] for j in sub])
            others = {name: reparse(b) for name, b in stages}       # never modified by combine: reused
            try:
                fb, txb, t = finalise_bytes(want)
                final = txb
            except Exception:  # noqa
                final = None
            if (final is not None) != (len(sub) >= need):
                return (f"{kind} {m}-of-{n}, signers {sub}: finalize/final_tx "
                        + ("succeeded with fewer than the required signers" if final else "failed"))
            for ai, (aname, ab) in enumerate(stages):
                rest = stages[:ai] + stages[ai + 1:]
                if len(rest) <= 3 or exhaustive:
                    orders = list(itertools.permutations(rest))
                else:
                    orders = [tuple(rest[k:] + rest[:k]) for k in range(len(rest))] + [tuple(reversed(rest)),
                                                                                       tuple(rest[1::-1] + rest[:1:-1])]
                for order in orders:
                    acc = reparse(ab)
                    for oname, _ in order:
                        acc.combine(others[oname])
                    got = acc.serialize()
                    if got != want:
                        try:
                            gfin = finalise_bytes(got)[1]
                        except Exception:  # noqa
                            gfin = None
                        fin_txt = ("does not finalise" if gfin is None else "finalises") + \
                            (", the reference does not finalise" if final is None else
                             ", the reference finalises" + ("" if gfin is None else
                                                            " to the same transaction" if gfin == final else
                                                            " to ANOTHER transaction"))
                        return (f"{kind} {m}-of-{n}, signers {sub}: accumulator '{aname}' combined with "
                                f"{[o for o, _ in order]} differs from the updated PSBT combined with the signed "
                                f"ones ({fin_txt})")
            for name, b in stages:
                if others[name].serialize() != b:
                    return f"{kind} {m}-of-{n}: combine modified the PSBT ('{name}') that was passed as its argument"
            # the FINALISED PSBT as one more stage: whoever is the accumulator and whatever the order, once the
            # finalised PSBT has been combined in, the result (serialised and parsed again, as the next role
            # would receive it) extracts the same final transaction
            if final is not None:
                fin_obj = reparse(fb)
                for ai, (aname, ab) in enumerate(stages):
                    rest = [nm for nm, _ in stages[:ai] + stages[ai + 1:]]
                    for order in ([["finalised"] + rest, rest + ["finalised"], ["finalised"]]):
                        acc = reparse(ab)
                        for oname in order:
                            acc.combine(fin_obj if oname == "finalised" else others[oname])
                        try:
                            with contextlib.redirect_stdout(io.StringIO()):
                                got_tx = reparse(acc.serialize()).final_tx().serialize()
                        except Exception as e:  # noqa
                            return (f"{kind} {m}-of-{n}, signers {sub}: accumulator '{aname}' combined with {order}: "
                                    f"final_tx() fails ({type(e).__name__}: {str(e)[:80]}) although the finalised "
                                    f"PSBT was combined in")
                        if got_tx != final:
                            return (f"{kind} {m}-of-{n}, signers {sub}: accumulator '{aname}' combined with {order} "
                                    f"extracts ANOTHER final transaction than the finalised PSBT")
                for order in (["bare"], [nm for nm, _ in stages], [nm for nm, _ in reversed(stages)]):
                    acc = reparse(fb)
                    for oname in order:
                        acc.combine(others[oname])
                    try:
                        with contextlib.redirect_stdout(io.StringIO()):
                            got_tx = reparse(acc.serialize()).final_tx().serialize()
                    except Exception as e:  # noqa
                        return (f"{kind} {m}-of-{n}, signers {sub}: the finalised PSBT combined with {order}: "
                                f"final_tx() fails ({type(e).__name__}: {str(e)[:80]})")
                    if got_tx != final:
                        return (f"{kind} {m}-of-{n}, signers {sub}: the finalised PSBT combined with {order} extracts "
                                f"ANOTHER final transaction")
                if fin_obj.serialize() != fb:
                    return f"{kind} {m}-of-{n}: combine modified the finalised PSBT that was passed as its argument"
    return None


# ---------------------------------------------------------------- independent reference of create / update
# What the Updater must leave in every input and output map is computed here from the wallet definition alone
# (never through PSBT.create / update), for all six script types plus outputs the wallets do not own.

SINGLE = ("p2pkh", "p2wpkh", "p2sh-p2wpkh")
_OWN = {}


def own_wallets():
    """one wallet per script type; the three single-key ones share a key and the three 2-of-3 ones share their
    keys, so that one lookup table serves equal-looking outputs of different types"""
    if not _OWN:
        for ki, kind in enumerate(KINDS):
            _OWN[kind] = Wallet(kind, 1, 1, first_key=40) if ki < 3 else Wallet(kind, 2, 3, first_key=41)
    return _OWN


def merged_lookups(wallets, pubs=True, redeem=True, witness=True):
    pk, rl, wl = {}, {}, {}
    for w in wallets:
        a, b, c = w.lookups()
        pk.update(a), rl.update(b), wl.update(c)
    return (pk if pubs else {}), (rl if redeem else {}), (wl if witness else {})


def ref_named(w, secs, pubs=True):
    by = {np_.sec(): np_.point.raw_path for np_ in w.named}
    return [[s, by[s]] for s in sorted(set(secs))] if pubs else []


def ref_in(w, funding, idx, pubs=True, redeem=True, witness=True):
    """the input map after update(): blank input spending output idx of `funding`, which pays to wallet w"""
    kind = w.kind
    secs = w.secs[:1] if kind in SINGLE else w.secs
    if w.redeem is not None and not redeem:
        return list(BLANK_IN)                       # p2sh without its RedeemScript: nothing can be filled in
    legacy = kind in ("p2pkh", "p2sh")
    ws = w.wscript if witness else None
    if w.wscript is not None and not witness:
        secs = []
    return [[un_tx(funding)] if legacy else [], [] if legacy else [un_txout(funding.tx_outs[idx])], [], [],
            opt(w.redeem, un_script), opt(ws, un_script), ref_named(w, secs, pubs), [], [], []]


def ref_out(w, pubs=True, redeem=True, witness=True):
    kind = w.kind
    secs = w.secs[:1] if kind in SINGLE else w.secs
    if w.redeem is not None and not redeem:
        return list(BLANK_OUT)
    if w.wscript is not None and not witness:
        return [opt(w.redeem, un_script), [], [], []]
    return [opt(w.redeem, un_script), opt(w.wscript, un_script), ref_named(w, secs, pubs), []]


BLANK_IN = [[], [], [], [], [], [], [], [], [], []]
BLANK_OUT = [[], [], [], []]


def foreign_outputs():
    """outputs no wallet of the harness owns, one per script shape the Updater has to tell apart"""
    return [TxOut(700, P2PKHScriptPubKey(b"\x41" * 20)), TxOut(701, P2WPKHScriptPubKey(b"\x42" * 20)),
            TxOut(702, P2SHScriptPubKey(b"\x43" * 20)), TxOut(703, P2WSHScriptPubKey(b"\x44" * 32)),
            TxOut(704, P2TRScriptPubKey(b"\x45" * 32)), TxOut(0, ScriptPubKey([106, b"memo"])),
            TxOut(705, ScriptPubKey([key(5).point.sec(), 172])), TxOut(706, ScriptPubKey([])),
            TxOut(707, ScriptPubKey([81, key(5).point.sec(), 81, 174]))]


def funding_tx(tag, i, spk, amount=60000):
    f = Tx(1, [TxIn(bytes([tag % 256, i]) * 16, i)], [TxOut(5000 + i, P2WPKHScriptPubKey(bytes([i + 1]) * 20)),
                                                     TxOut(amount + i, spk)], 0)
    f.network = "mainnet"
    return f


def first_diff(got, exp, path=""):
    if isinstance(got, list) and isinstance(exp, list):
        if len(got) != len(exp):
            return f"{path}: {len(got)} item(s), expected {len(exp)}"
        for k, (a, b) in enumerate(zip(got, exp)):
            d = first_diff(a, b, f"{path}[{k}]")
            if d:
                return d
        return None
    if got != exp:
        return f"{path}: {str(got)[:60]!s} != {str(exp)[:60]!s}"
    return None


IN_FIELDS = ["non-witness utxo", "witness utxo", "partial sigs", "sighash type", "redeem script", "witness script",
             "bip32 derivations", "final scriptSig", "final witness", "unknown entries"]
OUT_FIELDS = ["redeem script", "witness script", "bip32 derivations", "unknown entries"]


def diff_psbt(got, exp):
    """first difference between two canonical PSBT values, in words"""
    if got[0] != exp[0]:
        return "unsigned transaction: " + str(first_diff(got[0], exp[0]))
    for name, g, e, fields in (("input", got[1], exp[1], IN_FIELDS), ("output", got[2], exp[2], OUT_FIELDS)):
        if len(g) != len(e):
            return f"{len(g)} {name} maps, expected {len(e)}"
        for i, (a, b) in enumerate(zip(g, e)):
            for k, f in enumerate(fields):
                if a[k] != b[k]:
                    return f"{name} {i}, {f}: {first_diff(a[k], b[k])}"
    if got[3] != exp[3]:
        return "global xpubs differ"
    if got[4] != exp[4]:
        return "global unknown entries differ"
    return None


def p_update_reference(kind_i, variant):
    """create / update against the independent reference.  Two inputs spend outputs of wallet `kind`, a third one
    spends a transaction the Updater is not given; the outputs pay to all six wallets and to nine foreign script
    shapes.  variant 0: create(tx, lookups); 1: create(tx) then update() twice on the object; 2: update() on the
    parsed bare PSBT; 3: no redeem / witness script lookups; 4: no pubkey lookup; 5: no tx lookup; 6 (segwit
    types): the inputs arrive with their witness UTXO and update() gets no tx lookup."""
    ws = own_wallets()
    w = ws[KINDS[kind_i]]
    fundings = [funding_tx(200 + kind_i, i, w.spk) for i in range(2)]
    unknown = funding_tx(230 + kind_i, 2, w.spk)
    owned = [ws[k] for k in KINDS]
    tx = Tx(2, [TxIn(f.hash(), 1) for f in fundings] + [TxIn(unknown.hash(), 1)] +
            ([TxIn(fundings[0].hash(), 0)] if variant in (0, 1, 2) else []),
            [TxOut(9000 + i, ow.spk) for i, ow in enumerate(owned)] + foreign_outputs(), 0)
    tx.network = "mainnet"
    pubs, redeem, witness, txs = variant != 4, variant != 3, variant != 3, variant != 5
    pk, rl, wl = merged_lookups(owned, pubs, redeem, witness)
    tl = {f.hash(): f for f in fundings} if (txs and variant != 6) else {}
    exp_ins = [ref_in(w, f, 1, pubs, redeem, witness) if txs else list(BLANK_IN) for f in fundings] + [list(BLANK_IN)]
    if variant in (0, 1, 2):
        # the same funding transaction again, its output 0: a p2wpkh output of somebody else
        exp_ins.append([[], [un_txout(fundings[0].tx_outs[0])], [], [], [], [], [], [], [], []])
    exp_outs = [ref_out(ow, pubs, redeem, witness) for ow in owned] + [list(BLANK_OUT) for _ in foreign_outputs()]
    exp = [un_tx(tx), exp_ins, exp_outs, [], []]
    with contextlib.redirect_stdout(io.StringIO()):
        try:
            if variant in (0, 3, 4, 5):
                p = PSBT.create(tx, tx_lookup=tl, pubkey_lookup=pk, redeem_lookup=rl, witness_lookup=wl)
            elif variant == 1:
                p = PSBT.create(tx)
                if un_psbt(p) != [un_tx(tx), [list(BLANK_IN)] * len(exp_ins), [list(BLANK_OUT)] * len(exp_outs), [], []]:
                    return "create(tx) without lookups is not the bare PSBT"
                p.update(tl, pk, rl, wl)
            elif variant == 6:
                # the witness UTXOs are already in the input maps (written by another Updater); no tx lookup at all
                p = PSBT.create(tx)
                for pin, f in zip(p.psbt_ins, fundings):
                    pin.prev_out = f.tx_outs[1]
                p = reparse(p.serialize())
                p.update(tl, pk, rl, wl)
            else:
                p = reparse(PSBT.create(tx).serialize())
                p.update(tl, pk, rl, wl)
        except Exception as e:  # noqa
            return f"create/update ({KINDS[kind_i]} inputs, variant {variant}) raises {type(e).__name__}: {str(e)[:120]}"
        d = diff_psbt(un_psbt(p), exp)
        if d:
            return f"create/update ({KINDS[kind_i]} inputs, variant {variant}) differs from the reference: {d}"
        if variant in (1, 2):
            p.update(tl, pk, rl, wl)
            d = diff_psbt(un_psbt(p), exp)
            if d:
                return f"a second update() changed the PSBT: {d}"
        # the amounts and scripts the signer needs without a node
        for i, f in enumerate(fundings):
            ti = p.tx_obj.tx_ins[i]
            if txs and (ti._value != f.tx_outs[1].amount or ti._script_pubkey != f.tx_outs[1].script_pubkey):
                return f"update() did not record amount / scriptPubKey of input {i} on the transaction input"
        b = p.serialize()
        try:
            q = reparse(b)
        except Exception as e:  # noqa
            return f"the updated PSBT does not load: {type(e).__name__}: {str(e)[:120]}"
        d = diff_psbt(un_psbt(q), exp)
        if d:
            return f"the updated PSBT, serialised and parsed, differs from the reference: {d}"
        if variant == 0:
            # an input whose scriptPubKey is none of the supported types cannot be updated: ValueError
            for spk in (P2TRScriptPubKey(b"\x45" * 32), ScriptPubKey([key(5).point.sec(), 172])):
                f = funding_tx(240 + kind_i, 0, spk)
                t2 = Tx(2, [TxIn(f.hash(), 1)], [TxOut(100, w.spk)], 0)
                t2.network = "mainnet"
                try:
                    PSBT.create(t2, tx_lookup={f.hash(): f}, pubkey_lookup=pk, redeem_lookup=rl, witness_lookup=wl)
                except ValueError:
                    continue
                except Exception as e:  # noqa
                    return f"updating an input with an unsupported scriptPubKey raises {type(e).__name__}, not ValueError"
                return "updating an input with an unsupported scriptPubKey succeeded"
    return p_reserialize_strict(b)


def forged_xpub(w):
    """a global xpub whose path is an ancestor of the wallet's key paths but which does not derive the keys"""
    root = HDPrivateKey(PrivateKey(0x77665544), b"\x09" * 32)
    h = NamedHDPublicKey.from_hd_priv(root, "m/48'/0'/0'/2'")
    h.add_raw_path_data(hash160(w.secs[0])[:4] + serialize_binary_path("m/48'/0'/0'/2'"), network="mainnet")
    return h


def p_create_validate(kind_i, mode):
    """PSBT.create(validate=True) must refuse what validate() refuses, create(validate=False) must hand the
    object back (and validate() / a reload must then refuse it).  mode 0: the pubkey lookup names a key that
    does not belong to the script; mode 1: a global xpub that claims to be an ancestor of the keys but does not
    derive them; mode 2: consistent data — both flags succeed; mode 3 / 4: a global xpub at the very path of the
    first key that is / is not that key (no derivation step left)."""
    kind = KINDS[kind_i]
    w = own_wallets()[kind]
    f = funding_tx(250 + kind_i, 0, w.spk)
    pk, rl, wl = w.lookups()
    hd = {}
    if mode == 0:
        stranger = NP(named_point(key(9), 0))
        if kind in SINGLE:
            pk = {hash160(w.secs[0]): stranger}
        else:
            pk = dict(pk)
            pk[w.secs[1]] = stranger
    elif mode == 1:
        h = forged_xpub(w)
        hd = {h.raw_serialize(): h}
    elif mode in (3, 4):
        # a global xpub AT the path of the first key (no derivation step left): that key itself / another key
        npub = w.named[0].point
        pt = S256Point.parse(w.secs[0] if mode == 3 else key(9).point.sec())
        h = HDPublicKey(pt, b"\x21" * 32, len(npub.raw_path[4:]) // 4, b"\x00" * 4, 0, network="mainnet")
        h.__class__ = NamedHDPublicKey
        h.add_raw_path_data(npub.raw_path, network="mainnet")
        hd = {h.raw_serialize(): h}
    good = mode in (2, 3)

    def mk(flag):
        tx = Tx(2, [TxIn(f.hash(), 1)], [TxOut(100, w.spk)], 0)
        tx.network = "mainnet"
        kw = {} if flag is None else {"validate": flag}
        return PSBT.create(tx, tx_lookup={f.hash(): f}, pubkey_lookup=pk, redeem_lookup=rl,
                           witness_lookup=wl, hd_pubs=dict(hd), **kw)
    with contextlib.redirect_stdout(io.StringIO()):
        try:
            p = mk(False)
        except Exception as e:  # noqa
            return f"{kind}, mode {mode}: create(validate=False) raises {type(e).__name__}: {str(e)[:100]}"
        try:
            mk(True)
            strict_ok = True
        except (ValueError, KeyError):
            strict_ok = False
        except Exception as e:  # noqa
            return f"{kind}, mode {mode}: create(validate=True) raises {type(e).__name__}: {str(e)[:100]}"
        if strict_ok != good:
            return (f"{kind}, mode {mode}: create(validate=True) "
                    + ("accepted inconsistent data" if strict_ok else "refused consistent data"))
        try:
            mk(None)
            default_ok = True
        except Exception:  # noqa
            default_ok = False
        if default_ok != strict_ok:
            return f"{kind}, mode {mode}: create() without the validate argument does not behave like validate=True"
        try:
            p.validate()
            later_ok = True
        except Exception:  # noqa
            later_ok = False
        try:
            reparse(p.serialize())
            load_ok = True
        except Exception:  # noqa
            load_ok = False
        if later_ok != good or load_ok != good:
            return (f"{kind}, mode {mode}: validate() {'accepts' if later_ok else 'refuses'} and parse() "
                    f"{'accepts' if load_ok else 'refuses'} the PSBT built with validate=False")
    return None


def sign_keys(b, privs):
    """(signed?, bytes) after sign_with_private_keys on a freshly parsed copy"""
    p = reparse(b)
    ok = p.sign_with_private_keys(privs)
    return ok, p.serialize()


_MIXED = {}


def mixed_wallet(pos, kind_i):
    """wallets for the mixed PSBT: the key ranges of the three positions are disjoint"""
    if (pos, kind_i) not in _MIXED:
        _MIXED[(pos, kind_i)] = Wallet(KINDS[kind_i], 1, 1, first_key=44 + 4 * pos) if kind_i < 3 else \
            Wallet(KINDS[kind_i], 2, 3, first_key=44 + 4 * pos)
    return _MIXED[(pos, kind_i)]


def p_mixed_wallets(sel, flags):
    """ONE PSBT whose inputs belong to three DIFFERENT wallets (sel = three script-type indices, e.g. a legacy,
    a native segwit and a wrapped segwit one) and whose outputs pay to all three.  Each wallet signs only its own
    input; all orders of combining give the same bytes; extraction works exactly when every input has its
    signers; inputs finalised one by one (partially finalised PSBTs, exchanged as bytes and combined in both
    directions) lead to the same transaction; a signer without keys of the PSBT reports False and changes nothing.
    flags bit 0: unknown entries in all maps."""
    wl_ = [mixed_wallet(pos, k) for pos, k in enumerate(sel)]
    fundings = [funding_tx(180 + 7 * sel[0] + i, i, w.spk, 70000) for i, w in enumerate(wl_)]
    tx = Tx(2, [TxIn(f.hash(), 1) for f in fundings], [TxOut(50000 + i, w.spk) for i, w in enumerate(wl_)], 0)
    tx.network = "mainnet"
    pk, rl, wl = merged_lookups(wl_)
    with contextlib.redirect_stdout(io.StringIO()):
        try:
            p0 = PSBT.create(tx, tx_lookup={f.hash(): f for f in fundings}, pubkey_lookup=pk, redeem_lookup=rl,
                             witness_lookup=wl)
        except Exception as e:  # noqa
            return f"create/update of a PSBT with inputs {[KINDS[k] for k in sel]} raises {type(e).__name__}: {e}"
        if flags & 1:
            p0.extra_map[b"\xfc\x05buidl\x01"] = b"mixed"
            p0.psbt_ins[1].extra_map[b"\x0f\x09"] = b"in"
            p0.psbt_outs[2].extra_map[b"\xfc\x01q"] = b""
        base = p0.serialize()
        exp_ins = [ref_in(w, f, 1) for w, f in zip(wl_, fundings)]
        got = un_psbt(reparse(base))
        for i in range(3):
            if got[1][i][:9] != exp_ins[i][:9]:
                return f"input {i} ({wl_[i].kind}) of the mixed PSBT is not what the Updater must write"
        # a signer that holds none of the keys
        ok, b = sign_keys(base, [key(9), key(30)])
        if ok or b != base:
            return "sign_with_private_keys with foreign keys " + ("returned True" if ok else "changed the PSBT")
        ok, b = sign_keys(base, [])
        if ok or b != base:
            return "sign_with_private_keys([]) " + ("returned True" if ok else "changed the PSBT")
        # every signer alone: only the input of its wallet gains a signature, the one under its key
        signed = {}
        need = []
        for wi, w in enumerate(wl_):
            single = w.kind in SINGLE
            need.append(1 if single else w.m)
            for j in range(1 if single else w.n):
                ok, b = sign_keys(base, [w.privs[j]])
                if not ok:
                    return f"signer {j} of the {w.kind} input found nothing to sign"
                q = reparse(b)
                for i, pin in enumerate(q.psbt_ins):
                    want = [w.secs[j]] if i == wi else []
                    if sorted(pin.sigs) != want:
                        return (f"signer {j} of the {w.kind} wallet: input {i} ({wl_[i].kind}) holds signatures of "
                                f"{len(pin.sigs)} key(s), expected {len(want)}")
                signed[(wi, j)] = b
        # all keys in one call = the single-signer PSBTs combined
        allkeys = [k for w in wl_ for k in (w.privs[:1] if w.kind in SINGLE else w.privs)]
        ok, all_at_once = sign_keys(base, allkeys)
        everyone = sorted(signed)
        full = combine_bytes(base, [signed[s] for s in everyone])
        if not ok or all_at_once != full:
            return "signing with all keys in one call differs from combining the PSBTs of the single signers"
        if combine_bytes(signed[everyone[-1]], [signed[s] for s in reversed(everyone)] + [base]) != full:
            return "the combined mixed PSBT depends on the order of combining"
        # exactly the required signers: first `need` of each wallet
        req = [(wi, j) for wi in range(3) for j in range(need[wi])]
        comb = combine_bytes(base, [signed[s] for s in req])
        try:
            fb, txb, t = finalise_bytes(comb)
        except Exception as e:  # noqa
            return f"finalize/final_tx of the fully signed mixed PSBT failed: {type(e).__name__}: {str(e)[:100]}"
        if not t.verify():
            return "final transaction of the mixed PSBT does not verify"
        any_wit = any(w.kind not in ("p2pkh", "p2sh") for w in wl_)
        if bool(t.segwit) != any_wit:
            return "segwit flag of the final transaction does not say whether an input carries a witness"
        for i, w in enumerate(wl_):
            legacy = w.kind in ("p2pkh", "p2sh")
            if legacy != (len(t.tx_ins[i].witness.items) == 0) or \
                    (w.kind in ("p2wpkh", "p2wsh")) != (len(t.tx_ins[i].script_sig.commands) == 0):
                return f"input {i} ({w.kind}) of the final transaction has its data in the wrong field"
        if Tx.parse(BytesIO(txb), network="mainnet").serialize() != txb:
            return "final transaction does not re-serialise"
        r = p_reserialize_strict(fb)
        if r:
            return r
        # one wallet's signatures missing: no extraction; the other inputs can still be finalised one by one
        for miss in range(3):
            part = combine_bytes(base, [signed[s] for s in req if s[0] != miss])
            try:
                finalise_bytes(part)
            except Exception:  # noqa
                pass
            else:
                return f"finalize/final_tx succeeded although the {wl_[miss].kind} input is unsigned"
            a = reparse(part)
            for i in range(3):
                if i != miss:
                    a.psbt_ins[i].finalize()
            ab = a.serialize()
            r = p_reserialize_strict(ab)
            if r:
                return f"partially finalised PSBT (input {miss} open): {r}"
            late = combine_bytes(base, [signed[s] for s in req if s[0] == miss])
            lp = reparse(late)
            lp.psbt_ins[miss].finalize()
            lateb = lp.serialize()                      # only input `miss` finalised, the others unsigned
            outs = set()
            for first, second in ((ab, lateb), (lateb, ab), (ab, late), (late, ab)):
                c = reparse(first)
                c.combine(reparse(second))
                c = reparse(c.serialize())
                for pin in c.psbt_ins:
                    if pin.script_sig is None:
                        pin.finalize()
                try:
                    outs.add(reparse(c.serialize()).final_tx().serialize())
                except Exception as e:  # noqa
                    return (f"partially finalised PSBTs (input {miss} finalised separately) combined: final_tx "
                            f"fails with {type(e).__name__}: {str(e)[:80]}")
            if outs != {txb}:
                return (f"partially finalised PSBTs (input {miss} finalised separately) give another final "
                        f"transaction than finalising the combined PSBT")
    return None


FAKE_SIG = b"\x30\x06\x02\x01\x05\x02\x01\x07\x01"


def p_finalize_errors(kind_i, m, n):
    """every way an input cannot be finalised: the call raises RuntimeError / ValueError (never returns, never
    fails with an internal AttributeError / IndexError / TypeError) and leaves the input as it was"""
    kind = KINDS[kind_i]
    w = Wallet(kind, m, n, first_key=41) if kind_i >= 3 else own_wallets()[kind]
    single = kind in SINGLE
    f = funding_tx(160 + kind_i, 0, w.spk)
    ti = TxIn(f.hash(), 1)
    good = ref_in(w, f, 1)
    good[2] = [[s, FAKE_SIG] for s in sorted(w.secs[: (1 if single else m)])]
    cases = []

    def variant(what, **kw):
        v = [list(x) for x in good]
        for k, x in kw.items():
            v[int(k[1:])] = x
        cases.append((what, v))
    stranger = [[key(30).point.sec(), FAKE_SIG], [key(31).point.sec(), FAKE_SIG]]
    if w.redeem is not None:
        variant("RedeemScript missing", f4=[])
    if w.wscript is not None:
        variant("WitnessScript missing", f5=[])
    variant("no signature", f2=[])
    if single:
        variant("two signatures on a single-key input", f2=sorted(good[2] + stranger[:1]))
        variant("three signatures on a single-key input", f2=sorted(good[2] + stranger))
    else:
        if m > 1:
            variant("m-1 signatures", f2=good[2][:-1])
            variant("m-1 signatures by script keys and one by a foreign key", f2=sorted(good[2][:-1] + stranger[:1]))
        variant("only foreign-key signatures", f2=sorted(stranger[:min(m, 2)]))
    for spk, name in ((P2TRScriptPubKey(b"\x45" * 32), "p2tr"), (ScriptPubKey([w.secs[0], 172]), "p2pk"),
                      (ScriptPubKey([]), "empty")):
        f2 = funding_tx(170 + kind_i, 0, spk)
        v = [list(x) for x in good]
        v[0], v[1], v[4], v[5] = [un_tx(f2)], [], [], []
        cases.append((f"unsupported scriptPubKey ({name})", v, TxIn(f2.hash(), 1)))
    with contextlib.redirect_stdout(io.StringIO()):
        # the complete input does finalise (the cases below fail for the stated reason only)
        pin = mk_in(good, mk_txin(un_txin(ti)))
        try:
            pin.finalize()
        except Exception as e:  # noqa
            return f"{kind} {m}-of-{n}: a complete input does not finalise: {type(e).__name__}: {e}"
        if pin.sigs or pin.redeem_script or pin.witness_script or pin.named_pubs or pin.script_sig is None:
            return f"{kind} {m}-of-{n}: finalize() left signer data in the input or set no final scriptSig"
        for c in cases:
            what, v = c[0], c[1]
            pin = mk_in(v, mk_txin(un_txin(c[2] if len(c) > 2 else ti)))
            before = un_in(pin)
            try:
                pin.finalize()
            except (RuntimeError, ValueError):
                if un_in(pin) != before:
                    return f"{kind} {m}-of-{n}, {what}: the refused finalize() modified the input"
                continue
            except Exception as e:  # noqa
                return f"{kind} {m}-of-{n}, {what}: finalize() fails with {type(e).__name__} instead of refusing"
            return f"{kind} {m}-of-{n}, {what}: finalize() succeeded"
    return None


def p_create_from_final(kind_i):
    """PSBT.create on a transaction that already carries scriptSigs / witnesses (the signed transaction of a
    finished workflow): they move into the input maps, the embedded transaction is unsigned, the PSBT loads
    again and gives the same transaction back"""
    kind = KINDS[kind_i]
    w = own_wallets()[kind]
    f = funding_tx(60 + kind_i, 0, w.spk)
    tx = Tx(2, [TxIn(f.hash(), 1)], [TxOut(100, w.spk)], 0)
    tx.network = "mainnet"
    pk, rl, wl = w.lookups()
    look = dict(tx_lookup={f.hash(): f}, pubkey_lookup=pk, redeem_lookup=rl, witness_lookup=wl)
    with contextlib.redirect_stdout(io.StringIO()):
        base = PSBT.create(tx, **look).serialize()
        signers = [0] if kind in SINGLE else list(range(w.m))
        comb = combine_bytes(base, [sign_as(base, w, j) for j in signers])
        fb, txb, t = finalise_bytes(comb)
        sigs_before = [(un_script(i.script_sig), list(i.witness.items)) for i in t.tx_ins]
        try:
            p = PSBT.create(t, **look)
        except Exception as e:  # noqa
            return f"{kind}: PSBT.create(signed transaction) raises {type(e).__name__}: {str(e)[:100]}"
        for i, pin in enumerate(p.psbt_ins):
            ss, wit = sigs_before[i]
            if (un_script(pin.script_sig) if pin.script_sig is not None else [[], []]) != ss or \
                    (list(pin.witness.items) if pin.witness is not None else []) != wit:
                return f"{kind}: create() did not move scriptSig / witness of input {i} into the input map"
        b = p.serialize()
        r = p_reserialize_strict(b)
        if r:
            return f"{kind}: PSBT created from a signed transaction: {r}"
        q = reparse(b)
        for i, pin in enumerate(q.psbt_ins):
            ss, wit = sigs_before[i]
            if (list(pin.witness.items) if pin.witness is not None else []) != wit or \
                    (un_script(pin.script_sig) if pin.script_sig is not None else [[], []])[0] != ss[0]:
                return f"{kind}: final scriptSig / witness of input {i} lost in serialize/parse"
    return None


def p_finalised_pairs(kind_i, m, n, n_inputs):
    """finalised PSBTs as accumulator AND argument.  (a) two finalised PSBTs made from different signer subsets
    (n > m): combine keeps the accumulator's final scriptSig / witness (fields are only added, never replaced), in
    both directions and with the non-final stages combined in before or after; (b) n_inputs >= 2: PSBTs in which
    only one input is finalised, exchanged as bytes, combine in both directions into a PSBT that extracts the
    same transaction as finalising everything at once; a partially finalised PSBT alone does not extract."""
    kind = KINDS[kind_i]
    w = Wallet(kind, m, n, first_key=(kind_i * 5 + m + 3 * n + 2) % 11)
    single = kind in SINGLE
    nsig = 1 if single else n
    need = 1 if single else m
    with contextlib.redirect_stdout(io.StringIO()):
        base = build_psbt(w, n_inputs, salt=kind_i * 16 + m * 4 + n + 2).serialize()
        signed = {j: sign_as(base, w, j) for j in range(nsig)}
        subs = [tuple(range(need))]
        if nsig > need:
            subs.append(tuple(range(nsig - need, nsig)))
        fin = []
        for sub in subs:
            comb = combine_bytes(base, [signed[j] for j in sub])
            fb, txb, _ = finalise_bytes(comb)
            fin.append((sub, comb, fb, txb))
        if len(fin) == 2:
            if fin[0][3] == fin[1][3]:
                return "harness: the two signer subsets give the same transaction"
            for (sa, ca, fa, ta), (sb, cb, fb_, tb) in ((fin[0], fin[1]), (fin[1], fin[0])):
                for order in ([fb_], [base, fb_], [fb_, cb, base], [cb, fb_]):
                    acc = reparse(fa)
                    for o in order:
                        acc.combine(reparse(o))
                    try:
                        got = reparse(acc.serialize()).final_tx().serialize()
                    except Exception as e:  # noqa
                        return (f"{kind} {m}-of-{n}: PSBT finalised by signers {sa} combined with the one finalised "
                                f"by {sb}: final_tx fails ({type(e).__name__}: {str(e)[:80]})")
                    if got != ta:
                        return (f"{kind} {m}-of-{n}: PSBT finalised by signers {sa}, combined with the PSBT finalised "
                                f"by {sb}, no longer extracts its own transaction"
                                + (" (it extracts the other one)" if got == tb else ""))
                # a non-final accumulator takes the final fields of the first finalised PSBT it meets
                acc = reparse(cb)
                acc.combine(reparse(fa))
                acc.combine(reparse(fb_))
                if reparse(acc.serialize()).final_tx().serialize() != ta:
                    return (f"{kind} {m}-of-{n}: a signed PSBT combined with two finalised PSBTs does not keep the "
                            f"final fields of the first one")
        if n_inputs >= 2:
            sub, comb, fb, txb = fin[0]
            parts = []
            for i in range(n_inputs):
                p = reparse(comb)
                p.psbt_ins[i].finalize()
                b = p.serialize()
                r = p_reserialize_strict(b)
                if r:
                    return f"{kind} {m}-of-{n}: PSBT with only input {i} finalised: {r}"
                try:
                    reparse(b).final_tx()
                except Exception:  # noqa
                    pass
                else:
                    return f"{kind} {m}-of-{n}: final_tx succeeded with only input {i} finalised"
                parts.append(b)
            for order in (list(range(n_inputs)), list(reversed(range(n_inputs)))):
                acc = reparse(parts[order[0]])
                for i in order[1:]:
                    acc.combine(reparse(parts[i]))
                try:
                    got = reparse(acc.serialize()).final_tx().serialize()
                except Exception as e:  # noqa
                    return (f"{kind} {m}-of-{n}: partially finalised PSBTs combined in input order {order}: final_tx "
                            f"fails ({type(e).__name__}: {str(e)[:80]})")
                if got != txb:
                    return f"{kind} {m}-of-{n}: partially finalised PSBTs combined in order {order} extract another transaction"
    return None


# ---------------------------------------------------------------- generators for the validators and codecs


def wrong_scripts(w):
    """(redeem scripts, witness scripts) that do not belong to wallet w, of every shape the validators tell apart"""
    ws = own_wallets()
    multi = [op_n(1)] + ws["p2sh"].secs + [op_n(3), 174]
    other_ws = WitnessScript(list(multi))
    rs = [RedeemScript(list(multi)), RedeemScript([0, hash160(ws["p2sh"].secs[1])]),
          RedeemScript([0, hash160(ws["p2pkh"].secs[0])]), RedeemScript([0, other_ws.sha256()]),
          RedeemScript([0, ws["p2wsh"].wscript.sha256()]), ws["p2sh"].redeem, ws["p2sh-p2wsh"].redeem]
    wss = [other_ws, ws["p2wsh"].wscript]
    return rs, wss


def validate_matrix(ctx):
    """PSBTIn.validate / PSBTOut.validate on hand-made maps: every scriptPubKey type x UTXO form x RedeemScript x
    WitnessScript x derivation set, so that both outcomes of every consistency rule are reached"""
    r = ctx.rng
    ws = own_wallets()
    spks = [ws[k].spk for k in KINDS] + [P2TRScriptPubKey(b"\x45" * 32), ScriptPubKey([ws["p2pkh"].secs[0], 172]),
                                        P2SHScriptPubKey(b"\x43" * 20), P2WSHScriptPubKey(b"\x44" * 32),
                                        P2WPKHScriptPubKey(hash160(ws["p2sh"].secs[1])),
                                        # 20-byte witness programs that EQUAL the hash160 of a RedeemScript: only
                                        # the "RedeemScript defined for non-p2sh ScriptPubKey" rules refuse them
                                        P2WPKHScriptPubKey(ws["p2sh"].redeem.hash160()),
                                        P2WPKHScriptPubKey(ws["p2sh-p2wpkh"].redeem.hash160())]
    # ... and scripts that carry the right hash in the right position without being of the right type
    own_ws = ws["p2wsh"].wscript
    rs_x = RedeemScript([0x51, own_ws.sha256()])
    spks = spks[:-2] + [ScriptPubKey([0xA9, ws["p2sh-p2wsh"].redeem.hash160(), 0x88]), P2TRScriptPubKey(own_ws.sha256()),
                        P2SHScriptPubKey(rs_x.hash160())] + spks[-2:]
    rs_all, ws_all = wrong_scripts(ws["p2sh"])
    rs_opts = [None, ws["p2sh-p2wpkh"].redeem] + rs_all + [rs_x]
    ws_opts = [None] + ws_all
    k1, k2, k3 = ws["p2pkh"].named[0], ws["p2sh"].named[1], NP(named_point(key(9), 0))
    named_opts = [[], [k1], [k2], [k3], [k1, k2], [k2, k3], ws["p2sh"].named, ws["p2sh"].named + [k3]]

    def nm(l):
        return sorted([n_.sec(), n_.point.raw_path] for n_ in l)
    combos = list(itertools.product(range(len(spks)), range(7), range(len(rs_opts)), range(len(ws_opts)),
                                    range(len(named_opts))))
    # all maps that differ from a consistent one in at most one field, then a random sample of the rest
    good = {0: (None, None, 1), 1: (None, None, 1), 2: (1, None, 1), 3: (7, None, 6), 4: (None, 2, 6), 5: (8, 2, 6),
            len(spks) - 2: (7, None, 6), len(spks) - 1: (1, None, 0)}
    chosen = []
    for si, (gr, gw, gn) in good.items():
        gr = 0 if gr is None else gr
        gw = 0 if gw is None else gw
        for c in combos:
            if c[0] == si and sum((c[2] != gr, c[3] != gw, c[4] != gn)) <= 1:
                chosen.append(c)
    cs = set(chosen)
    rest = [c for c in combos if c not in cs]
    r.shuffle(rest)
    chosen += rest[: ctx.n(2500, 12000)]
    for (si, ui, ri, wi, ni) in chosen:
        f = funding_tx(100 + si, 0, spks[si])
        ti = TxIn(f.hash(), 1)
        ptx, pout = [un_tx(f)], [un_txout(f.tx_outs[1])]
        if ui == 1:
            ptx = []
        elif ui == 2:
            pout = []
        elif ui == 3:
            ptx, pout = [], []
        elif ui == 4:
            pout = [un_txout(TxOut(f.tx_outs[1].amount + 1, spks[si]))]
        elif ui == 5:
            pout = [un_txout(TxOut(f.tx_outs[1].amount, spks[(si + 1) % len(spks)]))]
        elif ui == 6:
            ti = TxIn(f.hash(), r.choice([0, 2, 3])) if r.random() < 0.7 else TxIn(bytes(32), 1)
        v = [ptx, pout, [], [], opt(rs_opts[ri], un_script), opt(ws_opts[wi], un_script), nm(named_opts[ni]),
             [], [], []]
        ctx.label("validate-matrix/input")
        yield ("corr", "in_validate", [v, un_txin(ti)])
    out_combos = list(itertools.product(range(len(spks)), range(len(rs_opts)), range(len(ws_opts)),
                                        range(len(named_opts))))
    for (si, ri, wi, ni) in out_combos:
        ctx.label("validate-matrix/output")
        yield ("corr", "out_validate", [[opt(rs_opts[ri], un_script), opt(ws_opts[wi], un_script),
                                         nm(named_opts[ni]), []], un_txout(TxOut(5, spks[si]))])


def serialize_matrix(ctx):
    """PSBTIn.serialize / PSBTOut.serialize on maps whose optional fields are absent, empty and present, with
    signatures by keys inside and outside the scripts, sighash types around the 4-byte range"""
    r = ctx.rng
    ws = own_wallets()
    for kind in KINDS:
        w = ws[kind]
        f = funding_tx(110, 0, w.spk)
        good = ref_in(w, f, 1)
        sig_sets = [[], [[s, FAKE_SIG + bytes([j])] for j, s in enumerate(reversed(w.secs))],
                    [[w.secs[-1], FAKE_SIG], [key(30).point.sec(), FAKE_SIG]], [[w.secs[0], b""]],
                    [[key(31).point.sec(), b"\x01"], [key(30).point.sec(), b"\x02"]]]
        for sigs in sig_sets:
            for ht in ([], [0], [1], [0x81], [2 ** 32 - 1], [2 ** 32], [-1]):
                for fin in range(4):
                    v = [list(x) for x in good]
                    v[2] = sorted(sigs)
                    v[3] = ht
                    if fin & 1:
                        v[7] = [un_script(Script([b"\x01\x02"]))] if r.random() < 0.5 else [[[], []]]
                    if fin & 2:
                        v[8] = [[b"\x03" * 3, b""]] if r.random() < 0.5 else [[]]
                    if r.random() < 0.3:
                        v[r.choice([0, 1, 4, 5])] = []
                    if r.random() < 0.3:
                        v[9] = [[b"\x0f" + ctx.rbytes(2), ctx.rbytes(3)], [b"\xfc\x00", b""]]
                        v[9].sort()
                    ctx.label("serialize-matrix/input")
                    yield ("corr", "in_serialize", [v])
        o = ref_out(w)
        for drop in range(8):
            v = [list(x) for x in o]
            for k in range(3):
                if drop >> k & 1:
                    v[k] = []
            ctx.label("serialize-matrix/output")
            yield ("corr", "out_serialize", [v])


XPUB_MAIN, XPUB_TEST = bytes.fromhex("0488b21e"), bytes.fromhex("043587cf")


def xpub_entry(version, depth, sec, raw_path, chain=b"\x21" * 32, child=0, parent=b"\x00" * 4):
    return (b"\x01" + version + bytes([depth % 256]) + parent + child.to_bytes(4, "big") + chain + sec, raw_path)


def global_map_cases(ctx):
    """PSBT.parse: global xpub entries (version, depth against path length, path shapes, key length), derivation
    paths of different networks spread over xpubs, inputs and outputs, unknown global entries and duplicates"""
    r = ctx.rng
    ws = own_wallets()
    w = ws["p2wsh"]
    H = 0x80000000
    le = lambda x: x.to_bytes(4, "little")  # noqa: E731
    f = funding_tx(120, 0, w.spk)
    tx = Tx(2, [TxIn(f.hash(), 1)], [TxOut(100, w.spk), TxOut(200, ws["p2wpkh"].spk)], 0)
    tx.network = "mainnet"
    base_maps = [[(b"\x00", tx.serialize_legacy())]]
    ent = lambda k, v: (k, v)  # noqa: E731

    def in_map(paths):
        m = [ent(b"\x01", f.tx_outs[1].serialize()), ent(b"\x05", w.wscript.raw_serialize())]
        return m + [ent(b"\x06" + s, p) for s, p in zip(sorted(w.secs), paths)]

    def out_maps(paths):
        return [[ent(b"\x01", w.wscript.raw_serialize())] + [ent(b"\x02" + s, p) for s, p in zip(sorted(w.secs), paths)],
                [ent(b"\x02" + ws["p2wpkh"].secs[0], paths[-1])]]
    fp = b"\xaa\xbb\xcc\xdd"
    main, test, short, legacy = fp + le(H + 48) + le(H), fp + le(H + 48) + le(H + 1), fp, fp + le(H + 44) + le(H + 1)
    opts = [main, test, short, legacy]
    sec = ws["p2pkh"].secs[0]
    # derivation networks: every pair of positions disagreeing, plus all-equal
    picks = [[a] * 3 + [b] * 3 for a in opts for b in opts] + \
            [[r.choice(opts) for _ in range(6)] for _ in range(ctx.n(20, 200))]
    for pk_ in picks:
        for xp in (None, main[:12], test[:12]):
            g = list(base_maps[0])
            if xp is not None:
                g.append(xpub_entry(XPUB_MAIN, 2, sec, xp))
            ctx.label("parse/derivation-networks")
            yield parse_case(join_maps([g, in_map(pk_[:3])] + out_maps(pk_[3:])))
    for a in opts:
        for b in opts:
            ctx.label("parse/derivation-networks-outputs-only")
            yield parse_case(join_maps([list(base_maps[0]), in_map([])] + out_maps([a, b, b])))
            yield parse_case(join_maps([list(base_maps[0]), in_map([])] + [[], out_maps([a, a, b])[1]]))
    good = [main] * 3
    for version in (XPUB_MAIN, XPUB_TEST, bytes.fromhex("02aa7ed3"), bytes.fromhex("02575483"), b"\x04\x88\xb2\x1f", b"\x00" * 4):
        for depth, path in ((0, fp), (1, fp + le(H + 48)), (2, main), (2, test), (1, main), (3, main), (2, main + b"\x00"),
                            (2, main[:-1]), (0, b""), (0, fp[:3]), (255, main), (2, legacy)):
            for fp2 in (b"\x11\x22\x33\x44", fp):
                g = list(base_maps[0]) + [xpub_entry(version, depth, sec, fp2 + path[4:] if len(path) >= 4 else path)]
                ctx.label("parse/global-xpub-shapes")
                yield parse_case(join_maps([g, in_map(good)] + out_maps(good)))
    k, v = xpub_entry(XPUB_MAIN, 2, sec, main)
    k2, v2 = xpub_entry(XPUB_MAIN, 2, ws["p2sh"].secs[1], main, chain=b"\x22" * 32)
    variants = [[(k[:-1], v)], [(k + b"\x00", v)], [(k, v), (k, v)], [(k, v), (k2, v2)], [(k2, v2), (k, v)],
                [(k, v), (k2, test)], [(k2, test), (k, v)], [(k[:46] + b"\x05" + k[47:], v)], [(k[:46] + b"\x02" + b"\x00" * 32, v)],
                [(b"\x02", b"")], [(b"\x02", b""), (b"\x02", b"x")], [(b"\x02", b"x"), (b"\x02", b"y")],
                [(b"\xfc\x01", b"a"), (b"\xfc", b"")], [(b"\x00\x00", b"zz")], [(b"\x00", tx.serialize_legacy())]]
    for extra in variants:
        for front in (False, True):
            g = (extra + list(base_maps[0])) if front else (list(base_maps[0]) + extra)
            ctx.label("parse/global-entry-shapes")
            b = join_maps([g, in_map(good)] + out_maps(good))
            yield parse_case(b)
            yield ("prop", "reserialize", [b])
    # no unsigned transaction, wrong magic / separator, trailing bytes, too few / too many maps
    whole = join_maps([list(base_maps[0]), in_map(good)] + out_maps(good))
    for b in (join_maps([[], in_map(good)] + out_maps(good)), b"psbt\xfe" + whole[5:], b"psbs\xff" + whole[5:], whole[:4],
              whole[:5], whole + b"\x00", whole + b"\x01", whole[:-1], join_maps([list(base_maps[0]), in_map(good)]),
              join_maps([list(base_maps[0])])):
        ctx.label("parse/framing")
        yield parse_case(b)


def psbt_validate_cases(ctx):
    """PSBT.validate on whole objects: map counts against the transaction, scriptSig in the unsigned transaction,
    global xpubs that are / are not ancestors of input and output keys and do / do not derive them"""
    w = Wallet("p2wsh", 2, 2, first_key=6, hd=True)
    f = funding_tx(171, 0, w.spk)
    tx = Tx(2, [TxIn(f.hash(), 1)], [TxOut(30000, P2WPKHScriptPubKey(b"\xab" * 20)), TxOut(20000, w.spk)], 0)
    v = [un_tx(tx), [ref_in(w, f, 1)], [list(BLANK_OUT), ref_out(w)],
         un_dict(w.hd_pubs, lambda h: [h.raw_serialize(), h.raw_path]), []]

    def case(val):
        return ("corr", "validate", [val, oracle_table(mk_psbt(val))])
    ctx.label("validate/hd-wallet")
    yield case(v)
    stranger = forged_xpub(own_wallets()["p2pkh"])
    acct = list(w.hd_pubs.values())
    fake = []
    for a in acct:
        # an xpub with the path of a real account key but another key: claims the wallet's keys, derives none
        fake.append([stranger.raw_serialize(), a.raw_path])
    for hd in ([], [[fake[0][0], fake[0]]], [[fake[1][0], fake[1]]], [[stranger.raw_serialize(), [stranger.raw_serialize(), stranger.raw_path]]],
               v[3][:1], v[3][1:]):
        v2 = list(v)
        v2[3] = sorted(hd)
        ctx.label("validate/xpub-ancestry")
        yield case(v2)
        # the same xpubs with the derivations present only in the input / only in the outputs
        v3 = list(v2)
        v3[1] = [x[:6] + [[]] + x[7:] for x in v2[1]]
        yield case(v3)
        v4 = list(v2)
        v4[2] = [x[:2] + [[]] + x[3:] for x in v2[2]]
        yield case(v4)
    # an extra p2wpkh output whose key is child 5 / child 0x01000005 of the first account key: the claimed index is
    # the right one, the other one, or differs from the right one only in its top byte
    a0 = acct[0]
    kids = {idx: a0.child(idx).point.sec() for idx in (5, 0x01000005)}
    for real in kids:
        for claimed in (5, 0x01000005, 0x02000005):
            t = [list(x) if isinstance(x, list) else x for x in v[0]]
            t[2] = list(t[2]) + [un_txout(TxOut(777, P2WPKHScriptPubKey(hash160(kids[real]))))]
            om = [[], [], [[kids[real], a0.raw_path + claimed.to_bytes(4, "little")]], []]
            ctx.label("validate/derivation-index-top-byte")
            yield case([t, v[1], v[2] + [om], v[3], v[4]])
    for dn_in, dn_out in ((1, 0), (-1, 0), (0, 1), (0, -1)):
        v2 = list(v)
        v2[1] = (v[1] + [list(BLANK_IN)]) if dn_in > 0 else v[1][:len(v[1]) + dn_in]
        v2[2] = (v[2] + [list(BLANK_OUT)]) if dn_out > 0 else v[2][:len(v[2]) + dn_out]
        ctx.label("validate/map-counts")
        yield case(v2)
    t = [list(x) if isinstance(x, list) else x for x in v[0]]
    t[1] = [list(i) for i in t[1]]
    t[1][0][2] = un_script(Script([b"\x01"]))
    yield case([t] + v[1:])
    t2 = [list(x) if isinstance(x, list) else x for x in v[0]]
    t2[1] = [list(i) for i in t2[1]]
    t2[1][0][4] = [b"\x01"]                     # a witness on the unsigned transaction's input
    yield case([t2] + v[1:])




def p_extract_invalid(kind_i, m, n, where):
    """a finalised PSBT whose signature does not verify is not extracted: the partial signature of one key is
    replaced IN MEMORY (no reload, so validate() never sees it) by a signature of the same key over another
    digest; finalize() works on whatever is there, final_tx() must raise"""
    kind = KINDS[kind_i]
    w = Wallet(kind, m, n, first_key=(kind_i * 5 + m + 3 * n + 2) % 11)
    single = kind in SINGLE
    with contextlib.redirect_stdout(io.StringIO()):
        base = build_psbt(w, 1, salt=kind_i * 16 + m * 4 + n + 2).serialize()
        signers = [0] if single else list(range(m))
        p = reparse(combine_bytes(base, [sign_as(base, w, j) for j in signers]))
        j = signers[where % len(signers)]
        sec = w.secs[j]
        good = p.psbt_ins[0].sigs[sec]
        z = int.from_bytes(hash160(good) * 2, "big") % (2 ** 255)
        p.psbt_ins[0].sigs[sec] = w.privs[j].sign(z).der() + good[-1:]
        try:
            p.finalize()
        except Exception as e:  # noqa
            return f"{kind} {m}-of-{n}: finalize() of an input with enough signatures raises {type(e).__name__}: {e}"
        fb = p.serialize()
        try:
            t = p.final_tx()
        except RuntimeError:
            # the refused extraction left the PSBT alone: same bytes, they load, a second attempt is refused again
            if p.serialize() != fb or any(i.script_sig.commands or i.witness.items for i in p.tx_obj.tx_ins):
                return f"{kind} {m}-of-{n}: the refused final_tx() changed the PSBT"
            try:
                reparse(fb).final_tx()
            except RuntimeError:
                return None
            except Exception:  # noqa
                return None
            return f"{kind} {m}-of-{n}: the bytes of the PSBT whose extraction was refused extract after a reload"
        except Exception as e:  # noqa
            return f"{kind} {m}-of-{n}: final_tx() of an invalid finalised PSBT fails with {type(e).__name__}, not RuntimeError"
        return (f"{kind} {m}-of-{n}: final_tx() returned a transaction although the signature of key {j} does not "
                f"verify (Tx.verify() says {t.verify()})")


def combine_matrix(ctx):
    """PSBT.combine field by field: every optional field absent / present / present with another value / present
    but empty, on either side; dictionaries with common keys that carry different values"""
    ws = own_wallets()
    w = ws["p2sh-p2wsh"]
    f = funding_tx(130, 0, w.spk)
    tx = Tx(2, [TxIn(f.hash(), 1)], [TxOut(100, w.spk)], 0)
    tx.network = "mainnet"
    full_in = ref_in(w, f, 1)
    full_in[0] = [un_tx(f)]
    s0, s1 = sorted(w.secs)[:2]
    alt = {0: [[], [un_tx(f)], [un_tx(funding_tx(131, 0, w.spk))]],
           1: [[], full_in[1], [un_txout(TxOut(1, w.spk))]],
           2: [[], [[s0, FAKE_SIG]], [[s0, FAKE_SIG + b"\x01"]], [[s0, b""]], [[s1, FAKE_SIG]], [[s0, FAKE_SIG], [s1, b"\x02"]]],
           3: [[], [0], [1], [0x83]],
           4: [[], full_in[4], [un_script(ws["p2sh-p2wpkh"].redeem)], [[[], []]]],
           5: [[], full_in[5], [un_script(WitnessScript([81]))], [[[], []]]],
           6: [[], full_in[6][:1], [[full_in[6][0][0], full_in[6][0][1] + b"\x00" * 4]], full_in[6][1:]],
           7: [[], [[[], []]], [un_script(Script([b"\x01"]))], [un_script(Script([b"\x02", b"\x03"]))]],
           8: [[], [[]], [[b"\x01"]], [[b"", b"\x02\x03"]]],
           9: [[], [[b"\x0f", b"a"]], [[b"\x0f", b"b"]], [[b"\x0f", b""]], [[b"\x0e", b"c"], [b"\x0f", b"d"]]]}
    out0 = ref_out(w)
    alt_out = {0: alt[4], 1: alt[5], 2: alt[6], 3: alt[9]}
    gx = [[], [[b"\xfc\x01", b"g"]], [[b"\xfc\x01", b"h"]], [[b"\xfc\x01", b""]], [[b"\xfb", b"i"], [b"\xfc\x01", b"j"]]]
    st = forged_xpub(ws["p2pkh"])
    hk = st.raw_serialize()
    ghd = [[], [[hk, [hk, st.raw_path]]], [[hk, [hk, st.raw_path[:4] + b"\x01\x00\x00\x80" + st.raw_path[8:]]]]]

    def psbt(vin, vout, hd=(), extra=()):
        return [un_tx(tx), [vin], [vout], list(hd), list(extra)]
    for k, vals in alt.items():
        for a in vals:
            for b in vals:
                va, vb = list(BLANK_IN), list(BLANK_IN)
                va[k], vb[k] = a, b
                ctx.label("combine-matrix/input-field")
                yield ("corr", "combine", [psbt(va, list(BLANK_OUT)), psbt(vb, list(BLANK_OUT))])
    for k, vals in alt_out.items():
        for a in vals:
            for b in vals:
                va, vb = list(BLANK_OUT), list(BLANK_OUT)
                va[k], vb[k] = a, b
                ctx.label("combine-matrix/output-field")
                yield ("corr", "combine", [psbt(list(BLANK_IN), va), psbt(list(BLANK_IN), vb)])
    for a in gx:
        for b in gx:
            ctx.label("combine-matrix/global")
            yield ("corr", "combine", [psbt(full_in, out0, extra=a), psbt(list(BLANK_IN), list(BLANK_OUT), extra=b)])
    for a in ghd:
        for b in ghd:
            yield ("corr", "combine", [psbt(list(BLANK_IN), out0, hd=a), psbt(full_in, list(BLANK_OUT), hd=b)])
    # different numbers of maps on the two sides (zip stops at the shorter one)
    two = [un_tx(tx), [full_in, list(BLANK_IN)], [out0, out0], [], []]
    one = psbt(list(BLANK_IN), list(BLANK_OUT))
    yield ("corr", "combine", [one, two])
    yield ("corr", "combine", [two, one])


def typed_entry_cases(ctx):
    """complete, VALID input and output maps of every script type (the parsers end with validate(), which would
    hide a wrong parse of an inconsistent map); then one entry at a time is duplicated (same value next to it /
    at the end / preceded by an empty value), gets a longer or shorter key, or loses its value; two bytes follow
    the map so that a parser that lost its position shows up"""
    ws = own_wallets()
    e = lambda k, v: encode_varstr(k) + encode_varstr(v)  # noqa: E731
    tail = b"\x00\xee\xdd"

    def variants(ents):
        yield ents
        for i, (k, v) in enumerate(ents):
            yield ents[:i + 1] + [(k, v)] + ents[i + 1:]
            yield ents + [(k, v)]
            yield ents[:i] + [(k, b"")] + ents[i:]
            yield ents[:i] + [(k + b"\x00", v)] + ents[i + 1:]
            yield ents[:i] + [(k + b"\x00", v), (k, v)] + ents[i + 1:]
            if len(k) > 1:
                yield ents[:i] + [(k[:-1], v)] + ents[i + 1:]
                yield ents[:i] + [(k[:1] + k[2:], v)] + ents[i + 1:]     # 32 bytes after the type: x-only key
            yield ents[:i] + [(k, v[:-1])] + ents[i + 1:]
            yield ents[:i] + [(k, v + b"\x00")] + ents[i + 1:]
    for kind in KINDS:
        w = ws[kind]
        f = funding_tx(132, 0, w.spk)
        ti = un_txin(TxIn(f.hash(), 1))
        legacy = kind in ("p2pkh", "p2sh")
        secs = w.secs[:1] if kind in SINGLE else w.secs
        paths = dict(ref_named(w, secs))
        utxo = (b"\x00", f.serialize()) if legacy else (b"\x01", f.tx_outs[1].serialize())
        scripts = ([(b"\x04", w.redeem.raw_serialize())] if w.redeem else []) + \
            ([(b"\x05", w.wscript.raw_serialize())] if w.wscript else [])
        signer = [utxo, (b"\x02" + secs[0], FAKE_SIG), (b"\x03", b"\x01\x00\x00\x00")] + scripts + \
            [(b"\x06" + s, paths[s]) for s in sorted(secs)] + [(b"\x0f\x01", b"u")]
        final = [utxo, (b"\x07", b"\x01\x51"), (b"\x08", b"\x02\x01\xaa\x00"), (b"\x09", b"por")]
        for ents in (signer, final):
            for vs in variants(ents):
                ctx.label("typed-entries/input")
                yield ("corr", "in_parse", [b"".join(e(k, v) for k, v in vs) + tail, ti, 0])
        to = un_txout(TxOut(100, w.spk))
        outm = ([(b"\x00", w.redeem.raw_serialize())] if w.redeem else []) + \
            ([(b"\x01", w.wscript.raw_serialize())] if w.wscript else []) + \
            [(b"\x02" + s, paths[s]) for s in sorted(secs)] + [(b"\x03", b"x"), (b"\xfc\x01", b"y")]
        for vs in variants(outm):
            ctx.label("typed-entries/output")
            yield ("corr", "out_parse", [b"".join(e(k, v) for k, v in vs) + tail, to, 0])
    # derivation entries whose key is a well-formed public key of another length (x-only, uncompressed)
    pt = key(5).point
    unc = b"\x04" + pt.x.num.to_bytes(32, "big") + pt.y.num.to_bytes(32, "big")
    path = b"\xaa\xbb\xcc\xdd" + (0x80000030).to_bytes(4, "little") + (0x80000000).to_bytes(4, "little")
    for body in (pt.sec()[1:], unc, pt.sec(), pt.sec() + b"\x00", b""):
        ctx.label("typed-entries/derivation-key-forms")
        yield ("corr", "in_parse", [e(b"\x06" + body, path) + tail, un_txin(TxIn(b"\x33" * 32, 0)), 0])
        yield ("corr", "in_parse", [e(b"\x02" + body, FAKE_SIG) + tail, un_txin(TxIn(b"\x33" * 32, 0)), 0])
        yield ("corr", "out_parse", [e(b"\x02" + body, path) + tail, un_txout(TxOut(5, Script([81]))), 0])


def segwit_choice_cases(ctx):
    """PSBT.validate: which digest a partial signature is checked against when ONLY the final witness says that
    the input is segwit — a wrapped-segwit input that came with a non-witness UTXO, was finalised (RedeemScript
    and WitnessScript cleared) and then received a partial signature again.  One signature over the legacy digest
    and one over the BIP143 digest of that state: exactly the second one is acceptable."""
    ws = own_wallets()
    for kind in (("p2sh-p2wpkh",) if ctx.tier == "quick" else ("p2sh-p2wpkh", "p2sh-p2wsh")):
        w = ws[kind]
        f = funding_tx(140, 0, w.spk)
        tx = Tx(2, [TxIn(f.hash(), 1)], [TxOut(100, w.spk)], 0)
        tx.network = "mainnet"
        with contextlib.redirect_stdout(io.StringIO()):
            p = mk_psbt([un_tx(tx), [ref_in(w, f, 1)], [ref_out(w)], [], []])
            signers = w.privs[: (1 if kind in SINGLE else w.m)]
            p.sign_with_private_keys(signers)
            partial = un_dict(p.psbt_ins[0].sigs)
            p.finalize()
            v = un_psbt(p)
            v[1][0][0], v[1][0][1] = [un_tx(f)], []              # non-witness UTXO only
            q = mk_psbt(v)
            zl = q.tx_obj.sig_hash_legacy(0, None)
            zs = q.tx_obj.sig_hash_bip143(0, None, None)
        sec = w.secs[0]
        for what, sigs in (("none", []), ("legacy-digest", [[sec, w.privs[0].sign(zl).der() + b"\x01"]]),
                           ("bip143-digest", [[sec, w.privs[0].sign(zs).der() + b"\x01"]]), ("signer", partial)):
            v2 = [v[0], [v[1][0][:2] + [sigs] + v[1][0][3:]], v[2], v[3], v[4]]
            ctx.label("validate/final-witness-decides-digest")
            yield ("corr", "validate", [v2, oracle_table(mk_psbt(v2))])
            yield ("corr", "serialize", [v2])




def p_digest_choice(kind_i):
    """A wrapped-segwit input that came with a non-witness UTXO, was finalised (scripts cleared, final witness
    present) and then received a partial signature again is still a segwit input: validate() accepts a partial
    signature over the BIP143 digest of that state and refuses one over the legacy digest (digests from
    Tx.sig_hash_bip143 / Tx.sig_hash_legacy, which this property trusts)."""
    kind = KINDS[kind_i]
    w = own_wallets()[kind]
    f = funding_tx(140, 0, w.spk)
    tx = Tx(2, [TxIn(f.hash(), 1)], [TxOut(100, w.spk)], 0)
    tx.network = "mainnet"
    with contextlib.redirect_stdout(io.StringIO()):
        p = mk_psbt([un_tx(tx), [ref_in(w, f, 1)], [ref_out(w)], [], []])
        p.sign_with_private_keys(w.privs[: (1 if kind in SINGLE else w.m)])
        p.finalize()
        v = un_psbt(p)
        v[1][0][0], v[1][0][1] = [un_tx(f)], []
        q = mk_psbt(v)
        zl = q.tx_obj.sig_hash_legacy(0, None)
        zs = q.tx_obj.sig_hash_bip143(0, None, None)
        for what, z, want in (("legacy", zl, False), ("BIP143", zs, True)):
            q = mk_psbt(v)
            q.psbt_ins[0].sigs = {w.secs[0]: w.privs[0].sign(z).der() + b"\x01"}
            try:
                q.validate()
                ok = True
            except Exception:  # noqa
                ok = False
            if ok != want:
                return (f"{kind}: finalised input with a non-witness UTXO: a partial signature over the {what} "
                        f"digest is {'accepted' if ok else 'refused'}")
    return None




def p_stream_position(b, npre, suffix):
    """PSBT.parse on a stream that holds other bytes before and after the PSBT: the result is the same PSBT and the
    stream stands exactly behind it"""
    try:
        want = reparse(b).serialize()
    except Exception:  # noqa
        return None
    st = BytesIO(bytes(range(7, 7 + npre)) + b + suffix)
    st.seek(npre)
    with contextlib.redirect_stdout(io.StringIO()):
        try:
            p = PSBT.parse(st)
        except Exception as e:  # noqa
            return f"a PSBT that loads on its own does not load from the middle of a stream: {type(e).__name__}: {e}"
    if st.tell() != npre + len(b):
        return f"parse() left the stream at offset {st.tell() - npre} of a {len(b)}-byte PSBT"
    if p.serialize() != want:
        return "the PSBT parsed from the middle of a stream serialises differently"
    return None


def boundary_cases(ctx):
    """compact-size boundaries: key / value lengths 0xfc, 0xfd, 0xfe, 0xffff, 0x10000 in the generic layer and in
    all three map kinds of a whole PSBT; 0xfc / 0xfd inputs and outputs"""
    for n in (0xFC, 0xFD, 0xFE, 0xFFFF, 0x10000):
        val = bytes([n % 251]) * n
        s = encode_varstr(b"\x0f\x01") + encode_varstr(val) + b"\x00"
        ctx.label("boundary/value-length")
        yield ("corr", "kv_parse", [s])
        yield ("corr", "kv_parse", [s[:-2]])
        yield ("corr", "kv_serialize", [[[b"\x0f\x01", val]]])
        if n <= 0xFE:
            k = b"\x0f" + bytes([n % 251]) * (n - 1)
            ctx.label("boundary/key-length")
            yield ("corr", "kv_parse", [encode_varstr(k) + encode_varstr(b"v") + b"\x00"])
            yield ("corr", "kv_serialize", [[[k, b"v"]]])
    w = own_wallets()["p2wpkh"]
    f = funding_tx(150, 0, w.spk)
    tx = Tx(2, [TxIn(f.hash(), 1)], [TxOut(100, w.spk)], 0)
    tx.network = "mainnet"
    for n in (0xFC, 0xFD, 0x10000):
        val = b"\x5a" * n
        maps = [[(b"\x00", tx.serialize_legacy()), (b"\xfc\x01", val)],
                [(b"\x01", f.tx_outs[1].serialize()), (b"\x0f", val)], [(b"\x09", val)]]
        b = join_maps(maps)
        ctx.label("boundary/psbt-with-long-unknown-values")
        yield parse_case(b)
        yield ("prop", "reserialize", [b])
        yield ("prop", "stream_position", [b, 2, b"\x00"])
    for nin, nout in ((0xFC, 1), (0xFD, 1), (1, 0xFC), (1, 0xFD)):
        t = Tx(2, [TxIn(bytes([i % 256, i // 256]) * 16, i) for i in range(nin)],
               [TxOut(1000 + i, w.spk) for i in range(nout)], 0)
        b = join_maps([[(b"\x00", t.serialize_legacy())]] + [[] for _ in range(nin + nout)])
        ctx.label("boundary/map-counts")
        yield ("prop", "reserialize", [b])
        yield ("prop", "stream_position", [b, 1, b"\xff"])
        yield parse_case(b)
        yield parse_case(b[:-1])


# ---------------------------------------------------------------- entry points besides the main path, default arguments,
# per-element attributes, state shared between objects (audit of the blind spots of seeded-change round 3)

H32 = 0x80000000
_le4 = lambda x: x.to_bytes(4, "little")  # noqa: E731


def ckd_pub(sec, chain, index):
    """BIP32 public child derivation with the standard library's hmac; only the point addition is the library's"""
    mac = hmac.new(chain, sec + index.to_bytes(4, "big"), hashlib.sha512).digest()
    return (int.from_bytes(mac[:32], "big") * G + S256Point.parse(sec)).sec(), mac[32:]


def ckd_priv_hardened(secret, chain, index):
    mac = hmac.new(chain, b"\x00" + secret.to_bytes(32, "big") + index.to_bytes(4, "big"), hashlib.sha512).digest()
    return (int.from_bytes(mac[:32], "big") + secret) % _N, mac[32:]


class RefAccount:
    """reference of the BIP44 account m/44'/0'/0' under a root (secret, chain code): keys and raw paths of the
    children c/i, computed without buidl.hd and without NamedHDPublicKey"""

    def __init__(self, secret, chain):
        self.root = HDPrivateKey(PrivateKey(secret), chain)
        self.fp = hash160((secret * G).sec())[:4]
        k, c = secret, chain
        for idx in (H32 + 44, H32, H32):
            k, c = ckd_priv_hardened(k, c, idx)
        self.sec, self.chain = (k * G).sec(), c
        self.prefix = self.fp + _le4(H32 + 44) + _le4(H32) + _le4(H32)
        self._kids = {}

    def kid(self, c, i):
        if (c, i) not in self._kids:
            s1, c1 = ckd_pub(self.sec, self.chain, c)
            self._kids[(c, i)] = (ckd_pub(s1, c1, i)[0], self.prefix + _le4(c) + _le4(i))
        return self._kids[(c, i)]


_REF_ACCT = {}


def ref_accounts():
    if not _REF_ACCT:
        _REF_ACCT["a"], _REF_ACCT["b"] = RefAccount(0xBEEF0001, b"\x5a" * 32), RefAccount(0xBEEF0002, b"\x5b" * 32)
    return _REF_ACCT["a"], _REF_ACCT["b"]


def check_lookup(name, lk, want):
    """lk: a pubkey lookup of the library; want: list of (sec, raw_path)"""
    keys = set()
    for sec, path in want:
        keys |= {sec, hash160(sec)}
    if set(lk) != keys:
        return f"{name}: {len(lk)} keys, {len(set(lk) - keys)} unexpected, {len(keys - set(lk))} missing"
    for sec, path in want:
        for k in (sec, hash160(sec)):
            v = lk[k]
            if v.sec() != sec or v.point.sec() != sec:
                return f"{name}: the entry for {k.hex()[:16]} is another key"
            if v.point.raw_path != path or v.raw_path != path:
                return f"{name}: the entry for {k.hex()[:16]} names the path {v.point.raw_path.hex()}, not {path.hex()}"
    return None


def p_lookup_producers(flags):
    """The Updater fed by the library's OWN lookup producers (NamedHDPublicKey.from_hd_priv / bip44_lookup /
    pubkey_lookup / redeem_script_lookup, with default and explicit limits) and PSBT.update with its optional
    arguments left out; PSBT.sign(hd_priv) on a PSBT whose inputs use DIFFERENT keys of one root (p2pkh at 0/2,
    p2sh-p2wpkh at 1/1) and a 2-of-3 p2wsh input in which that root owns two of the three keys (0/1 and 1/0) and a
    second root one: every input must end up with signatures of exactly its own keys over its own digest, and
    extraction gives the first two signatures in script order.  The reference (keys, paths, maps) is derived with
    hmac/sha512 from the root secrets.  flags bit 0: the PSBT goes through bytes between the roles."""
    a, b = ref_accounts()
    with contextlib.redirect_stdout(io.StringIO()):
        try:
            acct = NamedHDPublicKey.from_hd_priv(a.root, "m/44'/0'/0'")
            acct2 = NamedHDPublicKey.from_hd_priv(b.root, "m/44h/0H/0'")
            lk = acct.bip44_lookup(max_external=2, max_internal=1)
            lk2 = acct2.bip44_lookup(0, 0)
            lk_default = acct.child(0).pubkey_lookup()
            rl = acct.redeem_script_lookup(max_external=1, max_internal=2)
            rl_kw = acct.redeem_script_lookup(max_internal=1, max_external=0)
        except Exception as e:  # noqa
            return f"lookup producers raise {type(e).__name__}: {str(e)[:100]}"
        for h, r_ in ((acct, a), (acct2, b)):
            if h.sec() != r_.sec or h.raw_path != r_.prefix or h.point.raw_path != r_.prefix:
                return "from_hd_priv: account key or its raw path is not m/44'/0'/0' of the root"
        r = check_lookup("bip44_lookup(max_external=2, max_internal=1)", lk,
                         [a.kid(0, i) for i in range(3)] + [a.kid(1, i) for i in range(2)]) or \
            check_lookup("bip44_lookup(0, 0)", lk2, [b.kid(0, 0), b.kid(1, 0)]) or \
            check_lookup("pubkey_lookup() with the default limit", lk_default, [a.kid(0, i) for i in range(10)])
        if r:
            return r
        for name, got, want in (("redeem_script_lookup(max_external=1, max_internal=2)", rl,
                                 [a.kid(0, 0), a.kid(0, 1), a.kid(1, 0), a.kid(1, 1), a.kid(1, 2)]),
                                ("redeem_script_lookup(max_internal=1, max_external=0)", rl_kw,
                                 [a.kid(0, 0), a.kid(1, 0), a.kid(1, 1)])):
            exp = {hash160(b"\x00\x14" + hash160(s)): b"\x00\x14" + hash160(s) for s, _ in want}
            if set(got) != set(exp) or any(got[k].raw_serialize() != v for k, v in exp.items()):
                return f"{name} is not the set of p2sh-p2wpkh RedeemScripts of the children"
        # ---- one PSBT over these keys
        (sa, pa), (sb, pb) = a.kid(0, 2), a.kid(1, 1)
        c_keys = [a.kid(0, 1), b.kid(0, 0), a.kid(1, 0)]
        wsc = [op_n(2)] + [s for s, _ in c_keys] + [op_n(3), 174]
        ws_raw = bytes([0x52]) + b"".join(b"\x21" + s for s, _ in c_keys) + bytes([0x53, 0xAE])
        rs_raw = b"\x00\x14" + hash160(sb)
        spks = [P2PKHScriptPubKey(hash160(sa)), P2SHScriptPubKey(hash160(rs_raw)),
                P2WSHScriptPubKey(hashlib.sha256(ws_raw).digest())]
        fundings = [funding_tx(90 + i, i, spk, 50000 + 777 * i) for i, spk in enumerate(spks)]
        (sch, pch) = a.kid(1, 0)
        tx = Tx(2, [TxIn(f.hash(), 1) for f in fundings],
                [TxOut(100000, P2PKHScriptPubKey(hash160(sch))), TxOut(40000, P2WPKHScriptPubKey(b"\x77" * 20))], 0)
        tx.network = "mainnet"
        tl = {f.hash(): f for f in fundings}
        pk = {**lk, **lk2}
        wl = {hashlib.sha256(ws_raw).digest(): WitnessScript(list(wsc))}
        blank_i, blank_o = list(BLANK_IN), list(BLANK_OUT)
        out_named = [[], [], [[sch, pch]], []]
        exp1 = [un_tx(tx),
                [[[un_tx(fundings[0])], [], [], [], [], [], [[sa, pa]], [], [], []], blank_i,
                 [[], [un_txout(fundings[2].tx_outs[1])], [], [], [], [], [], [], [], []]],
                [out_named, blank_o], [], []]
        exp2 = [un_tx(tx),
                [exp1[1][0],
                 [[], [un_txout(fundings[1].tx_outs[1])], [], [], [[[0, hash160(sb)], []]], [], [[sb, pb]], [], [], []],
                 [[], [un_txout(fundings[2].tx_outs[1])], [], [], [], [[list(wsc), []]],
                  sorted([s, p_] for s, p_ in c_keys), [], [], []]],
                [out_named, blank_o], [], []]
        try:
            p = PSBT.create(tx)
            p.update(tl, pk)                      # redeem_lookup / witness_lookup left out
            d = diff_psbt(un_psbt(p), exp1)
            if d:
                return f"update(tx_lookup, pubkey_lookup) with the script lookups left out: {d}"
            if flags & 1:
                p = reparse(p.serialize())
            p.update(tx_lookup=tl, pubkey_lookup=pk, witness_lookup=wl, redeem_lookup=rl)
        except Exception as e:  # noqa
            return f"create / update with the library's lookups raises {type(e).__name__}: {str(e)[:100]}"
        d = diff_psbt(un_psbt(p), exp2)
        if d:
            return f"update() with the library's lookups differs from the reference: {d}"
        base = p.serialize()
        if un_psbt(PSBT.create(mk_tx(un_tx(tx)))) != [un_tx(tx), [blank_i] * 3, [blank_o] * 2, [], []]:
            return "PSBT.create(tx) after an update with lookups is not the bare PSBT (default lookups not empty)"
        # ---- PSBT.sign(root): keys at different paths in different inputs, two keys of one root in one input
        own = [[sa], [sb], [c_keys[0][0], c_keys[2][0]]]
        if flags & 1:
            p = reparse(base)
        if not p.sign(a.root):
            return "PSBT.sign(root) found nothing to sign"
        for i, pin in enumerate(p.psbt_ins):
            if sorted(pin.sigs) != sorted(own[i]):
                return (f"PSBT.sign(root): input {i} holds signatures of {len(pin.sigs)} key(s) "
                        f"{[k.hex()[:10] for k in sorted(pin.sigs)]}, expected {[k.hex()[:10] for k in sorted(own[i])]}")
        one = p.serialize()
        try:
            q = reparse(one)                      # every partial signature is verified against its input's digest
        except Exception as e:  # noqa
            return f"the PSBT signed by PSBT.sign(root) does not load: {type(e).__name__}: {str(e)[:100]}"
        sig = {k: v for pin in q.psbt_ins for k, v in pin.sigs.items()}
        try:
            _, txb1, t1 = finalise_bytes(one)
        except Exception as e:  # noqa
            return f"finalize/final_tx after PSBT.sign(root) (2 of 3 keys of the p2wsh input) fails: {type(e).__name__}: {str(e)[:100]}"
        if list(t1.tx_ins[2].witness.items) != [b"", sig[c_keys[0][0]], sig[c_keys[2][0]], ws_raw]:
            return "final witness of the p2wsh input is not [empty, signature of key 0, signature of key 2, script]"
        if list(t1.tx_ins[1].witness.items) != [sig[sb], sb] or t1.tx_ins[0].script_sig.commands != [sig[sa], sa]:
            return "final scriptSig / witness of the single-key inputs are not [signature, key] of the input's own key"
        # the second root signs as well (its PSBT taken from the unsigned one), combined in both orders
        p2 = reparse(base)
        if not p2.sign(b.root):
            return "PSBT.sign(second root) found nothing to sign"
        if [sorted(pin.sigs) for pin in p2.psbt_ins] != [[], [], [c_keys[1][0]]]:
            return "PSBT.sign(second root) did not sign exactly its one key in the p2wsh input"
        two = p2.serialize()
        both = combine_bytes(one, [two])
        if combine_bytes(two, [one]) != both or combine_bytes(base, [two, one]) != both:
            return "the combined PSBT of the two roots depends on the order of combining"
        s1 = reparse(both).psbt_ins[2].sigs[c_keys[1][0]]
        try:
            _, txb2, t2 = finalise_bytes(both)
        except Exception as e:  # noqa
            return f"finalize/final_tx with both roots fails: {type(e).__name__}: {str(e)[:100]}"
        if list(t2.tx_ins[2].witness.items) != [b"", sig[c_keys[0][0]], s1, ws_raw]:
            return "with all three signatures the final witness does not hold the first two in script order"
        if not t1.verify() or not t2.verify():
            return "final transaction does not verify"
        return p_reserialize_strict(both)


def rewrite_maps(b, f_global=None, f_in=None, f_out=None):
    """byte-level editing of a valid PSBT: each f maps one (key, value) to a list of entries"""
    maps = split_maps(b)
    nin = len(Tx.parse(BytesIO(dict(maps[0])[b"\x00"]), network="mainnet").tx_ins)
    out = []
    for mi, m in enumerate(maps):
        f = f_global if mi == 0 else f_in if mi <= nin else f_out
        out.append([e for kv in m for e in (f(*kv) if f else [kv])])
    return join_maps(out)


def p_xfp_helpers(n_inputs, flags):
    """PSBT.replace_root_xfps and PSBT.remove_global_xpubs against a byte-level reference: in every input and
    output map exactly the derivation entries whose fingerprint is named get the new fingerprint (all-zero, all-ff,
    the other cosigner's), the global xpubs and everything else stay; an unknown fingerprint is refused and changes
    nothing; the PSBT loads again, the blinded root no longer signs, the other one does; remove_global_xpubs
    returns (and leaves) the PSBT without global xpub entries.  PSBTs loaded earlier from the same bytes are not
    affected.  flags bit 0: unknown entries."""
    w = Wallet("p2wsh", 2, 2, first_key=6, hd=True)
    fps = [r_.fingerprint() for r_ in w.roots]
    with contextlib.redirect_stdout(io.StringIO()):
        b = build_psbt(w, n_inputs, salt=33, extras=bool(flags & 1)).serialize()
        witness_of_before = reparse(b)

        def ref(mapping):
            def f(k, v):
                if len(k) == 34 and v[:4] in mapping:
                    return [(k, mapping[v[:4]] + v[4:])]
                return [(k, v)]
            return rewrite_maps(b, None, lambda k, v: f(k, v) if k[:1] == b"\x06" else [(k, v)],
                                lambda k, v: f(k, v) if k[:1] == b"\x02" else [(k, v)])
        for mapping in ({fps[0]: b"\x00" * 4}, {fps[1]: b"\xff" * 4}, {fps[0]: b"\xff" * 4, fps[1]: b"\x00" * 4},
                        {fps[0]: fps[0][::-1]}, {fps[1]: fps[1]}):
            q = reparse(b)
            try:
                q.replace_root_xfps({k.hex(): v.hex() for k, v in mapping.items()})
            except Exception as e:  # noqa
                return f"replace_root_xfps({ {k.hex(): v.hex() for k, v in mapping.items()} }) raises {type(e).__name__}: {str(e)[:80]}"
            got, want = q.serialize(), ref(mapping)
            if got != want:
                return (f"replace_root_xfps({ {k.hex(): v.hex() for k, v in mapping.items()} }): the PSBT is not the "
                        f"original with exactly the named fingerprints replaced in the input and output derivations")
            if want != b and got == b:
                return "harness: reference did not change anything"
            r = p_reserialize_strict(got)
            if r:
                return "after replace_root_xfps: " + r
        q = reparse(b)
        for bad in ({"deadbeef": "00000000"}, {"00000000": "11111111"}):
            try:
                q.replace_root_xfps(bad)
            except ValueError:
                if q.serialize() != b:
                    return "a refused replace_root_xfps changed the PSBT"
                continue
            except Exception as e:  # noqa
                return f"replace_root_xfps with an unknown fingerprint fails with {type(e).__name__}, not ValueError"
            return "replace_root_xfps accepted a fingerprint that is not in the PSBT"
        q.replace_root_xfps({fps[0].hex(): "00000000"})
        blinded = q.serialize()
        for who, want in ((0, False), (1, True)):
            s = reparse(blinded)
            if bool(s.sign(w.roots[who])) != want:
                return (f"after blinding the fingerprint of root 0, PSBT.sign(root {who}) "
                        + ("found nothing to sign" if want else "still signs"))
            if want:
                sigs = [sorted(pin.sigs) for pin in s.psbt_ins]
                if sigs != [[w.secs[1]]] * n_inputs:
                    return "after blinding root 0, root 1 did not sign exactly its own key in every input"
                try:
                    reparse(s.serialize())
                except Exception as e:  # noqa
                    return f"the blinded PSBT signed by root 1 does not load: {type(e).__name__}: {str(e)[:80]}"
        # remove_global_xpubs on the blinded object and on a fresh one
        for obj, src in ((q, blinded), (reparse(b), b)):
            want = rewrite_maps(src, lambda k, v: [] if k[:1] == b"\x01" else [(k, v)])
            if want == src:
                return "harness: no global xpub in the PSBT"
            t64 = obj.remove_global_xpubs()
            if t64 != base64.b64encode(want).decode("ascii"):
                return "remove_global_xpubs() does not return the base64 text of the PSBT without its global xpub entries"
            if obj.serialize() != want or obj.hd_pubs:
                return "remove_global_xpubs() did not leave the PSBT without global xpubs"
            r = p_reserialize_strict(want)
            if r:
                return "after remove_global_xpubs: " + r
        if witness_of_before.serialize() != b:
            return "a PSBT loaded earlier from the same bytes changed while another one was edited"
    return None


def p_default_objects(kind_i):
    """Objects made with their optional arguments LEFT OUT (PSBTIn(tx_in), PSBTOut(tx_out), PSBT(tx, ins, outs),
    PSBT.create(tx)), then edited in place: a second object made the same way — before or after the edits — stays
    blank.  Extraction twice from one finalised PSBT with a legacy and a segwit input: editing the first extracted
    transaction (witness of the legacy input, scriptSig, outputs) changes neither the second one nor the PSBT."""
    w = own_wallets()[KINDS[kind_i]]
    f = funding_tx(70 + kind_i, 0, w.spk)
    sec = w.secs[0]
    npub = w.named[0].point
    with contextlib.redirect_stdout(io.StringIO()):
        mk_ti = lambda i: TxIn(f.hash(), i)  # noqa: E731
        mk_to = lambda: TxOut(100, P2TRScriptPubKey(b"\x45" * 32))  # noqa: E731

        def edit_in(x):
            x.sigs[sec] = FAKE_SIG
            x.named_pubs[sec] = npub
            x.extra_map[b"\x0f\x01"] = b"in"

        def edit_out(x):
            x.named_pubs[sec] = npub
            x.extra_map[b"\xfc\x01"] = b"out"

        def edit_psbt(x):
            x.extra_map[b"\xfc\x02g"] = b"global"
            x.hd_pubs[b"k"] = forged_xpub(w)
            edit_in(x.psbt_ins[0])
            edit_out(x.psbt_outs[0])
        blank_psbt = lambda t: [un_tx(t), [list(BLANK_IN)] * len(t.tx_ins), [list(BLANK_OUT)] * len(t.tx_outs), [], []]  # noqa: E731
        for name, make, edit, un, blank in (
                ("PSBTIn(tx_in)", lambda: PSBTIn(mk_ti(0)), edit_in, un_in, lambda o: list(BLANK_IN)),
                ("PSBTOut(tx_out)", lambda: PSBTOut(mk_to()), edit_out, un_out, lambda o: list(BLANK_OUT)),
                ("PSBT(tx, ins, outs)",
                 lambda: (lambda t: PSBT(t, [PSBTIn(i) for i in t.tx_ins], [PSBTOut(o) for o in t.tx_outs]))(
                     Tx(2, [mk_ti(0), mk_ti(1)], [mk_to(), mk_to()], 0)), edit_psbt, un_psbt, lambda o: blank_psbt(o.tx_obj)),
                ("PSBT.create(tx)", lambda: PSBT.create(Tx(2, [mk_ti(0), mk_ti(1)], [mk_to(), mk_to()], 0)), edit_psbt,
                 un_psbt, lambda o: blank_psbt(o.tx_obj))):
            try:
                x, y = make(), make()
                if un(x) != blank(x):
                    return f"{name} with the optional arguments left out is not blank"
                edit(x)
                z = make()
            except Exception as e:  # noqa
                return f"{name} with the optional arguments left out: {type(e).__name__}: {str(e)[:100]}"
            for which, o in (("made before", y), ("made after", z)):
                if un(o) != blank(o):
                    return f"editing one {name} in place changed another one ({which} the edit)"
            if un(x) == blank(x):
                return f"harness: the edits of {name} are not visible"
        # ---- two extractions from one finalised PSBT (legacy + segwit input)
        if kind_i in (0, 3):
            wl_ = [w, own_wallets()["p2wpkh"]]
            fs = [funding_tx(75 + kind_i + i, i, x.spk) for i, x in enumerate(wl_)]
            tx = Tx(2, [TxIn(x.hash(), 1) for x in fs], [TxOut(90000, w.spk)], 0)
            tx.network = "mainnet"
            pk, rl, wl = merged_lookups(wl_)
            p = PSBT.create(tx, tx_lookup={x.hash(): x for x in fs}, pubkey_lookup=pk, redeem_lookup=rl, witness_lookup=wl)
            if not p.sign_with_private_keys(w.privs[:w.m] + wl_[1].privs):
                return "nothing signed"
            p.finalize()
            fb = p.serialize()
            t1 = p.final_tx()
            txb = t1.serialize()
            # (the final scriptSig / witness OBJECTS of the PSBT are handed out by final_tx(); they are replaced
            # here, not edited: see the report of the audit)
            t1.tx_ins[0].witness.items.append(b"\x01")
            t1.tx_ins[1].witness = Witness([b"\x02"])
            t1.tx_ins[0].script_sig = Script([b"\x03"])
            t1.tx_ins[1].script_sig = Script([b"\x04"])
            t1.tx_ins[0].prev_index = 7
            t1.tx_outs[0].amount += 1
            t1.tx_outs.append(TxOut(1, w.spk))
            if p.serialize() != fb:
                return "editing the extracted transaction changed the PSBT it was extracted from"
            t2 = p.final_tx()
            if t2.serialize() != txb:
                return "editing the first extracted transaction changed the result of the next final_tx()"
            if len(t2.tx_ins[0].witness.items) != 0:
                return "the legacy input of the extracted transaction has a non-empty witness"
            if reparse(fb).final_tx().serialize() != txb:
                return "final_tx() of the reloaded finalised PSBT differs"
    return None


def p_parse_network(kind_i, hd):
    """PSBT.parse / parse_base64 with the network argument GIVEN (mainnet / testnet / signet; paths name mainnet):
    the bytes written back are the bytes read (no global xpubs: nothing in a PSBT encodes the network), the PSBT,
    its transaction and every derivation carry the given network, and the workflow still extracts the same
    transaction.  hd=1: global xpubs present, network given = network of the paths."""
    w = Wallet(KINDS[kind_i], 2, 2, first_key=6, hd=True) if hd else own_wallets()[KINDS[kind_i]]
    with contextlib.redirect_stdout(io.StringIO()):
        b = build_psbt(w, 2, salt=35 + kind_i, extras=True).serialize()
        ref_p = reparse(b)
        for net in (("mainnet",) if hd else ("mainnet", "testnet", "signet")):
            for how in ("bytes", "base64"):
                try:
                    p = PSBT.parse(BytesIO(b), network=net) if how == "bytes" else \
                        PSBT.parse_base64(base64.b64encode(b).decode("ascii"), network=net)
                except Exception as e:  # noqa
                    return f"parse ({how}) with network={net} refuses a PSBT that loads by default: {type(e).__name__}: {str(e)[:80]}"
                if p.serialize() != b:
                    return f"parse ({how}) with network={net}: the PSBT re-serialises differently"
                nets = {p.network, p.tx_obj.network} | {n_.network for m_ in p.psbt_ins + p.psbt_outs
                                                         for n_ in m_.named_pubs.values()} | \
                    {h.network for h in p.hd_pubs.values()}
                if nets != {net}:
                    return f"parse ({how}) with network={net}: the loaded objects carry the networks {sorted(map(str, nets))}"
                if un_psbt(p) != un_psbt(ref_p):
                    return f"parse ({how}) with network={net} gives other fields than the default"
        # the workflow on an object loaded with an explicit network
        if not hd:
            single = w.kind in SINGLE
            p = PSBT.parse(BytesIO(b), network="testnet")
            if not p.sign_with_private_keys(w.privs[: (1 if single else w.m)]):
                return "nothing signed"
            sb_ = p.serialize()
            if sb_ != sign_keys(b, w.privs[: (1 if single else w.m)])[1]:
                return "signing a PSBT loaded with network=testnet gives other bytes than signing the default load"
            p.finalize()
            t = p.final_tx()
            if t.network != "testnet" or t.serialize() != finalise_bytes(sb_)[1]:
                return "extraction from a PSBT loaded with network=testnet: other transaction or other network"
    return None


def p_dup_script_key(kind_i, m):
    """an m-of-2 script that names the SAME key in both slots: the signed PSBT the library writes must load again"""
    kind = KINDS[kind_i]
    w = Wallet(kind, m, 2, first_key=3)
    scr = [op_n(m), w.secs[0], w.secs[0], op_n(2), 174]
    if kind == "p2sh":
        w.redeem = RedeemScript(scr)
        w.spk = w.redeem.script_pubkey()
    else:
        w.wscript = WitnessScript(scr)
        if kind == "p2sh-p2wsh":
            w.redeem = RedeemScript([0, w.wscript.sha256()])
            w.spk = w.redeem.script_pubkey()
        else:
            w.spk = w.wscript.script_pubkey()
    w.named, w.privs, w.secs = w.named[:1], w.privs[:1], w.secs[:1]
    with contextlib.redirect_stdout(io.StringIO()):
        p = build_psbt(w, 1, salt=7)
        if not p.sign_with_private_keys(w.privs):
            return "nothing signed"
        return p_reserialize_strict(p.serialize())


def p_validate_retry(kind_i):
    """validate() that refused a wrong final scriptSig / witness leaves the PSBT usable: after the right final
    fields are put back, validate() accepts and serialize() writes the bytes of the valid PSBT"""
    w = own_wallets()[KINDS[kind_i]]
    with contextlib.redirect_stdout(io.StringIO()):
        base = build_psbt(w, 1, salt=37).serialize()
        single = w.kind in SINGLE
        fb = finalise_bytes(sign_keys(base, w.privs[: (1 if single else w.m)])[1])[0]
        q = reparse(fb)
        pin = q.psbt_ins[0]
        good = (pin.script_sig, pin.witness)
        at = 0 if single else 1                 # multisig: position 0 is the dummy element
        if pin.witness:
            it = list(pin.witness.items)
            pin.witness = Witness(it[:at] + [FAKE_SIG] + it[at + 1:])
        else:
            it = list(pin.script_sig.commands)
            pin.script_sig = Script(it[:at] + [FAKE_SIG] + it[at + 1:])
        try:
            q.validate()
        except ValueError:
            pass
        else:
            return "validate() accepted a final scriptSig / witness that does not verify"
        pin.script_sig, pin.witness = good
        try:
            q.validate()
        except Exception as e:  # noqa
            return f"after a refused validate() the repaired PSBT is refused as well: {type(e).__name__}: {str(e)[:80]}"
        if q.serialize() != fb:
            return "after a refused validate() the repaired PSBT serialises differently from the valid PSBT"
    return None


def entry_point_cases(ctx):
    """hand-built encodings for field coincidences and lenient length handling; the model decides"""
    ws = own_wallets()
    w = ws["p2wsh"]
    f = funding_tx(120, 0, w.spk)
    # (c) no inputs / no outputs
    for t in (Tx(2, [], [TxOut(5, w.spk)], 0), Tx(2, [TxIn(f.hash(), 1)], [], 0), Tx(2, [], [], 0)):
        b = join_maps([[(b"\x00", t.serialize_legacy())]] + [[] for _ in t.tx_ins + t.tx_outs])
        ctx.label("coincidence/empty-input-or-output-list")
        yield parse_case(b)
        yield ("prop", "reserialize", [b])
    # (c) both UTXO forms in one input map (written, parsed), prev_index beyond the previous transaction's outputs
    for kind in ("p2sh", "p2wsh", "p2sh-p2wpkh"):
        x = ws[kind]
        fx = funding_tx(121, 0, x.spk)
        v = ref_in(x, fx, 1)
        v[0], v[1] = [un_tx(fx)], [un_txout(fx.tx_outs[1])]
        ctx.label("coincidence/both-utxo-forms")
        yield ("corr", "in_serialize", [v])
        yield ("corr", "in_validate", [v, un_txin(TxIn(fx.hash(), 1))])
        e = lambda k, val: encode_varstr(k) + encode_varstr(val)  # noqa: E731
        for idx in (1, 2, 0xFFFFFFFF):
            for ents in ([(b"\x00", fx.serialize()), (b"\x01", fx.tx_outs[1].serialize())],
                         [(b"\x01", fx.tx_outs[1].serialize()), (b"\x00", fx.serialize())], [(b"\x00", fx.serialize())]):
                yield ("corr", "in_parse", [b"".join(e(k, val) for k, val in ents) + b"\x00\xee", un_txin(TxIn(fx.hash(), idx)), 0])
    # (c)/(d) derivation fingerprints and indices of one byte class
    sec = w.secs[0]
    for fp in (b"\x00" * 4, b"\xff" * 4):
        for idxs in ((0,), (0xFFFFFFFF,), (0x7FFFFFFF, 0x80000000), (H32 + 44, H32 + 1, 0xFFFFFFFF)):
            path = fp + b"".join(_le4(i) for i in idxs)
            ctx.label("byte-class/derivation-fingerprint-and-index")
            yield ("corr", "in_parse", [encode_varstr(b"\x06" + sec) + encode_varstr(path) + b"\x00", un_txin(TxIn(b"\x33" * 32, 0)), 0])
            yield ("corr", "out_parse", [encode_varstr(b"\x02" + sec) + encode_varstr(path) + b"\x00",
                                         un_txout(TxOut(5, Script([81]))), 0])
    # (c) global xpubs: same key twice with different paths, keys that differ in the version bytes only, depth 0
    # with a parent fingerprint / child number, all-zero and all-ff chain codes
    tx = Tx(2, [TxIn(f.hash(), 1)], [TxOut(100, w.spk)], 0)
    g0 = [(b"\x00", tx.serialize_legacy())]
    im = [(b"\x01", f.tx_outs[1].serialize())]
    fp = b"\xaa\xbb\xcc\xdd"
    main = fp + _le4(H32 + 48) + _le4(H32)
    k, v = xpub_entry(XPUB_MAIN, 2, sec, main)
    kt, _ = xpub_entry(XPUB_TEST, 2, sec, main)
    for extra in ([(k, v), (k, b"\x11\x22\x33\x44" + main[4:])], [(k, v), (kt, v)], [(kt, v), (k, v)],
                  [xpub_entry(XPUB_MAIN, 0, sec, fp, parent=b"\x01\x02\x03\x04")],
                  [xpub_entry(XPUB_MAIN, 0, sec, fp, child=5)], [xpub_entry(XPUB_MAIN, 1, sec, fp + _le4(7), child=8)],
                  [xpub_entry(XPUB_MAIN, 2, sec, main, chain=b"\x00" * 32)], [xpub_entry(XPUB_MAIN, 2, sec, main, chain=b"\xff" * 32)],
                  [xpub_entry(XPUB_MAIN, 2, sec, b"\x00" * 4 + main[4:], parent=b"\xff" * 4, child=0xFFFFFFFF)]):
        b = join_maps([g0 + extra, im, []])
        ctx.label("coincidence/global-xpub-fields")
        yield parse_case(b)
        yield ("prop", "reserialize", [b])
    # (e) declared lengths the parser does not need (unsigned transaction, final witness) or reads in a longer
    # compact-size form than necessary
    raw = tx.serialize_legacy()
    wit = b"\x02\x01\xaa\x00"
    cs = lambda n: [encode_varint(n), b"\xfd" + n.to_bytes(2, "little"), b"\xfe" + n.to_bytes(4, "little"),  # noqa: E731
                    b"\xff" + n.to_bytes(8, "little")]
    for ln in cs(len(raw)) + [encode_varint(len(raw) - 1), encode_varint(len(raw) + 1), b"\x00"]:
        b = b"psbt\xff\x01\x00" + ln + raw + b"\x00" + join_maps([im, []])[5:]
        ctx.label("lenient/unsigned-tx-length")
        yield parse_case(b)
        yield ("prop", "reserialize", [b])
    for ln in cs(len(wit)) + [b"\x03", b"\x05", b"\x00"]:
        yield ("corr", "in_parse", [encode_varstr(b"\x01") + encode_varstr(f.tx_outs[1].serialize()) + b"\x01\x08" + ln + wit + b"\x00\xee",
                                    un_txin(TxIn(f.hash(), 1)), 0])
    for ln in cs(1)[1:]:
        ctx.label("lenient/compact-size-forms")
        yield parse_case(b"psbt\xff" + ln + b"\x00" + encode_varstr(raw) + b"\x00" + join_maps([im, []])[5:])
        yield ("corr", "in_parse", [ln + b"\x01" + encode_varstr(f.tx_outs[1].serialize()) + b"\x00", un_txin(TxIn(f.hash(), 1)), 0])
        yield ("corr", "kv_parse", [ln + b"\x0f" + ln + b"v" + b"\x00"])



PROPS = {"workflow": p_workflow, "reuse_workflow": p_reuse_workflow, "stage_orders": p_stage_orders,
         "inmem_p2sh_p2wpkh": p_inmem_p2sh_p2wpkh, "reserialize": p_reserialize, "segwit_flag": p_segwit_flag,
         "scriptsig_rejected": p_scriptsig_rejected, "bad_sig": p_bad_sig,
         "finalize_threshold": p_finalize_threshold, "xpub_order": p_xpub_order,
         "nonwitness_utxo_segwit": p_nonwitness_utxo_segwit,
         "update_reference": p_update_reference, "create_validate": p_create_validate,
         "mixed_wallets": p_mixed_wallets, "finalize_errors": p_finalize_errors,
         "create_from_final": p_create_from_final, "finalised_pairs": p_finalised_pairs,
         "extract_invalid": p_extract_invalid, "digest_choice": p_digest_choice,
         "stream_position": p_stream_position,
         "lookup_producers": p_lookup_producers, "xfp_helpers": p_xfp_helpers, "default_objects": p_default_objects,
         "parse_network": p_parse_network, "dup_script_key": p_dup_script_key, "validate_retry": p_validate_retry}


def known_keys():
    """keys of the `known` entries of KNOWN_FINDINGS.json / findings/C10.json: cases that are instances of a defect
    which is not (yet) recorded there are not generated (they are reported to the lead instead)"""
    import json
    root = os.path.dirname(os.path.dirname(os.path.dirname(os.path.abspath(__file__))))
    keys = set()
    for fn in ("KNOWN_FINDINGS.json", os.path.join("findings", "C10.json")):
        try:
            for f in json.load(open(os.path.join(root, fn))).get("findings", []):
                if f.get("property") == "C10" and f.get("status") == "known":
                    keys.add(f["key"])
        except (OSError, ValueError):
            pass
    return keys


def classify(v):
    if v["kind"] != "prop":
        return None
    d = v.get("detail", "") or ""
    if v["name"] == "dup_script_key" and "Duplicate Key in parsing" in d:
        return "K-C10-duplicate-script-key"
    if v["name"] == "validate_retry" and "repaired PSBT" in d:
        return "K-C10-validate-leaves-scriptsig"
    if v["name"] == "xpub_order" and "differs from serialize" in d:
        return "K-C10-xpub-network-order"
    return None


# ---------------------------------------------------------------- generators


def repo_vectors():
    """PSBT byte strings in the repository's tests (hex and base64 literals)"""
    out = []
    tdir = os.path.join(os.path.dirname(btx.__file__), "test")
    for fn in ("test_psbt.py", "test_psbt_helper.py"):
        try:
            src = open(os.path.join(tdir, fn)).read()
        except OSError:
            continue
        for m in re.finditer(r"70736274ff[0-9a-f]+", src):
            h = m.group(0)
            if len(h) % 2 == 0:
                out.append(bytes.fromhex(h))
        for m in re.finditer(r"cHNidP8[A-Za-z0-9+/=]+", src):
            try:
                out.append(base64.b64decode(m.group(0)))
            except Exception:  # noqa
                pass
    seen, res = set(), []
    for b in out:
        if b not in seen:
            seen.add(b)
            res.append(b)
    return res


def parse_case(b):
    return ("corr", "parse", [b, table_for_stream(b)])


def mutations(ctx, b, n_trunc, n_flip):
    r = ctx.rng
    offs = range(len(b)) if n_trunc >= len(b) else sorted(r.sample(range(len(b)), n_trunc))
    for o in offs:
        ctx.label("malformed/truncation")
        yield b[:o]
    for _ in range(n_flip):
        o = r.randrange(len(b))
        ctx.label("malformed/byte-flip")
        yield b[:o] + bytes([b[o] ^ (1 << r.randrange(8))]) + b[o + 1:]


def map_mutations(ctx, b):
    r = ctx.rng
    maps = split_maps(b)
    for mi, m in enumerate(maps):
        for ei, (k, v) in enumerate(m):
            ctx.label("malformed/duplicate-entry")
            yield join_maps(maps[:mi] + [m[:ei + 1] + [(k, v)] + m[ei + 1:]] + maps[mi + 1:])
            ctx.label("malformed/duplicate-at-end")
            yield join_maps(maps[:mi] + [m + [(k, v)]] + maps[mi + 1:])
            ctx.label("malformed/key-length")
            yield join_maps(maps[:mi] + [m[:ei] + [(k + b"\x00", v)] + m[ei + 1:]] + maps[mi + 1:])
            if len(k) > 1:
                yield join_maps(maps[:mi] + [m[:ei] + [(k[:-1], v)] + m[ei + 1:]] + maps[mi + 1:])
            ctx.label("malformed/dropped-entry")
            yield join_maps(maps[:mi] + [m[:ei] + m[ei + 1:]] + maps[mi + 1:])
            ctx.label("malformed/empty-value-then-duplicate")
            yield join_maps(maps[:mi] + [m[:ei] + [(k, b""), (k, v)] + m[ei + 1:]] + maps[mi + 1:])
            ctx.label("malformed/value-length")
            yield join_maps(maps[:mi] + [m[:ei] + [(k, v + b"\x00")] + m[ei + 1:]] + maps[mi + 1:])
            if v:
                yield join_maps(maps[:mi] + [m[:ei] + [(k, v[:-1])] + m[ei + 1:]] + maps[mi + 1:])
        if len(m) > 1:
            ctx.label("reordered-entries")
            mm = m[:]
            r.shuffle(mm)
            yield join_maps(maps[:mi] + [mm] + maps[mi + 1:])
            yield join_maps(maps[:mi] + [m[::-1]] + maps[mi + 1:])
        ctx.label("unknown-entry-added")
        yield join_maps(maps[:mi] + [m + [(bytes([r.randrange(10, 256)]) + ctx.rbytes(r.randrange(0, 4)),
                                           ctx.rbytes(r.randrange(0, 9)))]] + maps[mi + 1:])
    if len(maps) > 2:
        ctx.label("malformed/map-dropped")
        yield join_maps(maps[:-1])
        yield join_maps(maps + [[]])


def single_map_cases(ctx, b, full):
    """the input and output maps of a valid PSBT, parsed on their own (PSBTIn.parse / PSBTOut.parse)"""
    p = reparse(b)
    maps = split_maps(b)
    nin = len(p.psbt_ins)
    for i in range(nin):
        raw = join_maps([maps[1 + i]])[5:]
        ti = un_txin(p.tx_obj.tx_ins[i])
        for net in (0, 1, 2):
            yield ("corr", "in_parse", [raw + ctx.rbytes(2), ti, net])
        for bad in itertools.islice(mutations(ctx, raw, len(raw) if full else 25, 30 if full else 8), 0, None):
            yield ("corr", "in_parse", [bad, ti, 0])
        yield ("corr", "in_serialize", [un_in(p.psbt_ins[i])])
        yield ("corr", "in_validate", [un_in(p.psbt_ins[i]), ti])
    for i in range(len(p.psbt_outs)):
        raw = join_maps([maps[1 + nin + i]])[5:]
        to = un_txout(p.tx_obj.tx_outs[i])
        for net in (0, 1, 2):
            yield ("corr", "out_parse", [raw + ctx.rbytes(2), to, net])
        for bad in mutations(ctx, raw, len(raw) if full else 15, 20 if full else 6):
            yield ("corr", "out_parse", [bad, to, 0])
        yield ("corr", "out_serialize", [un_out(p.psbt_outs[i])])
        yield ("corr", "out_validate", [un_out(p.psbt_outs[i]), to])


def derivation_paths(ctx):
    """raw_path values that drive path_network / parse_binary_path / the mixed-network check"""
    H = 0x80000000
    le = lambda x: x.to_bytes(4, "little")  # noqa: E731
    fp = b"\xaa\xbb\xcc\xdd"
    return [fp, fp + le(H + 44), fp + le(H + 48) + le(H + 1), fp + le(H + 84) + le(H), fp + le(H + 49) + le(H + 1),
            fp + le(H + 48) + le(H + 1) + le(H) + le(H + 2) + le(0) + le(5), fp + le(44) + le(1), fp[:3], b"",
            fp + b"\x01", fp + le(H + 48) + b"\x01\x02", fp + le(H + 48) + le(1)]


def kv_cases(ctx):
    r = ctx.rng
    for _ in range(ctx.n(60, 1500)):
        n = r.randrange(0, 6)
        keys = []
        for _ in range(n):
            k = bytes([r.randrange(3, 256)]) + ctx.rbytes(r.choice([0, 0, 1, 2, 5, 33]))
            keys.append(k)
        if keys and r.random() < 0.3:
            keys.append(r.choice(keys))
            ctx.label("kv/duplicate-key")
        ents = [(k, ctx.rbytes(r.choice([0, 0, 1, 3, 20, 253]))) for k in keys]
        s = b"".join(encode_varstr(k) + encode_varstr(v) for k, v in ents) + b"\x00" + ctx.rbytes(r.randrange(0, 3))
        yield ("corr", "kv_parse", [s])
        if r.random() < 0.3:
            yield ("corr", "kv_parse", [s[: r.randrange(0, len(s) + 1)]])
        d = {}
        for k, v in ents:
            d[k] = v
        yield ("corr", "kv_serialize", [un_dict(d)])


def in_map_synthetic(ctx):
    """hand-made input maps around every typed branch: key lengths, duplicates, derivation paths"""
    w = Wallet("p2wsh", 1, 2)
    sec = w.secs[0]
    ti = un_txin(TxIn(b"\x33" * 32, 0))
    e = lambda k, v: encode_varstr(k) + encode_varstr(v)  # noqa: E731
    for path in derivation_paths(ctx):
        for net in (0, 1, 2):
            ctx.label("derivation-path-shapes")
            yield ("corr", "in_parse", [e(b"\x06" + sec, path) + b"\x00", ti, net])
            yield ("corr", "out_parse", [e(b"\x02" + sec, path) + b"\x00", un_txout(TxOut(5, Script([81]))), net])
    ps = derivation_paths(ctx)
    for a in ps[:6]:
        for b in ps[:6]:
            ctx.label("mixed-network-pairs")
            s = e(b"\x06" + w.secs[0], a) + e(b"\x06" + w.secs[1], b) + b"\x00"
            yield ("corr", "in_parse", [s, ti, 0])
    bad_secs = [b"\x02" + b"\x00" * 32, b"\x04" + sec[1:], b"\x02" + b"\xff" * 32, sec[:-1], sec + b"\x00",
                b"\x03" + sec[1:], b"\x02" + (5).to_bytes(32, "big")]
    for s_ in bad_secs:
        ctx.label("derivation-bad-sec")
        yield ("corr", "in_parse", [e(b"\x06" + s_, b"\xaa\xbb\xcc\xdd") + b"\x00", ti, 0])
    for t in range(0, 12):
        for extra in (b"", b"\x00", b"\x01\x02"):
            for val in (b"", b"\x01", b"\x01\x00\x00\x00", b"\x00" * 5, encode_varint(0), b"\x51"):
                ctx.label("typed-key-shapes")
                yield ("corr", "in_parse", [e(bytes([t]) + extra, val) + b"\x00", ti, 0])
                yield ("corr", "in_parse", [e(bytes([t]) + extra, val) + e(bytes([t]) + extra, val) + b"\x00", ti, 0])
                if t < 5:
                    yield ("corr", "out_parse", [e(bytes([t]) + extra, val) + b"\x00",
                                                 un_txout(TxOut(5, Script([81]))), 0])
                    yield ("corr", "out_parse", [e(bytes([t]) + extra, val) * 2 + b"\x00",
                                                 un_txout(TxOut(5, Script([81]))), 0])


def finalize_cases(ctx):
    """in_finalize on every script type with subsets of script-key, foreign-key and empty signatures"""
    r = ctx.rng
    for kind_i, kind in enumerate(KINDS):
        for (m, n) in ([(1, 1)] if kind_i < 3 else [(1, 1), (1, 2), (2, 2), (2, 3), (3, 3), (1, 3)]):
            w = Wallet(kind, m, n, first_key=1)
            f = funding_tx(150 + kind_i, 0, w.spk)
            ti_obj = TxIn(f.hash(), 1)
            pin = mk_in(ref_in(w, f, 1), ti_obj)          # the updated input, built without create / update
            ti = un_txin(ti_obj)
            cands = [s for s in w.secs] + [key(30).point.sec(), key(31).point.sec()]
            for mask in range(1 << len(cands)):
                if bin(mask).count("1") > 4:
                    continue
                pin.sigs = {}
                for j, s in enumerate(cands):
                    if mask >> j & 1:
                        pin.sigs[s] = b"" if r.random() < 0.08 else b"\x30\x06\x02\x01" + bytes([j + 1]) + b"\x02\x01\x01\x01"
                ctx.label(f"finalize/{kind}")
                yield ("corr", "in_finalize", [un_in(pin), ti])
                yield ("corr", "in_serialize", [un_in(pin)])
            # missing scripts / utxo
            pin.sigs = {w.secs[0]: b"\x30\x06\x02\x01\x01\x02\x01\x01\x01"}
            v = un_in(pin)
            for drop in (0, 1, 4, 5):
                v2 = list(v)
                v2[drop] = []
                yield ("corr", "in_finalize", [v2, ti])
            # odd first opcodes in the multisig script
            if kind_i >= 3:
                for op0 in (0, 79, 80, 81, 96, 97, 118, b"\x01"):
                    v2 = [list(x) if isinstance(x, list) else x for x in v]
                    which = 5 if v[5] else 4
                    sc = v[which][0]
                    v2[which] = [[[op0] + list(sc[0][1:]), sc[1]]]
                    yield ("corr", "in_finalize", [v2, ti])


def workflow_grid(ctx):
    quick = ctx.tier == "quick"
    nmax = 3 if quick else 4
    grid = []
    for kind_i in range(3):
        grid.append((kind_i, 1, 1, 1, 0))
        grid.append((kind_i, 1, 1, 2, 1))
    for kind_i in range(3, 6):
        for n in range(1, nmax + 1):
            for m in range(1, n + 1):
                grid.append((kind_i, m, n, 1, 1 if (m + n) % 2 else 0))
        grid.append((kind_i, 2, 3, 2 if quick else 3, 5))
    grid.append((4, 2, 2, 1, 2 | 1 | 4))       # HD wallet, global xpubs, PSBT.sign(hd_priv)
    grid.append((3, 1, 1, 1, 2 | 4))           # HD wallet, legacy signature through PSBT.sign(hd_priv)
    if not quick:
        grid.append((3, 2, 3, 1, 2 | 4))
        grid.append((5, 1, 2, 2, 2 | 1 | 4))
        for kind_i in range(3):
            grid.append((kind_i, 1, 1, 3, 1))
    return grid


def stage_grid(ctx):
    """(kind, m, n, inputs, flags) for p_stage_orders: all six script types, 2-of-3 for the multisig ones"""
    quick = ctx.tier == "quick"
    grid = [(0, 1, 1, 1, 0), (1, 1, 1, 2, 1), (2, 1, 1, 1, 1)]
    for kind_i in (3, 4, 5):
        grid.append((kind_i, 2, 3, 1, (1 if kind_i != 4 else 0) | (0 if quick else 8)))
        grid.append((kind_i, 1, 2, 2, 0))
    grid.append((5, 2, 2, 1, 2 | 1))          # HD wallet with global xpubs
    if not quick:
        for kind_i in (3, 4, 5):
            grid += [(kind_i, 1, 1, 1, 0), (kind_i, 2, 2, 2, 1), (kind_i, 3, 3, 1, 8), (kind_i, 1, 3, 1, 8),
                     (kind_i, 2, 4, 1, 0)]
        grid += [(0, 1, 1, 3, 1), (1, 1, 1, 3, 0), (2, 1, 1, 2, 0), (3, 2, 3, 2, 2), (4, 2, 3, 1, 2 | 1)]
    return grid


def reuse_grid(ctx):
    """(kind, m, n, inputs, flags, order of signers) for the reused-object workflow"""
    grid = [(0, 1, 1, 2, 1, 0), (1, 1, 1, 1, 0, 0), (2, 1, 1, 2, 1, 0),
            (3, 2, 3, 1, 1, 1), (4, 2, 3, 1, 0, 4), (5, 2, 2, 2, 1, 1),
            (4, 2, 2, 1, 2 | 1, 0)]                      # HD wallet with global xpubs, PSBT.sign(hd_priv)
    if ctx.tier != "quick":
        for kind_i in (3, 4, 5):
            for n in (1, 2, 3):
                for m in range(1, n + 1):
                    for perm in (0, 3, 5):
                        grid.append((kind_i, m, n, 1 + (m + n + perm) % 2, perm % 2, perm))
        grid += [(3, 2, 2, 1, 2, 1), (5, 1, 2, 2, 2 | 1, 1), (0, 1, 1, 3, 0, 0), (1, 1, 1, 3, 1, 0)]
    return list(dict.fromkeys(grid))


def stage_cases(ctx, kind_i, m, n, n_inputs, flags):
    """correspondence cases on the objects of one workflow: serialize / parse / validate / combine /
    finalize / assemble_tx"""
    kind = KINDS[kind_i]
    single = kind_i < 3
    w = Wallet(kind, m, n, first_key=(kind_i * 5 + m + 3 * n) % 11, hd=bool(flags & 2))
    p = build_psbt(w, n_inputs, salt=kind_i * 16 + m * 4 + n, extras=bool(flags & 1))
    base = p.serialize()
    yield ("corr", "serialize", [un_psbt(p)])
    yield parse_case(base)
    yield ("corr", "validate", [un_psbt(p), oracle_table(p)])
    signed = [sign_as(base, w, j) for j in range(1 if single else n)]
    objs = [reparse(b) for b in signed]
    for b, o in zip(signed, objs):
        yield parse_case(b)
        yield ("corr", "serialize", [un_psbt(o)])
    # the Signer model: keys in order, reversed with a foreign and a repeated key, no key, a key that signed already
    register_privs(w)
    secs = list(w.secs[: 1 if single else n])
    ctx.label("signer/keys-in-order")
    yield sign_case(reparse(base), secs)
    ctx.label("signer/reversed+foreign+repeated")
    yield sign_case(reparse(base), secs[::-1] + [key(40).point.sec()] + secs[:1])
    ctx.label("signer/no-key")
    yield sign_case(reparse(base), [])
    ctx.label("signer/already-signed")
    yield sign_case(reparse(signed[0]), secs)
    ctx.label("validate-state/updated")
    yield state_case(reparse(base))
    yield from sign_hd_cases(ctx, w, base)
    if len(objs) >= 2:
        yield ("corr", "combine", [un_psbt(objs[0]), un_psbt(objs[1])])
        yield ("corr", "combine", [un_psbt(objs[1]), un_psbt(objs[0])])
    yield ("corr", "combine", [un_psbt(objs[0]), un_psbt(reparse(base))])
    yield ("corr", "combine", [un_psbt(reparse(base)), un_psbt(objs[0])])
    # the Creator's bare PSBT (no update) as accumulator and as argument
    bare = PSBT.create(Tx.parse(BytesIO(p.tx_obj.serialize_legacy()), network="mainnet")).serialize()
    for other in (base, signed[-1]):
        yield ("corr", "combine", [un_psbt(reparse(bare)), un_psbt(reparse(other))])
        yield ("corr", "combine", [un_psbt(reparse(other)), un_psbt(reparse(bare))])
    full = reparse(combine_bytes(base, signed))
    yield ("corr", "validate", [un_psbt(full), oracle_table(full)])
    yield ("corr", "finalize", [un_psbt(full)])
    yield ("corr", "finalize", [un_psbt(reparse(base))])
    fin = reparse(combine_bytes(base, signed))
    fin.finalize()
    yield ("corr", "serialize", [un_psbt(fin)])
    yield ("corr", "assemble_tx", [un_psbt(fin)])
    yield ("corr", "assemble_tx", [un_psbt(full)])
    yield ("corr", "validate", [un_psbt(fin), oracle_table(fin)])
    yield parse_case(fin.serialize())
    # validate() as a state transformer: signed, finalised, and finalised with a final scriptSig / witness that does
    # not verify (the refusal leaves it in the unsigned transaction)
    ctx.label("validate-state/signed")
    yield state_case(full)
    ctx.label("validate-state/finalised")
    yield state_case(fin)
    v = un_psbt(fin)
    v[1][0][7] = [[[81], []]]
    ctx.label("validate-state/bad-final-scriptsig")
    yield ("corr", "validate_state", [v, oracle_table(mk_psbt(v))])
    v = un_psbt(fin)
    if v[1][-1][8]:
        v[1][-1][8] = [[b"\x01"]]
        ctx.label("validate-state/bad-final-witness")
        yield ("corr", "validate_state", [v, oracle_table(mk_psbt(v))])
    # a different unsigned transaction cannot be combined
    other = build_psbt(w, n_inputs, salt=255 - kind_i)
    yield ("corr", "combine", [un_psbt(reparse(base)), un_psbt(other)])
    ctx.label(f"stages/{kind}")


# ---------------------------------------------------------------- deepening pass: Signer, validate-state, base64
from buidl.helper import base64_decode, base64_encode

_PRIV_BY_SEC = {}


def priv_for(sec):
    """private keys of the harness wallets by compressed SEC (plain keys 0..63 and every HD wallet built so far)"""
    if b"plain" not in _PRIV_BY_SEC:
        _PRIV_BY_SEC[b"plain"] = None
        for j in range(64):
            _PRIV_BY_SEC[key(j).point.sec()] = key(j)
    return _PRIV_BY_SEC[sec]


def register_privs(w):
    for k in w.privs:
        _PRIV_BY_SEC[k.point.sec()] = k


def sign_table(p, secs):
    """what Tx.get_sig_segwit / get_sig_legacy return for every (key, input): the signature oracle of the model"""
    tx = p.tx_obj
    tbl = []
    for sec in dict.fromkeys(secs):
        priv = priv_for(sec)
        rows = []
        for i, pin in enumerate(p.psbt_ins):
            if i >= len(tx.tx_ins):
                break
            rows.append([_try(lambda: tx.get_sig_segwit(i, priv, pin.redeem_script, pin.witness_script)),
                         _try(lambda: tx.get_sig_legacy(i, priv, pin.redeem_script))])
        tbl.append([sec, rows])
    return tbl


def i_sign_keys(v, secs, tbl):
    p = mk_psbt(v)
    ok = p.sign_with_private_keys([priv_for(s) for s in secs])
    return [un_psbt(p), 1 if ok else 0]


def i_validate_state(v, tbl):
    p = mk_psbt(v)
    try:
        ok = 1 if p.validate() else 0
    except Exception:  # noqa
        ok = 0
    for ti in p.tx_obj.tx_ins:          # a refused final witness of None is left on the TxIn: reported as no items
        if ti.witness is None:
            ti.witness = Witness()
    return [ok, un_tx(p.tx_obj)]


def i_b64_decode(s, is_str):
    return base64_decode(s.decode("latin-1") if is_str else s)


def i_parse_base64(s, is_str, tbl):
    p = PSBT.parse_base64(s.decode("latin-1") if is_str else s)
    return [un_psbt(p), net_code(p.network)]


NEW_IMPL = {
    "sign_keys": quiet(i_sign_keys),
    "validate_state": quiet(i_validate_state),
    "b64_encode": quiet(lambda b: base64_encode(b)),
    "b64_decode": quiet(i_b64_decode),
    "parse_base64": quiet(i_parse_base64),
}


def sign_case(p, secs):
    return ("corr", "sign_keys", [un_psbt(p), list(secs), sign_table(p, secs)])


def state_case(p):
    return ("corr", "validate_state", [un_psbt(p), oracle_table(p)])


def b64_text_cases(ctx):
    """helper.base64_encode / base64_decode: every length class, canonical text, and the lenient decoder's classes:
    junk characters, missing / surplus / misplaced padding, data after the padding, non-ASCII in str and bytes"""
    r = ctx.rng
    for n in list(range(0, 8)) + [31, 32, 33, 57, 58]:
        b = ctx.rbytes(n)
        ctx.label("base64/encode")
        yield ("corr", "b64_encode", [b])
        t = base64.b64encode(b)
        for is_str in (0, 1):
            ctx.label("base64/decode-canonical")
            yield ("corr", "b64_decode", [t, is_str])
        if t:
            for k in range(len(t) + 1):                     # truncation at every offset
                ctx.label("base64/decode-truncated")
                yield ("corr", "b64_decode", [t[:k], k % 2])
            for _ in range(ctx.n(4, 30)):
                k = r.randrange(len(t) + 1)
                junk = bytes([r.choice([0x20, 0x0a, 0x21, 0x3d, 0x2d, 0x5f, 0x80, 0xff, 0x00, 0x2b, 0x2f, 0x41, 0x7a])])
                ctx.label("base64/decode-inserted-char")
                yield ("corr", "b64_decode", [t[:k] + junk + t[k:], r.randrange(2)])
            ctx.label("base64/decode-data-after-padding")
            yield ("corr", "b64_decode", [t + b"QUJD", 0])
            yield ("corr", "b64_decode", [t + b"=", 1])
            yield ("corr", "b64_decode", [t.rstrip(b"="), 0])
            yield ("corr", "b64_decode", [b"=" + t, 1])
    for t in (b"", b"=", b"==", b"Q", b"QQ", b"QQ=", b"QQ==", b"QQ===", b"Q=Q=", b"QQ=Q", b"QQ=\n=", b"QR==", b"=QR===",
              b"QQ==QUJD", b"Q!Q\n= =", b"QUJDR", b"QUJDR===", b"\xff\xfeQUJD", b"QUJD\xe9", b"-_-_", b"QU\x00JD"):
        for is_str in (0, 1):
            ctx.label("base64/decode-handmade")
            yield ("corr", "b64_decode", [t, is_str])
    for _ in range(ctx.n(40, 600)):
        n = r.randrange(0, 14)
        alphabet = b"ABab01+/==\n -_\x80"
        ctx.label("base64/decode-random-text")
        yield ("corr", "b64_decode", [bytes(r.choice(alphabet) for _ in range(n)), r.randrange(2)])


def parse_base64_cases(ctx, vectors):
    """PSBT.parse_base64 on the text of valid PSBTs: canonical, with line breaks, with data after the padding, with the
    padding cut off, as str and as bytes"""
    for k, b in enumerate(vectors):
        t = base64.b64encode(b)
        tbl = table_for_stream(b)
        ctx.label("parse_base64/canonical")
        yield ("corr", "parse_base64", [t, k % 2, tbl])
        wrapped = b"\n".join(t[i:i + 64] for i in range(0, len(t), 64))
        ctx.label("parse_base64/line-breaks")
        yield ("corr", "parse_base64", [wrapped, (k + 1) % 2, tbl])
        if t.endswith(b"="):
            ctx.label("parse_base64/padding-cut")
            yield ("corr", "parse_base64", [t.rstrip(b"="), k % 2, []])
            ctx.label("parse_base64/data-after-padding")
            yield ("corr", "parse_base64", [t + b"AAAA", k % 2, tbl])
        ctx.label("parse_base64/truncated-text")
        cut = t[: (len(t) // 2) & ~3]
        yield ("corr", "parse_base64", [cut, k % 2, table_for_stream(base64.b64decode(cut))])
        ctx.label("parse_base64/non-ascii")
        yield ("corr", "parse_base64", [t[:8] + b"\xe9" + t[8:], 1, []])
        yield ("corr", "parse_base64", [t[:8] + b"\xe9" + t[8:], 0, tbl])


# ---- Updater: PSBTIn.update / PSBTOut.update / PSBT.update against the model

def mk_pk(pk):
    return {k: NP(mk_named(sec, path)) for k, (sec, path) in pk}


def i_in_update(v, ti, txl, pk, rl, wl):
    p = mk_in(v, mk_txin(ti))
    p.update({k: mk_tx(t) for k, t in txl}, mk_pk(pk), {k: mk_script(s, RedeemScript) for k, s in rl},
             {k: mk_script(s, WitnessScript) for k, s in wl})
    return un_in(p)


def i_out_update(v, to, pk, rl, wl):
    p = mk_out(v, mk_txout(to))
    p.update(mk_pk(pk), {k: mk_script(s, RedeemScript) for k, s in rl}, {k: mk_script(s, WitnessScript) for k, s in wl})
    return un_out(p)


def i_update(v, txl, pk, rl, wl):
    p = mk_psbt(v)
    p.update({k: mk_tx(t) for k, t in txl}, mk_pk(pk), {k: mk_script(s, RedeemScript) for k, s in rl},
             {k: mk_script(s, WitnessScript) for k, s in wl})
    return un_psbt(p)


NEW_IMPL.update({"in_update": quiet(i_in_update), "out_update": quiet(i_out_update), "update": quiet(i_update)})


def enc_lookups(pk, rl, wl):
    return ([[k, [pk[k].sec(), pk[k].point.raw_path]] for k in sorted(pk)],
            [[k, un_script(rl[k])] for k in sorted(rl)], [[k, un_script(wl[k])] for k in sorted(wl)])


def update_cases(ctx):
    """the Updater on single maps: every own script type x where the UTXO comes from (tx lookup / non-witness UTXO in
    the map / witness UTXO in the map / nowhere) x which lookups are given, scripts already present (right and stale),
    foreign and unsupported scriptPubKeys, an outpoint index beyond the funding transaction; outputs incl. the
    RedeemScript that a lookup without it erases"""
    ws = own_wallets()
    owned = [ws[k] for k in KINDS]
    for ki, w in enumerate(owned):
        f = funding_tx(90 + ki, 0, w.spk)
        ti = un_txin(TxIn(f.hash(), 1))
        txl = [[f.hash(), un_tx(f)]]
        for pubs, redeem, witness in ((1, 1, 1), (0, 1, 1), (1, 0, 1), (1, 1, 0), (0, 0, 0)):
            pk, rl, wl = enc_lookups(*merged_lookups(owned, pubs, redeem, witness))
            blank = list(BLANK_IN)
            with_tx = [[un_tx(f)]] + list(BLANK_IN[1:])
            with_out = [[], [un_txout(f.tx_outs[1])]] + list(BLANK_IN[2:])
            for name, v, tl in (("tx-lookup", blank, txl), ("utxo-in-map", with_tx, []), ("witness-utxo-in-map", with_out, []),
                                ("no-utxo", blank, [])):
                ctx.label(f"update/in/{w.kind}/{name}")
                yield ("corr", "in_update", [v, ti, tl, pk, rl, wl])
            # scripts already in the map: the right ones, and stale ones of another wallet
            other = owned[(ki + 1) % 6] if ki >= 3 else owned[3 + ki]
            for rs, wsx in ((w.redeem, w.wscript), (other.redeem, other.wscript)):
                v = list(blank)
                v[4], v[5] = opt(rs, un_script), opt(wsx, un_script)
                ctx.label(f"update/in/{w.kind}/scripts-present")
                yield ("corr", "in_update", [v, ti, txl, pk, [], []])
            # an existing derivation under another key, signatures and unknown entries stay
            v = list(blank)
            v[2] = [[owned[3].secs[0], b"\x30\x01"]]
            v[6] = [[owned[4].secs[2], b"\x01\x02\x03\x04" + b"\x00" * 4]]
            v[9] = [[b"\xfc\x01", b"x"]]
            ctx.label(f"update/in/{w.kind}/fields-kept")
            yield ("corr", "in_update", [v, ti, txl, pk, rl, wl])
        pk, rl, wl = enc_lookups(*merged_lookups(owned))
        ctx.label("update/in/index-beyond-outputs")
        yield ("corr", "in_update", [list(BLANK_IN), un_txin(TxIn(f.hash(), 2)), txl, pk, rl, wl])
        # outputs
        for pubs, redeem, witness in ((1, 1, 1), (0, 1, 1), (1, 0, 1), (1, 1, 0)):
            pk2, rl2, wl2 = enc_lookups(*merged_lookups(owned, pubs, redeem, witness))
            to = un_txout(TxOut(9000, w.spk))
            ctx.label(f"update/out/{w.kind}")
            yield ("corr", "out_update", [list(BLANK_OUT), to, pk2, rl2, wl2])
            v = [opt(w.redeem, un_script), opt(w.wscript, un_script), [[owned[4].secs[1], b"\x05" * 8]], [[b"\x09", b"z"]]]
            ctx.label(f"update/out/{w.kind}/scripts-present" + ("" if redeem else "+lookup-lacks-redeem"))
            yield ("corr", "out_update", [v, to, pk2, rl2, wl2])
        # a stale one-command RedeemScript on a non-p2sh output: commands[1] raises
        ctx.label("update/out/stale-redeem")
        yield ("corr", "out_update", [[[un_script(RedeemScript([0]))], [], [], []], un_txout(TxOut(1, w.spk)), pk, rl, wl])
        yield ("corr", "out_update", [[[un_script(owned[2].redeem)], [], [], []], un_txout(TxOut(1, w.spk)), pk, rl, wl])
    pk, rl, wl = enc_lookups(*merged_lookups(owned))
    for k, o in enumerate(foreign_outputs()):
        f = funding_tx(120, k, o.script_pubkey)
        ctx.label("update/in/foreign-or-unsupported")
        yield ("corr", "in_update", [list(BLANK_IN), un_txin(TxIn(f.hash(), 1)), [[f.hash(), un_tx(f)]], pk, rl, wl])
        ctx.label("update/out/foreign-or-unsupported")
        yield ("corr", "out_update", [list(BLANK_OUT), un_txout(o), pk, rl, wl])
    # whole PSBTs: inputs and outputs of all six wallets
    fs = [funding_tx(140 + ki, ki, w.spk) for ki, w in enumerate(owned)]
    tx = Tx(2, [TxIn(f.hash(), 1) for f in fs], [TxOut(9000 + i, ow.spk) for i, ow in enumerate(owned)] + foreign_outputs(), 0)
    tx.network = "mainnet"
    bare = PSBT.create(tx)
    txl = sorted([[f.hash(), un_tx(f)] for f in fs])
    for sel in ((1, 1, 1), (1, 0, 1), (0, 1, 0)):
        pk, rl, wl = enc_lookups(*merged_lookups(owned, *sel))
        ctx.label("update/psbt")
        yield ("corr", "update", [un_psbt(bare), txl, pk, rl, wl])
        yield ("corr", "update", [un_psbt(bare), txl[:3], pk, rl, wl])


def sighash_value_cases(ctx):
    """PSBT_IN_SIGHASH_TYPE values of 0..8 bytes: parse reads any length, serialize writes four bytes (a loaded value
    >= 2^32 cannot be serialised: both sides must agree on parse AND on the failing serialize)"""
    tx = bytes.fromhex("02000000" "01" + "11" * 32 + "00000000" "00" "ffffffff" "00" "00000000")

    def kv_(k, v):
        return bytes([len(k)]) + k + bytes([len(v)]) + v
    for val in (b"\x01\x00\x00\x00", b"\x01\x00\x00\x00\x01", b"\x01", b"", b"\x00\x00\x00\x00", b"\x01\x00\x00\x00\x00",
                b"\xff" * 8, b"\x83\x00\x00\x00"):
        s = b"psbt\xff" + kv_(b"\x00", tx) + b"\x00" + kv_(b"\x03", val) + b"\x00"
        ctx.label("sighash-type/value-length-%d" % len(val))
        yield parse_case(s)
        try:
            p = reparse(s)
        except Exception:  # noqa
            continue
        yield ("corr", "serialize", [un_psbt(p)])


# ---- PSBT.sign(hd_priv) against the model

_HD_BY_FP = {}


def register_hd(root):
    _HD_BY_FP[root.fingerprint()] = root
    return root


def hd_tables(p, root):
    """derivation oracle (raw path -> SEC of the private key hd_priv.traverse() gives) and the signature table of the keys
    so derived"""
    from vp.sexp import ERR
    fp = root.fingerprint()
    dtbl, secs, seen = [], [], set()
    for pin in p.psbt_ins:
        for named in pin.named_pubs.values():
            if named.root_fingerprint == fp and named.raw_path not in seen:
                seen.add(named.raw_path)

                def f(named=named):
                    k = root.traverse(named.root_path).private_key
                    _PRIV_BY_SEC[k.point.sec()] = k
                    return k.point.sec()
                r = _try(f)
                dtbl.append([named.raw_path, r])
                if r is not ERR:
                    secs.append(r)
    dtbl.sort(key=lambda e: e[0])
    priv_for(key(0).point.sec())
    return dtbl, sign_table(p, secs)


def i_sign_hd(v, fp, dtbl, stbl):
    p = mk_psbt(v)
    ok = p.sign(_HD_BY_FP[fp])
    return [un_psbt(p), 1 if ok else 0]


NEW_IMPL["sign_hd"] = quiet(i_sign_hd)


def sign_hd_case(p, root):
    register_hd(root)
    dtbl, stbl = hd_tables(p, root)
    return ("corr", "sign_hd", [un_psbt(p), root.fingerprint(), dtbl, stbl])


def sign_hd_cases(ctx, w, base):
    """PSBT.sign(hd_priv) on the updated PSBT of a workflow: every root of an HD wallet, a root nobody names, and a
    derivation re-filed under another key's path (the signature is stored under the SEC of the DERIVED key)"""
    stranger = HDPrivateKey(PrivateKey(0x5EED5EED), b"\x42" * 32)
    ctx.label("signer-hd/stranger-root")
    yield sign_hd_case(reparse(base), stranger)
    for j, root in enumerate(w.roots):
        ctx.label("signer-hd/wallet-root")
        yield sign_hd_case(reparse(base), root)
        # the derivation of key j filed with the path of another child of the same account
        v = un_psbt(reparse(base))
        changed = False
        for pin in v[1]:
            for e in pin[6]:
                if e[1][:4] == root.fingerprint() and not changed:
                    e[1] = e[1][:-4] + (7).to_bytes(4, "little")
                    changed = True
        if changed:
            ctx.label("signer-hd/path-of-another-key")
            yield sign_hd_case(mk_psbt(v), root)



# ---- regression predicates of the fixes afccdfa / 33b84c2

def p_sighash_length(n, top):
    """A PSBT_IN_SIGHASH_TYPE value of n bytes (BIP174: a 32-bit little endian unsigned integer).  Whatever PSBT.parse
    accepts must be serialisable and load back as the same PSBT; exactly four bytes are accepted.  Regression of afccdfa:
    a longer value was loaded as an integer >= 2^32 and serialize() raised OverflowError."""
    tx = bytes.fromhex("02000000" "01" + "11" * 32 + "00000000" "00" "ffffffff" "00" "00000000")

    def kv_(k, v):
        return bytes([len(k)]) + k + bytes([len(v)]) + v
    val = bytes(([1] + [0] * (n - 2) + [top % 256]) if n >= 2 else [1][:n])
    s = b"psbt\xff" + kv_(b"\x00", tx) + b"\x00" + kv_(b"\x03", val) + b"\x00"
    try:
        p = reparse(s)
    except Exception as e:  # noqa
        return None if n != 4 else f"a four-byte sighash type is refused: {type(e).__name__}: {e}"
    if n != 4:
        try:
            p.serialize()
        except Exception as e:  # noqa
            return (f"PSBT.parse accepts a sighash type of {n} bytes (value {p.psbt_ins[0].hash_type}) that serialize() "
                    f"cannot write: {type(e).__name__}: {e}")
        return f"a sighash type of {n} bytes is accepted (hash_type = {p.psbt_ins[0].hash_type})"
    b = p.serialize()
    q = reparse(b)
    if un_psbt(q) != un_psbt(p) or q.serialize() != b:
        return "a PSBT with a sighash type does not load back as the same PSBT"
    if val[3] == 0 and val != b"\x00" * 4 and b != s:
        return "re-serialisation changed a canonical PSBT with a sighash type"
    return None


def p_out_update_keeps(kind_i, pubs):
    """PSBTOut.update never removes what the output map already carries: an output of wallet `kind` with its
    RedeemScript / WitnessScript attached, updated with lookups that lack the scripts (pubs: with / without the pubkey
    lookup).  Regression of 33b84c2: the RedeemScript of a P2SH output was replaced by the lookup's 'not found'."""
    ws = own_wallets()
    w = ws[KINDS[kind_i]]
    with contextlib.redirect_stdout(io.StringIO()):
        o = PSBTOut(TxOut(9000, w.spk), redeem_script=w.redeem, witness_script=w.wscript)
        before = un_out(o)
        pk, _, _ = merged_lookups([ws[k] for k in KINDS], bool(pubs), False, False)
        try:
            o.update(pk, {}, {})
        except Exception as e:  # noqa
            return f"update() of an output that carries its scripts raises {type(e).__name__}: {e}"
    after = un_out(o)
    for k, name in ((0, "RedeemScript"), (1, "WitnessScript")):
        if before[k] and after[k] != before[k]:
            return f"update() with a lookup that lacks it changed / removed the {name} of a {w.kind} output: {after[k]}"
    if before[3] != after[3]:
        return "update() changed the unknown entries of an output"
    try:
        o.validate()
    except Exception as e:  # noqa
        return f"the updated output does not validate: {type(e).__name__}: {e}"
    return None


IMPL.update(NEW_IMPL)
PROPS.update({"sighash_length": p_sighash_length, "out_update_keeps": p_out_update_keeps})


def generate(ctx):
    r = ctx.rng
    quick = ctx.tier == "quick"
    # ---- regression / targeted predicates first
    for kind_i in (0, 1, 4):
        yield ("prop", "segwit_flag", [kind_i, 1 + kind_i % 2])
        yield ("prop", "scriptsig_rejected", [kind_i, kind_i])
    for n_, top in ((0, 0), (1, 0), (3, 0), (4, 0), (4, 1), (4, 0x80), (5, 1), (5, 0), (8, 0xff), (9, 1)):
        ctx.label("sighash-type/length-%d" % n_)
        yield ("prop", "sighash_length", [n_, top])
    for kind_i in range(6):
        for pubs in (0, 1):
            ctx.label("update/out/keeps-attached-scripts")
            yield ("prop", "out_update_keeps", [kind_i, pubs])
    yield ("prop", "inmem_p2sh_p2wpkh", [1])
    yield ("prop", "inmem_p2sh_p2wpkh", [2])
    yield ("prop", "xpub_order", [0])
    yield ("prop", "xpub_order", [1])
    for kind_i in (1, 2, 4, 5):
        yield ("prop", "nonwitness_utxo_segwit", [kind_i])
    # ---- Creator / Updater against the independent reference; the validate flag; signed transactions as input
    for kind_i in range(6):
        for variant in ((0, 1 + kind_i % 2) if quick else (0, 1, 2)):
            ctx.label("update-reference/" + KINDS[kind_i])
            yield ("prop", "update_reference", [kind_i, variant])
    for kind_i, variant in ((2, 3), (3, 3), (4, 3), (5, 3), (0, 4), (4, 4), (1, 5), (3, 5)) if quick else \
            [(k, v) for k in range(6) for v in (3, 4, 5)]:
        ctx.label("update-reference/partial-lookups")
        yield ("prop", "update_reference", [kind_i, variant])
    for kind_i in (1, 2, 4, 5):
        ctx.label("update-reference/witness-utxo-present")
        yield ("prop", "update_reference", [kind_i, 6])
    for kind_i in range(6):
        for mode in (0, 2, 3, 4, 1):
            if mode == 1 and quick and kind_i not in (1, 3):
                continue
            if mode in (3, 4) and quick and kind_i not in (0, 4):
                continue
            ctx.label("create-validate-flag")
            yield ("prop", "create_validate", [kind_i, mode])
    for kind_i in ((0, 1, 5) if quick else range(6)):
        ctx.label("create-from-signed-tx")
        yield ("prop", "create_from_final", [kind_i])
    # ---- entry points next to the main path, optional arguments left out, keys that differ per input, shared state
    for flags in (0, 1):
        ctx.label("entry-points/lookup-producers+update-defaults+sign(hd)-per-input-keys")
        yield ("prop", "lookup_producers", [flags])
    for g in ((2, 1), (1, 0)):
        ctx.label("entry-points/replace_root_xfps+remove_global_xpubs")
        yield ("prop", "xfp_helpers", list(g))
    for kind_i in range(6):
        ctx.label("default-arguments/constructors-left-blank")
        yield ("prop", "default_objects", [kind_i])
    for kind_i, hd in ((0, 0), (2, 0), (3, 0), (4, 0), (4, 1)) if quick else \
            [(k, 0) for k in range(6)] + [(3, 1), (4, 1), (5, 1)]:
        ctx.label("entry-points/parse-with-network-argument")
        yield ("prop", "parse_network", [kind_i, hd])
    known = known_keys()
    if "K-C10-duplicate-script-key" in known:
        for kind_i, m in ((3, 2), (4, 1), (5, 2)):
            yield ("prop", "dup_script_key", [kind_i, m])
    for kind_i in range(6):
        if kind_i in (1, 4) or "K-C10-validate-leaves-scriptsig" in known:
            ctx.label("retry-after-refusal/validate")
            yield ("prop", "validate_retry", [kind_i])
    yield from entry_point_cases(ctx)
    # ---- every way an input cannot be finalised
    for kind_i in range(6):
        for (m, n) in ([(1, 1)] if kind_i < 3 else [(1, 1), (1, 2), (2, 2), (2, 3), (3, 3)]):
            ctx.label("finalize-errors/" + KINDS[kind_i])
            yield ("prop", "finalize_errors", [kind_i, m, n])
    for kind_i in ((2,) if quick else (2, 5)):
        ctx.label("digest-choice/final-witness-only")
        yield ("prop", "digest_choice", [kind_i])
    # ---- a finalised PSBT with a signature that does not verify is not extracted
    for g in ((0, 1, 1, 0), (4, 2, 3, 1), (5, 2, 2, 0), (3, 2, 3, 0)) if quick else \
            [(k, 1, 1, 0) for k in range(3)] + [(k, m_, n_, x) for k in (3, 4, 5) for (m_, n_) in ((1, 1), (2, 2), (2, 3))
                                                 for x in range(m_)]:
        ctx.label("extract-invalid")
        yield ("prop", "extract_invalid", list(g))
    # ---- inputs of different wallets and script types in one PSBT
    for sel, flags in (((0, 4, 2), 1), ((3, 1, 5), 0)) if quick else \
            (((0, 4, 2), 1), ((3, 1, 5), 0), ((2, 0, 3), 0), ((5, 4, 1), 1), ((1, 1, 3), 0), ((4, 5, 0), 0)):
        ctx.label("mixed-wallets")
        yield ("prop", "mixed_wallets", [list(sel), flags])
    # ---- validators, serialisers and the global map on hand-made maps
    yield from validate_matrix(ctx)
    yield from serialize_matrix(ctx)
    yield from global_map_cases(ctx)
    yield from psbt_validate_cases(ctx)
    yield from segwit_choice_cases(ctx)
    yield from combine_matrix(ctx)
    yield from typed_entry_cases(ctx)
    yield from boundary_cases(ctx)
    yield from b64_text_cases(ctx)
    yield from update_cases(ctx)
    yield from sighash_value_cases(ctx)
    # ---- combine over PSBTs of different workflow stages (bare, updated, signed), every accumulator, every order
    for g in stage_grid(ctx):
        ctx.label(f"stage-orders/{KINDS[g[0]]}")
        yield ("prop", "stage_orders", list(g))
    # ---- finalised PSBTs on both sides of combine; partially finalised multi-input PSBTs
    for g in ((3, 2, 3, 1), (4, 2, 3, 1), (5, 2, 3, 1), (3, 1, 2, 2), (4, 1, 2, 2), (5, 1, 2, 2), (0, 1, 1, 2), (1, 1, 1, 2),
              (2, 1, 1, 2)) + (() if quick else ((3, 2, 3, 2), (4, 1, 3, 1), (5, 2, 4, 2), (4, 3, 4, 1), (2, 1, 1, 3))):
        ctx.label("finalised-pairs/" + KINDS[g[0]])
        yield ("prop", "finalised_pairs", list(g))
    # ---- the workflow on ONE reused object per role (signer, accumulator, finaliser, editor)
    for g in reuse_grid(ctx):
        ctx.label(f"reuse-workflow/{KINDS[g[0]]}")
        yield ("prop", "reuse_workflow", list(g))
    # ---- generic key-value layer and hand-made maps
    yield from kv_cases(ctx)
    yield from in_map_synthetic(ctx)
    # ---- finaliser
    yield from finalize_cases(ctx)
    for kind_i in (3, 4, 5):
        for (m, n) in ((2, 2), (2, 3), (3, 3)) if quick else ((1, 1), (1, 2), (2, 2), (2, 3), (3, 3), (2, 4), (4, 4)):
            for k in range(0, m + 1):
                for f in (0, 1, 2):
                    if k + f == 0 or k + f > n + 1:
                        continue
                    ctx.label("threshold/foreign-keys" if f else "threshold/script-keys")
                    yield ("prop", "finalize_threshold", [kind_i, m, n, k, f])
    # ---- EVERY threshold m = 1..16 (each OP_m / OP_n small-integer op code of a multisig script) through the finaliser
    # and, for m = 4 (5, 6 in the thorough tier), through the whole workflow: m-of-m wallets, all signatures present
    for m in range(1, 17):
        kind_i = 3 + (m % 3) if m < 16 else 4          # 16 keys exceed the 520-byte P2SH push; p2wsh has no such limit
        ctx.label("threshold/every-m")
        yield ("prop", "finalize_threshold", [kind_i, m, m, m, 0])
        if m == 4 or (m in (5, 6) and not quick):      # the workflow predicate walks signer orders: small m only
            ctx.label("workflow/every-m")
            yield ("prop", "workflow", [3 + ((m + 1) % 3), m, m, 1, 0])
    # ---- workflows
    grid = workflow_grid(ctx)
    for (kind_i, m, n, n_inputs, flags) in grid:
        ctx.label(f"workflow/{KINDS[kind_i]}")
        yield ("prop", "workflow", [kind_i, m, n, n_inputs, flags])
    stage_sel = [g for g in grid if (not quick or (g[3] == 1 and g[1] in (1, 2)))]
    vectors = []
    for g in stage_sel:
        for c in stage_cases(ctx, *g):
            if c[1] == "parse":
                vectors.append(c[2][0])
            yield c
    # ---- the base64 entry point on PSBTs of every stage
    yield from parse_base64_cases(ctx, vectors[:: max(1, len(vectors) // ctx.n(6, 30))])
    # ---- PSBTs of every stage read from the middle of a stream
    for k, b in enumerate(vectors[:: max(1, len(vectors) // ctx.n(12, 60))]):
        ctx.label("stream-position")
        yield ("prop", "stream_position", [b, k % 4, [b"", b"\x00", b"psbt\xff", b"\x01\x00"][k % 4]])
    # ---- corrupted partial signatures
    for kind_i in range(6):
        for mode in range(4):
            m, n = (1, 1) if kind_i < 3 else (2, 3)
            for pos in ([3] if quick else [3, 11, 29]):
                ctx.label("bad-partial-signature")
                yield ("prop", "bad_sig", [kind_i, m, n, mode, pos])
    # ---- repository vectors
    for b in repo_vectors():
        ctx.label("repo-vector")
        yield ("prop", "reserialize", [b])
        yield parse_case(b)
    # ---- malformed streams derived from valid PSBTs
    small = [v for v in vectors if len(v) < 700]
    r.shuffle(small)
    for b in small[: ctx.n(3, 12)]:
        for bad in map_mutations(ctx, b):
            yield parse_case(bad)
            yield ("prop", "reserialize", [bad])
        for bad in mutations(ctx, b, ctx.n(40, 2000), ctx.n(30, 300)):
            yield parse_case(bad)
    for b in vectors[: ctx.n(4, 20)]:
        yield from single_map_cases(ctx, b, not quick)
    for _ in range(ctx.n(30, 500)):
        yield parse_case(b"psbt\xff" + ctx.rbytes(r.randrange(0, 40)))
        yield parse_case(ctx.rbytes(r.randrange(0, 12)))
