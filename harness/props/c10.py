"""C10 — PSBT codec (global / input / output maps) and the create-update-sign-combine-finalise workflow."""
import base64
import contextlib
import io
import itertools
import os
import re
from io import BytesIO

import buidl.tx as btx
from buidl.ecc import N as _N, PrivateKey, S256Point
from buidl.hd import HDPrivateKey, HDPublicKey
from buidl.helper import encode_varint, encode_varstr, hash160, parse_binary_path, read_varint, read_varstr
from buidl.psbt import PSBT, NamedHDPublicKey, NamedPublicKey, PSBTIn, PSBTOut, serialize_binary_path
from buidl.script import (P2PKHScriptPubKey, P2SHScriptPubKey, P2TRScriptPubKey, P2WPKHScriptPubKey,
                          P2WSHScriptPubKey, RedeemScript, Script, ScriptPubKey, WitnessScript)
from buidl.tx import Tx, TxFetcher, TxIn, TxOut
from buidl.witness import Witness

PID = "C10"
RULE = ("Wallets: single-key P2PKH / P2WPKH / P2SH-P2WPKH and m-of-n P2SH / P2WSH / P2SH-P2WSH for every "
        "1 <= m <= n <= 3 (<= 4 in the thorough tier), 1..3 inputs, every subset of signers and every order of "
        "signing/combining (n <= 3); PSBTs with unknown key-value pairs in all three map kinds and global xpubs; "
        "every PSBT byte string the workflow produces plus the PSBT vectors of the repository's tests is "
        "re-serialised; malformed stream = truncation at every offset, byte flips, duplicated / reordered / "
        "dropped entries, wrong key lengths, empty-value duplicates, corrupted and swapped partial signatures; "
        "finaliser fed with foreign-key, empty and surplus signatures.")
TRUSTED = ["hashlib / hmac (sha256, ripemd160, sha512) — hash functions are universally quantified in the theorems",
           "oracles of the model, served by the implementation's own Tx methods at run time: Tx.sig_hash_legacy, "
           "Tx.sig_hash_bip143 (C05) and Tx.verify_input (C06/C07); ECDSA verification, SEC/DER parsing and "
           "BIP32 public derivation are the extracted Model/Pecc.v on secp256k1",
           "PrivateKey.sign and S256Point.verify are memoised by the harness (pure functions; same results)",
           "modelled, not verified: object plumbing of PSBT.create / update / sign (tied by the workflow cases)"]
ASSUMPTIONS = ["Python dicts are modelled as key-sorted association lists: insertion order is not modelled; it is "
               "observable only in PSBT.validate's `for hd_pub in hd_pubs.values(): ... break` when two global "
               "xpubs are both ancestors of one key and disagree",
               "named_pubs dictionary keys equal the SEC encoding of the stored point (true for parse and update)",
               "PSBT.parse is exercised with network=None (the default)"]
BUDGET_S = {"quick": 3000, "thorough": 7200}   # wall clock incl. waiting for the shared coq build lock

NETS = [None, "mainnet", "testnet"]


def quiet(f):
    def g(*a):
        with contextlib.redirect_stdout(io.StringIO()):
            return f(*a)
    g.__name__ = getattr(f, "__name__", "impl")
    return g


# ---------------------------------------------------------------- no network, memoised ECDSA

def _no_net(*a, **k):
    raise RuntimeError("network access is disabled in the verification harness")


btx.urlopen = _no_net
try:
    TxFetcher.load_cache(os.path.join(os.path.dirname(btx.__file__), "test", "tx.cache"))
except Exception:  # noqa
    pass

_SIGN, _VERIFY = {}, {}
_orig_sign, _orig_verify = PrivateKey.sign, S256Point.verify


def _sign(self, z):
    k = (self.secret, z)
    if k not in _SIGN:
        _SIGN[k] = _orig_sign(self, z)
    return _SIGN[k]


def _verify(self, z, sig):
    try:
        k = (self.x.num if self.x is not None else None, self.y.num if self.y is not None else None, z, sig.r, sig.s)
    except Exception:  # noqa
        return _orig_verify(self, z, sig)
    if k not in _VERIFY:
        _VERIFY[k] = _orig_verify(self, z, sig)
    return _VERIFY[k]


_MUL = {}
_orig_rmul = S256Point.__rmul__


def _rmul(self, coefficient):
    """k * P memoised on (P, k mod N): BIP32 derivations repeat the same multiplications on every load"""
    if self.x is None or not isinstance(coefficient, int):
        return _orig_rmul(self, coefficient)
    k = (self.x.num, self.y.num, coefficient % _N)
    if k not in _MUL:
        res = _orig_rmul(self, coefficient)
        _MUL[k] = None if res.x is None else (res.x.num, res.y.num)
        return res
    v = _MUL[k]
    return S256Point(None, None) if v is None else S256Point(v[0], v[1])


PrivateKey.sign = _sign
S256Point.verify = _verify
S256Point.__rmul__ = _rmul

# ---------------------------------------------------------------- canonical value <-> object


def opt(x, f=lambda v: v):
    return [] if x is None else [f(x)]


def un_dict(d, f=lambda v: v):
    return [[k, f(d[k])] for k in sorted(d)]


def un_script(s):
    return [list(s.commands), [] if s.raw is None else [s.raw]]


def un_txin(i):
    return [i.prev_tx, i.prev_index, un_script(i.script_sig), int(i.sequence), list(i.witness.items)]


def un_txout(o):
    return [o.amount, un_script(o.script_pubkey)]


def un_tx(t):
    return [t.version, [un_txin(i) for i in t.tx_ins], [un_txout(o) for o in t.tx_outs], int(t.locktime),
            1 if t.segwit else 0]


def un_in(p):
    return [opt(p.prev_tx, un_tx), opt(p.prev_out, un_txout), un_dict(p.sigs), opt(p.hash_type),
            opt(p.redeem_script, un_script), opt(p.witness_script, un_script),
            un_dict(p.named_pubs, lambda n: n.raw_path), opt(p.script_sig, un_script),
            opt(p.witness, lambda w: list(w.items)), un_dict(p.extra_map)]


def un_out(p):
    return [opt(p.redeem_script, un_script), opt(p.witness_script, un_script),
            un_dict(p.named_pubs, lambda n: n.raw_path), un_dict(p.extra_map)]


def un_psbt(p):
    return [un_tx(p.tx_obj), [un_in(i) for i in p.psbt_ins], [un_out(o) for o in p.psbt_outs],
            un_dict(p.hd_pubs, lambda h: [h.raw_serialize(), h.raw_path]), un_dict(p.extra_map)]


def mk_script(v, cls=Script):
    cmds, raw = v
    s = cls(list(cmds))
    if len(raw):
        s.raw = raw[0]
    return s


def mk_spk(v):
    cmds, raw = v
    if not len(raw):
        p = Script(list(cmds))
        if p.is_p2pkh():
            return P2PKHScriptPubKey(cmds[2])
        if p.is_p2sh():
            return P2SHScriptPubKey(cmds[1])
        if p.is_p2wpkh():
            return P2WPKHScriptPubKey(cmds[1])
        if p.is_p2wsh():
            return P2WSHScriptPubKey(cmds[1])
        if p.is_p2tr():
            return P2TRScriptPubKey(cmds[1])
    return mk_script(v, ScriptPubKey)


def mk_txin(v):
    pt, pi, sc, sq, w = v
    i = TxIn(pt, pi, mk_script(sc), sq)
    i.witness = Witness(list(w))
    return i


def mk_txout(v):
    return TxOut(v[0], mk_spk(v[1]))


def mk_tx(v):
    ver, ins, outs, lt, sw = v
    t = Tx(ver, [mk_txin(i) for i in ins], [mk_txout(o) for o in outs], lt, segwit=bool(sw))
    return t


def mk_named(sec, raw_path):
    pt = S256Point.parse(sec)
    pt.__class__ = NamedPublicKey
    pt.root_fingerprint = raw_path[:4]
    pt.raw_path = raw_path
    pt.network = "mainnet"
    try:
        pt.root_path = parse_binary_path(raw_path[4:])
    except Exception:  # noqa
        pt.root_path = None
    return pt


def mk_hd(v):
    key, raw_path = v
    h = HDPublicKey.raw_parse(BytesIO(key))
    h.__class__ = NamedHDPublicKey
    h.root_fingerprint = raw_path[:4]
    h.raw_path = raw_path
    try:
        h.root_path = parse_binary_path(raw_path[4:])
    except Exception:  # noqa
        h.root_path = None
    h._raw = key
    h.sync_point()
    return h


def mk_in(v, tx_in):
    ptx, pout, sigs, ht, rs, ws, named, ss, wit, extra = v
    p = PSBTIn.__new__(PSBTIn)
    p.tx_in = tx_in
    p.prev_tx = mk_tx(ptx[0]) if ptx else None
    p.prev_out = mk_txout(pout[0]) if pout else None
    p.sigs = {k: x for k, x in sigs}
    p.hash_type = ht[0] if ht else None
    p.redeem_script = mk_script(rs[0], RedeemScript) if rs else None
    p.witness_script = mk_script(ws[0], WitnessScript) if ws else None
    p.named_pubs = {k: mk_named(k, x) for k, x in named}
    p.script_sig = mk_script(ss[0]) if ss else None
    p.witness = Witness(list(wit[0])) if wit else None
    p.extra_map = {k: x for k, x in extra}
    # what parse / update record on the TxIn so that no node is needed
    if p.prev_tx is not None and 0 <= tx_in.prev_index < len(p.prev_tx.tx_outs):
        o = p.prev_tx.tx_outs[tx_in.prev_index]
        tx_in._value, tx_in._script_pubkey = o.amount, o.script_pubkey
    elif p.prev_out is not None:
        tx_in._value, tx_in._script_pubkey = p.prev_out.amount, p.prev_out.script_pubkey
    return p


def mk_out(v, tx_out):
    rs, ws, named, extra = v
    p = PSBTOut.__new__(PSBTOut)
    p.tx_out = tx_out
    p.redeem_script = mk_script(rs[0], RedeemScript) if rs else None
    p.witness_script = mk_script(ws[0], WitnessScript) if ws else None
    p.named_pubs = {k: mk_named(k, x) for k, x in named}
    p.extra_map = {k: x for k, x in extra}
    return p


def mk_psbt(v):
    """rebuilds the objects WITHOUT running any validate()"""
    t, ins, outs, hd, extra = v
    tx = mk_tx(t)
    tx.network = "mainnet"
    dummy_in = lambda: TxIn(b"\x00" * 32, 0)  # noqa: E731
    dummy_out = lambda: TxOut(0, Script([]))  # noqa: E731
    p = PSBT.__new__(PSBT)
    p.tx_obj = tx
    p.psbt_ins = [mk_in(x, tx.tx_ins[i] if i < len(tx.tx_ins) else dummy_in()) for i, x in enumerate(ins)]
    p.psbt_outs = [mk_out(x, tx.tx_outs[i] if i < len(tx.tx_outs) else dummy_out()) for i, x in enumerate(outs)]
    p.hd_pubs = {k: mk_hd(x) for k, x in hd}
    p.extra_map = {k: x for k, x in extra}
    p.network = "mainnet"
    return p


def net_code(n):
    return {None: 0, "mainnet": 1, "testnet": 2}.get(n, 9)


# ---------------------------------------------------------------- oracle tables


def _try(f):
    try:
        with contextlib.redirect_stdout(io.StringIO()):
            v = f()
        if isinstance(v, bool):
            return 1 if v else 0
        return v
    except Exception:  # noqa
        from vp.sexp import ERR
        return ERR


def oracle_table(p):
    """per input: Tx.sig_hash_legacy, Tx.sig_hash_bip143, Tx.verify_input with the final fields put in"""
    rows = []
    tx = p.tx_obj
    for i, pin in enumerate(p.psbt_ins):
        if i >= len(tx.tx_ins):
            break
        zl = _try(lambda: tx.sig_hash_legacy(i, pin.redeem_script))
        zs = _try(lambda: tx.sig_hash_bip143(i, pin.redeem_script, pin.witness_script))
        vin = 0
        if pin.script_sig is not None:
            ti = tx.tx_ins[i]
            old = (ti.script_sig, ti.witness)
            ti.script_sig, ti.witness = pin.script_sig, pin.witness
            vin = _try(lambda: tx.verify_input(i))
            ti.script_sig, ti.witness = old
        rows.append([zl, zs, vin])
    return rows


def table_for_stream(s):
    orig = PSBT.validate
    PSBT.validate = lambda self: True
    try:
        with contextlib.redirect_stdout(io.StringIO()):
            p = PSBT.parse(BytesIO(s))
    except Exception:  # noqa
        return []
    finally:
        PSBT.validate = orig
    return oracle_table(p)


# ---------------------------------------------------------------- implementation entry points


def i_kv_parse(s):
    """the unknown-key branch of the map parsers, reached through PSBTOut.parse on a p2tr output
    (no validation rule applies); the generator only uses key types >= 3"""
    st = BytesIO(s)
    o = PSBTOut.parse(st, TxOut(0, P2TRScriptPubKey(b"\x01" * 32)))
    if o.redeem_script or o.witness_script or o.named_pubs:
        return [b"typed entry in a generic-layer case"]
    return [un_dict(o.extra_map), st.read()]


def i_kv_serialize(d):
    o = PSBTOut.__new__(PSBTOut)
    o.redeem_script = o.witness_script = None
    o.named_pubs = {}
    o.extra_map = {k: v for k, v in d}
    return o.serialize()


def i_in_parse(s, ti, n):
    st = BytesIO(s)
    p = PSBTIn.parse(st, mk_txin(ti), network=NETS[n])
    return [un_in(p), st.read()]


def i_out_parse(s, to, n):
    st = BytesIO(s)
    p = PSBTOut.parse(st, mk_txout(to), network=NETS[n])
    return [un_out(p), st.read()]


def i_parse(s, tbl):
    p = PSBT.parse(BytesIO(s))
    return [un_psbt(p), net_code(p.network)]


def i_validate(v, tbl):
    return 1 if mk_psbt(v).validate() else 0


def i_combine(a, b):
    pa, pb = mk_psbt(a), mk_psbt(b)
    pa.combine(pb)
    return un_psbt(pa)


def i_finalize(v):
    p = mk_psbt(v)
    p.finalize()
    return un_psbt(p)


def i_in_finalize(v, ti):
    p = mk_in(v, mk_txin(ti))
    p.finalize()
    return un_in(p)


def i_assemble_tx(v):
    p = mk_psbt(v)
    orig = Tx.verify
    Tx.verify = lambda self: True
    try:
        t = p.final_tx()
    finally:
        Tx.verify = orig
    return un_tx(t)


IMPL = {
    "kv_parse": quiet(i_kv_parse),
    "kv_serialize": quiet(i_kv_serialize),
    "in_parse": quiet(i_in_parse),
    "out_parse": quiet(i_out_parse),
    "in_serialize": quiet(lambda v: mk_in(v, TxIn(b"\x00" * 32, 0)).serialize()),
    "out_serialize": quiet(lambda v: mk_out(v, TxOut(0, Script([]))).serialize()),
    "parse": quiet(i_parse),
    "serialize": quiet(lambda v: mk_psbt(v).serialize()),
    "validate": quiet(i_validate),
    "in_validate": quiet(lambda v, ti: 1 if mk_in(v, mk_txin(ti)).validate() is None else 0),
    "out_validate": quiet(lambda v, to: 1 if mk_out(v, mk_txout(to)).validate() is None else 0),
    "combine": quiet(i_combine),
    "finalize": quiet(i_finalize),
    "in_finalize": quiet(i_in_finalize),
    "assemble_tx": quiet(i_assemble_tx),
}

# ---------------------------------------------------------------- wallets and the workflow

KINDS = ["p2pkh", "p2wpkh", "p2sh-p2wpkh", "p2sh", "p2wsh", "p2sh-p2wsh"]
_KEYS = {}


def key(j):
    if j not in _KEYS:
        _KEYS[j] = PrivateKey(0x1000000000000000000000000000000000000000000000000000000000000001 * (j + 3) % (2 ** 255) + 7 * j + 11)
    return _KEYS[j]


class NP:
    """what a pubkey_lookup maps to: .sec() and .point (a NamedPublicKey)"""

    def __init__(self, point):
        self.point = point

    def sec(self):
        return self.point.sec()


def named_point(priv, j, coin=0):
    pt = S256Point.parse(priv.point.sec())
    pt.__class__ = NamedPublicKey
    path = f"m/48'/{coin}'/0'/2'/0/{j}"
    pt.add_raw_path_data(hash160(priv.point.sec())[:4] + serialize_binary_path(path), network="mainnet")
    return pt


def op_n(k):
    return 80 + k


class Wallet:
    def __init__(self, kind, m, n, first_key=0, hd=False):
        self.kind, self.m, self.n, self.hd = kind, m, n, hd
        self.hd_pubs = {}
        self.roots = []
        if hd:
            self.privs, self.named = [], []
            for j in range(n):
                root = HDPrivateKey(PrivateKey(0xABCDEF00 + 17 * (first_key + j)), bytes([first_key + j + 1]) * 32)
                self.roots.append(root)
                acct = NamedHDPublicKey.from_hd_priv(root, "m/48'/0'/0'/2'")
                self.hd_pubs[acct.raw_serialize()] = acct
                child = acct.child(0).child(j)
                self.privs.append(root.traverse(f"m/48'/0'/0'/2'/0/{j}").private_key)
                self.named.append(child)
        else:
            self.privs = [key(first_key + j) for j in range(n)]
            self.named = [NP(named_point(k, j)) for j, k in enumerate(self.privs)]
        secs = [k.point.sec() for k in self.privs]
        self.secs = secs
        self.redeem = self.wscript = None
        h160 = hash160(secs[0])
        if kind == "p2pkh":
            self.spk = P2PKHScriptPubKey(h160)
        elif kind == "p2wpkh":
            self.spk = P2WPKHScriptPubKey(h160)
        elif kind == "p2sh-p2wpkh":
            self.redeem = RedeemScript([0, h160])
            self.spk = self.redeem.script_pubkey()
        elif kind == "p2sh":
            self.redeem = RedeemScript([op_n(m)] + secs + [op_n(n), 174])
            self.spk = self.redeem.script_pubkey()
        elif kind == "p2wsh":
            self.wscript = WitnessScript([op_n(m)] + secs + [op_n(n), 174])
            self.spk = self.wscript.script_pubkey()
        else:
            self.wscript = WitnessScript([op_n(m)] + secs + [op_n(n), 174])
            self.redeem = RedeemScript([0, self.wscript.sha256()])
            self.spk = self.redeem.script_pubkey()

    def lookups(self):
        pk = {}
        for npub in self.named:
            pk[npub.sec()] = npub
            pk[hash160(npub.sec())] = npub
        rl = {self.redeem.hash160(): self.redeem} if self.redeem else {}
        wl = {self.wscript.sha256(): self.wscript} if self.wscript else {}
        return pk, rl, wl


def build_psbt(w, n_inputs, salt, extras=False, segwit_flag=False, validate=True):
    """create + update through the library API; returns the PSBT object"""
    tx_lookup = {}
    tx_ins = []
    for i in range(n_inputs):
        funding = Tx(1, [TxIn(bytes([salt % 256, i]) * 16, i)],
                     [TxOut(1000, P2PKHScriptPubKey(bytes([i + 1]) * 20)), TxOut(60000 + 1000 * i, w.spk)], 0)
        funding.network = "mainnet"
        tx_lookup[funding.hash()] = funding
        tx_ins.append(TxIn(funding.hash(), 1))
    tx_outs = [TxOut(30000 * n_inputs, P2WPKHScriptPubKey(bytes([salt % 256]) * 20)),
               TxOut(20000 * n_inputs, w.spk)]
    tx = Tx(2, tx_ins, tx_outs, 0, segwit=segwit_flag)
    tx.network = "mainnet"
    pk, rl, wl = w.lookups()
    p = PSBT.create(tx, validate=validate, tx_lookup=tx_lookup, pubkey_lookup=pk, redeem_lookup=rl,
                    witness_lookup=wl, hd_pubs=dict(w.hd_pubs))
    if extras:
        p.extra_map[b"\xfc\x05buidl\x00"] = b"global proprietary"
        p.extra_map[b"\x0a"] = b""
        p.psbt_ins[0].extra_map[b"\x0f\x01\x02"] = b"unknown input entry"
        p.psbt_ins[-1].extra_map[b"\xfc\x01x"] = bytes(range(40))
        p.psbt_outs[0].extra_map[b"\x09"] = b"por?"
        p.psbt_outs[-1].extra_map[b"\xfc\x02y\x01"] = b"\x00" * 3
    return p


def reparse(b):
    with contextlib.redirect_stdout(io.StringIO()):
        return PSBT.parse(BytesIO(b))


def sign_as(base_bytes, w, j):
    p = reparse(base_bytes)
    if w.hd:
        ok = p.sign(w.roots[j])
    else:
        ok = p.sign_with_private_keys([w.privs[j]])
    if not ok:
        raise AssertionError("signer found nothing to sign")
    return p.serialize()


def combine_bytes(first, others):
    p = reparse(first)
    for o in others:
        p.combine(reparse(o))
    return p.serialize()


def finalise_bytes(b):
    """returns (finalised psbt bytes, final tx bytes) or raises"""
    p = reparse(b)
    p.finalize()
    fb = p.serialize()
    with contextlib.redirect_stdout(io.StringIO()):
        t = p.final_tx()
    return fb, t.serialize(), t


def expected_stack(w, signed, sigs_by_input, i):
    """the signatures the finaliser must emit for input i: the first m signers in script key order"""
    return [sigs_by_input[i][w.secs[j]] for j in sorted(signed)][: w.m]


def p_workflow(kind_i, m, n, n_inputs, flags):
    """flags: bit0 extras, bit1 hd wallet with global xpubs, bit2 reduced orders"""
    kind = KINDS[kind_i]
    extras, hd, reduced = bool(flags & 1), bool(flags & 2), bool(flags & 4)
    w = Wallet(kind, m, n, first_key=(kind_i * 5 + m + 3 * n) % 11, hd=hd)
    single = kind in ("p2pkh", "p2wpkh", "p2sh-p2wpkh")
    need = 1 if single else m
    nsig = 1 if single else n
    try:
        base = build_psbt(w, n_inputs, salt=kind_i * 16 + m * 4 + n, extras=extras).serialize()
    except Exception as e:  # noqa
        return f"PSBT.create/update for a {kind} {m}-of-{n} wallet raises {type(e).__name__}: {e}"
    seen = {base}
    try:
        reparse(base)
    except Exception as e:  # noqa
        return f"the updated PSBT of a {kind} {m}-of-{n} wallet does not load again: {type(e).__name__}: {e}"
    signed_by = {}
    for j in range(nsig):
        try:
            signed_by[j] = sign_as(base, w, j)
        except Exception as e:  # noqa
            return f"signer {j} of {kind} {m}-of-{n} failed: {type(e).__name__}: {e}"
        seen.add(signed_by[j])
    sigs_by_input = [dict(pi.sigs) for pi in reparse(combine_bytes(base, list(signed_by.values()))).psbt_ins]
    subsets = [s for r in range(0, nsig + 1) for s in itertools.combinations(range(nsig), r)]
    for sub in subsets:
        orders = list(itertools.permutations(sub)) if (nsig <= 3 and not reduced) else [sub, tuple(reversed(sub))]
        results = set()
        for order in orders:
            # (a) every signer signs the base PSBT, a combiner merges them in this order
            results.add(combine_bytes(base, [signed_by[j] for j in order]))
            if order:
                # (b) the first signed PSBT is the accumulator
                results.add(combine_bytes(signed_by[order[0]], [signed_by[j] for j in order[1:]] + [base]))
                # (c) the PSBT is handed from signer to signer
                cur = base
                if not reduced or order == orders[0]:
                    for j in order:
                        cur = sign_as(cur, w, j)
                    results.add(cur)
        if len(results) != 1:
            return f"{kind} {m}-of-{n}, signers {sub}: {len(results)} different combined PSBTs over the orders"
        comb = results.pop()
        seen.add(comb)
        try:
            fb, txb, t = finalise_bytes(comb)
            ok = True
        except Exception as e:  # noqa
            ok, err = False, f"{type(e).__name__}: {e}"
        if ok != (len(sub) >= need):
            return (f"{kind} {m}-of-{n}, signers {sub}: finalize/final_tx "
                    + ("succeeded with fewer than the required signers" if ok else "failed: " + err))
        if ok:
            seen.add(fb)
            if single and len(sub) > 1:
                continue
            for i, ti in enumerate(t.tx_ins):
                if single:
                    continue
                want = expected_stack(w, sub, sigs_by_input, i)
                if kind == "p2sh":
                    got = [c for c in ti.script_sig.commands[1:-1]]
                else:
                    got = list(ti.witness.items[1:-1])
                if got != want:
                    return f"{kind} {m}-of-{n}, signers {sub}, input {i}: emitted signatures are not the first m in key order"
            with contextlib.redirect_stdout(io.StringIO()):
                if not t.verify():
                    return "final transaction does not verify"
                if Tx.parse(BytesIO(txb), network="mainnet").serialize() != txb:
                    return "final transaction does not re-serialise"
    for b in seen:
        r = p_reserialize(b)
        if r:
            return f"{kind} {m}-of-{n}: {r}"
    return None


def p_reserialize(b):
    try:
        p = reparse(b)
    except Exception:  # noqa
        return None            # not a PSBT the library accepts: nothing to re-serialise
    s1 = p.serialize()
    try:
        p2 = reparse(s1)
    except Exception as e:  # noqa
        return f"serialize() of a loaded PSBT is rejected by parse(): {type(e).__name__}: {e}"
    s2 = p2.serialize()
    if s2 != s1:
        return "serialize(parse(serialize(p))) differs from serialize(p)"
    # the global unsigned transaction: non-witness format, empty scriptSigs
    st = BytesIO(s1[5:])
    if read_varstr(st) != b"\x00":
        return "first global entry is not the unsigned transaction"
    raw = read_varstr(st)
    if raw != p.tx_obj.serialize_legacy() or (len(raw) > 5 and raw[4] == 0 and len(p.tx_obj.tx_ins) > 0):
        return "embedded transaction is not in non-witness format"
    if any(i.script_sig.commands for i in p.tx_obj.tx_ins):
        return "embedded transaction has a non-empty scriptSig"
    # the base64 text form (what the roles actually exchange) = RFC 4648 base64 of the same bytes, and loads back
    t64 = p.serialize_base64()
    if t64 != base64.b64encode(s1).decode("ascii"):
        return "serialize_base64() is not the base64 text of serialize()"
    try:
        if PSBT.parse_base64(t64).serialize() != s1:
            return "parse_base64(serialize_base64(p)) re-serialises differently"
    except Exception as e:  # noqa
        return f"parse_base64 rejects serialize_base64(p): {type(e).__name__}: {e}"
    return None


def p_segwit_flag(kind_i, n_inputs):
    """regression of acac2c0: a tx_obj with segwit=True must serialise in non-witness format and load again"""
    w = Wallet(KINDS[kind_i], 1, 1)
    p = build_psbt(w, n_inputs, salt=77, segwit_flag=True)
    b = p.serialize()
    try:
        q = reparse(b)
    except Exception as e:  # noqa
        return f"PSBT whose tx_obj.segwit is True does not parse back: {type(e).__name__}: {e}"
    if q.serialize() != b:
        return "re-serialisation differs"
    return p_reserialize(b)


def p_scriptsig_rejected(kind_i, where):
    """validate rejects an unsigned transaction that carries a scriptSig / witness"""
    w = Wallet(KINDS[kind_i], 1, 1)
    p = build_psbt(w, 2, salt=78)
    b = p.serialize()
    tx = Tx.parse(BytesIO(p.tx_obj.serialize_legacy()), network="mainnet")
    tx.tx_ins[where % 2].script_sig = Script([b"\x01\x02"])
    raw = tx.serialize_legacy()
    st = BytesIO(b[5:])
    read_varstr(st), read_varstr(st)
    rest = st.read()
    bad = b[:5] + encode_varstr(b"\x00") + encode_varstr(raw) + rest
    try:
        reparse(bad)
    except Exception:  # noqa
        pass
    else:
        return "a PSBT whose unsigned transaction has a scriptSig was accepted"
    # the same through the constructor
    p.tx_obj.tx_ins[where % 2].script_sig = Script([b"\x01\x02"])
    try:
        p.validate()
    except Exception:  # noqa
        return None
    return "validate() accepted a non-empty scriptSig in the unsigned transaction"


def split_maps(b):
    """valid PSBT bytes -> list of maps, each a list of (key, value) pairs"""
    st = BytesIO(b[5:])
    maps, cur = [], []
    while True:
        pos = st.tell()
        if pos >= len(b) - 5:
            break
        k = read_varstr(st)
        if k == b"":
            maps.append(cur)
            cur = []
            continue
        cur.append((k, read_varstr(st)))
    return maps


def join_maps(maps):
    out = b"psbt\xff"
    for m in maps:
        for k, v in m:
            out += encode_varstr(k) + encode_varstr(v)
        out += b"\x00"
    return out


def p_bad_sig(kind_i, m, n, mode, pos):
    """a partial signature that does not verify makes the load fail.
    mode 0: flip one byte inside the DER body; 1: swap the signatures of two keys / two inputs;
    2: replace by a valid signature of the same key over another message; 3: attribute it to another key"""
    kind = KINDS[kind_i]
    w = Wallet(kind, m, n, first_key=2)
    single = kind in ("p2pkh", "p2wpkh", "p2sh-p2wpkh")
    try:
        base = build_psbt(w, 2, salt=90 + mode).serialize()
    except Exception:  # noqa
        return None
    sb = combine_bytes(base, [sign_as(base, w, j) for j in range(1 if single else n)])
    maps = split_maps(sb)
    im = maps[1]
    idx = [i for i, (k, v) in enumerate(im) if k[:1] == b"\x02"]
    if not idx:
        return "no partial signature in the signed PSBT"
    a = idx[pos % len(idx)]
    k, v = im[a]
    if mode == 0:
        off = 4 + pos % (len(v) - 6)
        nv = v[:off] + bytes([v[off] ^ (1 + pos % 255)]) + v[off + 1:]
        im[a] = (k, nv)
    elif mode == 1:
        im2 = maps[2]
        b_ = [i for i, (k2, _) in enumerate(im2) if k2 == k][0]
        im[a], im2[b_] = (k, im2[b_][1]), (k, v)
    elif mode == 2:
        z = int.from_bytes(hash160(v) * 2, "big") % (2 ** 255)
        priv = [p for p in w.privs if b"\x02" + p.point.sec() == k][0]
        im[a] = (k, priv.sign(z).der() + b"\x01")
    else:
        other = key(9).point.sec()
        if single:
            return None
        im[a] = (b"\x02" + other, v)
    bad = join_maps(maps)
    if bad == sb:
        return None
    try:
        reparse(bad)
    except Exception:  # noqa
        return None
    return f"{kind} {m}-of-{n}: a PSBT with a corrupted partial signature (mode {mode}) was loaded without error"


def p_finalize_threshold(kind_i, m, n, n_script_sigs, n_foreign):
    """finalize succeeds only if at least m signatures BY KEYS OF THE SCRIPT are present.
    The partial signatures are real (they verify at load); n_foreign of them are made with keys that are
    not in the script."""
    kind = KINDS[kind_i]
    w = Wallet(kind, m, n, first_key=4)
    base_p = build_psbt(w, 1, salt=120)
    base = base_p.serialize()
    p = reparse(base)
    pin = p.psbt_ins[0]
    tx = p.tx_obj
    signers = [w.privs[j] for j in range(n_script_sigs)] + [key(20 + j) for j in range(n_foreign)]
    for priv in signers:
        if pin.use_segwit_signature():
            sig = tx.get_sig_segwit(0, priv, pin.redeem_script, pin.witness_script)
        else:
            sig = tx.get_sig_legacy(0, priv, pin.redeem_script)
        pin.sigs[priv.point.sec()] = sig
    b = p.serialize()
    try:
        q = reparse(b)           # foreign signatures are dropped by the serialiser for script inputs
    except Exception as e:  # noqa
        return f"PSBT with valid partial signatures does not load: {e}"
    for obj, tag in ((p, "in memory"), (q, "after a serialise/parse cycle")):
        try:
            with contextlib.redirect_stdout(io.StringIO()):
                obj.validate()
                obj.finalize()
        except Exception:  # noqa
            continue
        if n_script_sigs < m:
            got = obj.psbt_ins[0]
            cnt = (len(got.script_sig.commands) - 2) if kind == "p2sh" else (len(got.witness.items) - 2)
            return (f"{kind} {m}-of-{n} ({tag}): finalize succeeded with {n_script_sigs} signature(s) by script "
                    f"keys and {n_foreign} by foreign keys; {cnt} signature(s) emitted, {m} required")
    return None


def p_xpub_order(first_testnet):
    """two global xpubs whose paths name different networks: re-serialisation must be stable"""
    w = Wallet("p2wpkh", 1, 1)
    base = build_psbt(w, 1, salt=130).serialize()
    maps = split_maps(base)
    ra = HDPrivateKey(PrivateKey(0x5151), b"\x07" * 32)
    a = NamedHDPublicKey.from_hd_priv(ra, "m/45'")
    b = NamedHDPublicKey.from_hd_priv(ra, "m/48'/1'/0'/2'")
    es = []
    for h in ([b, a] if first_testnet else [a, b]):
        st = BytesIO(h.serialize())
        es.append((read_varstr(st), read_varstr(st)))
    maps[0] = maps[0] + es
    return p_reserialize(join_maps(maps))


def p_nonwitness_utxo_segwit(kind_i):
    """a segwit input that arrives with only a non-witness UTXO (BIP174 allows it): load, update(), reload,
    sign, reload, finalize, final_tx — every PSBT the library writes on the way must load again"""
    w = Wallet(KINDS[kind_i], 1, 1)
    p0 = build_psbt(w, 1, salt=140, validate=False)
    tx = Tx.parse(BytesIO(p0.tx_obj.serialize_legacy()), network="mainnet")
    p = PSBT.create(tx)
    funding = Tx(1, [TxIn(bytes([140, 0]) * 16, 0)],
                 [TxOut(1000, P2PKHScriptPubKey(bytes([1]) * 20)), TxOut(60000, w.spk)], 0)
    funding.network = "mainnet"
    if funding.hash() != tx.tx_ins[0].prev_tx:
        return "harness: funding transaction mismatch"
    p.psbt_ins[0].prev_tx = funding
    b0 = p.serialize()
    try:
        p1 = reparse(b0)
    except Exception:  # noqa
        return None            # the library does not accept such input at all: nothing built
    pk, rl, wl = w.lookups()
    try:
        p1.update({funding.hash(): funding}, pk, rl, wl)
        b1 = p1.serialize()
    except Exception:  # noqa
        return None
    r = p_reserialize_strict(b1)
    if r:
        return "after update(): " + r
    p2 = reparse(b1)
    if not p2.sign_with_private_keys(w.privs):
        return "nothing signed"
    b2 = p2.serialize()
    r = p_reserialize_strict(b2)
    if r:
        return "after signing: " + r
    try:
        fb, txb, t = finalise_bytes(b2)
    except Exception as e:  # noqa
        return f"finalize/final_tx failed: {type(e).__name__}: {e}"
    return p_reserialize_strict(fb)


def p_reserialize_strict(b):
    try:
        reparse(b)
    except Exception as e:  # noqa
        return f"serialize() of a PSBT the library built is rejected by parse(): {type(e).__name__}: {e}"
    return p_reserialize(b)


def p_inmem_p2sh_p2wpkh(n_inputs):
    """the P2SH-P2WPKH signing path on one object without any validate(): create(validate=False) / update /
    sign / finalize / final_tx, as the repository's own test does; the signed PSBT must load again"""
    w = Wallet("p2sh-p2wpkh", 1, 1)
    tx_lookup, tx_ins = {}, []
    for i in range(n_inputs):
        funding = Tx(1, [TxIn(bytes([9, i]) * 16, i)], [TxOut(60000 + i, w.spk)], 0)
        tx_lookup[funding.hash()] = funding
        tx_ins.append(TxIn(funding.hash(), 0))
    tx = Tx(2, tx_ins, [TxOut(50000 * n_inputs, w.spk)], 0)
    pk, rl, wl = w.lookups()
    p = PSBT.create(tx, validate=False, tx_lookup=tx_lookup, pubkey_lookup=pk, redeem_lookup=rl, witness_lookup=wl)
    if not p.sign_with_private_keys(w.privs):
        return "nothing signed"
    b = p.serialize()
    p.finalize()
    with contextlib.redirect_stdout(io.StringIO()):
        t = p.final_tx()
        if not t.verify():
            return "final transaction does not verify"
    return p_reserialize_strict(b)


# ---- ONE PSBT object used repeatedly: serialise, sign, combine, finalise, edit, serialise again
# Oracle for "what a fresh object would write": mk_psbt(un_psbt(p)) builds a brand-new object graph from the
# DECLARED fields of p (never through parse or a constructor), so whatever else p has accumulated (memoised
# bytes, hashes, digests) is not carried over.


def _stale(p, where):
    """serialize() twice on the object and once on a new object with the same field values"""
    s1 = p.serialize()
    s2 = p.serialize()
    if s1 != s2:
        return f"{where}: two consecutive serialize() calls on one object give different bytes"
    ref = mk_psbt(un_psbt(p)).serialize()
    if s1 != ref:
        return f"{where}: serialize() of the used object differs from serialize() of a new object with the same fields"
    try:
        back = reparse(s1).serialize()
    except Exception as e:  # noqa
        return f"{where}: the bytes written by the used object do not load: {type(e).__name__}: {e}"
    if back != s1:
        return f"{where}: parse/serialize of the bytes written by the used object is not the identity"
    return None


def p_reuse_workflow(kind_i, m, n, n_inputs, flags, perm):
    """flags as in p_workflow; perm selects the order of the signers.  Every step is done on ONE object that has
    already been serialised, and compared with the same step done on freshly parsed objects."""
    from buidl.timelock import Locktime
    kind = KINDS[kind_i]
    extras, hd = bool(flags & 1), bool(flags & 2)
    w = Wallet(kind, m, n, first_key=(kind_i * 5 + m + 3 * n + 1) % 11, hd=hd)
    single = kind in ("p2pkh", "p2wpkh", "p2sh-p2wpkh")
    need = 1 if single else m
    nsig = 1 if single else n
    base = build_psbt(w, n_inputs, salt=kind_i * 16 + m * 4 + n + 1, extras=extras).serialize()
    orders = list(itertools.permutations(range(nsig)))
    order = orders[perm % len(orders)]
    signed_by = {j: sign_as(base, w, j) for j in range(nsig)}

    def sign_in_place(p, j):
        return p.sign(w.roots[j]) if w.hd else p.sign_with_private_keys([w.privs[j]])

    with contextlib.redirect_stdout(io.StringIO()):
        # A. one object handed from signer to signer, serialised after every signature
        p = reparse(base)
        r = _stale(p, "freshly parsed")
        if r:
            return r
        cur = base
        for j in order:
            if not sign_in_place(p, j):
                return f"signer {j} found nothing to sign on the reused object"
            cur = sign_as(cur, w, j)
            r = _stale(p, f"after signer {j} signed the reused object")
            if r:
                return r
            if p.serialize() != cur:
                return f"signing the reused object (signer {j}) and signing a freshly parsed PSBT give different bytes"
        # B. one accumulator, combined in two orders, serialised after every combine
        finals = []
        for od in (order, tuple(reversed(order))):
            acc = reparse(base)
            acc.serialize()
            for k, j in enumerate(od):
                acc.combine(reparse(signed_by[j]))
                r = _stale(acc, f"accumulator after combining {od[:k + 1]}")
                if r:
                    return r
                if acc.serialize() != combine_bytes(base, [signed_by[i] for i in od[:k + 1]]):
                    return f"accumulator after combining {od[:k + 1]} differs from a fresh combine of the same PSBTs"
            before = acc.serialize()
            acc.combine(reparse(before))          # combining its own bytes changes nothing
            acc.combine(reparse(base))
            if acc.serialize() != before:
                return "combining a PSBT with its own serialisation / with the unsigned PSBT changed it"
            finals.append((acc, before))
        if finals[0][1] != finals[1][1] or finals[0][1] != cur:
            return "the combined PSBT depends on the order of combining / differs from the hand-to-hand PSBT"
        # C. finalise and extract on the used accumulators (only `need` signers on the second one)
        for which, (acc, comb) in enumerate(finals):
            if which == 1 and nsig > need:
                acc = reparse(base)
                acc.serialize()
                for j in order[:need]:
                    acc.combine(reparse(signed_by[j]))
                comb = acc.serialize()
            fb, txb, _ = finalise_bytes(comb)
            acc.finalize()
            r = _stale(acc, "after finalize() on the used object")
            if r:
                return r
            if acc.serialize() != fb:
                return "finalize() on the used object and on a freshly parsed PSBT give different bytes"
            for k in range(2):
                if acc.final_tx().serialize() != txb:
                    return f"final_tx() call {k} on the used object differs from the transaction of a fresh PSBT"
            if acc.serialize() != fb:
                return "final_tx() changed the PSBT"
        # too few signers: finalize must fail on a used object as it does on a fresh one
        if need >= 2:
            few = reparse(combine_bytes(base, [signed_by[order[0]]]))
            few.serialize()
            few.combine(reparse(base))
            try:
                few.finalize()
                few.final_tx()
            except Exception:  # noqa
                pass
            else:
                return "finalize/final_tx succeeded on a used object with fewer than the required signers"
        # D. in-place edits of a parsed and already serialised object
        q = reparse(cur)
        q.serialize()
        q.tx_obj.hash()
        edits = [
            ("global unknown entry added", lambda: q.extra_map.__setitem__(b"\xfc\x03abc", b"later")),
            ("input unknown entry added", lambda: q.psbt_ins[0].extra_map.__setitem__(b"\x0f\x07", b"x" * 5)),
            ("output unknown entry added", lambda: q.psbt_outs[-1].extra_map.__setitem__(b"\xfc\x01z", b"")),
            ("sighash type set", lambda: setattr(q.psbt_ins[-1], "hash_type", 1)),
            ("a partial signature removed", lambda: q.psbt_ins[0].sigs.pop(sorted(q.psbt_ins[0].sigs)[0])),
            ("output derivations removed", lambda: q.psbt_outs[-1].named_pubs.clear()),
            ("input unknown entry changed", lambda: q.psbt_ins[0].extra_map.__setitem__(b"\x0f\x07", b"y")),
            ("all partial signatures removed", lambda: [pi.sigs.clear() for pi in q.psbt_ins]),
        ]
        for what, f in edits:
            v0, s0 = un_psbt(q), q.serialize()
            f()
            r = _stale(q, "after edit: " + what)
            if r:
                return r
            if (q.serialize() != s0) != (un_psbt(q) != v0):
                return f"after edit: {what}: serialize() {'changed' if q.serialize() != s0 else 'did not change'}"
        # E. the unsigned transaction edited in place: it is another transaction now
        q.tx_obj.locktime = Locktime((int(q.tx_obj.locktime) + 1) % 2 ** 32)
        r = _stale(q, "after edit: locktime of the unsigned transaction")
        if r:
            return r
        for other in (reparse(base), reparse(signed_by[order[0]])):
            try:
                q.combine(other)
            except ValueError:
                continue
            return "combine accepted a PSBT for a different transaction (unsigned transaction edited in place after hash())"
        q.tx_obj.locktime = Locktime((int(q.tx_obj.locktime) - 1) % 2 ** 32)
        q.combine(reparse(cur))                  # the same transaction again: the signatures come back
        r = _stale(q, "after restoring the locktime and combining with the signed PSBT")
        if r:
            return r
        if [pi.sigs for pi in q.psbt_ins] != [pi.sigs for pi in reparse(cur).psbt_ins]:
            return "after restoring the locktime, combine did not bring the partial signatures back"
    return None


def p_stage_orders(kind_i, m, n, n_inputs, flags):
    """Order independence over PSBTs taken at DIFFERENT stages of the workflow: the Creator's bare PSBT (no
    update), the updated PSBT and the PSBT signed by each signer of a subset are combined with each of them as the
    accumulator and the others in every order (flags bit 3 clear: for five PSBTs six orders per accumulator).
    Every result must be byte-identical to the updated PSBT combined with the signed ones, finalise exactly when
    enough signers took part, and give the same final transaction.  flags bit 0 extras, bit 1 HD wallet."""
    kind = KINDS[kind_i]
    extras, hd, exhaustive = bool(flags & 1), bool(flags & 2), bool(flags & 8)
    w = Wallet(kind, m, n, first_key=(kind_i * 5 + m + 3 * n + 2) % 11, hd=hd)
    single = kind in ("p2pkh", "p2wpkh", "p2sh-p2wpkh")
    need = 1 if single else m
    nsig = 1 if single else n
    with contextlib.redirect_stdout(io.StringIO()):
        p0 = build_psbt(w, n_inputs, salt=kind_i * 16 + m * 4 + n + 2, extras=extras)
        base = p0.serialize()
        bare = PSBT.create(Tx.parse(BytesIO(p0.tx_obj.serialize_legacy()), network="mainnet")).serialize()
        signed = {j: sign_as(base, w, j) for j in range(nsig)}
        subs = [tuple(range(nsig))]
        for s in (tuple(range(nsig))[-need:], (nsig - 1,), ()):
            if s not in subs:
                subs.append(s)
        for sub in subs:
            stages = [("bare", bare), ("updated", base)] + [("signed by %d" % j, signed[j]) for j in sub]
            want = combine_bytes(base, [signed[j] for j in sub])
            others = {name: reparse(b) for name, b in stages}       # never modified by combine: reused
            try:
                fb, txb, t = finalise_bytes(want)
                final = txb
            except Exception:  # noqa
                final = None
            if (final is not None) != (len(sub) >= need):
                return (f"{kind} {m}-of-{n}, signers {sub}: finalize/final_tx "
                        + ("succeeded with fewer than the required signers" if final else "failed"))
            for ai, (aname, ab) in enumerate(stages):
                rest = stages[:ai] + stages[ai + 1:]
                if len(rest) <= 3 or exhaustive:
                    orders = list(itertools.permutations(rest))
                else:
                    orders = [tuple(rest[k:] + rest[:k]) for k in range(len(rest))] + [tuple(reversed(rest)),
                                                                                       tuple(rest[1::-1] + rest[:1:-1])]
                for order in orders:
                    acc = reparse(ab)
                    for oname, _ in order:
                        acc.combine(others[oname])
                    got = acc.serialize()
                    if got != want:
                        try:
                            gfin = finalise_bytes(got)[1]
                        except Exception:  # noqa
                            gfin = None
                        fin_txt = ("does not finalise" if gfin is None else "finalises") + \
                            (", the reference does not finalise" if final is None else
                             ", the reference finalises" + ("" if gfin is None else
                                                            " to the same transaction" if gfin == final else
                                                            " to ANOTHER transaction"))
                        return (f"{kind} {m}-of-{n}, signers {sub}: accumulator '{aname}' combined with "
                                f"{[o for o, _ in order]} differs from the updated PSBT combined with the signed "
                                f"ones ({fin_txt})")
            for name, b in stages:
                if others[name].serialize() != b:
                    return f"{kind} {m}-of-{n}: combine modified the PSBT ('{name}') that was passed as its argument"
            # the FINALISED PSBT as one more stage: whoever is the accumulator and whatever the order, once the
            # finalised PSBT has been combined in, the result (serialised and parsed again, as the next role
            # would receive it) extracts the same final transaction
            if final is not None:
                fin_obj = reparse(fb)
                for ai, (aname, ab) in enumerate(stages):
                    rest = [nm for nm, _ in stages[:ai] + stages[ai + 1:]]
                    for order in ([["finalised"] + rest, rest + ["finalised"], ["finalised"]]):
                        acc = reparse(ab)
                        for oname in order:
                            acc.combine(fin_obj if oname == "finalised" else others[oname])
                        try:
                            with contextlib.redirect_stdout(io.StringIO()):
                                got_tx = reparse(acc.serialize()).final_tx().serialize()
                        except Exception as e:  # noqa
                            return (f"{kind} {m}-of-{n}, signers {sub}: accumulator '{aname}' combined with {order}: "
                                    f"final_tx() fails ({type(e).__name__}: {str(e)[:80]}) although the finalised "
                                    f"PSBT was combined in")
                        if got_tx != final:
                            return (f"{kind} {m}-of-{n}, signers {sub}: accumulator '{aname}' combined with {order} "
                                    f"extracts ANOTHER final transaction than the finalised PSBT")
                for order in (["bare"], [nm for nm, _ in stages], [nm for nm, _ in reversed(stages)]):
                    acc = reparse(fb)
                    for oname in order:
                        acc.combine(others[oname])
                    try:
                        with contextlib.redirect_stdout(io.StringIO()):
                            got_tx = reparse(acc.serialize()).final_tx().serialize()
                    except Exception as e:  # noqa
                        return (f"{kind} {m}-of-{n}, signers {sub}: the finalised PSBT combined with {order}: "
                                f"final_tx() fails ({type(e).__name__}: {str(e)[:80]})")
                    if got_tx != final:
                        return (f"{kind} {m}-of-{n}, signers {sub}: the finalised PSBT combined with {order} extracts "
                                f"ANOTHER final transaction")
                if fin_obj.serialize() != fb:
                    return f"{kind} {m}-of-{n}: combine modified the finalised PSBT that was passed as its argument"
    return None


PROPS = {"workflow": p_workflow, "reuse_workflow": p_reuse_workflow, "stage_orders": p_stage_orders,
         "inmem_p2sh_p2wpkh": p_inmem_p2sh_p2wpkh, "reserialize": p_reserialize, "segwit_flag": p_segwit_flag,
         "scriptsig_rejected": p_scriptsig_rejected, "bad_sig": p_bad_sig,
         "finalize_threshold": p_finalize_threshold, "xpub_order": p_xpub_order,
         "nonwitness_utxo_segwit": p_nonwitness_utxo_segwit}


def classify(v):
    if v["kind"] != "prop":
        return None
    d = v.get("detail", "") or ""
    if v["name"] == "xpub_order" and "differs from serialize" in d:
        return "K-C10-xpub-network-order"
    return None


# ---------------------------------------------------------------- generators


def repo_vectors():
    """PSBT byte strings in the repository's tests (hex and base64 literals)"""
    out = []
    tdir = os.path.join(os.path.dirname(btx.__file__), "test")
    for fn in ("test_psbt.py", "test_psbt_helper.py"):
        try:
            src = open(os.path.join(tdir, fn)).read()
        except OSError:
            continue
        for m in re.finditer(r"70736274ff[0-9a-f]+", src):
            h = m.group(0)
            if len(h) % 2 == 0:
                out.append(bytes.fromhex(h))
        for m in re.finditer(r"cHNidP8[A-Za-z0-9+/=]+", src):
            try:
                out.append(base64.b64decode(m.group(0)))
            except Exception:  # noqa
                pass
    seen, res = set(), []
    for b in out:
        if b not in seen:
            seen.add(b)
            res.append(b)
    return res


def parse_case(b):
    return ("corr", "parse", [b, table_for_stream(b)])


def mutations(ctx, b, n_trunc, n_flip):
    r = ctx.rng
    offs = range(len(b)) if n_trunc >= len(b) else sorted(r.sample(range(len(b)), n_trunc))
    for o in offs:
        ctx.label("malformed/truncation")
        yield b[:o]
    for _ in range(n_flip):
        o = r.randrange(len(b))
        ctx.label("malformed/byte-flip")
        yield b[:o] + bytes([b[o] ^ (1 << r.randrange(8))]) + b[o + 1:]


def map_mutations(ctx, b):
    r = ctx.rng
    maps = split_maps(b)
    for mi, m in enumerate(maps):
        for ei, (k, v) in enumerate(m):
            ctx.label("malformed/duplicate-entry")
            yield join_maps(maps[:mi] + [m[:ei + 1] + [(k, v)] + m[ei + 1:]] + maps[mi + 1:])
            ctx.label("malformed/duplicate-at-end")
            yield join_maps(maps[:mi] + [m + [(k, v)]] + maps[mi + 1:])
            ctx.label("malformed/key-length")
            yield join_maps(maps[:mi] + [m[:ei] + [(k + b"\x00", v)] + m[ei + 1:]] + maps[mi + 1:])
            if len(k) > 1:
                yield join_maps(maps[:mi] + [m[:ei] + [(k[:-1], v)] + m[ei + 1:]] + maps[mi + 1:])
            ctx.label("malformed/dropped-entry")
            yield join_maps(maps[:mi] + [m[:ei] + m[ei + 1:]] + maps[mi + 1:])
            ctx.label("malformed/empty-value-then-duplicate")
            yield join_maps(maps[:mi] + [m[:ei] + [(k, b""), (k, v)] + m[ei + 1:]] + maps[mi + 1:])
            ctx.label("malformed/value-length")
            yield join_maps(maps[:mi] + [m[:ei] + [(k, v + b"\x00")] + m[ei + 1:]] + maps[mi + 1:])
            if v:
                yield join_maps(maps[:mi] + [m[:ei] + [(k, v[:-1])] + m[ei + 1:]] + maps[mi + 1:])
        if len(m) > 1:
            ctx.label("reordered-entries")
            mm = m[:]
            r.shuffle(mm)
            yield join_maps(maps[:mi] + [mm] + maps[mi + 1:])
            yield join_maps(maps[:mi] + [m[::-1]] + maps[mi + 1:])
        ctx.label("unknown-entry-added")
        yield join_maps(maps[:mi] + [m + [(bytes([r.randrange(10, 256)]) + ctx.rbytes(r.randrange(0, 4)),
                                           ctx.rbytes(r.randrange(0, 9)))]] + maps[mi + 1:])
    if len(maps) > 2:
        ctx.label("malformed/map-dropped")
        yield join_maps(maps[:-1])
        yield join_maps(maps + [[]])


def single_map_cases(ctx, b, full):
    """the input and output maps of a valid PSBT, parsed on their own (PSBTIn.parse / PSBTOut.parse)"""
    p = reparse(b)
    maps = split_maps(b)
    nin = len(p.psbt_ins)
    for i in range(nin):
        raw = join_maps([maps[1 + i]])[5:]
        ti = un_txin(p.tx_obj.tx_ins[i])
        for net in (0, 1, 2):
            yield ("corr", "in_parse", [raw + ctx.rbytes(2), ti, net])
        for bad in itertools.islice(mutations(ctx, raw, len(raw) if full else 25, 30 if full else 8), 0, None):
            yield ("corr", "in_parse", [bad, ti, 0])
        yield ("corr", "in_serialize", [un_in(p.psbt_ins[i])])
        yield ("corr", "in_validate", [un_in(p.psbt_ins[i]), ti])
    for i in range(len(p.psbt_outs)):
        raw = join_maps([maps[1 + nin + i]])[5:]
        to = un_txout(p.tx_obj.tx_outs[i])
        for net in (0, 1, 2):
            yield ("corr", "out_parse", [raw + ctx.rbytes(2), to, net])
        for bad in mutations(ctx, raw, len(raw) if full else 15, 20 if full else 6):
            yield ("corr", "out_parse", [bad, to, 0])
        yield ("corr", "out_serialize", [un_out(p.psbt_outs[i])])
        yield ("corr", "out_validate", [un_out(p.psbt_outs[i]), to])


def derivation_paths(ctx):
    """raw_path values that drive path_network / parse_binary_path / the mixed-network check"""
    H = 0x80000000
    le = lambda x: x.to_bytes(4, "little")  # noqa: E731
    fp = b"\xaa\xbb\xcc\xdd"
    return [fp, fp + le(H + 44), fp + le(H + 48) + le(H + 1), fp + le(H + 84) + le(H), fp + le(H + 49) + le(H + 1),
            fp + le(H + 48) + le(H + 1) + le(H) + le(H + 2) + le(0) + le(5), fp + le(44) + le(1), fp[:3], b"",
            fp + b"\x01", fp + le(H + 48) + b"\x01\x02", fp + le(H + 48) + le(1)]


def kv_cases(ctx):
    r = ctx.rng
    for _ in range(ctx.n(60, 1500)):
        n = r.randrange(0, 6)
        keys = []
        for _ in range(n):
            k = bytes([r.randrange(3, 256)]) + ctx.rbytes(r.choice([0, 0, 1, 2, 5, 33]))
            keys.append(k)
        if keys and r.random() < 0.3:
            keys.append(r.choice(keys))
            ctx.label("kv/duplicate-key")
        ents = [(k, ctx.rbytes(r.choice([0, 0, 1, 3, 20, 253]))) for k in keys]
        s = b"".join(encode_varstr(k) + encode_varstr(v) for k, v in ents) + b"\x00" + ctx.rbytes(r.randrange(0, 3))
        yield ("corr", "kv_parse", [s])
        if r.random() < 0.3:
            yield ("corr", "kv_parse", [s[: r.randrange(0, len(s) + 1)]])
        d = {}
        for k, v in ents:
            d[k] = v
        yield ("corr", "kv_serialize", [un_dict(d)])


def in_map_synthetic(ctx):
    """hand-made input maps around every typed branch: key lengths, duplicates, derivation paths"""
    w = Wallet("p2wsh", 1, 2)
    sec = w.secs[0]
    ti = un_txin(TxIn(b"\x33" * 32, 0))
    e = lambda k, v: encode_varstr(k) + encode_varstr(v)  # noqa: E731
    for path in derivation_paths(ctx):
        for net in (0, 1, 2):
            ctx.label("derivation-path-shapes")
            yield ("corr", "in_parse", [e(b"\x06" + sec, path) + b"\x00", ti, net])
            yield ("corr", "out_parse", [e(b"\x02" + sec, path) + b"\x00", un_txout(TxOut(5, Script([81]))), net])
    ps = derivation_paths(ctx)
    for a in ps[:6]:
        for b in ps[:6]:
            ctx.label("mixed-network-pairs")
            s = e(b"\x06" + w.secs[0], a) + e(b"\x06" + w.secs[1], b) + b"\x00"
            yield ("corr", "in_parse", [s, ti, 0])
    bad_secs = [b"\x02" + b"\x00" * 32, b"\x04" + sec[1:], b"\x02" + b"\xff" * 32, sec[:-1], sec + b"\x00",
                b"\x03" + sec[1:], b"\x02" + (5).to_bytes(32, "big")]
    for s_ in bad_secs:
        ctx.label("derivation-bad-sec")
        yield ("corr", "in_parse", [e(b"\x06" + s_, b"\xaa\xbb\xcc\xdd") + b"\x00", ti, 0])
    for t in range(0, 12):
        for extra in (b"", b"\x00", b"\x01\x02"):
            for val in (b"", b"\x01", b"\x01\x00\x00\x00", b"\x00" * 5, encode_varint(0), b"\x51"):
                ctx.label("typed-key-shapes")
                yield ("corr", "in_parse", [e(bytes([t]) + extra, val) + b"\x00", ti, 0])
                yield ("corr", "in_parse", [e(bytes([t]) + extra, val) + e(bytes([t]) + extra, val) + b"\x00", ti, 0])
                if t < 5:
                    yield ("corr", "out_parse", [e(bytes([t]) + extra, val) + b"\x00",
                                                 un_txout(TxOut(5, Script([81]))), 0])
                    yield ("corr", "out_parse", [e(bytes([t]) + extra, val) * 2 + b"\x00",
                                                 un_txout(TxOut(5, Script([81]))), 0])


def finalize_cases(ctx):
    """in_finalize on every script type with subsets of script-key, foreign-key and empty signatures"""
    r = ctx.rng
    for kind_i, kind in enumerate(KINDS):
        for (m, n) in ([(1, 1)] if kind_i < 3 else [(1, 1), (1, 2), (2, 2), (2, 3), (3, 3), (1, 3)]):
            w = Wallet(kind, m, n, first_key=1)
            p = build_psbt(w, 1, salt=150 + kind_i)
            pin = p.psbt_ins[0]
            ti = un_txin(p.tx_obj.tx_ins[0])
            cands = [s for s in w.secs] + [key(30).point.sec(), key(31).point.sec()]
            for mask in range(1 << len(cands)):
                if bin(mask).count("1") > 4:
                    continue
                pin.sigs = {}
                for j, s in enumerate(cands):
                    if mask >> j & 1:
                        pin.sigs[s] = b"" if r.random() < 0.08 else b"\x30\x06\x02\x01" + bytes([j + 1]) + b"\x02\x01\x01\x01"
                ctx.label(f"finalize/{kind}")
                yield ("corr", "in_finalize", [un_in(pin), ti])
                yield ("corr", "in_serialize", [un_in(pin)])
            # missing scripts / utxo
            pin.sigs = {w.secs[0]: b"\x30\x06\x02\x01\x01\x02\x01\x01\x01"}
            v = un_in(pin)
            for drop in (0, 1, 4, 5):
                v2 = list(v)
                v2[drop] = []
                yield ("corr", "in_finalize", [v2, ti])
            # odd first opcodes in the multisig script
            if kind_i >= 3:
                for op0 in (0, 79, 80, 81, 96, 97, 118, b"\x01"):
                    v2 = [list(x) if isinstance(x, list) else x for x in v]
                    which = 5 if v[5] else 4
                    sc = v[which][0]
                    v2[which] = [[[op0] + list(sc[0][1:]), sc[1]]]
                    yield ("corr", "in_finalize", [v2, ti])


def workflow_grid(ctx):
    quick = ctx.tier == "quick"
    nmax = 3 if quick else 4
    grid = []
    for kind_i in range(3):
        grid.append((kind_i, 1, 1, 1, 0))
        grid.append((kind_i, 1, 1, 2, 1))
    for kind_i in range(3, 6):
        for n in range(1, nmax + 1):
            for m in range(1, n + 1):
                grid.append((kind_i, m, n, 1, 1 if (m + n) % 2 else 0))
        grid.append((kind_i, 2, 3, 2 if quick else 3, 5))
    grid.append((4, 2, 2, 1, 2 | 1 | 4))       # HD wallet, global xpubs, PSBT.sign(hd_priv)
    if not quick:
        grid.append((3, 2, 3, 1, 2 | 4))
        grid.append((5, 1, 2, 2, 2 | 1 | 4))
        for kind_i in range(3):
            grid.append((kind_i, 1, 1, 3, 1))
    return grid


def stage_grid(ctx):
    """(kind, m, n, inputs, flags) for p_stage_orders: all six script types, 2-of-3 for the multisig ones"""
    quick = ctx.tier == "quick"
    grid = [(0, 1, 1, 1, 0), (1, 1, 1, 2, 1), (2, 1, 1, 1, 1)]
    for kind_i in (3, 4, 5):
        grid.append((kind_i, 2, 3, 1, (1 if kind_i != 4 else 0) | (0 if quick else 8)))
        grid.append((kind_i, 1, 2, 2, 0))
    grid.append((5, 2, 2, 1, 2 | 1))          # HD wallet with global xpubs
    if not quick:
        for kind_i in (3, 4, 5):
            grid += [(kind_i, 1, 1, 1, 0), (kind_i, 2, 2, 2, 1), (kind_i, 3, 3, 1, 8), (kind_i, 1, 3, 1, 8),
                     (kind_i, 2, 4, 1, 0)]
        grid += [(0, 1, 1, 3, 1), (1, 1, 1, 3, 0), (2, 1, 1, 2, 0), (3, 2, 3, 2, 2), (4, 2, 3, 1, 2 | 1)]
    return grid


def reuse_grid(ctx):
    """(kind, m, n, inputs, flags, order of signers) for the reused-object workflow"""
    grid = [(0, 1, 1, 2, 1, 0), (1, 1, 1, 1, 0, 0), (2, 1, 1, 2, 1, 0),
            (3, 2, 3, 1, 1, 1), (4, 2, 3, 1, 0, 4), (5, 2, 2, 2, 1, 1),
            (4, 2, 2, 1, 2 | 1, 0)]                      # HD wallet with global xpubs, PSBT.sign(hd_priv)
    if ctx.tier != "quick":
        for kind_i in (3, 4, 5):
            for n in (1, 2, 3):
                for m in range(1, n + 1):
                    for perm in (0, 3, 5):
                        grid.append((kind_i, m, n, 1 + (m + n + perm) % 2, perm % 2, perm))
        grid += [(3, 2, 2, 1, 2, 1), (5, 1, 2, 2, 2 | 1, 1), (0, 1, 1, 3, 0, 0), (1, 1, 1, 3, 1, 0)]
    return list(dict.fromkeys(grid))


def stage_cases(ctx, kind_i, m, n, n_inputs, flags):
    """correspondence cases on the objects of one workflow: serialize / parse / validate / combine /
    finalize / assemble_tx"""
    kind = KINDS[kind_i]
    single = kind_i < 3
    w = Wallet(kind, m, n, first_key=(kind_i * 5 + m + 3 * n) % 11, hd=bool(flags & 2))
    p = build_psbt(w, n_inputs, salt=kind_i * 16 + m * 4 + n, extras=bool(flags & 1))
    base = p.serialize()
    yield ("corr", "serialize", [un_psbt(p)])
    yield parse_case(base)
    yield ("corr", "validate", [un_psbt(p), oracle_table(p)])
    signed = [sign_as(base, w, j) for j in range(1 if single else n)]
    objs = [reparse(b) for b in signed]
    for b, o in zip(signed, objs):
        yield parse_case(b)
        yield ("corr", "serialize", [un_psbt(o)])
    if len(objs) >= 2:
        yield ("corr", "combine", [un_psbt(objs[0]), un_psbt(objs[1])])
        yield ("corr", "combine", [un_psbt(objs[1]), un_psbt(objs[0])])
    yield ("corr", "combine", [un_psbt(objs[0]), un_psbt(reparse(base))])
    yield ("corr", "combine", [un_psbt(reparse(base)), un_psbt(objs[0])])
    # the Creator's bare PSBT (no update) as accumulator and as argument
    bare = PSBT.create(Tx.parse(BytesIO(p.tx_obj.serialize_legacy()), network="mainnet")).serialize()
    for other in (base, signed[-1]):
        yield ("corr", "combine", [un_psbt(reparse(bare)), un_psbt(reparse(other))])
        yield ("corr", "combine", [un_psbt(reparse(other)), un_psbt(reparse(bare))])
    full = reparse(combine_bytes(base, signed))
    yield ("corr", "validate", [un_psbt(full), oracle_table(full)])
    yield ("corr", "finalize", [un_psbt(full)])
    yield ("corr", "finalize", [un_psbt(reparse(base))])
    fin = reparse(combine_bytes(base, signed))
    fin.finalize()
    yield ("corr", "serialize", [un_psbt(fin)])
    yield ("corr", "assemble_tx", [un_psbt(fin)])
    yield ("corr", "assemble_tx", [un_psbt(full)])
    yield ("corr", "validate", [un_psbt(fin), oracle_table(fin)])
    yield parse_case(fin.serialize())
    # a different unsigned transaction cannot be combined
    other = build_psbt(w, n_inputs, salt=255 - kind_i)
    yield ("corr", "combine", [un_psbt(reparse(base)), un_psbt(other)])
    ctx.label(f"stages/{kind}")


def generate(ctx):
    r = ctx.rng
    quick = ctx.tier == "quick"
    # ---- regression / targeted predicates first
    for kind_i in (0, 1, 4):
        yield ("prop", "segwit_flag", [kind_i, 1 + kind_i % 2])
        yield ("prop", "scriptsig_rejected", [kind_i, kind_i])
    yield ("prop", "inmem_p2sh_p2wpkh", [1])
    yield ("prop", "inmem_p2sh_p2wpkh", [2])
    yield ("prop", "xpub_order", [0])
    yield ("prop", "xpub_order", [1])
    for kind_i in (1, 2, 4, 5):
        yield ("prop", "nonwitness_utxo_segwit", [kind_i])
    # ---- combine over PSBTs of different workflow stages (bare, updated, signed), every accumulator, every order
    for g in stage_grid(ctx):
        ctx.label(f"stage-orders/{KINDS[g[0]]}")
        yield ("prop", "stage_orders", list(g))
    # ---- the workflow on ONE reused object per role (signer, accumulator, finaliser, editor)
    for g in reuse_grid(ctx):
        ctx.label(f"reuse-workflow/{KINDS[g[0]]}")
        yield ("prop", "reuse_workflow", list(g))
    # ---- generic key-value layer and hand-made maps
    yield from kv_cases(ctx)
    yield from in_map_synthetic(ctx)
    # ---- finaliser
    yield from finalize_cases(ctx)
    for kind_i in (3, 4, 5):
        for (m, n) in ((2, 2), (2, 3), (3, 3)) if quick else ((1, 1), (1, 2), (2, 2), (2, 3), (3, 3), (2, 4), (4, 4)):
            for k in range(0, m + 1):
                for f in (0, 1, 2):
                    if k + f == 0 or k + f > n + 1:
                        continue
                    ctx.label("threshold/foreign-keys" if f else "threshold/script-keys")
                    yield ("prop", "finalize_threshold", [kind_i, m, n, k, f])
    # ---- workflows
    grid = workflow_grid(ctx)
    for (kind_i, m, n, n_inputs, flags) in grid:
        ctx.label(f"workflow/{KINDS[kind_i]}")
        yield ("prop", "workflow", [kind_i, m, n, n_inputs, flags])
    stage_sel = [g for g in grid if (not quick or (g[3] == 1 and g[1] in (1, 2)))]
    vectors = []
    for g in stage_sel:
        for c in stage_cases(ctx, *g):
            if c[1] == "parse":
                vectors.append(c[2][0])
            yield c
    # ---- corrupted partial signatures
    for kind_i in range(6):
        for mode in range(4):
            m, n = (1, 1) if kind_i < 3 else (2, 3)
            for pos in ([3] if quick else [3, 11, 29]):
                ctx.label("bad-partial-signature")
                yield ("prop", "bad_sig", [kind_i, m, n, mode, pos])
    # ---- repository vectors
    for b in repo_vectors():
        ctx.label("repo-vector")
        yield ("prop", "reserialize", [b])
        yield parse_case(b)
    # ---- malformed streams derived from valid PSBTs
    small = [v for v in vectors if len(v) < 700]
    r.shuffle(small)
    for b in small[: ctx.n(3, 12)]:
        for bad in map_mutations(ctx, b):
            yield parse_case(bad)
            yield ("prop", "reserialize", [bad])
        for bad in mutations(ctx, b, ctx.n(40, 2000), ctx.n(30, 300)):
            yield parse_case(bad)
    for b in vectors[: ctx.n(4, 20)]:
        yield from single_map_cases(ctx, b, not quick)
    for _ in range(ctx.n(30, 500)):
        yield parse_case(b"psbt\xff" + ctx.rbytes(r.randrange(0, 40)))
        yield parse_case(ctx.rbytes(r.randrange(0, 12)))
