"""C17 — Merkle roots, BIP37 partial Merkle trees, header proof-of-work / compact bits / retarget."""
import hashlib
import itertools
import math
import struct
from fractions import Fraction
from io import BytesIO

from buidl import helper, block, network, merkleblock
from buidl.merkleblock import MerkleTree, MerkleBlock
from buidl.block import Block
from vp.sexp import ERR

PID = "C17"
RULE = ("Merkle/BIP37: exhaustively every tree size 1..8 (quick) / 1..10 (thorough) x all 2^n match subsets, sampled "
        "sizes up to 5000 leaves (thorough), proofs built by an independent Python builder and by the extracted Coq "
        "spec builder, fed to the real MerkleBlock.parse/is_valid and MerkleTree.populate_tree; every single-bit "
        "alteration of every hash, every flag bit, the 32 bits of total and the 256 bits of the root, plus every "
        "dropped / duplicated / foreign extra hash, of sampled proofs.  PoW: every exponent 0..35 and 255 x boundary "
        "coefficients, targets 2^k, 2^k+-1, time differentials around TWO_WEEKS/4 and TWO_WEEKS*4 (+-1), random "
        "80-byte headers, header chains with broken links / failing PoW.")
RULE += ("  Whole blocks: hand-written blocks (struct/hashlib only; legacy-only, segwit-only, mixed, one segwit transaction at "
         "every position, 1..9/16/17/252/253 transactions, duplicated transactions, ten transaction shapes incl. coinbases, "
         "taproot, long witness items) through Block.parse from a stream with a consumed prefix and trailing bytes: tx_hashes = "
         "txs[i].hash() = double-SHA256 of the witness-stripped bytes, validate_merkle_root() true exactly for the consensus "
         "root of the txids (false for the wtxid root, altered / byte-swapped roots), the same through parse_header(stream/hex) "
         "+ assigned tx_hashes, the constructor, Tx.parse alone, the block's merkleblock and headers messages; several blocks "
         "in one stream with in-place edits of tx_hashes.")
RULE += ("  Reuse: ONE MerkleBlock / Block / HeadersMessage object queried repeatedly with in-place edits of every public "
         "field in between (hashes, flags, total, root; the six header fields; the header list), two MerkleTree / "
         "MerkleBlock objects filled alternately, merkle_root on one list object edited between calls, compact-bits and "
         "tree-size functions called in sequences; each answer compared with a fresh object and the references.")
RULE += ("  Entry-point audit: header chains whose headers DIFFER in bits (a header passing tight bits followed by headers "
         "that pass only their own looser bits and the reverse; a first / middle / last header that fails its own bits but "
         "would pass a neighbour's), links to the wrong element (grandparent, the same header twice, reversed order, "
         "prev_block all-zero / all-ff in the middle, other byte order, predecessor's prev_block / merkle_root), a "
         "non-zero transaction count after every header position, 253 / 300 (thorough: 2000) headers (0xfd count form), "
         "headers of one byte class (all-zero, all-ff); leaves all equal (exhaustively all match subsets up to 5 leaves), "
         "all-zero, all-ff, equal pairs / quads at the end, first = last, with tampering; header roots all-zero / all-ff / "
         "a leaf / an interior node; all-zero / all-ff flag bytes; MerkleBlock.hash()/id(); Block(...) called positionally "
         "and with txs / tx_hashes left out (two such objects share nothing); parse_header with both stream and hex; a block "
         "with a transaction count of zero; an earlier proved_txs() list after the same object validated another proof; a "
         "failed validation followed by a retry; a second proof put into one complete MerkleTree; HeadersMessage.is_valid "
         "leaves the caller's list and headers alone; flagged compact bits repeated between ordinary ones; "
         "SimpleNode.get_filtered_txs over a recorded conversation (honest answers of several blocks; answers in the other "
         "order, a proof that does not hash to the header root, an altered proof hash, a foreign transaction, swapped "
         "transactions must raise).")
TRUSTED = ["hashlib (sha256) — hash256 is a universally quantified function in the theorems",
           "modelled, not verified: object plumbing of MerkleBlock/Block/HeadersMessage; CPython's int / int true "
           "division is taken to be the correctly rounded (nearest, ties to even) double of the exact quotient, which "
           "is what Model/Difficulty.v computes and the harness checks on every case",
           "the cursor machine MerkleTree.populate_tree is modelled faithfully (Model/MerkleBlock.v populate_loop); its "
           "equality with the recursive traversal used in the theorems is PROVED for all inputs "
           "(Proofs/MerkleRefineGen.v); both models are also run against the implementation on every generated case"]
ASSUMPTIONS = ["hash256 has 32-byte output (populate_tree refuses proof hashes of any other length since 5e35f6e, so "
               "the soundness theorems need no premise on the proof)",
               "MerkleTree level sizes use float division math.ceil(total / 2**k): exact for total < 2^53 "
               "(the wire field is 32 bits); totals above 100000 are not allocated by the harness; the depth "
               "formula alone is exercised up to 2^64 through an int subclass that aborts before allocation"]
BUDGET_S = {"quick": 600, "thorough": 3000}

Z32 = b"\x00" * 32


def h256(b):
    return hashlib.sha256(hashlib.sha256(b).digest()).digest()


# ------------------------------------------------------------------ independent references

def ref_levels(leaves):
    """all levels of the consensus Merkle tree: pairwise double-SHA256, last element duplicated on odd levels"""
    levels = [list(leaves)]
    while len(levels[-1]) > 1:
        cur = levels[-1]
        if len(cur) & 1:
            cur = cur + [cur[-1]]
        levels.append([h256(cur[i] + cur[i + 1]) for i in range(0, len(cur), 2)])
    return levels


def ref_root(leaves):
    return ref_levels(leaves)[-1][0]


def ref_build(leaves, matches):
    """BIP37 partial merkle tree builder (independent of buidl and of the Coq spec): returns
    (total, flag bit list, hashes in internal order, flag bytes)"""
    n = len(leaves)
    levels = ref_levels(leaves)
    height = len(levels) - 1
    bits, hashes = [], []

    def rec(h, pos):
        lo, hi = pos << h, min((pos + 1) << h, n)
        pm = any(matches[lo:hi])
        bits.append(1 if pm else 0)
        if h == 0 or not pm:
            hashes.append(levels[h][pos])
        else:
            rec(h - 1, 2 * pos)
            if 2 * pos + 1 < len(levels[h - 1]):
                rec(h - 1, 2 * pos + 1)

    rec(height, 0)
    flags = bytearray((len(bits) + 7) // 8)
    for i, b in enumerate(bits):
        flags[i // 8] |= b << (i % 8)
    return n, bits, hashes, bytes(flags)


def core_set_compact(n):
    size = n >> 24
    word = n & 0x007FFFFF
    if size <= 3:
        word >>= 8 * (3 - size)
        val = word
    else:
        val = (word << (8 * (size - 3))) & (2 ** 256 - 1)
    neg = word != 0 and (n & 0x00800000) != 0
    ovf = word != 0 and (size > 34 or (word > 0xFF and size > 33) or (word > 0xFFFF and size > 32))
    return val, neg, ovf


def core_get_compact(v):
    size = (v.bit_length() + 7) // 8
    if size <= 3:
        c = ((v & (2 ** 64 - 1)) << (8 * (3 - size))) & 0xFFFFFFFF
    else:
        c = ((v >> (8 * (size - 3))) & (2 ** 64 - 1)) & 0xFFFFFFFF
    if c & 0x00800000:
        c >>= 8
        size += 1
    return c | (size << 24)


POW_LIMIT = 2 ** 224 - 1
TIMESPAN = 14 * 24 * 60 * 60


def core_next_work(nbits, ts):
    if ts < TIMESPAN // 4:
        ts = TIMESPAN // 4
    if ts > TIMESPAN * 4:
        ts = TIMESPAN * 4
    bn = core_set_compact(nbits)[0]
    bn = (bn * ts) & (2 ** 256 - 1)
    bn //= TIMESPAN
    if bn > POW_LIMIT:
        bn = POW_LIMIT
    return core_get_compact(bn)


def core_check_pow(hsh, nbits):
    t, neg, ovf = core_set_compact(nbits)
    if neg or t == 0 or ovf or t > POW_LIMIT:
        return False
    return not hsh > t


def compact_guard(bits):
    """the usual domain (exponent >= 3, sign bit clear, no overflow) — before the fix de6be4c the only one on which
    helper.bits_to_target agreed with Core SetCompact; now used to label cases and to pick ordinary headers"""
    if len(bits) != 4:
        return False
    n = int.from_bytes(bits, "little")
    _, neg, ovf = core_set_compact(n)
    return bits[3] >= 3 and not (n & 0x00800000) and not ovf


# ------------------------------------------------------------------ implementation adapters

def _blk(v, p, m, t, b, n):
    return Block(v, p, m, t, b, n)


def i_merkle_parent_level(l):
    lst = list(l)
    p = helper.merkle_parent_level(lst)
    return [p, lst]


def i_merkle_root(l):
    lst = list(l)
    r = helper.merkle_root(lst)
    return [r, lst]


def i_validate_merkle_root(root, hashes):
    b = Block(1, Z32, root, 0, b"\xff\xff\x00\x1d", b"\x00" * 4, tx_hashes=list(hashes))
    return b.validate_merkle_root()


class _Stop(Exception):
    pass


class _NoAlloc(int):
    """an int whose true division aborts: MerkleTree.__init__ computes max_depth first and only then
    sizes the levels with self.total / 2**k, so the depth formula runs without any allocation"""

    def __truediv__(self, other):
        raise _Stop()


def i_mt_depth(total):
    t = MerkleTree.__new__(MerkleTree)
    try:
        t.__init__(_NoAlloc(total))
    except _Stop:
        pass
    return t.max_depth


def i_mt_shape(total):
    t = MerkleTree(total)
    return [t.max_depth, [len(x) for x in t.nodes]]


def i_populate(total, bits, hashes):
    t = MerkleTree(total)
    t.populate_tree(list(bits), list(hashes))
    return [t.root(), t.proved_txs]


def _mb(root, total, hashes, flags):
    hdr = Block(1, Z32, root, 0, b"\xff\xff\x00\x1d", b"\x00" * 4)
    return MerkleBlock(hdr, total, list(hashes), flags)


def i_mb_is_valid(root, total, hashes, flags):
    mb = _mb(root, total, hashes, flags)
    ok = mb.is_valid()
    return [ok, mb.proved_txs()]


def _hdr(h):
    return [h.version, h.prev_block, h.merkle_root, h.timestamp, h.bits, h.nonce]


def i_mb_parse(s):
    st = BytesIO(s)
    mb = MerkleBlock.parse(st)
    return [_hdr(mb.header), mb.total, list(mb.hashes), mb.flags, st.read()]


def i_bip37_build(leaves, matches):
    n, bits, hashes, flags = ref_build(leaves, matches)
    return [n, bits, hashes, flags]


def i_bits_to_target(b):
    x = helper.bits_to_target(b)
    assert type(x) is int
    return [0, x]


def i_headers_is_valid(l):
    return network.HeadersMessage([_blk(*f) for f in l]).is_valid()


def i_difficulty(bits):
    """Block.difficulty() as the exact rational the returned double stands for"""
    x = Block(1, Z32, Z32, 0, bits, b"\x00" * 4).difficulty()
    assert type(x) is float
    return list(x.as_integer_ratio())


def i_populate_mut(total, bits, hashes):
    """populate_tree pops from the caller's lists: also report what is left in them"""
    fb, hl = list(bits), list(hashes)
    t = MerkleTree(total)
    t.populate_tree(fb, hl)
    return [t.root(), t.proved_txs, fb, hl]


def i_mb_parse_is_valid(s):
    mb = MerkleBlock.parse(BytesIO(s))
    ok = mb.is_valid()
    return [ok, mb.proved_txs()]


def i_headers_parse_is_valid(s):
    return network.HeadersMessage.parse(BytesIO(s)).is_valid()


def _cs(n):
    """CompactSize, written out independently of helper.encode_varint"""
    if n < 253:
        return bytes([n])
    if n <= 0xFFFF:
        return b"\xfd" + struct.pack("<H", n)
    if n <= 0xFFFFFFFF:
        return b"\xfe" + struct.pack("<I", n)
    return b"\xff" + struct.pack("<Q", n)


def wire_merkleblock(hb, total, hashes_internal, flags):
    """Core's CMerkleBlock layout: header | uint32 nTransactions | vHash | vBits bytes"""
    return hb + struct.pack("<I", total) + _cs(len(hashes_internal)) + b"".join(hashes_internal) + _cs(len(flags)) + flags


def i_merkleblock_of_block(hb, leaves, matches):
    total, bits, hashes, flags = ref_build(leaves, [bool(m) for m in matches])
    return wire_merkleblock(hb, total, hashes, flags)


def wire_headers(fields):
    """what a peer sends in a "headers" message: count, then 80-byte header + a zero transaction count each"""
    out = _cs(len(fields))
    for v, p, m, t, b, n in fields:
        out += struct.pack("<I", v) + p[::-1] + m[::-1] + struct.pack("<I", t) + b + n + b"\x00"
    return out


IMPL = {
    "merkle_parent": lambda a, b: helper.merkle_parent(a, b),
    "merkle_parent_level": i_merkle_parent_level,
    "merkle_root": i_merkle_root,
    "consensus_root": lambda l: helper.merkle_root(list(l)),
    "validate_merkle_root": i_validate_merkle_root,
    "bytes_to_bit_field": lambda b: helper.bytes_to_bit_field(b),
    "bit_field_to_bytes": lambda l: helper.bit_field_to_bytes(list(l)),
    "mt_shape": i_mt_shape,
    "mt_depth": i_mt_depth,
    "populate": i_populate,
    "populate_rec": i_populate,
    "mb_is_valid": i_mb_is_valid,
    "mb_is_valid_rec": i_mb_is_valid,
    "mb_parse": i_mb_parse,
    "bip37_build": i_bip37_build,
    "bits_to_target": i_bits_to_target,
    "target_to_bits": lambda t: helper.target_to_bits(t),
    "calculate_new_bits": lambda b, td: helper.calculate_new_bits(b, td),
    "block_hash": lambda *f: _blk(*f).hash(),
    "check_pow": lambda *f: _blk(*f).check_pow(),
    "headers_is_valid": i_headers_is_valid,
    "difficulty": i_difficulty,
    "populate_mut": i_populate_mut,
    "populate_rec_mut": i_populate_mut,
    "mb_parse_is_valid": i_mb_parse_is_valid,
    "headers_parse_is_valid": i_headers_parse_is_valid,
    "merkleblock_bytes": wire_merkleblock,
    "merkleblock_of_block": i_merkleblock_of_block,
    "core_set_compact": lambda n: list(core_set_compact(n)),
    "core_get_compact": core_get_compact,
    "core_next_work": core_next_work,
    "core_check_pow": core_check_pow,
}

# ------------------------------------------------------------------ the extracted spec builder (for PROPS)

_DRV = None


def spec_build(leaves, matches):
    """BIP37 proof from the EXTRACTED Coq spec (Spec/Bip37.v build)"""
    global _DRV
    if _DRV is None:
        from vp import build
        from vp.driver import Driver
        _DRV = Driver(build.build_driver(PID))
    total, bits, hashes, flags = _DRV.call("bip37_build", list(leaves), [1 if m else 0 for m in matches])
    return total, bits, hashes, flags


# ------------------------------------------------------------------ property predicates

def _raw_merkleblock(root, total, hashes_internal, flags):
    hdr = Block(1, Z32, root, 0, b"\xff\xff\x00\x1d", b"\x00" * 4).serialize()
    return hdr + struct.pack("<I", total) + helper.encode_varint(len(hashes_internal)) + \
        b"".join(hashes_internal) + helper.encode_varint(len(flags)) + flags


class _SparseLevel:
    """stand-in for one level list of MerkleTree.nodes that stores only the entries that are set"""

    def __init__(self, n):
        self.n = n
        self.d = {}

    def __len__(self):
        return self.n

    def __getitem__(self, i):
        if not -self.n <= i < self.n:
            raise IndexError(i)
        return self.d.get(i % self.n)

    def __setitem__(self, i, v):
        if not -self.n <= i < self.n:
            raise IndexError(i)
        self.d[i % self.n] = v


MAX_ALLOC_TOTAL = 100000


def sparse_tree(total):
    """a MerkleTree for a total too large to allocate: the real populate_tree/up/left/right/... run on
    sparse level objects of the sizes MerkleTree.__init__ would have allocated"""
    t = MerkleTree.__new__(MerkleTree)
    t.total = total
    t.max_depth = i_mt_depth(total)
    t.nodes = [_SparseLevel(-(-total // 2 ** (t.max_depth - d))) for d in range(t.max_depth + 1)]
    t.current_depth = 0
    t.current_index = 0
    t.proved_txs = []
    return t


def _validate(root, total, hashes_internal, flags, via_parse=True):
    """returns ('ok', proved) / ('invalid', proved) / ('raise', None)"""
    try:
        if total > MAX_ALLOC_TOTAL:
            # MerkleBlock.is_valid line by line, on a sparse tree (no multi-gigabyte allocation)
            t = sparse_tree(total)
            t.populate_tree(helper.bytes_to_bit_field(flags), list(hashes_internal))
            return ("ok" if t.root()[::-1] == root else "invalid"), list(t.proved_txs)
        if via_parse and 0 <= total < 2 ** 32 and all(len(h) == 32 for h in hashes_internal):
            mb = MerkleBlock.parse(BytesIO(_raw_merkleblock(root, total, hashes_internal, flags)))
        else:
            mb = _mb(root, total, [h[::-1] for h in hashes_internal], flags)
        ok = mb.is_valid()
    except Exception:
        return "raise", None
    return ("ok" if ok else "invalid"), list(mb.proved_txs())


def p_root_ref(leaves):
    lst = list(leaves)
    r = helper.merkle_root(lst)
    if r != ref_root(leaves):
        return "merkle_root differs from the consensus Merkle root"
    if lst[: len(leaves)] != list(leaves):
        return "merkle_root changed an element of its argument"
    r2 = helper.merkle_root(lst)
    if r2 != r:
        return "a second merkle_root call on the (mutated) argument gives a different root"
    ids = [x[::-1] for x in leaves]
    if not i_validate_merkle_root(r[::-1], ids):
        return "validate_merkle_root rejects the true root"
    if len(leaves) > 1 or True:
        bad = bytearray(r[::-1])
        bad[0] ^= 1
        if i_validate_merkle_root(bytes(bad), ids):
            return "validate_merkle_root accepts a wrong root"
    return None


def _complete(leaves, matches, builder):
    total, bits, hashes, flags = builder(leaves, matches)
    root = ref_root(leaves)[::-1]
    want = [x[::-1] for x, m in zip(leaves, matches) if m]
    st, proved = _validate(root, total, hashes, flags)
    if st != "ok":
        return f"honest BIP37 proof ({len(leaves)} leaves, {sum(map(bool, matches))} matched) does not validate: {st}"
    if proved != want:
        return "proved_txs differs from the matched ids in order"
    # MerkleTree directly
    t = MerkleTree(total)
    try:
        t.populate_tree(helper.bytes_to_bit_field(flags), list(hashes))
    except Exception as e:
        return "populate_tree raised on an honest proof: " + repr(e)
    if t.root() != ref_root(leaves) or t.proved_txs != want:
        return "MerkleTree root/proved_txs wrong on an honest proof"
    return None


def p_proof_complete(leaves, matches):
    return _complete(leaves, matches, ref_build)


def p_proof_complete_spec(leaves, matches):
    a = spec_build(leaves, matches)
    b = ref_build(leaves, matches)
    if list(a) != list(b):
        return "extracted spec builder and the harness builder disagree"
    return _complete(leaves, matches, spec_build)


def _alter(total, hashes, flags, root, kind, idx, bit, extra):
    hashes = list(hashes)
    if kind == 0:      # flip one bit of hash idx
        h = bytearray(hashes[idx])
        h[bit // 8] ^= 1 << (bit % 8)
        hashes[idx] = bytes(h)
    elif kind == 1:    # flip flag bit idx
        f = bytearray(flags)
        f[idx // 8] ^= 1 << (idx % 8)
        flags = bytes(f)
    elif kind == 2:    # flip bit of total
        total ^= 1 << bit
    elif kind == 3:    # flip bit of the header root
        r = bytearray(root)
        r[bit // 8] ^= 1 << (bit % 8)
        root = bytes(r)
    elif kind == 4:    # drop hash idx
        del hashes[idx]
    elif kind == 5:    # insert an extra hash before idx
        hashes.insert(idx, extra)
    elif kind == 6:    # append a flag byte
        flags = flags + extra[:1]
    return total, hashes, flags, root


def p_tamper(leaves, total, hashes, flags, kind, idx, bit, extra):
    """an altered proof must fail (False / raise) or still yield only ids of the block; a changed hash or a
    changed root must always fail"""
    root = ref_root(leaves)[::-1]
    ids = {x[::-1] for x in leaves}
    t2, h2, f2, r2 = _alter(total, hashes, flags, root, kind, idx, bit, extra)
    if (t2, h2, f2, r2) == (total, list(hashes), flags, root):
        return None
    st, proved = _validate(r2, t2, h2, f2)
    if st != "ok":
        return None
    foreign = [p for p in proved if p not in ids]
    if foreign:
        return (f"altered proof (kind={kind} idx={idx} bit={bit}, total {total}->{t2}) validates and yields "
                f"{len(foreign)} id(s) that are not in the block, e.g. {foreign[0].hex()}")
    if kind in (0, 3, 4, 5):
        # C17_proof_hash_tamper_detected / C17_proof_root_tamper_detected: with total and flags unchanged no other
        # hash list (changed, shorter, longer) and no other root validates
        what = {0: "an altered hash", 3: "an altered root", 4: "a dropped hash", 5: "an inserted hash"}[kind]
        return f"proof with {what} still validates (kind={kind} idx={idx} bit={bit})"
    if t2 == total and not _is_subsequence(proved, [x[::-1] for x in leaves]):
        # C17_proof_sound_ordered: with the authentic total the yield is a sub-sequence of the block's ids
        return (f"altered proof (kind={kind} idx={idx}) validates and yields the block's ids out of block order")
    return None


def _is_subsequence(sub, seq):
    it = iter(seq)
    return all(any(x == y for y in it) for x in sub)


def p_wire_complete(leaves, matches, fields, rest):
    """C17_wire_proof_complete on the implementation: the message a full node builds for (block, match vector),
    under an arbitrary well-formed header carrying the block's Merkle root, parses back to that header and the
    authentic total, leaves `rest` in the stream, validates and yields exactly the matched ids in order"""
    root = ref_root(leaves)[::-1]
    v, pv, _m, t, b, n = fields
    hb = struct.pack("<I", v) + pv[::-1] + root[::-1] + struct.pack("<I", t) + b + n
    total, bits, hashes, flags = ref_build(leaves, matches)
    st = BytesIO(wire_merkleblock(hb, total, hashes, flags) + rest)
    try:
        mb = MerkleBlock.parse(st)
    except Exception as e:
        return "MerkleBlock.parse raised on an honest merkleblock message: " + repr(e)
    if _hdr(mb.header) != [v, pv, root, t, b, n]:
        return "MerkleBlock.parse returns a different header"
    if mb.total != len(leaves) or list(mb.hashes) != [h[::-1] for h in hashes] or mb.flags != flags:
        return "MerkleBlock.parse returns a different total / hash list / flag field"
    if st.read() != rest:
        return "MerkleBlock.parse consumed bytes after the message"
    if mb.proved_txs() != []:
        return "proved_txs() before is_valid() is not empty"
    try:
        ok = mb.is_valid()
    except Exception as e:
        return "is_valid raised on an honest merkleblock message: " + repr(e)
    if not ok:
        return "honest merkleblock message does not validate"
    if mb.proved_txs() != [x[::-1] for x, m in zip(leaves, matches) if m]:
        return "proved_txs differs from the matched ids in order"
    if any(len(h) != 32 for h in mb.hashes):
        return "MerkleBlock.parse returned a hash that is not 32 bytes long"
    return None


def p_populate_lists(total, bits, hashes):
    """C17_populate_tree_consumes_lists: after a successful populate_tree the caller's hash list is empty and the
    flag list is a suffix of what was passed, holding only zeros"""
    fb, hl = list(bits), list(hashes)
    t = MerkleTree(total)
    try:
        t.populate_tree(fb, hl)
    except Exception:
        return None
    if hl != []:
        return "populate_tree returned with hashes left in the caller's list"
    if any(x != 0 for x in fb):
        return "populate_tree returned with a non-zero flag bit left"
    if len(fb) > len(bits) or list(bits)[len(bits) - len(fb):] != fb:
        return "the flag list after populate_tree is not a suffix of the list passed in"
    # a second call on the same (complete) tree with the left-over lists changes nothing
    root, proved = t.root(), list(t.proved_txs)
    try:
        t.populate_tree(fb, hl)
    except Exception as e:
        return "second populate_tree on a complete tree raised " + repr(e)
    if t.root() != root or t.proved_txs != proved:
        return "second populate_tree on a complete tree changed root / proved_txs"
    return None


def p_headers_wire(fields, rest):
    """C17_wire_headers / C17_header_chain_decides: HeadersMessage.parse(layout).is_valid() is the reference chain
    validity of the headers sent"""
    st = BytesIO(wire_headers(fields) + rest)
    try:
        msg = network.HeadersMessage.parse(st)
    except Exception as e:
        return "HeadersMessage.parse raised on a well-formed headers message: " + repr(e)
    if [_hdr(h) for h in msg.headers] != [list(f) for f in fields]:
        return "HeadersMessage.parse returns different headers"
    if st.read() != rest:
        return "HeadersMessage.parse consumed bytes after the message"
    try:
        got = msg.is_valid()
    except Exception as e:
        return "HeadersMessage.is_valid raised on well-formed headers: " + repr(e)
    want = _ref_chain_valid(fields)
    if got != want:
        return f"HeadersMessage.parse(...).is_valid() = {got}, reference = {want}"
    return None


def forge_total(leaves):
    """K-C17-total: present the level-1 nodes of the block's tree as the leaves of a tree with
    total' = ceil(n/2).  Returns (total', hashes internal, flags, forged ids)"""
    lv = ref_levels(leaves)
    lvl1 = lv[1]
    n2, bits, hashes, flags = ref_build(lvl1, [True] * len(lvl1))
    return n2, hashes, flags, [x[::-1] for x in lvl1]


def p_total_forgery(leaves):
    if len(leaves) < 2:
        return None
    root = ref_root(leaves)[::-1]
    ids = {x[::-1] for x in leaves}
    n2, hashes, flags, forged = forge_total(leaves)
    st, proved = _validate(root, n2, hashes, flags)
    if st == "ok":
        foreign = [p for p in proved if p not in ids]
        if foreign:
            return (f"a merkleblock for a {len(leaves)}-transaction block announcing total={n2} validates against "
                    f"the true root and proves {len(foreign)} interior node(s) as transaction ids, e.g. {foreign[0].hex()}")
    return None


def p_hashlen_split(la, lb):
    """regression for the fix 5e35f6e (former K-C17-hashlen): a MerkleBlock OBJECT (not obtainable from
    MerkleBlock.parse) whose two hashes are 33 and 31 bytes long would split la||lb elsewhere; total is the
    authentic 2; is_valid must not accept it"""
    root = h256(la + lb)[::-1]
    mb = _mb(root, 2, [(la + lb[:1])[::-1], lb[1:][::-1]], b"\x07")
    try:
        ok = mb.is_valid()
    except Exception:
        return None
    ids = {la[::-1], lb[::-1]}
    foreign = [p for p in mb.proved_txs() if p not in ids]
    if ok and foreign:
        return ("a MerkleBlock object with a 33-byte and a 31-byte hash validates for a 2-transaction block (authentic "
                "total) and proves %d string(s) that are not transaction ids" % len(foreign))
    return None


def p_bitfield_rt(b):
    bits = helper.bytes_to_bit_field(b)
    if len(bits) != 8 * len(b) or any((b[i // 8] >> (i % 8)) & 1 != bits[i] for i in range(len(bits))):
        return "bytes_to_bit_field layout"
    if helper.bit_field_to_bytes(bits) != b:
        return "bit field does not round-trip"
    return None


def p_depth_formula(total):
    d = i_mt_depth(total)
    want = 0
    while (1 << want) < total:
        want += 1
    if d != want:
        return f"MerkleTree({total}).max_depth = {d}, ceil(log2(total)) = {want}"
    return None


def p_compact_ref(bits):
    """bits_to_target = Core SetCompact on every four-byte value: the same int when Core flags neither negative nor
    overflow, ValueError exactly when it flags either (C17_compact_eq_core_all)"""
    n = int.from_bytes(bits, "little")
    val, neg, ovf = core_set_compact(n)
    try:
        x = helper.bits_to_target(bits)
    except ValueError:
        if neg or ovf:
            return None
        return f"bits_to_target({bits.hex()}) raised ValueError; Core SetCompact gives {val:#x} without a flag"
    except Exception as e:
        return "bits_to_target raised " + type(e).__name__
    if type(x) is not int:
        return f"bits_to_target({bits.hex()}) is a {type(x).__name__} ({x!r}); Core SetCompact gives {val}"
    if neg or ovf or x != val:
        return (f"bits_to_target({bits.hex()}) = {x:#x}; Core SetCompact gives {val:#x} negative={neg} overflow={ovf}")
    return None


def p_compact_rt(target):
    want = core_get_compact(target)
    try:
        b = helper.target_to_bits(target)
    except Exception as e:
        return f"target_to_bits({target:#x}) raised {type(e).__name__}; Core GetCompact gives {want:#010x}"
    if len(b) != 4 or int.from_bytes(b, "little") != want:
        return f"target_to_bits({target:#x}) = {b.hex()}; Core GetCompact gives {want:#010x}"
    # decoding the compact form gives what Core decodes
    if helper.bits_to_target(b) != core_set_compact(want)[0]:
        return "bits_to_target(target_to_bits(t)) differs from SetCompact(GetCompact(t))"
    return None


def p_retarget_ref(bits, td):
    """calculate_new_bits = Core CalculateNextWorkRequired for every previous bits value Core accepts (no flag,
    target <= powLimit: C17_retarget_eq_consensus_all); flagged bits raise ValueError; for unflagged targets above
    powLimit (where Core's 256-bit product may wrap) the consensus formula in unbounded integers"""
    n = int.from_bytes(bits, "little")
    val, neg, ovf = core_set_compact(n)
    try:
        b = helper.calculate_new_bits(bits, td)
    except ValueError:
        if neg or ovf:
            return None
        return f"calculate_new_bits({bits.hex()}, {td}) raised ValueError on bits that SetCompact does not flag"
    except Exception as e:
        return f"calculate_new_bits({bits.hex()}, {td}) raised {type(e).__name__}"
    if neg or ovf:
        return f"calculate_new_bits({bits.hex()}, {td}) accepted bits that SetCompact flags negative/overflow"
    if val <= POW_LIMIT:
        want = core_next_work(n, td)
    else:
        ts = min(max(td, TIMESPAN // 4), TIMESPAN * 4)
        want = core_get_compact(min(val * ts // TIMESPAN, 0xFFFF * 256 ** (0x1D - 3)))
    if len(b) != 4 or int.from_bytes(b, "little") != want:
        return f"calculate_new_bits({bits.hex()}, {td}) = {b.hex()}; Core CalculateNextWorkRequired gives {want:#010x}"
    return None


def p_pow_ref(v, p, m, t, b, n):
    raw = struct.pack("<I", v) + p[::-1] + m[::-1] + struct.pack("<I", t) + b + n
    blk = _blk(v, p, m, t, b, n)
    if blk.serialize() != raw:
        return "header serialisation"
    d = h256(raw)
    if blk.hash() != d[::-1] or blk.id() != d[::-1].hex():
        return "block hash is not the reversed double-SHA256 of the 80-byte header"
    proof = int.from_bytes(d, "little")
    val, neg, ovf = core_set_compact(int.from_bytes(b, "little"))
    want = (not neg) and (not ovf) and val != 0 and proof <= val
    got = blk.check_pow()
    if got != want:
        return (f"check_pow = {got}, consensus (hash <= target, target from SetCompact, not negative/overflow/zero) "
                f"= {want}; hash={proof:#x} target={val:#x} bits={b.hex()} hash==target: {proof == val}")
    if neg or ovf:
        try:
            blk.target()
            return "Block.target returned a value for bits that SetCompact flags negative/overflow"
        except ValueError:
            pass
    else:
        if blk.target() != val:
            return "Block.target differs from SetCompact"
        if val != 0:
            dif = blk.difficulty()
            exact = Fraction(0xFFFF * 256 ** (0x1D - 3), val)
            # C17_difficulty_correctly_rounded: the nearest double to the exact quotient
            if type(dif) is not float or abs(Fraction(dif) - exact) * 2 > Fraction(math.ulp(dif)):
                return "Block.difficulty is not the double nearest to max_target / target"
            lo, hi = math.nextafter(dif, 0.0), math.nextafter(dif, math.inf)
            if abs(Fraction(lo) - exact) < abs(Fraction(dif) - exact) or abs(Fraction(hi) - exact) < abs(Fraction(dif) - exact):
                return "Block.difficulty is not the double nearest to max_target / target (a neighbour is closer)"
        else:
            try:
                blk.difficulty()
                return "Block.difficulty returned a value for the target 0"
            except ZeroDivisionError:
                pass
    return None


def p_pow_eq_stub(v, p, m, t, b, n):
    """fd08533: a header whose hash EQUALS its target passes check_pow (consensus: hash <= target), target + 1 does
    not, target - 1 does.  No preimage for such a hash is known, so for the duration of the call the name hash256
    inside buidl.block is bound to a function that returns the wanted 32 bytes (everything else is the real code)."""
    val, neg, ovf = core_set_compact(int.from_bytes(b, "little"))
    if neg or ovf or val == 0 or val + 1 >= 2 ** 256:
        return None
    blk = _blk(v, p, m, t, b, n)
    saved = block.hash256
    got = {}
    try:
        for d in (-1, 0, 1):
            block.hash256 = lambda s, d=d: (val + d).to_bytes(32, "little")
            got[d] = blk.check_pow()
    finally:
        block.hash256 = saved
    if got[0] is not True:
        return f"check_pow = {got[0]} for a hash equal to the target {val:#x} (consensus accepts hash <= target)"
    if got[-1] is not True or got[1] is not False:
        return f"check_pow around the target: hash=target-1 -> {got[-1]}, hash=target+1 -> {got[1]}"
    return None


def _ref_chain_valid(fields):
    last = None
    for f in fields:
        v, p, m, t, b, n = f
        raw = struct.pack("<I", v) + p[::-1] + m[::-1] + struct.pack("<I", t) + b + n
        d = h256(raw)
        val, neg, ovf = core_set_compact(int.from_bytes(b, "little"))
        if neg or ovf or val == 0 or int.from_bytes(d, "little") > val:
            return False
        if last is not None and p != last:
            return False
        last = d[::-1]
    return True


def p_chain(fields):
    got = i_headers_is_valid(fields)
    want = _ref_chain_valid(fields)
    if got != want:
        return f"HeadersMessage.is_valid = {got}, reference (every header passes PoW and links to its predecessor) = {want}"
    # the caller's list of header objects: is_valid() leaves it and the headers alone, and answers the same again
    lst = [_blk(*f) for f in fields]
    keep = list(lst)
    msg = network.HeadersMessage(lst)
    for k in range(2):
        if msg.is_valid() != want:
            return f"call {k}: HeadersMessage.is_valid on the caller's list = {not want}, reference = {want}"
        if len(lst) != len(keep) or any(a is not b for a, b in zip(lst, keep)) or [_hdr(h) for h in lst] != [list(f) for f in fields]:
            return "HeadersMessage.is_valid changed the caller's header list / the fields of the headers"
    return None


# ------------------------------------------------------------------ one object used repeatedly (stale state)
# MerkleBlock / Block / HeadersMessage objects are kept alive, queried repeatedly, edited in place through their
# public fields and queried again; every answer is compared with a FRESH object built from the current fields and
# with the independent references above.  Module-level functions are called in sequences (coarse caches).

def _mb_state(mb):
    return (mb.header.merkle_root, mb.total, list(mb.hashes), mb.flags)


def _mb_eval(mb):
    try:
        ok = mb.is_valid()
    except Exception:
        return "raise", list(mb.proved_txs())
    return ("ok" if ok else "invalid"), list(mb.proved_txs())


def p_reuse_mb(leaves, matches, seed, nops):
    """ONE MerkleBlock (from MerkleBlock.parse of an honest proof): is_valid()/proved_txs() asked repeatedly,
    interleaved with in-place edits of hashes / flags / total / header.merkle_root / header and their restoration"""
    import random
    r = random.Random(seed)
    total, bits, hashes, flags = ref_build(leaves, matches)
    root = ref_root(leaves)[::-1]
    ids = {x[::-1] for x in leaves}
    want = [x[::-1] for x, m in zip(leaves, matches) if m]
    mb = MerkleBlock.parse(BytesIO(_raw_merkleblock(root, total, hashes, flags)))
    honest = _mb_state(mb)
    for step in range(nops):
        where = f"step {step}"
        k = r.random()
        if k < 0.5:
            before = _mb_state(mb)
            st, proved = _mb_eval(mb)
            if _mb_state(mb) != before:
                return f"{where}: is_valid() changed the MerkleBlock's own hashes/flags/total/root"
            fr = _mb(before[0], before[1], before[2], before[3])
            if (st, proved) != _mb_eval(fr):
                return (f"{where}: is_valid()/proved_txs() of the reused MerkleBlock = {st}/{len(proved)} ids, "
                        f"a fresh MerkleBlock with the same fields gives {_mb_eval(fr)[0]}")
            if before == honest:
                if st != "ok" or proved != want:
                    return f"{where}: the honest proof no longer validates / proves the matched ids on the reused object ({st})"
            else:
                hash_or_root_changed = before[0] != honest[0] or \
                    (before[1] == honest[1] and before[3] == honest[3] and before[2] != honest[2])
                if st == "ok" and hash_or_root_changed:
                    return f"{where}: the reused MerkleBlock validates although a hash or the root was altered"
                if st == "ok" and before[1] == honest[1] and [p for p in proved if p not in ids]:
                    return f"{where}: the reused MerkleBlock validates and yields ids that are not in the block"
            if r.random() < 0.3:
                if list(mb.proved_txs()) != proved:
                    return f"{where}: proved_txs() changed between two calls"
        elif k < 0.62:
            i = r.randrange(len(mb.hashes)) if mb.hashes else None
            if i is not None:
                h = bytearray(mb.hashes[i])
                h[r.randrange(len(h))] ^= 1 << r.randrange(8)
                mb.hashes[i] = bytes(h)
        elif k < 0.68:
            f = bytearray(mb.flags)
            if f:
                f[r.randrange(len(f))] ^= 1 << r.randrange(8)
                mb.flags = bytes(f)
        elif k < 0.74:
            m = bytearray(mb.header.merkle_root)
            m[r.randrange(32)] ^= 1 << r.randrange(8)
            if r.random() < 0.5:
                mb.header.merkle_root = bytes(m)
            else:
                mb.header = Block(1, Z32, bytes(m), 0, b"\xff\xff\x00\x1d", b"\x00" * 4)
        elif k < 0.78:
            mb.total = max(1, min(2 * len(leaves) + 2, mb.total + r.choice([-1, 1, 2])))
        elif k < 0.82:
            if mb.hashes and r.random() < 0.5:
                mb.hashes.pop(r.randrange(len(mb.hashes)))
            else:
                mb.hashes.insert(r.randrange(len(mb.hashes) + 1), r.choice(leaves)[::-1])
        else:
            mb.header.merkle_root, mb.total, mb.flags = honest[0], honest[1], honest[3]
            if r.random() < 0.5:
                mb.hashes[:] = honest[2]
            else:
                mb.hashes = list(honest[2])
    return None


def p_two_proofs(la, ma, lb, mb_):
    """two MerkleTree objects and two MerkleBlock objects alive at the same time, filled alternately"""
    pa, pb = ref_build(la, ma), ref_build(lb, mb_)
    wa = [x[::-1] for x, m in zip(la, ma) if m]
    wb = [x[::-1] for x, m in zip(lb, mb_) if m]
    ta, tb = MerkleTree(pa[0]), MerkleTree(pb[0])
    ta.populate_tree(helper.bytes_to_bit_field(pa[3]), list(pa[2]))
    if ta.root() != ref_root(la) or ta.proved_txs != wa:
        return "first tree wrong"
    tb.populate_tree(helper.bytes_to_bit_field(pb[3]), list(pb[2]))
    if tb.root() != ref_root(lb) or tb.proved_txs != wb:
        return "a second MerkleTree populated after another one has the wrong root / proved_txs"
    if ta.root() != ref_root(la) or ta.proved_txs != wa:
        return "populating a second MerkleTree changed the first one"
    t3 = MerkleTree(pa[0])
    if t3.root() is not None or t3.proved_txs != [] or any(x is not None for lvl in t3.nodes for x in lvl):
        return "a new MerkleTree is not empty"
    A = MerkleBlock.parse(BytesIO(_raw_merkleblock(ref_root(la)[::-1], pa[0], pa[2], pa[3])))
    B = MerkleBlock.parse(BytesIO(_raw_merkleblock(ref_root(lb)[::-1], pb[0], pb[2], pb[3])))
    if A.proved_txs() != [] or B.proved_txs() != []:
        return "proved_txs() before is_valid() is not empty"
    for n, (x, w) in enumerate([(A, wa), (B, wb), (A, wa), (A, wa), (B, wb)]):
        if not x.is_valid() or x.proved_txs() != w:
            return f"call {n}: alternating is_valid() on two MerkleBlock objects: wrong result"
        other, wo = (B, wb) if x is A else (A, wa)
        if other.merkle_tree is not None and other.proved_txs() != wo:
            return f"call {n}: is_valid() on one MerkleBlock changed the proved_txs() of the other"
    return None


def p_root_order(lists, seed):
    """merkle_root / merkle_parent_level / Block.validate_merkle_root in sequence on different lists and on ONE list
    object edited in place between the calls"""
    import random
    r = random.Random(seed)
    work = []
    blk = Block(1, Z32, Z32, 0, b"\xff\xff\x00\x1d", b"\x00" * 4, tx_hashes=[])
    for n, leaves in enumerate(lists):
        leaves = list(leaves)
        if helper.merkle_root(list(leaves)) != ref_root(leaves):
            return f"call {n}: merkle_root differs from the consensus Merkle root"
        if len(leaves) > 1:
            lvl = helper.merkle_parent_level(list(leaves))
            if lvl != ref_levels(leaves)[1]:
                return f"call {n}: merkle_parent_level differs from the consensus parent level"
        # one list object, edited in place and re-used (merkle_root may append the odd-level duplicate to it)
        k = r.randrange(4)
        if k == 0 or not work:
            work[:] = leaves
        elif k == 1:
            work[r.randrange(len(work))] = r.choice(leaves)
        elif k == 2:
            work.append(r.choice(leaves))
        elif len(work) > 1:
            work.pop(r.randrange(len(work)))
        cur = list(work)
        if helper.merkle_root(work) != ref_root(cur):
            return f"call {n}: merkle_root on a re-used list object differs from the consensus root of its content"
        if work[: len(cur)] != cur:
            return f"call {n}: merkle_root changed an element of its argument"
        del work[len(cur):]
        # one Block object, tx_hashes edited in place
        blk.tx_hashes[:] = [x[::-1] for x in cur]
        blk.merkle_root = ref_root(cur)[::-1] if r.random() < 0.7 else ref_root(leaves)[::-1]
        snap = list(blk.tx_hashes)
        got = blk.validate_merkle_root()
        if got != (blk.merkle_root == ref_root(cur)[::-1]):
            return f"call {n}: validate_merkle_root of a reused Block is {got}"
        if blk.tx_hashes != snap:
            return f"call {n}: validate_merkle_root modified tx_hashes"
    return None


def _guard_bits_pool():
    out = [bytes.fromhex(x) for x in ("ffff7f20", "ffff001d", "54d80118", "cb04041b", "ffff7f1f", "ffff3f20",
                                      "ffff7f21", "00008020", "ae77031e")]
    return [b for b in out if compact_guard(b) and core_set_compact(int.from_bytes(b, "little"))[0] != 0]


def p_reuse_block(fields, seed, nops):
    """ONE Block header object: serialize / hash / id / check_pow / target / difficulty / bip9.. asked repeatedly,
    interleaved with in-place edits of every header field (the mining loop edits nonce and asks again)"""
    import random
    r = random.Random(seed)
    f = list(fields)
    blk = _blk(*f)
    pool = _guard_bits_pool()
    for step in range(nops):
        where = f"step {step}"
        k = r.random()
        if k < 0.55:
            v, p, m, t, b, n = f
            raw = struct.pack("<I", v) + p[::-1] + m[::-1] + struct.pack("<I", t) + b + n
            d = h256(raw)
            q = r.randrange(6)
            if q == 0 and blk.serialize() != raw:
                return f"{where}: serialize() of the reused Block differs from its current fields"
            if q == 1 and (blk.hash() != d[::-1] or blk.id() != d[::-1].hex()):
                return f"{where}: hash()/id() of the reused Block is not the double-SHA256 of its current header"
            if q == 2:
                proof = int.from_bytes(d, "little")
                val = core_set_compact(int.from_bytes(b, "little"))[0]
                if proof != val and blk.check_pow() != (proof <= val):
                    return f"{where}: check_pow() of the reused Block is {blk.check_pow()} for its current header (hash <= target: {proof <= val})"
            if q == 3:
                val = core_set_compact(int.from_bytes(b, "little"))[0]
                if blk.target() != val:
                    return f"{where}: target() of the reused Block differs from SetCompact(current bits)"
                exact = Fraction(0xFFFF * 256 ** (0x1D - 3), val)
                if abs(Fraction(blk.difficulty()) - exact) > exact / 10 ** 12:
                    return f"{where}: difficulty() of the reused Block differs from max_target / current target"
            if q == 4 and (blk.bip9(), blk.bip91(), blk.bip141()) != (v >> 29 == 1, (v >> 4) & 1 == 1, (v >> 1) & 1 == 1):
                return f"{where}: bip9/bip91/bip141 of the reused Block differ from its current version"
            if q == 5:
                fr = _blk(*f)
                if (blk.serialize(), blk.hash(), blk.check_pow(), blk.target()) != (fr.serialize(), fr.hash(), fr.check_pow(), fr.target()):
                    return f"{where}: the reused Block answers differently from a fresh Block with the same fields"
        else:
            e = r.randrange(6)
            if e == 0:
                f[0] = r.choice([1, 2, 0x20000000, 0x20000012, r.getrandbits(32)])
                blk.version = f[0]
            elif e == 1:
                f[1] = bytes(r.getrandbits(8) for _ in range(32))
                blk.prev_block = f[1]
            elif e == 2:
                f[2] = bytes(r.getrandbits(8) for _ in range(32))
                blk.merkle_root = f[2]
            elif e == 3:
                f[3] = r.getrandbits(32)
                blk.timestamp = f[3]
            elif e == 4:
                f[4] = r.choice(pool)
                blk.bits = f[4]
            else:
                f[5] = bytes(r.getrandbits(8) for _ in range(4))
                blk.nonce = f[5]
    return None


def p_reuse_headers(chain, seed, nops):
    """ONE HeadersMessage: is_valid() asked repeatedly while its Block objects are edited in place (nonce ground again,
    link broken and repaired, bits raised), headers dropped / swapped / re-appended"""
    import random
    r = random.Random(seed)
    msg = network.HeadersMessage([_blk(*f) for f in chain])
    easy, hard = bytes.fromhex("ffff7f20"), bytes.fromhex("ffff001d")

    def fields():
        return [_hdr(h) for h in msg.headers]

    def relink(i):
        """make header i link to its predecessor and pass PoW (reference arithmetic only)"""
        h = msg.headers[i]
        if i > 0:
            q = msg.headers[i - 1]
            h.prev_block = h256(struct.pack("<I", q.version) + q.prev_block[::-1] + q.merkle_root[::-1] +
                                struct.pack("<I", q.timestamp) + q.bits + q.nonce)[::-1]
        h.bits = easy
        for _ in range(64):
            if _ref_chain_valid([_hdr(h)]):
                break
            h.nonce = bytes(r.getrandbits(8) for _ in range(4))

    for step in range(nops):
        k = r.random()
        if k < 0.45 or not msg.headers:
            cur = fields()
            objs = list(msg.headers)
            got, want = msg.is_valid(), _ref_chain_valid(cur)
            if len(msg.headers) != len(objs) or any(a is not b for a, b in zip(msg.headers, objs)) or fields() != cur:
                return f"step {step}: is_valid() changed the HeadersMessage's header list / the fields of its headers"
            if got != want:
                return (f"step {step}: is_valid() of the reused HeadersMessage = {got}; its current headers: every header "
                        f"passes PoW and links to its predecessor = {want}")
            if not msg.headers:
                msg.headers.append(_blk(*chain[0]))
        else:
            i = r.randrange(len(msg.headers))
            e = r.randrange(7)
            if e == 0:
                msg.headers[i].nonce = bytes(r.getrandbits(8) for _ in range(4))
            elif e == 1:
                p = bytearray(msg.headers[i].prev_block)
                p[r.randrange(32)] ^= 1 << r.randrange(8)
                msg.headers[i].prev_block = bytes(p)
            elif e == 2:
                msg.headers[i].bits = hard
            elif e == 3:
                msg.headers[i].merkle_root = bytes(r.getrandbits(8) for _ in range(32))
            elif e == 4:
                for j in range(len(msg.headers)):
                    relink(j)
            elif e == 5 and len(msg.headers) > 1:
                msg.headers.pop(i)
            else:
                msg.headers.append(_blk(*r.choice(chain)))
                relink(len(msg.headers) - 1)
    return None


def p_compact_order(seq):
    """bits_to_target / target_to_bits / calculate_new_bits / MerkleTree sizing called in the given order (coarse caches):
    arguments stay inside the domain on which the single-call predicates hold (see K-C17-compact)"""
    for n, item in enumerate(seq):
        kind = item[0]
        if kind == 0:
            d = p_compact_ref(item[1])
        elif kind == 1:
            d = p_compact_rt(item[1])
        elif kind == 2:
            d = p_retarget_ref(item[1], item[2])
        else:
            d = p_depth_formula(item[1])
            if d is None and item[1] <= 3000:
                t = MerkleTree(item[1])
                if [len(x) for x in t.nodes] != [-(-item[1] // 2 ** (t.max_depth - k)) for k in range(t.max_depth + 1)]:
                    d = f"MerkleTree({item[1]}) level sizes"
        if d:
            return f"call {n}: " + d
    return None


# ------------------------------------------------------------------ whole blocks: every entry point that feeds the Merkle code
# Transactions are written out by hand (struct only): BIP144 wire bytes and the witness-stripped serialisation whose
# double-SHA256 is the txid the header's Merkle root commits to (BIP141).  A transaction is the canonical value
#   [version, [[prev32 (wire order), index, scriptSig bytes, sequence, [witness items]] ...], [[amount, scriptPubKey bytes] ...],
#    locktime, segwit (0/1)]

def ser_tx(tx):
    """(wire bytes, witness-stripped bytes) of a structured transaction"""
    version, ins, outs, locktime, segwit = tx
    ver = struct.pack("<I", version)
    vin = _cs(len(ins)) + b"".join(p + struct.pack("<I", i) + _cs(len(ss)) + ss + struct.pack("<I", sq)
                                   for p, i, ss, sq, _w in ins)
    vout = _cs(len(outs)) + b"".join(struct.pack("<Q", a) + _cs(len(spk)) + spk for a, spk in outs)
    lock = struct.pack("<I", locktime)
    stripped = ver + vin + vout + lock
    if not segwit:
        return stripped, stripped
    wit = b"".join(_cs(len(w)) + b"".join(_cs(len(it)) + it for it in w) for _p, _i, _s, _q, w in ins)
    return ver + b"\x00\x01" + vin + vout + wit + lock, stripped


def header_bytes(fields, root_display):
    v, p, _m, t, b, n = fields
    return struct.pack("<I", v) + p[::-1] + root_display[::-1] + struct.pack("<I", t) + b + n


def _script_pushes_canonical(s):
    """True when every push of the script bytes uses the one encoding buidl's Script.raw_serialize would write
    (1..75 direct, 76..255 OP_PUSHDATA1, 256..520 OP_PUSHDATA2) and the script is not cut inside a push: exactly the
    scripts whose parse / re-serialise is the identity"""
    i, n = 0, len(s)
    while i < n:
        op = s[i]
        i += 1
        if 1 <= op <= 75:
            ln = op
        elif op == 76:
            if i + 1 > n:
                return False
            ln = s[i]
            i += 1
            if ln < 76:
                return False
        elif op == 77:
            if i + 2 > n:
                return False
            ln = s[i] | (s[i + 1] << 8)
            i += 2
            if ln < 0x100 or ln > 520:
                return False
        elif op == 78:
            return False
        else:
            continue
        if i + ln > n:
            return True     # truncated push: Script keeps the raw bytes and writes them back unchanged
        i += ln
    return True


def _block_eval(fields, root_display, raws, pre, rest):
    """Block.parse on a stream that holds `pre` (already consumed) | header | count | transactions | rest"""
    st = BytesIO(pre + header_bytes(fields, root_display) + _cs(len(raws)) + b"".join(raws) + rest)
    st.read(len(pre))
    blk = Block.parse(st)
    return blk, st.read()


def p_block_parse(fields, txs, pre, rest, matches):
    """a whole block (80-byte header | CompactSize count | transactions in BIP144 wire format) through Block.parse:
    tx_hashes are the txids (double-SHA256 of the witness-stripped serialisation, display order), equal to
    txs[i].hash(); validate_merkle_root() holds exactly for the header root that is the consensus Merkle root of the
    txids (not of the wtxids, not an altered root, not the root in the other byte order); the same answers through
    parse_header + assigned tx_hashes, the Block constructor, Tx.parse of each transaction alone, the merkleblock
    message of the block (MerkleBlock.parse / is_valid / proved_txs) and the headers message (HeadersMessage.parse)"""
    from buidl.tx import Tx
    n = len(txs)
    sers = [ser_tx(t) for t in txs]
    raws = [w for w, _s in sers]
    txids = [h256(s) for _w, s in sers]           # internal order
    wtxids = [h256(w) for w, _s in sers]
    ids = [x[::-1] for x in txids]                # display order, what tx_hashes / Tx.hash() hold
    root = ref_root(txids)[::-1]                  # display order, what Block.merkle_root holds
    v, pv, _m, t, b, nn = fields
    want_hdr = [v, pv, root, t, b, nn]
    hb = header_bytes(fields, root)
    try:
        blk, left = _block_eval(fields, root, raws, pre, rest)
    except Exception as e:
        return "Block.parse raised on a well-formed block: " + repr(e)
    if left != rest:
        return "Block.parse did not stop at the end of the block (bytes after it consumed or transactions left unread)"
    if _hdr(blk) != want_hdr:
        return "Block.parse returns a different header"
    if blk.serialize() != hb or blk.hash() != h256(hb)[::-1]:
        return "serialize()/hash() of the parsed block are not its 80-byte header / the header's double-SHA256"
    if blk.txs is None or len(blk.txs) != n or blk.tx_hashes is None or len(blk.tx_hashes) != n:
        return f"Block.parse of a {n}-transaction block gives {len(blk.txs or [])} txs / {len(blk.tx_hashes or [])} tx_hashes"
    for i in range(n):
        if blk.tx_hashes[i] != ids[i]:
            what = "the wtxid (hash of the bytes with marker, flag and witness)" if blk.tx_hashes[i] == wtxids[i][::-1] else \
                ("the txid in the other byte order" if blk.tx_hashes[i] == txids[i] else "something else")
            return (f"Block.parse: tx_hashes[{i}] of a {n}-transaction block is not the txid (double-SHA256 of the "
                    f"witness-stripped serialisation) but {what}; segwit={txs[i][4]}")
        try:
            hi = blk.txs[i].hash()
        except Exception as e:
            return f"txs[{i}].hash() raised " + repr(e)
        if hi != ids[i] or blk.txs[i].id() != ids[i].hex():
            return f"Block.parse: txs[{i}].hash()/id() is not the txid"
        if bool(blk.txs[i].segwit) != bool(txs[i][4]):
            return f"Block.parse: txs[{i}].segwit differs from the wire format of the transaction"
        if blk.txs[i].serialize() != raws[i]:
            return f"Block.parse: txs[{i}].serialize() differs from the bytes that were parsed"
    snap = list(blk.tx_hashes)
    for k in range(2):
        try:
            ok = blk.validate_merkle_root()
        except Exception as e:
            return "validate_merkle_root raised on a parsed block: " + repr(e)
        if ok is not True:
            return (f"call {k}: validate_merkle_root() = {ok!r} for a parsed {n}-transaction block whose header carries the "
                    f"consensus Merkle root of its txids")
        if blk.tx_hashes != snap:
            return "validate_merkle_root changed tx_hashes"
    if helper.merkle_root([x[::-1] for x in blk.tx_hashes]) != ref_root(txids):
        return "merkle_root over the parsed block's tx_hashes differs from the consensus root of the txids"
    # headers that do NOT commit to the txids
    bad_roots = []
    wroot = ref_root(wtxids)[::-1]
    if wroot != root:
        bad_roots.append(("the Merkle root of the wtxids", wroot))
    flip = bytearray(root)
    flip[(n * 7) % 32] ^= 1 << (n % 8)
    bad_roots.append(("an altered root", bytes(flip)))
    if root[::-1] != root:
        bad_roots.append(("the root in the other byte order", root[::-1]))
    if n > 1:
        bad_roots.append(("the first txid", ids[0]))
        bad_roots.append(("the Merkle root of the txids without the last one", ref_root(txids[:-1])[::-1]))
    for what, br in bad_roots:
        if br == root:          # e.g. [a, b, c, c] and [a, b, c] have the same consensus root (CVE-2012-2459 shape)
            continue
        try:
            b2, _left = _block_eval(fields, br, raws, pre, rest)
            ok = b2.validate_merkle_root()
        except Exception as e:
            return f"Block.parse / validate_merkle_root raised for a header carrying {what}: " + repr(e)
        if b2.tx_hashes != ids:
            return f"tx_hashes of the parsed block depend on the header root ({what})"
        if ok is not False:
            return f"validate_merkle_root() = {ok!r} for a parsed block whose header carries {what}"
    # ---- parse_header (stream / hex) + tx_hashes assigned; the constructor
    for how in range(3):
        if how == 0:
            h2 = Block.parse_header(BytesIO(hb + rest))
        elif how == 1:
            h2 = Block.parse_header(hex=hb.hex())
        else:
            h2 = Block(v, pv, root, t, b, nn, txs=list(blk.txs), tx_hashes=[x.hash() for x in blk.txs])
        if _hdr(h2) != want_hdr or h2.hash() != blk.hash():
            return "parse_header / constructor: header differs from the one Block.parse returns"
        if how < 2:
            if h2.tx_hashes is not None or h2.txs is not None:
                return "parse_header returns a Block that already has txs / tx_hashes"
            h2.tx_hashes = list(ids)
        if h2.validate_merkle_root() is not True:
            return f"entry {how}: validate_merkle_root() is not True with the txids assigned to a parsed header"
        if wroot != root:
            h2.tx_hashes = [x[::-1] for x in wtxids]
            if h2.validate_merkle_root() is not False:
                return f"entry {how}: validate_merkle_root() accepts the wtxids under a root over the txids"
    # ---- every transaction alone
    for i in range(n if n <= 20 else 3):
        for raw in (raws[i], sers[i][1]):
            st = BytesIO(raw + rest)
            try:
                tx = Tx.parse(st)
            except Exception as e:
                return "Tx.parse raised on a transaction of the block: " + repr(e)
            if tx.hash() != ids[i] or st.read() != rest:
                return f"Tx.parse(...).hash() of transaction {i} alone (wire / witness-stripped bytes) is not its txid"
    # ---- the merkleblock message a full node builds for this block
    total, _bits, hashes, flags = ref_build(txids, matches)
    try:
        mb = MerkleBlock.parse(BytesIO(wire_merkleblock(hb, total, hashes, flags) + rest))
        ok = mb.is_valid()
    except Exception as e:
        return "MerkleBlock.parse / is_valid raised on the merkleblock message of the block: " + repr(e)
    if _hdr(mb.header) != want_hdr or mb.header.hash() != blk.hash() or mb.total != len(blk.txs):
        return "merkleblock header / total differ from the parsed block"
    if ok is not True:
        return "the merkleblock message of the block does not validate"
    proved = mb.proved_txs()
    if proved != [x for x, m in zip(ids, matches) if m]:
        return "proved_txs of the block's merkleblock differ from the matched txids"
    if proved != [x for x, m in zip(blk.tx_hashes, matches) if m] or \
            proved != [x.hash() for x, m in zip(blk.txs, matches) if m]:
        return "proved_txs of the block's merkleblock are not the parsed block's tx_hashes / txs[i].hash() at the matched positions"
    # ---- the headers message announcing this block
    try:
        hm = network.HeadersMessage.parse(BytesIO(wire_headers([want_hdr]) + rest))
    except Exception as e:
        return "HeadersMessage.parse raised: " + repr(e)
    if len(hm.headers) != 1 or _hdr(hm.headers[0]) != want_hdr or hm.headers[0].hash() != blk.hash():
        return "the header from HeadersMessage.parse differs from the one from Block.parse"
    if hm.is_valid() != _ref_chain_valid([want_hdr]) or blk.check_pow() != _ref_chain_valid([want_hdr]):
        return "HeadersMessage.is_valid / Block.check_pow of the parsed block differ from the reference"
    try:
        network.HeadersMessage.parse(BytesIO(_cs(1) + hb + _cs(n) + b"".join(raws)))
        return "HeadersMessage.parse accepts a header followed by a non-zero transaction count"
    except RuntimeError:
        pass
    except Exception as e:
        return "HeadersMessage.parse of a header with transactions raised " + type(e).__name__
    return None


def p_block_stream(blocks, rest, seed):
    """several blocks back to back in ONE stream, parsed one after the other; afterwards every Block object is queried
    again (shared / class-level state), its tx_hashes edited in place and restored"""
    import random
    r = random.Random(seed)
    exp, raw = [], b""
    for fields, txs in blocks:
        sers = [ser_tx(t) for t in txs]
        txids = [h256(s) for _w, s in sers]
        root = ref_root(txids)[::-1]
        raw += header_bytes(fields, root) + _cs(len(sers)) + b"".join(w for w, _s in sers)
        exp.append(([x[::-1] for x in txids], root, txids))
    st = BytesIO(raw + rest)
    got = []
    for k in range(len(blocks)):
        try:
            got.append(Block.parse(st))
        except Exception as e:
            return f"Block.parse raised on block {k} of a stream of blocks: " + repr(e)
        if k and r.random() < 0.5 and got[0].validate_merkle_root() is not True:
            return f"after parsing block {k} the first block no longer validates"
    if st.read() != rest:
        return "parsing the blocks one after the other does not end at the end of the last block"
    for rounds in range(2):
        for k, blk in enumerate(got):
            ids, root, txids = exp[k]
            if blk.tx_hashes != ids or [x.hash() for x in blk.txs] != ids:
                return f"round {rounds}: tx_hashes / txs[i].hash() of block {k} of the stream are not its txids"
            if blk.merkle_root != root or blk.validate_merkle_root() is not True:
                return f"round {rounds}: block {k} of the stream does not validate against its own root"
            for other in got:
                if other is not blk and (other.tx_hashes is blk.tx_hashes or other.txs is blk.txs):
                    return "two parsed blocks share one tx_hashes / txs list object"
            # in-place edits, decided by the reference root of the current list
            cur = blk.tx_hashes
            for _e in range(4):
                e = r.randrange(4)
                if e == 0 and len(cur) > 1:
                    i, j = r.sample(range(len(cur)), 2)
                    cur[i], cur[j] = cur[j], cur[i]
                elif e == 1:
                    cur.append(cur[-1])
                elif e == 2 and len(cur) > 1:
                    cur.pop(r.randrange(len(cur)))
                else:
                    i = r.randrange(len(cur))
                    h = bytearray(cur[i])
                    h[r.randrange(32)] ^= 1 << r.randrange(8)
                    cur[i] = bytes(h)
                want = ref_root([x[::-1] for x in cur])[::-1] == root
                snap = list(cur)
                if blk.validate_merkle_root() is not want:
                    return (f"round {rounds}: validate_merkle_root() of block {k} after an in-place edit of tx_hashes is "
                            f"{not want}; the consensus root of the current list {'equals' if want else 'differs from'} the header root")
                if cur != snap:
                    return "validate_merkle_root changed tx_hashes"
            cur[:] = ids
            if blk.validate_merkle_root() is not True:
                return f"round {rounds}: block {k} does not validate after its tx_hashes were restored"
    return None


# ------------------------------------------------------------------ entry-point audit (defaults, minor entry points, shared state)

def p_entry_misc(fields, leaves, matches, rest):
    """the entry points around the core that the other predicates do not name: MerkleBlock.hash()/id() (what
    SimpleNode.get_filtered_txs compares with the block hash it asked for), the Block constructor called positionally and
    with its optional arguments left out (two such objects share nothing), parse_header with both stream and hex, a
    block with a transaction count of zero, an earlier proved_txs() result after the object validated another proof,
    a failing validation followed by a retry on the same MerkleBlock"""
    n = len(leaves)
    root = ref_root(leaves)[::-1]
    ids = [x[::-1] for x in leaves]
    v, pv, _m, t, b, nn = fields
    hb = header_bytes(fields, root)
    bh = h256(hb)[::-1]
    total, _bits, hashes, flags = ref_build(leaves, matches)
    want = [x for x, m in zip(ids, matches) if m]
    # ---- MerkleBlock.hash / id: parsed and constructed
    mb = MerkleBlock.parse(BytesIO(wire_merkleblock(hb, total, hashes, flags) + rest))
    mb2 = MerkleBlock(Block(v, pv, root, t, b, nn), total, [h[::-1] for h in hashes], flags)
    for how, x in (("parsed", mb), ("constructed", mb2)):
        if x.hash() != bh or x.id() != bh.hex():
            return f"hash()/id() of a {how} MerkleBlock is not the double-SHA256 of its 80-byte header (reversed)"
        if x.proved_txs() != []:
            return "proved_txs() before is_valid() is not empty"
    if mb.is_valid() is not True or mb.proved_txs() != want:
        return "honest merkleblock does not validate / prove the matched ids"
    if mb.hash() != bh or mb.header.hash() != bh:
        return "hash() of the MerkleBlock changed with is_valid()"
    # ---- an earlier result after the same object validated another proof of the block
    old = mb.proved_txs()
    snap = list(old)
    m2 = [not x for x in matches]
    _t2, _b2, hashes2, flags2 = ref_build(leaves, m2)
    mb.hashes, mb.flags = [h[::-1] for h in hashes2], flags2
    if mb.is_valid() is not True or mb.proved_txs() != [x for x, m in zip(ids, m2) if m]:
        return "a MerkleBlock given a second honest proof of the same block does not validate / prove the newly matched ids"
    if old != snap:
        return "validating a second proof rewrote the proved_txs() list returned for the first one"
    # ---- failure, then retry on the same object
    mb.hashes, mb.flags = [h[::-1] for h in hashes], flags
    last = mb.hashes.pop()
    try:
        bad = mb.is_valid()
    except Exception:
        bad = "raise"
    if bad is True:
        return "a proof with its last hash removed validates"
    mb.hashes.append(last)
    try:
        ok = mb.is_valid()
    except Exception as e:
        return "is_valid raised on the honest proof after a failed validation of the same object: " + repr(e)
    if ok is not True or mb.proved_txs() != want:
        return "after a failed validation the same MerkleBlock, made honest again, does not validate / prove the matched ids"
    # ---- Block(...) positionally, and with the optional arguments left out
    TXS = ["tx%d" % i for i in range(n)]
    idl = list(ids)
    bp = Block(v, pv, root, t, b, nn, TXS, idl)
    if bp.txs is not TXS or bp.tx_hashes is not idl:
        return "Block(version, prev_block, merkle_root, timestamp, bits, nonce, txs, tx_hashes) called positionally does not store txs / tx_hashes"
    if bp.validate_merkle_root() is not True or idl != ids:
        return "validate_merkle_root() of a positionally constructed Block is not True for the consensus root / changed the caller's list"
    d1, d2 = Block(v, pv, root, t, b, nn), Block(v, pv, root, t, b, nn)
    for x in (d1, d2):
        if x.txs is not None or x.tx_hashes is not None:
            return "Block(...) without txs / tx_hashes does not leave them None"
    k1 = Block(v, pv, root, t, b, nn, tx_hashes=list(ids))
    k2 = Block(v, pv, root, t, b, nn, txs=TXS)
    if k1.txs is not None or k2.tx_hashes is not None or k2.txs is not TXS:
        return "Block(...) with one of txs / tx_hashes given fills in the other one"
    d1.tx_hashes = list(ids)
    d1.txs = list(TXS)
    if d2.tx_hashes is not None or d2.txs is not None or k1.txs is not None:
        return "assigning tx_hashes / txs of one default-constructed Block changed another Block"
    if d1.validate_merkle_root() is not True:
        return "validate_merkle_root() with tx_hashes assigned to a default-constructed Block is not True"
    try:
        r0 = d2.validate_merkle_root()
    except Exception:
        r0 = "raise"
    if r0 is True:
        return "validate_merkle_root() of a Block that has no tx_hashes is True"
    # ---- parse_header with both a stream and hex
    st = BytesIO(hb + rest)
    other = header_bytes([v ^ 1, pv, _m, t, b, nn], root[::-1])
    try:
        h2 = Block.parse_header(st, hex=other.hex())
    except RuntimeError:
        h2 = None
    except Exception as e:
        return "parse_header(stream, hex=...) raised " + type(e).__name__
    if h2 is not None:
        return "parse_header given both a stream and hex returns a header instead of raising RuntimeError"
    h3 = Block.parse_header(hex=hb.hex())
    h4 = Block.parse_header(stream=BytesIO(hb))
    if _hdr(h3) != [v, pv, root, t, b, nn] or _hdr(h4) != _hdr(h3) or h3.hash() != bh:
        return "parse_header(hex=...) / parse_header(stream=...) differ from the header bytes"
    # ---- a block with a transaction count of zero
    got = []
    for _k in range(2):
        st = BytesIO(hb + b"\x00" + rest)
        try:
            z = Block.parse(st)
        except Exception as e:
            return "Block.parse raised on a block with a transaction count of 0: " + repr(e)
        if z.txs != [] or z.tx_hashes != [] or st.read() != rest or _hdr(z) != [v, pv, root, t, b, nn]:
            return "Block.parse of a block with a transaction count of 0: txs / tx_hashes not empty, or bytes after it consumed"
        try:
            zr = z.validate_merkle_root()
        except Exception:
            zr = "raise"
        if zr is True:
            return "validate_merkle_root() of a block without transactions is True"
        got.append(z)
    if got[0].tx_hashes is got[1].tx_hashes or got[0].txs is got[1].txs:
        return "two parsed empty blocks share one tx_hashes / txs list object"
    got[0].tx_hashes.extend(ids)
    if got[1].tx_hashes != [] or got[0].validate_merkle_root() is not True:
        return "tx_hashes appended to one parsed empty block show in another one / do not validate"
    return None


def p_tree_second(la, ma, lb, mb_):
    """ONE MerkleTree given a second proof after a complete first one.  Either the second call raises and the tree still
    answers for the first proof, or it returns and the tree answers exactly for the second: never a mixture (root of one
    with ids of the other, ids of both)"""
    pa, pb = ref_build(la, ma), ref_build(lb, mb_)
    wa = [x[::-1] for x, m in zip(la, ma) if m]
    wb = [x[::-1] for x, m in zip(lb, mb_) if m]
    t = MerkleTree(pa[0])
    fa, ha = helper.bytes_to_bit_field(pa[3]), list(pa[2])
    t.populate_tree(fa, ha)
    if t.root() != ref_root(la) or t.proved_txs != wa:
        return "first proof: wrong root / proved_txs"
    fb, hb_ = helper.bytes_to_bit_field(pb[3]), list(pb[2])
    try:
        t.populate_tree(fb, hb_)
        raised = False
    except Exception:
        raised = True
    first = t.root() == ref_root(la) and t.proved_txs == wa
    second = t.root() == ref_root(lb) and t.proved_txs == wb
    if raised and not first:
        return "a second populate_tree on a complete MerkleTree raised but changed the tree's root / proved_txs"
    if not raised and not (second or (first and hb_ == [] and not any(fb))):
        return ("a second populate_tree on a complete MerkleTree returned normally and the tree answers neither for the "
                "first nor for the second proof (root / proved_txs mixed)")
    # a tree of the same size built afterwards starts empty
    t3 = MerkleTree(pa[0])
    if t3.root() is not None or t3.proved_txs != [] or t3.current_depth != 0 or t3.current_index != 0:
        return "a new MerkleTree is not empty / not at the root"
    return None


def p_headers_txcount(fields, k, cnt):
    """a headers message in which header k (any position, not only the first) is followed by a non-zero transaction
    count is refused by HeadersMessage.parse with RuntimeError; with every count zero it parses to the headers sent"""
    out = _cs(len(fields))
    for i, (v, p, m, t, b, n) in enumerate(fields):
        out += struct.pack("<I", v) + p[::-1] + m[::-1] + struct.pack("<I", t) + b + n + (_cs(cnt) if i == k else b"\x00")
    try:
        msg = network.HeadersMessage.parse(BytesIO(out))
    except RuntimeError:
        return None if cnt else "HeadersMessage.parse raised RuntimeError on a well-formed headers message"
    except Exception as e:
        return "HeadersMessage.parse raised " + type(e).__name__
    if cnt:
        return f"HeadersMessage.parse accepts a headers message whose header {k} of {len(fields)} is followed by the transaction count {cnt}"
    if [_hdr(h) for h in msg.headers] != [list(f) for f in fields]:
        return "HeadersMessage.parse returns different headers"
    return None


_MAGIC_MAIN = b"\xf9\xbe\xb4\xd9"


def _envelope(cmd, payload):
    return _MAGIC_MAIN + cmd + b"\x00" * (12 - len(cmd)) + struct.pack("<I", len(payload)) + h256(payload)[:4] + payload


class _FakeSocket:
    def __init__(self):
        self.sent = []

    def sendall(self, b):
        self.sent.append(bytes(b))


def p_filtered_txs(blocks, scenario, k):
    """SimpleNode.get_filtered_txs over a recorded peer conversation (no network: the socket is a recorder and the stream a
    BytesIO of hand-framed messages).  blocks = [[header fields, transactions, match vector] ...].  scenario 0: the honest
    answers (with a ping and an unrelated message in between) -> exactly the matched transactions of every block, in
    order, and the getdata request names every block hash; 1: the answers for two blocks arrive in the other order;
    2: block k's header carries an altered Merkle root (and that header's hash is what was asked for); 3: one proof hash
    of block k altered; 4: a matched transaction of block k replaced by an unmatched / foreign one; 5: two matched
    transactions of block k swapped.  1..5 must raise"""
    from buidl.tx import Tx
    info = []
    for bi, (fields, txs, matches) in enumerate(blocks):
        sers = [ser_tx(t) for t in txs]
        txids = [h256(s) for _w, s in sers]
        root = ref_root(txids)[::-1]
        total, _bits, hashes, flags = ref_build(txids, matches)
        hashes = list(hashes)
        if scenario == 2 and bi == k:
            rb = bytearray(root)
            rb[5] ^= 0x10
            root = bytes(rb)
        if scenario == 3 and bi == k:
            # prefer a hash that is not a matched leaf: the transactions that follow still fit the proved ids
            cand = [i for i, h in enumerate(hashes) if h not in [x for x, m in zip(txids, matches) if m]]
            i = cand[0] if cand else 0
            hb_ = bytearray(hashes[i])
            hb_[7] ^= 0x02
            hashes[i] = bytes(hb_)
        hb = header_bytes(fields, root)
        sent_txs = [(w, x[::-1]) for (w, _s), x, m in zip(sers, txids, matches) if m]
        if scenario == 4 and bi == k:
            if not sent_txs:
                return None
            spare = [(w, x[::-1]) for (w, _s), x, m in zip(sers, txids, matches) if not m]
            if not spare:
                ob = blocks[(k + 1) % len(blocks)]
                w0, s0 = ser_tx(ob[1][0])
                spare = [(w0, h256(s0)[::-1])]
            if spare[0][1] == sent_txs[0][1]:
                return None
            sent_txs[0] = spare[0]
        if scenario == 5 and bi == k:
            if len(sent_txs) < 2 or sent_txs[0][1] == sent_txs[1][1]:
                return None
            sent_txs[0], sent_txs[1] = sent_txs[1], sent_txs[0]
        info.append({"bh": h256(hb)[::-1], "mb": wire_merkleblock(hb, total, hashes, flags), "txs": sent_txs})
    order = list(range(len(info)))
    if scenario == 1:
        if len(info) < 2 or info[0]["bh"] == info[1]["bh"]:
            return None
        order[0], order[1] = order[1], order[0]
    conv = b""
    for j, bi in enumerate(order):
        if j == 0:
            conv += _envelope(b"ping", b"\x01\x02\x03\x04\x05\x06\x07\x08")
        conv += _envelope(b"merkleblock", info[bi]["mb"])
        for q, (w, _id) in enumerate(info[bi]["txs"]):
            if q == 1:
                conv += _envelope(b"inv", b"\x00")
            conv += _envelope(b"tx", w)
    node = network.SimpleNode.__new__(network.SimpleNode)
    node.network, node.logging = "mainnet", False
    node.socket = _FakeSocket()
    node.stream = BytesIO(conv)
    asked = [x["bh"] for x in info]
    try:
        res = node.get_filtered_txs(list(asked))
    except Exception as e:
        if scenario == 0:
            return "get_filtered_txs raised on the honest answers of a peer: " + repr(e)
        return None
    if scenario != 0:
        what = {1: "the merkleblocks of two blocks arrive in the other order than asked for",
                2: "a merkleblock whose proof does not hash to its header's Merkle root",
                3: "a merkleblock with an altered proof hash",
                4: "a transaction that is not the one the proof yields",
                5: "two proved transactions in the other order"}[scenario]
        return f"get_filtered_txs returns normally ({len(res)} transactions) for {what}"
    want = [i for x in info for (_w, i) in x["txs"]]
    if [type(x) for x in res] != [Tx] * len(want) or [x.hash() for x in res] != want:
        return "get_filtered_txs does not return exactly the matched transactions of every block, in order"
    req = _cs(len(asked)) + b"".join(struct.pack("<I", 3) + x[::-1] for x in asked)
    if not node.socket.sent or node.socket.sent[0] != _envelope(b"getdata", req):
        return "get_filtered_txs did not send getdata(MSG_FILTERED_BLOCK, hash) for every block hash asked for, in order"
    if node.stream.read() != b"":
        return "get_filtered_txs left messages of the conversation unread"
    return None


PROPS = {"headers_txcount": p_headers_txcount, "entry_misc": p_entry_misc, "tree_second": p_tree_second, "filtered_txs": p_filtered_txs,
         "block_parse": p_block_parse, "block_parse_reser": p_block_parse, "block_stream": p_block_stream,
         "root_ref": p_root_ref, "proof_complete": p_proof_complete, "proof_complete_spec": p_proof_complete_spec,
         "tamper": p_tamper, "total_forgery": p_total_forgery, "hashlen_split": p_hashlen_split,
         "bitfield_rt": p_bitfield_rt,
         "depth_formula": p_depth_formula, "compact_ref": p_compact_ref, "compact_rt": p_compact_rt,
         "retarget_ref": p_retarget_ref, "pow_ref": p_pow_ref, "chain": p_chain,
         "reuse_mb": p_reuse_mb, "two_proofs": p_two_proofs, "root_order": p_root_order,
         "reuse_block": p_reuse_block, "reuse_headers": p_reuse_headers, "compact_order": p_compact_order,
         "wire_complete": p_wire_complete, "populate_lists": p_populate_lists, "headers_wire": p_headers_wire,
         "pow_eq_stub": p_pow_eq_stub}


def classify(v):
    """maps a violation to the key of a known finding, or None"""
    if v.get("kind") != "prop":
        return None
    name, a = v["name"], v["args"]
    if name == "total_forgery":
        return "K-C17-total"
    if name == "tamper" and a[4] == 2 and "not in the block" in v.get("detail", ""):
        return "K-C17-total"
    if name == "block_parse_reser":
        # exactly: the complaint names transaction i of the parsed block, that transaction holds a script buidl does not
        # write back byte for byte (non-minimal push), and the wrong id is neither the wtxid nor a byte-order slip
        import re
        d = v.get("detail", "")
        m = re.match(r"Block\.parse: (?:tx_hashes|txs)\[(\d+)\]", d)
        if m and int(m.group(1)) < len(a[1]) and "wtxid" not in d.split(" but ")[-1] and "other byte order" not in d:
            t = a[1][int(m.group(1))]
            if any(not _script_pushes_canonical(x) for x in [i[2] for i in t[1]] + [o[1] for o in t[2]]):
                return "K-C17-txid-reserialised"
    return None


# ------------------------------------------------------------------ generators

def rleaves(ctx, n, dup=False):
    l = [ctx.rbytes(32) for _ in range(n)]
    if dup and n >= 2:
        l[-1] = l[-2]
    return l


def proof_cases(ctx, leaves, matches, full=True):
    total, bits, hashes, flags = ref_build(leaves, matches)
    root = ref_root(leaves)[::-1]
    disp = [h[::-1] for h in hashes]
    yield ("prop", "proof_complete", [leaves, matches])
    yield ("corr", "bip37_build", [leaves, [1 if m else 0 for m in matches]])
    yield ("corr", "mb_is_valid", [root, total, disp, flags])
    yield ("corr", "mb_is_valid_rec", [root, total, disp, flags])
    if full:
        yield ("prop", "proof_complete_spec", [leaves, matches])
        yield ("corr", "populate", [total, helper.bytes_to_bit_field(flags), hashes])
        yield ("corr", "mb_parse", [_raw_merkleblock(root, total, hashes, flags)])
        # wire level: Core layout (extracted spec encoder) -> MerkleBlock.parse -> is_valid / proved_txs
        f = rheader_fields(ctx, ctx.rng.choice(_guard_bits_pool()))
        rest = ctx.rbytes(ctx.rng.choice([0, 0, 1, 5]))
        hb = struct.pack("<I", f[0]) + f[1][::-1] + root[::-1] + struct.pack("<I", f[3]) + f[4] + f[5]
        ctx.label("wire/merkleblock")
        yield ("prop", "wire_complete", [leaves, matches, f, rest])
        yield ("corr", "merkleblock_of_block", [hb, leaves, [1 if m else 0 for m in matches]])
        yield ("corr", "merkleblock_bytes", [hb, total, hashes, flags])
        yield ("corr", "mb_parse_is_valid", [wire_merkleblock(hb, total, hashes, flags) + rest])
        yield ("corr", "populate_mut", [total, helper.bytes_to_bit_field(flags), hashes])
        yield ("prop", "populate_lists", [total, helper.bytes_to_bit_field(flags), hashes])


def tamper_cases(ctx, leaves, matches, every_bit):
    r = ctx.rng
    total, bits, hashes, flags = ref_build(leaves, matches)
    root = ref_root(leaves)[::-1]
    others = [ctx.rbytes(32), leaves[0], hashes[0], ref_levels(leaves)[-1][0]]
    alts = []
    for i in range(len(hashes)):
        for b in (range(256) if every_bit else r.sample(range(256), 8)):
            alts.append((0, i, b, b""))
        alts.append((4, i, 0, b""))
    for i in range(len(hashes) + 1):
        for e in others:
            alts.append((5, i, 0, e))
    for i in range(8 * len(flags)):
        alts.append((1, i, 0, b""))
    for b in range(32):
        alts.append((2, 0, b, b""))
    for b in (range(256) if every_bit else r.sample(range(256), 16)):
        alts.append((3, 0, b, b""))
    for e in (b"\x00", b"\x01", b"\x80"):
        alts.append((6, 0, 0, e))
    for (kind, idx, bit, extra) in alts:
        ctx.label("tamper/kind%d" % kind)
        yield ("prop", "tamper", [leaves, total, hashes, flags, kind, idx, bit, extra])
        # model == implementation on a sample of the altered proofs
        if r.random() < (0.02 if kind == 0 else 0.3):
            t2, h2, f2, r2 = _alter(total, hashes, flags, root, kind, idx, bit, extra)
            if t2 <= MAX_ALLOC_TOTAL:
                yield ("corr", "mb_is_valid", [r2, t2, [h[::-1] for h in h2], f2])
                yield ("corr", "mb_is_valid_rec", [r2, t2, [h[::-1] for h in h2], f2])


COEFFS = [0, 1, 2, 0x7F, 0x80, 0xFF, 0x100, 0x101, 0x7FFF, 0x8000, 0xFFFF, 0x10000, 0x10001, 0x7FFFFF,
          0x800000, 0x800001, 0x80FFFF, 0xFFFF00, 0xFFFFFF, 0x00FFFF, 0x123456, 0x7FFFFE]


def rheader_fields(ctx, bits=None):
    r = ctx.rng
    return [r.getrandbits(32), ctx.rbytes(32), ctx.rbytes(32), r.getrandbits(32),
            bits if bits is not None else ctx.rbytes(4), ctx.rbytes(4)]


def mine(ctx, fields, tries=64):
    """grind the nonce until check_pow holds (easy bits only)"""
    for _ in range(tries):
        if _blk(*fields).check_pow():
            return fields
        fields = fields[:5] + [ctx.rbytes(4)]
    return fields


def generate(ctx):
    r = ctx.rng
    # ---------------- Merkle roots
    for n in list(range(1, 34)) + [63, 64, 65, 127, 128, 129, 255, 256, 257] + \
            [r.randrange(1, 1200) for _ in range(ctx.n(6, 60))]:
        for dup in (False, True):
            leaves = rleaves(ctx, n, dup)
            ctx.label("root/odd" if n & 1 else "root/even")
            yield ("corr", "merkle_root", [leaves])
            yield ("corr", "consensus_root", [leaves])
            yield ("prop", "root_ref", [leaves])
            if n <= 40:
                yield ("corr", "merkle_parent_level", [leaves])
                root = ref_root(leaves)[::-1]
                ids = [x[::-1] for x in leaves]
                yield ("corr", "validate_merkle_root", [root, ids])
                yield ("corr", "validate_merkle_root", [ctx.rbytes(32), ids])
    yield ("corr", "merkle_root", [[]])
    yield ("corr", "merkle_parent_level", [[]])
    yield ("corr", "validate_merkle_root", [ctx.rbytes(32), []])
    for ln in (0, 1, 31, 33, 64):       # hashes of other lengths: the code does not care
        yield ("corr", "merkle_root", [[ctx.rbytes(ln) for _ in range(3)]])
        yield ("corr", "merkle_parent", [ctx.rbytes(ln), ctx.rbytes(32)])
    # ---------------- bit fields
    for ln in list(range(0, 6)) + [r.randrange(0, 40) for _ in range(ctx.n(20, 300))]:
        b = ctx.rbytes(ln)
        yield ("corr", "bytes_to_bit_field", [b])
        yield ("prop", "bitfield_rt", [b])
        bits = [r.choice([0, 1, 1, 2, -1, 255]) for _ in range(r.randrange(0, 30))]
        yield ("corr", "bit_field_to_bytes", [bits])
        yield ("corr", "bit_field_to_bytes", [helper.bytes_to_bit_field(b)])
    # ---------------- tree shapes and the depth formula
    for total in list(range(-2, 70)) + [2 ** k + d for k in range(6, 17) for d in (-1, 0, 1)] + \
            [r.randrange(1, 100000) for _ in range(ctx.n(10, 100))]:
        yield ("corr", "mt_shape", [total])
    for k in range(0, 65):
        for d in (-1, 0, 1):
            total = 2 ** k + d
            if total >= 1:
                ctx.label("depth/2^k+-1")
                yield ("corr", "mt_depth", [total])
                yield ("prop", "depth_formula", [total])
    for _ in range(ctx.n(300, 20000)):
        total = r.randrange(1, 2 ** r.randrange(1, 21))
        yield ("corr", "mt_depth", [total])
        yield ("prop", "depth_formula", [total])
    # ---------------- BIP37: exhaustive small trees x all match subsets
    nmax = ctx.n(8, 10) if ctx.scale == 1.0 else 8
    nmax = min(nmax, 10)
    for n in range(1, nmax + 1):
        leaves = rleaves(ctx, n)
        for m in itertools.product([False, True], repeat=n):
            ctx.label("bip37/exhaustive-n=%d" % n)
            yield from proof_cases(ctx, leaves, list(m), full=(n <= 6))
        yield ("prop", "total_forgery", [leaves])
    for _ in range(ctx.n(2, 20)):
        yield ("prop", "hashlen_split", [ctx.rbytes(32), ctx.rbytes(32)])
    # duplicated last leaves (CVE-2012-2459 shape), identical leaves
    for n in (2, 3, 4, 5, 7, 8):
        leaves = rleaves(ctx, n, dup=True)
        for _ in range(4):
            m = [r.random() < 0.5 for _ in range(n)]
            yield from proof_cases(ctx, leaves, m)
    # sampled sizes
    sizes = [11, 12, 13, 15, 16, 17, 31, 32, 33, 100] + [r.randrange(11, 300) for _ in range(ctx.n(6, 40))]
    if ctx.tier != "quick":
        sizes += [511, 512, 513, 1000, 2047, 2048, 2049, 4095, 4096, 4097, 5000] + \
                 [r.randrange(300, 5000) for _ in range(ctx.n(4, 10))]
    for n in sizes:
        leaves = rleaves(ctx, n)
        dens = r.choice([0.0, 0.01, 0.1, 0.5, 0.9, 1.0])
        for m in ([False] * n, [True] * n, [i == n - 1 for i in range(n)], [i == 0 for i in range(n)],
                  [r.random() < dens for _ in range(n)]):
            ctx.label("bip37/sampled-n<=300" if n <= 300 else "bip37/sampled-n>300")
            yield from proof_cases(ctx, leaves, m, full=(n <= 600))
        yield ("prop", "total_forgery", [leaves])
    # malformed inputs straight into MerkleTree.populate_tree: random bits / too few hashes / odd flag values
    for _ in range(ctx.n(150, 4000)):
        total = r.choice([1, 2, 3, 4, 5, 6, 7, 8, 9, 13, 16, 17, r.randrange(1, 40)])
        nb = r.randrange(0, 3 * total + 4)
        bits = [r.choice([0, 1, 1, 1, 2]) if r.random() < 0.05 else r.randrange(2) for _ in range(nb)]
        hs = [ctx.rbytes(r.choice([32, 32, 32, 0, 1, 33])) for _ in range(r.randrange(0, total + 3))]
        ctx.label("populate/random")
        yield ("corr", "populate", [total, bits, hs])
        yield ("corr", "populate_rec", [total, bits, hs])
        yield ("corr", "populate_mut", [total, bits, hs])
        yield ("corr", "populate_rec_mut", [total, bits, hs])
        yield ("prop", "populate_lists", [total, bits, hs])
    for total in (0, -1, -5):
        yield ("corr", "populate", [total, [1, 0], [ctx.rbytes(32)]])
        yield ("corr", "populate_rec", [total, [1, 0], [ctx.rbytes(32)]])
        yield ("corr", "mb_is_valid", [ctx.rbytes(32), total, [ctx.rbytes(32)], b"\x01"])
    # merkleblock parser: honest, truncated at every offset, random
    leaves = rleaves(ctx, 5)
    total, bits, hashes, flags = ref_build(leaves, [True, False, False, True, False])
    raw = _raw_merkleblock(ref_root(leaves)[::-1], total, hashes, flags)
    for cut in range(0, len(raw) + 1, 1 if ctx.tier != "quick" else 3):
        ctx.label("parse/truncated")
        yield ("corr", "mb_parse", [raw[:cut]])
        if cut < 81 or cut >= 84:          # a cut inside the total field is a short read of it: still small
            yield ("corr", "mb_parse_is_valid", [raw[:cut]])
    for _ in range(ctx.n(40, 800)):        # parse . is_valid on corrupted messages (total field left alone)
        bad = bytearray(raw + ctx.rbytes(r.randrange(0, 3)))
        i = r.randrange(0, len(bad) - 4)
        i = i + 4 if i >= 80 else i
        bad[i] ^= 1 << r.randrange(8)
        ctx.label("wire/corrupted")
        yield ("corr", "mb_parse_is_valid", [bytes(bad)])
    pre = raw[:84] + b"\x01" + ctx.rbytes(32)
    for fl in (b"\xff" + b"\xff" * 8, b"\xff" + b"\x00" * 7 + b"\x80", b"\xff" + b"\xff" * 7 + b"\x7f",
               b"\xfe\xff\xff\xff\xff", b"\xfd\x00\x01", b"\x00", b"\xfd", b""):
        ctx.label("parse/flag-length-boundary")
        yield ("corr", "mb_parse", [pre + fl + ctx.rbytes(5)])
    for _ in range(ctx.n(60, 1500)):
        bad = bytearray(raw + ctx.rbytes(r.randrange(0, 3)))
        bad[r.randrange(80, len(bad))] ^= 1 << r.randrange(8)
        yield ("corr", "mb_parse", [bytes(bad)])
        yield ("corr", "mb_parse", [ctx.rbytes(80) + struct.pack("<I", r.getrandbits(32)) +
                                    bytes([r.choice([0, 1, 2, 3, 0xfd])]) + ctx.rbytes(r.randrange(0, 140))])
    # ---------------- tampering: every single-bit alteration of sampled proofs
    tsizes = [1, 2, 3, 4, 5, 6, 7, 8, 11] if ctx.tier == "quick" else list(range(1, 18)) + [23, 32, 33, 50, 100]
    for i, n in enumerate(tsizes):
        leaves = rleaves(ctx, n, dup=(i % 5 == 4))
        msets = [[True] * n, [r.random() < 0.4 for _ in range(n)]]
        if n <= 4 or ctx.tier != "quick":
            msets.append([False] * n)
            msets.append([j == n - 1 for j in range(n)])
        for m in msets:
            yield from tamper_cases(ctx, leaves, m, every_bit=(n <= 8 or ctx.tier != "quick"))
    # ---------------- compact bits
    for e in list(range(0, 36)) + [127, 128, 255]:
        for c in COEFFS + [r.getrandbits(24) for _ in range(ctx.n(2, 20))]:
            bits = struct.pack("<I", c)[:3] + bytes([e])
            ctx.label("compact/usual" if compact_guard(bits) else
                      ("compact/exp<3" if e < 3 else ("compact/sign" if c & 0x800000 else "compact/overflow")))
            yield ("corr", "bits_to_target", [bits])
            yield ("corr", "difficulty", [bits])
            yield ("prop", "compact_ref", [bits])
            yield ("corr", "core_set_compact", [int.from_bytes(bits, "little")])
            for td in (helper.TWO_WEEKS, helper.TWO_WEEKS // 4, helper.TWO_WEEKS * 4):
                yield ("corr", "calculate_new_bits", [bits, td])
                yield ("prop", "retarget_ref", [bits, td])
                yield ("corr", "core_next_work", [int.from_bytes(bits, "little"), td])
    for bits in (b"", b"\x05", b"\x01\x04", b"\x01\x02\x03", b"\x01\x02\x03\x04\x05", b"\x00\x00\x00\x00\x00\x02"):
        yield ("corr", "bits_to_target", [bits])
        yield ("corr", "difficulty", [bits])
        yield ("corr", "calculate_new_bits", [bits, helper.TWO_WEEKS])
    targets = [0, -1, 2 ** 256, 2 ** 256 - 1, 2 ** 256 + 5, helper.MAX_TARGET, helper.MAX_TARGET + 1, POW_LIMIT,
               POW_LIMIT + 1, 0x7F, 0x80, 0x7FFF, 0x8000, 0x7FFFFF, 0x800000, 0x7FFFFFFF, 0x80000000]
    for k in range(0, 257):
        targets += [2 ** k - 1, 2 ** k, 2 ** k + 1]
    targets += [r.getrandbits(r.randrange(1, 257)) for _ in range(ctx.n(200, 8000))]
    for t in targets:
        ctx.label("target/<0x8000" if 0 <= t < 0x8000 else "target/other")
        yield ("corr", "target_to_bits", [t])
        if 0 <= t < 2 ** 256:
            yield ("prop", "compact_rt", [t])
            yield ("corr", "core_get_compact", [t])
    # ---------------- retarget
    TW = helper.TWO_WEEKS
    tds = [TW // 4 - 1, TW // 4, TW // 4 + 1, TW * 4 - 1, TW * 4, TW * 4 + 1, TW - 1, TW, TW + 1, 0, 1, -1, -TW,
           2 ** 31 - 1, 2 ** 32, 10 * TW]
    prevs = [bytes.fromhex(x) for x in ("ffff001d", "54d80118", "cb04041b", "ffff7f20", "ae77031e", "00000103",
                                        "00000203", "00008003", "ff7f0003", "00000104", "ffff7f1d", "0000011d",
                                        "ffff001e", "01000103", "99991917")]
    for pb in prevs + [struct.pack("<I", r.getrandbits(23))[:3] + bytes([r.randrange(3, 33)])
                       for _ in range(ctx.n(20, 400))]:
        for td in tds + [r.randrange(TW // 8, TW * 5) for _ in range(ctx.n(3, 20))]:
            ctx.label("retarget/clamp-low" if td < TW // 4 else ("retarget/clamp-high" if td > TW * 4 else "retarget/mid"))
            yield ("corr", "calculate_new_bits", [pb, td])
            yield ("prop", "retarget_ref", [pb, td])
            yield ("corr", "core_next_work", [int.from_bytes(pb, "little"), td])
    # ---------------- headers: hash, PoW
    for i in range(ctx.n(150, 6000)):
        sel = i % 6
        if sel == 0:
            bits = None
        elif sel == 1:
            bits = bytes.fromhex("ffff7f20")
        elif sel == 2:
            bits = struct.pack("<I", r.getrandbits(23))[:3] + bytes([r.choice([31, 32, 33, 34])])
        elif sel == 3:
            bits = struct.pack("<I", r.getrandbits(24))[:3] + bytes([r.randrange(0, 40)])
        elif sel == 4:
            bits = bytes.fromhex("ffff001d")
        else:
            bits = r.choice(COEFFS).to_bytes(3, "little") + bytes([r.choice([0, 1, 2, 3, 32, 33, 34, 35])])
        f = rheader_fields(ctx, bits)
        ctx.label("pow/header")
        yield ("corr", "difficulty", [f[4]])
        yield ("corr", "check_pow", f)
        yield ("corr", "block_hash", f)
        yield ("prop", "pow_ref", f)
        yield ("prop", "pow_eq_stub", f)
        yield ("corr", "core_check_pow", [r.getrandbits(256) >> r.randrange(0, 40), int.from_bytes(f[4], "little")])
    for v, t in ((-1, 0), (2 ** 32, 0), (0, -1), (0, 2 ** 32)):
        f = rheader_fields(ctx, bytes.fromhex("ffff7f20"))
        f[0], f[3] = v, t
        yield ("corr", "check_pow", f)
        yield ("corr", "block_hash", f)
    for gh in (block.GENESIS_BLOCK_MAINNET_HEX, block.GENESIS_BLOCK_TESTNET_HEX, block.GENESIS_BLOCK_SIGNET_HEX,
               block.GENESIS_BLOCK_REGTEST_HEX):
        f = _hdr(Block.parse_header(hex=gh))
        yield ("corr", "check_pow", f)
        yield ("prop", "pow_ref", f)
    # ---------------- header chains
    easy = bytes.fromhex("ffff7f20")
    for _ in range(ctx.n(40, 1200)):
        k = r.choice([0, 1, 2, 3, 4, 6])
        chain = []
        prev = ctx.rbytes(32)
        for _j in range(k):
            f = mine(ctx, [r.getrandbits(32), prev, ctx.rbytes(32), r.getrandbits(32), easy, ctx.rbytes(4)])
            chain.append(f)
            prev = _blk(*f).hash()
        kind = r.randrange(5)
        if k and kind == 1:       # break a link
            i = r.randrange(k)
            p = bytearray(chain[i][1])
            p[r.randrange(32)] ^= 1 << r.randrange(8)
            chain[i] = [chain[i][0], bytes(p)] + chain[i][2:]
            ctx.label("chain/broken-link" if i else "chain/first-prev-free")
        elif k and kind == 2:     # a header that fails PoW
            i = r.randrange(k)
            chain[i] = chain[i][:4] + [bytes.fromhex("ffff001d")] + chain[i][5:]
            ctx.label("chain/pow-fails")
        elif k and kind == 3:     # altered header in the middle: successor no longer links
            i = r.randrange(k)
            chain[i] = chain[i][:2] + [ctx.rbytes(32)] + chain[i][3:]
            ctx.label("chain/altered-header")
        else:
            ctx.label("chain/honest")
        yield ("corr", "headers_is_valid", [chain])
        yield ("prop", "chain", [chain])
        rest = ctx.rbytes(r.choice([0, 0, 2]))
        ctx.label("wire/headers")
        yield ("prop", "headers_wire", [chain, rest])
        wh = wire_headers(chain) + rest
        yield ("corr", "headers_parse_is_valid", [wh])
        if wh and r.random() < 0.5:        # truncated / corrupted headers messages
            yield ("corr", "headers_parse_is_valid", [wh[: r.randrange(len(wh))]])
            bad = bytearray(wh)
            bad[r.randrange(len(bad))] ^= 1 << r.randrange(8)
            yield ("corr", "headers_parse_is_valid", [bytes(bad)])
    # ---------------- one object used repeatedly: stale memoised state, coarse module-level caches
    for n in [1, 2, 3, 4, 5, 7, 8, 11, 16, 33] + [r.randrange(2, 120) for _ in range(ctx.n(4, 60))]:
        leaves = rleaves(ctx, n, dup=(n % 5 == 3))
        m = [r.random() < 0.4 for _ in range(n)]
        if not any(m):
            m[r.randrange(n)] = True
        ctx.label("reuse/merkleblock")
        yield ("prop", "reuse_mb", [leaves, m, r.getrandbits(30), ctx.n(40, 80)])
        lb = rleaves(ctx, r.choice([1, 2, 3, 5, 6, 9, 12]))
        ctx.label("reuse/two-proofs")
        yield ("prop", "two_proofs", [leaves, m, lb, [r.random() < 0.5 for _ in lb]])
    for _ in range(ctx.n(6, 60)):
        n0 = r.randrange(1, 12)
        base = rleaves(ctx, n0)
        lists = []
        for _j in range(10):
            k = r.randrange(4)
            if k == 0:
                lists.append(list(base))
            elif k == 1:          # same length, same first element
                lists.append([base[0]] + rleaves(ctx, n0 - 1))
            elif k == 2:          # a prefix / an extension
                lists.append(base[: r.randrange(1, n0 + 1)] + rleaves(ctx, r.randrange(0, 3)))
            else:
                lists.append(rleaves(ctx, r.randrange(1, 20)))
        ctx.label("reuse/merkle-root-order")
        yield ("prop", "root_order", [lists, r.getrandbits(30)])
    for _ in range(ctx.n(8, 80)):
        ctx.label("reuse/block-header")
        yield ("prop", "reuse_block", [rheader_fields(ctx, r.choice(_guard_bits_pool())), r.getrandbits(30), ctx.n(60, 120)])
    for _ in range(ctx.n(6, 60)):
        k = r.choice([1, 2, 3, 4])
        chain, prev = [], ctx.rbytes(32)
        for _j in range(k):
            f = mine(ctx, [r.getrandbits(32), prev, ctx.rbytes(32), r.getrandbits(32), easy, ctx.rbytes(4)])
            chain.append(f)
            prev = _blk(*f).hash()
        ctx.label("reuse/headers-message")
        yield ("prop", "reuse_headers", [chain, r.getrandbits(30), ctx.n(40, 80)])
    for _ in range(ctx.n(6, 60)):
        seq = []
        for _j in range(30):
            k = r.randrange(4)
            gb = struct.pack("<I", r.choice([0x008000, 0x7fffff, 0x00ffff, 0x123456, r.randrange(0x8000, 0x800000)]))[:3] + \
                bytes([r.randrange(4, 29)])
            if k == 0:
                seq.append([0, gb])
            elif k == 1:
                seq.append([1, r.choice([0x8000, 2 ** 255, POW_LIMIT, r.getrandbits(r.randrange(16, 257)) | 0x8000])])
            elif k == 2:
                seq.append([2, gb, r.choice([TW, TW // 4, TW * 4, TW - 1, r.randrange(TW // 8, TW * 5)])])
            else:
                seq.append([3, r.choice([1, 2, 3, 4, 5, 8, 9, 1023, 1024, 1025, r.randrange(1, 3000)])])
        ctx.label("reuse/compact-order")
        yield ("prop", "compact_order", [seq])
    # ---------------- whole blocks through Block.parse and every other entry point that feeds the Merkle code
    yield from block_cases(ctx)
    # ---------------- entry-point audit: defaults, per-element attributes, coincidences, byte classes, shared state, retry
    yield from audit_cases(ctx)


def ref_mine(fields, above=None, upto=None, start=0):
    """grind the nonce (a counter; reference arithmetic only) until the header hash H, as a number, satisfies
    target(above) < H <= target(upto), where above / upto are compact bits (None: no bound)"""
    v, p, m, t, b, _n = fields
    lo = core_set_compact(int.from_bytes(above, "little"))[0] if above is not None else -1
    hi = core_set_compact(int.from_bytes(upto, "little"))[0] if upto is not None else 2 ** 256
    pre = struct.pack("<I", v) + p[::-1] + m[::-1] + struct.pack("<I", t) + b
    for c in range(start, start + 400000):
        n = struct.pack("<I", c)
        if lo < int.from_bytes(h256(pre + n), "little") <= hi:
            return [v, p, m, t, b, n]
    raise RuntimeError("ref_mine: no nonce found")


def ref_hash(fields):
    v, p, m, t, b, n = fields
    return h256(struct.pack("<I", v) + p[::-1] + m[::-1] + struct.pack("<I", t) + b + n)[::-1]


def special_leaves(ctx, n, cls):
    x = ctx.rbytes(32)
    if cls == "zero":
        return [Z32] * n
    if cls == "ff":
        return [b"\xff" * 32] * n
    if cls == "equal":
        return [x] * n
    l = [ctx.rbytes(32) for _ in range(n)]
    if cls == "pair" and n >= 4:          # the last two PAIRS are equal: two equal nodes one level up
        l[-2:] = l[-4:-2]
    elif cls == "quad" and n >= 8:
        l[-4:] = l[-8:-4]
    elif cls == "zero-first":
        l[0] = Z32
    elif cls == "zero-ff-mixed":
        l = [Z32 if i & 1 else b"\xff" * 32 for i in range(n)]
    elif cls == "first-last":
        l[-1] = l[0]
    return l


def audit_cases(ctx):
    r = ctx.rng
    easy, tight = bytes.fromhex("ffff7f20"), bytes.fromhex("ffff7f1f")
    loose2 = bytes.fromhex("ffff3f20")
    FF32 = b"\xff" * 32

    def hdr(prev, bits, above=None, upto="own"):
        """a header with these bits whose hash is above target(above) and at most target(upto) (default: its own bits)"""
        return ref_mine([r.getrandbits(32), prev, ctx.rbytes(32), r.getrandbits(32), bits, b"\x00" * 4], above,
                        bits if upto == "own" else upto)

    def chain_cases(chain, label, reuse=False):
        ctx.label("audit/chain/" + label)
        yield ("corr", "headers_is_valid", [chain])
        yield ("prop", "chain", [chain])
        yield ("prop", "headers_wire", [chain, ctx.rbytes(r.choice([0, 2]))])
        yield ("corr", "headers_parse_is_valid", [wire_headers(chain)])
        if reuse:
            yield ("prop", "reuse_headers", [chain, r.getrandbits(30), 30])

    # ---- (f) headers of ONE message that differ in bits: every header is judged by its own bits
    for rep in range(ctx.n(2, 10)):
        a = hdr(ctx.rbytes(32), tight)                                   # passes the tight target
        b = hdr(ref_hash(a), easy, above=tight)                          # passes its own, above the first one's target
        c = hdr(ref_hash(b), loose2, above=tight)
        yield from chain_cases([a, b], "mixed-bits/tight-loose-valid", reuse=True)
        yield from chain_cases([a, b, c], "mixed-bits/three-valid")
        a2 = hdr(ctx.rbytes(32), easy, above=tight)
        b2 = hdr(ref_hash(a2), tight)
        yield from chain_cases([a2, b2], "mixed-bits/loose-tight-valid", reuse=True)
        b3 = hdr(ref_hash(a2), tight, above=tight, upto=easy)            # fails its own bits, would pass the first one's
        yield from chain_cases([a2, b3], "mixed-bits/second-fails-own-bits")
        a4 = hdr(ctx.rbytes(32), tight, above=tight, upto=easy)          # fails its own bits, would pass the second one's
        b4 = hdr(ref_hash(a4), easy)
        yield from chain_cases([a4, b4], "mixed-bits/first-fails-own-bits")
        b5 = hdr(ref_hash(a), tight, above=tight, upto=easy)
        c5 = hdr(ref_hash(b5), easy)
        yield from chain_cases([a, b5, c5], "mixed-bits/middle-fails-own-bits")
    # ---- (c) links to the wrong element / coincidences of prev_block
    for rep in range(ctx.n(2, 10)):
        h0 = hdr(r.choice([Z32, ctx.rbytes(32), FF32]), easy)
        h1 = hdr(ref_hash(h0), easy)
        h2 = hdr(ref_hash(h1), easy)
        yield from chain_cases([h0, h1, h2], "link/honest-first-prev-%s" % ("zero" if h0[1] == Z32 else "other"), reuse=True)
        yield from chain_cases([h0, h1, hdr(ref_hash(h0), easy)], "link/grandparent")
        yield from chain_cases([h0, h0], "link/same-header-twice")
        yield from chain_cases([h0, h1, h1], "link/same-header-twice")
        yield from chain_cases([h1, h0], "link/reversed-order")
        yield from chain_cases([h0, hdr(Z32, easy)], "link/prev-zero-in-the-middle")
        yield from chain_cases([h0, hdr(FF32, easy), h2], "link/prev-ff-in-the-middle")
        yield from chain_cases([h0, hdr(ref_hash(h0)[::-1], easy)], "link/prev-other-byte-order")
        yield from chain_cases([h0, hdr(h0[1], easy)], "link/prev-equals-predecessors-prev")
        yield from chain_cases([h0, hdr(h0[2], easy)], "link/prev-equals-predecessors-merkle-root")
        yield from chain_cases([h0, hdr(h256(ref_hash(h0)), easy)], "link/prev-hash-of-hash")
        s = ref_mine([h0[0], h0[1], h0[1], h0[3], easy, b"\x00" * 4], None, easy)     # merkle_root == prev_block
        yield from chain_cases([s, hdr(ref_hash(s), easy)], "link/root-equals-prev")
    # ---- (f) the transaction count after EVERY header; (d) a header count in the 0xfd CompactSize form (peers send 2000)
    h0 = hdr(Z32, easy)
    h1 = hdr(ref_hash(h0), easy)
    h2 = hdr(ref_hash(h1), easy)
    for k in range(3):
        for cnt in (0, 1, 2, 0xFC, 0xFD, 0x10000):
            ctx.label("audit/headers/tx-count-after-header-%d" % k)
            yield ("prop", "headers_txcount", [[h0, h1, h2], k, cnt])
        one = wire_headers([h0, h1, h2])
        pos = 1 + 81 * k + 80
        yield ("corr", "headers_parse_is_valid", [one[:pos] + b"\x01" + one[pos + 1:]])
    for nh in ((253, 300) if ctx.tier == "quick" else (253, 256, 2000)):
        long_chain, prev = [], ctx.rbytes(32)
        for _ in range(nh):
            long_chain.append(hdr(prev, easy))
            prev = ref_hash(long_chain[-1])
        yield from chain_cases(long_chain, "count-0xfd-form/honest")
        bad = [list(f) for f in long_chain]
        bad[-1][1] = long_chain[-3][1]
        yield from chain_cases(bad, "count-0xfd-form/last-link-broken")
        bad = [list(f) for f in long_chain]
        bad[252] = bad[252][:4] + [tight] + bad[252][5:]
        bad[252] = ref_mine(bad[252], above=tight, upto=easy)
        yield from chain_cases(bad[:253], "count-0xfd-form/last-fails-pow")
    # ---- (d) headers of one byte class
    for f in ([0, Z32, Z32, 0, b"\x00" * 4, b"\x00" * 4], [0xFFFFFFFF, FF32, FF32, 0xFFFFFFFF, b"\xff" * 4, b"\xff" * 4],
              [0, Z32, Z32, 0, easy, b"\x00" * 4], [0xFFFFFFFF, FF32, FF32, 0xFFFFFFFF, easy, b"\xff" * 4],
              [0, Z32, Z32, 0, b"\xff\xff\xff\x20", b"\x00" * 4], [1, Z32, FF32, 1, b"\x00\x00\x00\x21", b"\x00" * 4],
              [0x80000000, FF32, Z32, 0x80000000, b"\x01\x00\x00\x22", b"\x00\x00\x00\x80"],
              [1, Z32, Z32, 0, b"\x00\x00\x80\x20", b"\x00" * 4], [1, Z32, Z32, 0, b"\x00\x00\x00\xff", b"\x00" * 4]):
        ctx.label("audit/header/byte-class")
        yield ("corr", "check_pow", f)
        yield ("corr", "block_hash", f)
        yield ("corr", "difficulty", [f[4]])
        yield ("prop", "pow_ref", f)
        yield ("prop", "pow_eq_stub", f)
        yield ("prop", "compact_ref", [f[4]])
        yield ("corr", "headers_is_valid", [[f]])
        yield ("prop", "chain", [[f, f]])
        yield ("prop", "headers_wire", [[f], b""])
    # ---- (c)/(d) leaves: all equal, all zero, all ff, equal pairs / quads at the end, first == last
    for cls in ("equal", "zero", "ff", "pair", "quad", "zero-first", "zero-ff-mixed", "first-last"):
        for n in (1, 2, 3, 4, 5, 6, 7, 8, 9, 12, 15, 16, 17):
            if (cls == "pair" and n < 4) or (cls == "quad" and n < 8):
                continue
            leaves = special_leaves(ctx, n, cls)
            ctx.label("audit/leaves/" + cls)
            yield ("corr", "merkle_root", [leaves])
            yield ("corr", "consensus_root", [leaves])
            yield ("prop", "root_ref", [leaves])
            yield ("corr", "merkle_parent_level", [leaves])
            ids = [x[::-1] for x in leaves]
            yield ("corr", "validate_merkle_root", [ref_root(leaves)[::-1], ids])
            yield ("corr", "validate_merkle_root", [Z32 if cls != "zero" else FF32, ids])
            if n >= 2:
                yield ("prop", "total_forgery", [leaves])
            if cls == "equal" and n <= 5:
                msets = [list(m) for m in itertools.product([False, True], repeat=n)]
            else:
                msets = [[True] * n, [False] * n, [i == n - 1 for i in range(n)], [r.random() < 0.5 for _ in range(n)]]
            for m in msets:
                yield from proof_cases(ctx, leaves, m, full=(n <= 9))
            if (cls, n) in (("equal", 3), ("equal", 4), ("zero", 2), ("ff", 3), ("pair", 6), ("quad", 8), ("first-last", 5)):
                for m in ([True] * n, [i in (0, n - 1) for i in range(n)]):
                    yield from tamper_cases(ctx, leaves, m, every_bit=False)
            if n in (3, 4, 6):
                m = [r.random() < 0.5 for _ in range(n)]
                ctx.label("audit/two-proofs-same-leaves")
                yield ("prop", "two_proofs", [leaves, m, leaves, [not x for x in m]])
                yield ("prop", "two_proofs", [leaves, m, leaves, m])
                yield ("prop", "reuse_mb", [leaves, m if any(m) else [True] * n, r.getrandbits(30), 30])
    # a proof whose header root is all zero / all ff / a leaf / an interior node never validates (model decides)
    for n in (1, 2, 3, 5, 8):
        leaves = rleaves(ctx, n)
        total, _bits, hashes, flags = ref_build(leaves, [True] * n)
        for root in (Z32, FF32, leaves[0][::-1], leaves[0], ref_levels(leaves)[max(0, len(ref_levels(leaves)) - 2)][0][::-1],
                     ref_root(leaves)):
            ctx.label("audit/proof/root-class")
            yield ("corr", "mb_is_valid", [root, total, [h[::-1] for h in hashes], flags])
        for fl in (b"\x00" * len(flags), b"\xff" * len(flags), flags + b"\x00", flags + b"\xff", b""):
            ctx.label("audit/proof/flag-class")
            yield ("corr", "mb_is_valid", [ref_root(leaves)[::-1], total, [h[::-1] for h in hashes], fl])
            yield ("corr", "mb_is_valid_rec", [ref_root(leaves)[::-1], total, [h[::-1] for h in hashes], fl])
    # ---- (a)/(b)/(g) minor entry points, defaults, second proof on one tree
    for n in (1, 2, 3, 4, 5, 7, 8, 13, 16, 17):
        leaves = rleaves(ctx, n, dup=(n == 4))
        m = [r.random() < 0.5 for _ in range(n)]
        ctx.label("audit/entry-misc")
        yield ("prop", "entry_misc", [rheader_fields(ctx, r.choice([easy, bytes.fromhex("ffff001d")])), leaves, m,
                                      ctx.rbytes(r.choice([0, 3]))])
        yield ("prop", "entry_misc", [rheader_fields(ctx, easy), leaves, [True] * n, b""])
        yield ("prop", "entry_misc", [rheader_fields(ctx, easy), leaves, [False] * n, b"\x00"])
        for lb in (rleaves(ctx, n), rleaves(ctx, r.choice([1, 2, 3, 6, 9])), leaves):
            mb_ = [r.random() < 0.5 for _ in lb]
            ctx.label("audit/tree-second-proof")
            yield ("prop", "tree_second", [leaves, m, lb, mb_])
            yield ("prop", "tree_second", [leaves, m, lb, [True] * len(lb)])
            yield ("prop", "tree_second", [leaves, [False] * n, lb, [False] * len(lb)])
    # ---- (g) failure, then retry, of the compact-bits functions: flagged / short bits between ordinary ones, each twice
    flagged = [bytes.fromhex(x) for x in ("00008020", "ffffff20", "01008003", "ffff7f23", "010000ff", "00000000",
                                          "000000ff", "ffffffff", "ffff7f02", "ffff7f00")]
    for _ in range(ctx.n(4, 30)):
        seq = []
        for _j in range(12):
            fb = r.choice(flagged)
            gb = r.choice(_guard_bits_pool())
            seq += r.choice([[[0, fb], [0, fb], [0, gb]], [[2, fb, TIMESPAN], [0, fb], [2, gb, TIMESPAN], [2, fb, TIMESPAN * 4]],
                             [[0, gb], [0, fb], [0, gb], [1, core_set_compact(int.from_bytes(gb, "little"))[0]]]])
        ctx.label("audit/compact-failure-retry")
        yield ("prop", "compact_order", [seq])
    # ---- (a)/(f) SimpleNode.get_filtered_txs over a recorded conversation
    def fields():
        return rheader_fields(ctx, r.choice([easy, bytes.fromhex("ffff001d")]))

    for rep in range(ctx.n(3, 20)):
        nb = r.choice([2, 3])
        blocks = []
        for bi in range(nb):
            txs = gen_block_txs(ctx, "".join(r.choice("LS") for _ in range(r.choice([3, 4, 5, 7, 8]))))
            m = [r.random() < 0.5 for _ in txs]
            if sum(m) < 2:                       # at least two matched, at least one unmatched transaction
                m[1] = m[2] = True
            if all(m):
                m[r.choice([0, len(m) - 1])] = False
            blocks.append([fields(), txs, m])
        for sc in range(6):
            ctx.label("audit/filtered-txs/scenario-%d" % sc)
            yield ("prop", "filtered_txs", [blocks, sc, r.randrange(nb)])
    one = [[fields(), gen_block_txs(ctx, "S"), [True]]]
    yield ("prop", "filtered_txs", [one, 0, 0])
    yield ("prop", "filtered_txs", [one, 2, 0])
    yield ("prop", "filtered_txs", [[[fields(), gen_block_txs(ctx, "LSL"), [False] * 3]] * 1, 0, 0])
    yield ("prop", "filtered_txs", [[], 0, 0])


# ------------------------------------------------------------------ hand-written transactions and blocks

def _push(d):
    """the one push encoding buidl writes back (and the minimal one): direct / OP_PUSHDATA1 / OP_PUSHDATA2"""
    n = len(d)
    assert 1 <= n <= 520
    if n <= 75:
        return bytes([n]) + d
    if n < 0x100:
        return b"\x4c" + bytes([n]) + d
    return b"\x4d" + struct.pack("<H", n) + d


def gen_spk(ctx, k=None):
    r = ctx.rng
    k = r.randrange(9) if k is None else k
    if k == 0:
        return b"\x76\xa9\x14" + ctx.rbytes(20) + b"\x88\xac"                  # p2pkh
    if k == 1:
        return b"\xa9\x14" + ctx.rbytes(20) + b"\x87"                          # p2sh
    if k == 2:
        return b"\x00\x14" + ctx.rbytes(20)                                    # p2wpkh
    if k == 3:
        return b"\x00\x20" + ctx.rbytes(32)                                    # p2wsh
    if k == 4:
        return b"\x51\x20" + ctx.rbytes(32)                                    # p2tr
    if k == 5:
        return b"\x6a" + _push(ctx.rbytes(r.choice([1, 20, 36, 75, 76, 80])))  # op_return data
    if k == 6:
        return b"\x51" + _push(b"\x02" + ctx.rbytes(32)) + _push(b"\x03" + ctx.rbytes(32)) + b"\x52\xae"   # bare 1-of-2
    if k == 7:
        return _push(b"\x02" + ctx.rbytes(32)) + b"\xac"                       # p2pk
    return b""                                                                 # empty script


def _sig(ctx):
    return b"\x30" + ctx.rbytes(ctx.rng.choice([69, 70, 71])) + b"\x01"


def gen_tx(ctx, kind):
    """structured transaction of a named shape; scripts use canonical pushes only (see block_parse_reser for others)"""
    r = ctx.rng
    seq = lambda: r.choice([0xFFFFFFFF, 0xFFFFFFFF, 0xFFFFFFFE, 0xFFFFFFFD, 0, r.getrandbits(32)])
    outs = lambda k: [[r.choice([0, 546, 50 * 10 ** 8, 21 * 10 ** 14, r.getrandbits(40)]), gen_spk(ctx)] for _ in range(k)]
    ver = r.choice([1, 2, 2, r.getrandbits(32)])
    lock = r.choice([0, 0, 500000, 499999999, 500000000, 1700000000, 0xFFFFFFFF])
    pub = lambda: b"\x02" + ctx.rbytes(32)
    redeem = lambda: b"\x52" + _push(pub()) + _push(pub()) + _push(pub()) + b"\x53\xae"     # 105 bytes: OP_PUSHDATA1
    if kind == "L1":       # p2pkh spend
        return [ver, [[ctx.rbytes(32), r.randrange(4), _push(_sig(ctx)) + _push(pub()), seq(), []]], outs(r.choice([1, 2])), lock, 0]
    if kind == "Lm":       # several inputs: p2sh multisig, p2pkh, bare (empty scriptSig is for segwit only: use a 1-byte op)
        ins = [[ctx.rbytes(32), r.getrandbits(16), b"\x00" + _push(_sig(ctx)) + _push(_sig(ctx)) + _push(redeem()), seq(), []],
               [ctx.rbytes(32), 0, _push(_sig(ctx)) + _push(pub()), seq(), []],
               [ctx.rbytes(32), 1, _push(ctx.rbytes(300)), seq(), []]][: r.choice([2, 3])]
        return [ver, ins, outs(r.choice([1, 3])), lock, 0]
    if kind == "Lc":       # legacy coinbase
        ss = _push(struct.pack("<I", r.randrange(1, 900000))[:3]) + _push(ctx.rbytes(r.randrange(1, 40)))
        return [ver, [[Z32, 0xFFFFFFFF, ss, 0xFFFFFFFF, []]], outs(r.choice([1, 2])), 0, 0]
    if kind == "S1":       # p2wpkh spend
        return [ver, [[ctx.rbytes(32), r.randrange(4), b"", seq(), [_sig(ctx), pub()]]], outs(r.choice([1, 2])), lock, 1]
    if kind == "Sw":       # p2sh-p2wpkh + an input without witness (mixed inside one transaction)
        ins = [[ctx.rbytes(32), 0, _push(b"\x00\x14" + ctx.rbytes(20)), seq(), [_sig(ctx), pub()]],
               [ctx.rbytes(32), 3, _push(_sig(ctx)) + _push(pub()), seq(), []]]
        r.shuffle(ins)
        return [ver, ins, outs(2), lock, 1]
    if kind == "St":       # taproot key path and script path
        ins = [[ctx.rbytes(32), 0, b"", seq(), [ctx.rbytes(r.choice([64, 65]))]],
               [ctx.rbytes(32), 1, b"", seq(), [ctx.rbytes(64), _push(ctx.rbytes(32)) + b"\xac", b"\xc0" + ctx.rbytes(32 + 32 * r.randrange(3))]]]
        return [ver, ins[: r.choice([1, 2])], outs(1), lock, 1]
    if kind == "Sm":       # p2wsh multisig
        return [ver, [[ctx.rbytes(32), 0, b"", seq(), [b"", _sig(ctx), _sig(ctx), redeem()]]], outs(r.choice([1, 2])), lock, 1]
    if kind == "Sc":       # segwit coinbase with the witness commitment output
        ss = _push(struct.pack("<I", r.randrange(1, 900000))[:3]) + _push(ctx.rbytes(r.randrange(1, 30)))
        o = [[625000000, gen_spk(ctx, 2)], [0, b"\x6a" + _push(b"\xaa\x21\xa9\xed" + ctx.rbytes(32))]]
        return [ver, [[Z32, 0xFFFFFFFF, ss, 0xFFFFFFFF, [Z32]]], o, 0, 1]
    if kind == "Se":       # BIP144 format although every witness stack is empty
        return [ver, [[ctx.rbytes(32), 0, _push(_sig(ctx)) + _push(pub()), seq(), []] for _ in range(r.choice([1, 2]))], outs(1), lock, 1]
    if kind == "Sb":       # long witness items / many items (CompactSize fd inside the witness)
        w = [ctx.rbytes(r.choice([252, 253, 300, 1000]))] + [ctx.rbytes(r.randrange(0, 4)) for _ in range(r.choice([1, 253]))]
        return [ver, [[ctx.rbytes(32), 0, b"", seq(), w]], outs(1), lock, 1]
    raise ValueError(kind)


LEGACY_KINDS = ["L1", "Lm", "Lc"]
SEGWIT_KINDS = ["S1", "Sw", "St", "Sm", "Sc", "Se", "Sb"]


def gen_block_txs(ctx, pattern):
    """pattern: string over L (legacy) / S (segwit); the first transaction is a coinbase of that format"""
    r = ctx.rng
    txs = []
    for i, c in enumerate(pattern):
        if i == 0:
            kind = "Lc" if c == "L" else "Sc"
        else:
            kind = r.choice(LEGACY_KINDS[:2] if c == "L" else SEGWIT_KINDS[:4] + SEGWIT_KINDS[5:])
        txs.append(gen_tx(ctx, kind))
    return txs


def _block_patterns(ctx):
    r = ctx.rng
    pats = []
    for n in list(range(1, 10)) + [16, 17]:
        pats += ["L" * n, "S" * n]
        if n > 1:
            pats += ["S" + "L" * (n - 1), "L" * (n - 1) + "S", "".join("LS"[i & 1] for i in range(n)),
                     "".join(r.choice("LS") for _ in range(n))]
    for n in (3, 4, 5):                      # exactly one segwit transaction, at every position
        pats += ["L" * i + "S" + "L" * (n - 1 - i) for i in range(n)]
    for _ in range(ctx.n(4, 60)):
        pats.append("".join(r.choice("LS") for _ in range(r.randrange(2, 40))))
    return pats


def block_cases(ctx):
    r = ctx.rng
    easy = bytes.fromhex("ffff7f20")

    def fields():
        f = rheader_fields(ctx, r.choice([easy, easy, bytes.fromhex("ffff001d")]))
        return mine(ctx, f, tries=8) if f[4] == easy and r.random() < 0.5 else f

    def emit(txs, label, pre=None, rest=None):
        n = len(txs)
        m = [r.random() < 0.5 for _ in range(n)]
        if r.random() < 0.3:
            m = [True] * n
        pre = ctx.rbytes(r.choice([0, 0, 1, 7, 80])) if pre is None else pre
        rest = ctx.rbytes(r.choice([0, 0, 1, 5])) if rest is None else rest
        ctx.label("block/" + label)
        yield ("prop", "block_parse", [fields(), txs, pre, rest, m])
        # the model's view of the same block: root / validate over the independently computed txids
        txids = [h256(ser_tx(t)[1]) for t in txs]
        if n <= 40:
            yield ("corr", "consensus_root", [txids])
            yield ("corr", "validate_merkle_root", [ref_root(txids)[::-1], [x[::-1] for x in txids]])
            wt = [h256(ser_tx(t)[0]) for t in txs]
            yield ("corr", "validate_merkle_root", [ref_root(txids)[::-1], [x[::-1] for x in wt]])

    for pat in _block_patterns(ctx):
        n = len(pat)
        kind = "legacy-only" if "S" not in pat else ("segwit-only" if "L" not in pat else "mixed")
        yield from emit(gen_block_txs(ctx, pat), f"{kind}/{'odd' if n & 1 else 'even'}")
    # every transaction shape alone in a block and as the last (duplicated on odd levels) of three
    for kind in LEGACY_KINDS + SEGWIT_KINDS:
        yield from emit([gen_tx(ctx, kind)], "shape/" + kind)
        yield from emit([gen_tx(ctx, "Lc"), gen_tx(ctx, "L1"), gen_tx(ctx, kind)], "shape/" + kind)
    # identical transactions (CVE-2012-2459 shapes): last two equal, all equal
    for pat in ("LSS", "LLSS", "SLL", "SSSS"):
        txs = gen_block_txs(ctx, pat)
        txs[-1] = txs[-2]
        yield from emit(txs, "duplicate-last")
    t = gen_tx(ctx, "S1")
    yield from emit([t] * 5, "duplicate-all")
    # CompactSize boundary of the transaction count (0xfd form)
    for n in ((252, 253) if ctx.tier == "quick" else (252, 253, 256, 600)):
        txs = [gen_tx(ctx, "Sc")] + [gen_tx(ctx, r.choice(["L1", "S1"])) for _ in range(n - 1)]
        yield from emit(txs, "count>=252")
    # several blocks in one stream, objects kept and queried again
    for _ in range(ctx.n(6, 40)):
        blocks = [[fields(), gen_block_txs(ctx, "".join(r.choice("LS") for _ in range(r.randrange(1, 8))))]
                  for _b in range(r.choice([2, 3]))]
        ctx.label("block/stream")
        yield ("prop", "block_stream", [blocks, ctx.rbytes(r.choice([0, 3])), r.getrandbits(30)])
    # transactions whose scripts are NOT what buidl writes back (non-minimal push encodings; coinbase scriptSigs are
    # arbitrary bytes): Tx.hash() hashes the re-serialisation of the parsed Script objects (K-C17-txid-reserialised)
    for ss, spk in NONCANONICAL_SCRIPTS:
        for pat in ("L", "LL", "SLL"):
            txs = gen_block_txs(ctx, pat)
            t = txs[-1]
            if ss is not None:
                t[1][0][2] = ss
            if spk is not None:
                t[2][0][1] = spk
            ctx.label("block/non-canonical-push")
            yield ("prop", "block_parse_reser", [fields(), txs, b"", b"", [True] * len(txs)])


# (scriptSig, scriptPubKey) replacements; None = leave alone.  All are consensus-valid transaction encodings.
NONCANONICAL_SCRIPTS = [
    (b"\x4c\x03abc", None),                                     # OP_PUSHDATA1 for a 3-byte push
    (b"\x03\x40\x0d\x03\x4d\x02\x00zz", None),                  # OP_PUSHDATA2 for a 2-byte push (after a height push)
    (b"\x03\x40\x0d\x03\x4e\x02\x00\x00\x00zz", None),          # OP_PUSHDATA4
    (b"\x4d\x50\x00" + b"\x07" * 0x50, None),                   # OP_PUSHDATA2 for 80 bytes (OP_PUSHDATA1 is written back)
    (None, b"\x6a\x4c\x04\xde\xad\xbe\xef"),                    # OP_RETURN OP_PUSHDATA1 <4 bytes> in an output
]
