"""C15 — SLIP39 Shamir shares: GF(256) tables and interpolation, split/recover for every
(k, n), consistency checks, share codec and RS1024 checksum, Feistel encryption."""
import hashlib
import hmac
import itertools

import gen_coq

gen_coq.main()  # coq/Generated/Wordlists.v follows the word-list files of /repo on every run

from buidl import shamir, mnemonic  # noqa: E402
from buidl.shamir import Share, ShareSet  # noqa: E402
from vp.sexp import ERR  # noqa: E402,F401

PID = "C15"
RULE = ("All 136 (k, n) pairs with 1 <= k <= n <= 16, 16- and 32-byte secrets, subsets of every size from 0 to n "
        "(all subsets for small n, sampled above), seeded bytes substituted for buidl.shamir.randbits and handed "
        "to the model; share headers sweep every field boundary; every single-word substitution of sampled 20- and "
        "33-word shares and sampled double/triple substitutions; share sets mixing ids, exponents, thresholds, "
        "counts, lengths, duplicated and out-of-range indices, two-level (member threshold > 1) sets; Feistel with "
        "exponents 0..2 through real PBKDF2 for a few cases and through a one-hash stub KDF (installed on both "
        "sides) for the bulk. Deepening round: ShareSet.digest, the attributes set by ShareSet.__init__ (salt), decrypt through a "
        "ShareSet object, _crypt with arbitrary round lists, parse-then-encode on accepted texts of standard and non-standard "
        "lengths, split_secret with its random draws and digest fixed (split_with), share mnemonics of two generate_shares calls "
        "mixed at recover_mnemonic, text-level corruptions (other word in full / as prefix, junk, case), and for every (k, n) the "
        "secrecy replay: k-1 observed shares re-obtained from the library's split of another secret. Mutation-adequacy round: "
        "cases are built with independent helpers of this module (RS1024 by polynomial division over GF(1024), share codec, BIP39, "
        "Feistel, split, whole pipeline), which also serve as references (every generated share text equals the SLIP39 share; "
        "Share.parse vs the independent decoder on every word list, top value word on both sides of the padding boundary for 18..40 "
        "words, white space); the randbits stand-in honours the requested width; 128- and 256-bit shares of one id in one set with the "
        "odd share at every position; fewer shares than the DECLARED threshold whose digest verifies (lower-threshold split "
        "relabelled), group and member level; sentences and secret lengths generate_shares / split_secret must refuse; 1-of-1 "
        "shares of every length 128..320 bits through recover_mnemonic; Share objects edited in place; RS1024 symbols outside "
        "0..1023 (correspondence only). Entry-point audit round: optional arguments omitted / by keyword, tuples and iterators, class "
        "methods on instances, Share by keyword, repr(share); BIP39 sentences in prefix spelling / other white space; shares and "
        "pipelines whose every field is all-zero / all-one; whole texts of unusual classes (empty, digits, capitals); an illegal "
        "word where the checksum (share) or the neighbouring word (sentence) is chosen so that a lenient reading as -1, 0, 1023, "
        "1024, 2047, ... would verify; two-level sets whose groups differ in member threshold, exactly at threshold; the same "
        "Share objects, lists and GF(256) tables used again after results and refusals, _load() repeated, tables compared "
        "with the powers of x+1 once more after all cases.")
TRUSTED = ["hashlib/hmac (sha256, hmac-sha256, pbkdf2_hmac): universally quantified functions in the theorems; in "
           "the extracted model pbkdf2_hmac is RFC 8018 PBKDF2 (Spec/Pbkdf2S.v) over the HMAC oracle",
           "harness/gen_coq.py copies the word-list files into coq/Generated/Wordlists.v"]
ASSUMPTIONS = ["the KDF returns dklen bytes (hypothesis of feistel_inverse)",
               "randbits results are inputs of the model (id and the byte stream)",
               "x coordinates are in 0..255 (negative list indices, which Python would wrap, are outside the model)"]

SL = list(shamir.SLIP39.words)
SLI = {w: i for i, w in enumerate(SL)}
DEC = (b"\x03", b"\x02", b"\x01", b"\x00")


def _txt(a):
    if isinstance(a, bytes):
        return a.decode("latin-1")
    return "".join(chr(c) for c in a)


def stub_kdf(name, pw, salt, iters, dklen=None):
    if dklen < 1 or dklen > 32 or iters < 1 or iters > 0xFFFFFFFF:
        raise ValueError("stub kdf domain")
    return hashlib.sha256(iters.to_bytes(4, "big") + (len(pw) % 65536).to_bytes(2, "big") + pw + salt).digest()[:dklen]


class Rnd:
    """secrets.randbits replaced by supplied values, HONOURING the requested width: a request for 15 bits is
    answered by the identifier and one for 8 bits by the next byte of the stream (what the model takes as inputs);
    a request for more bits gets a value with the top bit of that width set, one for fewer bits the value masked
    to that width — both are outcomes the real randbits has, so a wrong width in the library shows"""

    def __init__(self, ident, data):
        self.ident, self.data, self.pos, self.widths = ident, data, 0, []

    def __call__(self, nbits):
        self.widths.append(nbits)
        if nbits >= 12:
            v, w = self.ident, 15
        else:
            v, w = self.data[self.pos], 8   # IndexError when the supplied stream is exhausted
            self.pos += 1
        if nbits > w:
            return v | (1 << (nbits - 1))
        return v & ((1 << nbits) - 1) if nbits >= 0 else v


class patched:
    def __init__(self, rnd=None, fast=False):
        self.rnd, self.fast = rnd, fast

    def __enter__(self):
        self.old = (shamir.randbits, shamir.pbkdf2_hmac)
        if self.rnd is not None:
            shamir.randbits = self.rnd
        if self.fast:
            shamir.pbkdf2_hmac = stub_kdf

    def __exit__(self, *a):
        shamir.randbits, shamir.pbkdf2_hmac = self.old


def sfields(s):
    return [s.share_bit_length, s.id, s.exponent, s.group_index, s.group_threshold, s.group_count,
            s.member_index, s.member_threshold, s.value]


def i_share_parse(t):
    s = Share.parse(_txt(t))
    return sfields(s) + [s.bytes]


def i_split_secret(secret, k, n, rnd):
    with patched(Rnd(0, rnd)):
        return [[i, b] for i, b in ShareSet.split_secret(secret, k, n)]


def _crypt(enc, fast):
    def f(p, ident, e, pw):
        with patched(fast=fast):
            if enc:
                return ShareSet.encrypt(p, ident, e, pw)
            return ShareSet([Share(128, ident, e, 0, 1, 1, 0, 1, 0)]).decrypt(p, pw)
    return f


def _generate(fast):
    def f(t, k, n, pw, e, ident, rnd):
        with patched(Rnd(ident, rnd), fast):
            return ShareSet.generate_shares(_txt(t), k, n, pw, e)
    return f


def _recover_mnemonic(fast):
    def f(ms, pw):
        with patched(fast=fast):
            return ShareSet.recover_mnemonic([_txt(m) for m in ms], pw)
    return f


def i_recover_shares_fast(fl, pw):
    with patched(fast=True):
        return ShareSet([Share(*f) for f in fl]).recover(pw)


def i_shareset_fields(fl):
    ss = ShareSet([Share(*f) for f in fl])
    return [ss.id, ss.salt, ss.exponent, ss.group_threshold, ss.group_count, ss.share_bit_length, len(ss.shares)]


def i_decrypt_ss_fast(fl, p, pw):
    with patched(fast=True):
        return ShareSet([Share(*f) for f in fl]).decrypt(p, pw)


def i_crypt_fast(p, ident, e, pw, idxs):
    with patched(fast=True):
        return ShareSet._crypt(p, ident, e, pw, tuple(bytes([i]) for i in idxs))


class fixed_digest:
    """ShareSet.digest replaced by a constant (the first four bytes of a chosen digest share)"""

    def __init__(self, d4):
        self.d4 = d4

    def __enter__(self):
        self.old = ShareSet.__dict__["digest"]
        d4 = self.d4
        ShareSet.digest = classmethod(lambda cls, random, shared_secret: d4)

    def __exit__(self, *a):
        ShareSet.digest = self.old


def split_with_impl(sd, ds, secret, k, n):
    """ShareSet.split_secret with its random draws replaced by the strings sd (shares 0..k-3) and
    ds[4:], and the digest by ds[:4]: the deterministic tail of split_secret"""
    nb = len(secret)
    if not (2 <= k <= n <= 16 and nb in (16, 32) and len(ds) == nb and [i for i, _ in sd] == list(range(k - 2))
            and all(len(b) == nb for _, b in sd)):
        raise ValueError("outside the domain of split_with")
    stream = ds[4:] + b"".join(b for _, b in sd)
    r = Rnd(0, stream)
    with patched(r), fixed_digest(ds[:4]):
        out = ShareSet.split_secret(secret, k, n)
    if r.pos != len(stream):
        raise AssertionError("split_secret did not consume the random stream as modelled")
    return [[i, b] for i, b in out]


IMPL = {
    "digest": lambda r, sec: ShareSet.digest(r, sec),
    "shareset_fields": i_shareset_fields,
    "decrypt_ss_fast": i_decrypt_ss_fast,
    "crypt_fast": i_crypt_fast,
    "share_reencode": lambda t: Share.parse(_txt(t)).mnemonic(),
    "split_with": lambda sd, ds, secret, k, n: split_with_impl([(a, b) for a, b in sd], ds, secret, k, n),
    "rs1024_polymod": lambda l: shamir.rs1024_polymod(l),
    "rs1024_create": lambda cs, l: shamir.rs1024_create_checksum(cs, l),
    "rs1024_verify": lambda cs, l: shamir.rs1024_verify_checksum(cs, l),
    "share_parse": i_share_parse,
    "share_mnemonic": lambda f: Share(*f).mnemonic(),
    "gf_tables": lambda: [list(ShareSet.exp), list(ShareSet.log2)],
    "interpolate": lambda x, pts: ShareSet.interpolate(x, [(a, b) for a, b in pts]),
    "recover_secret": lambda pts: ShareSet.recover_secret([(a, b) for a, b in pts]),
    "split_secret": i_split_secret,
    "encrypt": _crypt(True, False), "encrypt_fast": _crypt(True, True),
    "decrypt": _crypt(False, False), "decrypt_fast": _crypt(False, True),
    "generate_shares": _generate(False), "generate_shares_fast": _generate(True),
    "recover_mnemonic": _recover_mnemonic(False), "recover_mnemonic_fast": _recover_mnemonic(True),
    "recover_shares_fast": i_recover_shares_fast,
}

# ---------------------------------------------------------------- independent reference


def gf_mul(a, b):
    """carry-less multiplication modulo x^8+x^4+x^3+x+1"""
    r = 0
    for i in range(8):
        if (b >> i) & 1:
            r ^= a << i
    for i in range(14, 7, -1):
        if (r >> i) & 1:
            r ^= 0x11B << (i - 8)
    return r


_INV = {}


def gf_inv(a):
    """a^254 by repeated carry-less multiplication (independent of the library's tables), memoised"""
    if a not in _INV:
        r = 1
        for _ in range(254):
            r = gf_mul(r, a)
        _INV[a] = r
    return _INV[a]


def ref_interp(x, pts):
    out = bytearray(len(pts[0][1]))
    for xi, yi in pts:
        c = 1
        for xj, _ in pts:
            if xj != xi:
                c = gf_mul(c, gf_mul(x ^ xj, gf_inv(xi ^ xj)))
        for t, y in enumerate(yi):
            out[t] ^= gf_mul(y, c)
    return bytes(out)


def gf1024_mul(a, b):
    """carry-less multiplication modulo x^10+x^3+1 (the field of the RS1024 code)"""
    r = 0
    for i in range(10):
        if (b >> i) & 1:
            r ^= a << i
    for i in range(18, 9, -1):
        if (r >> i) & 1:
            r ^= 0x409 << (i - 10)
    return r


def _rs_generator():
    """(x - a)(x - a^2)(x - a^3) over GF(1024), a = the class of x; coefficients high first"""
    g, a = [1], 1
    for _ in range(3):
        a = gf1024_mul(a, 2)
        g = [p ^ q for p, q in zip(g + [0], [0] + [gf1024_mul(c, a) for c in g])]
    return g


_RSG = _rs_generator()
_RSMUL = [[gf1024_mul(t, c) for t in range(1024)] for c in _RSG[1:]]


def ref_polymod(values):
    """x^len + sum v_i x^(len-1-i) reduced modulo the generator polynomial, by polynomial long division over GF(1024)
    (independent of the bit-sliced GEN table of the library); symbols must be in 0..1023"""
    r2, r1, r0 = 0, 0, 1
    for v in values:
        if not 0 <= v < 1024:
            raise ValueError("symbol outside GF(1024)")
        r2, r1, r0 = r1 ^ _RSMUL[0][r2], r0 ^ _RSMUL[1][r2], v ^ _RSMUL[2][r2]
    return (r2 << 20) | (r1 << 10) | r0


def ref_rs_create(cs, data):
    pm = ref_polymod(list(cs) + list(data) + [0, 0, 0]) ^ 1
    return [(pm >> 20) & 1023, (pm >> 10) & 1023, pm & 1023]


def enc_share(f):
    """fields -> SLIP39 share text, written from the SLIP39 layout (id 15, exponent 5, GI 4, Gt-1 4, g-1 4, I 4, t-1 4 bits,
    value left-padded with zero bits to a multiple of 10, 3 checksum words); fields must be in range"""
    bits, ident, e, gi, gt, gc, mi, mt, value = f
    if not (bits > 0 and 0 <= ident < 32768 and 0 <= e < 32 and 0 <= gi < 16 and 1 <= gt <= 16 and 1 <= gc <= 16
            and 0 <= mi < 16 and 1 <= mt <= 16 and 0 <= value < (1 << bits)):
        raise ValueError("field out of range")
    nv = -(-bits // 10)
    hdr = (ident << 25) | (e << 20) | (gi << 16) | ((gt - 1) << 12) | ((gc - 1) << 8) | (mi << 4) | (mt - 1)
    allbits = (hdr << (10 * nv)) | value
    idx = [(allbits >> (10 * (nv + 3 - i))) & 1023 for i in range(nv + 4)]
    return " ".join(SL[i] for i in idx + ref_rs_create(b"shamir", idx))


def dec_share(t):
    """independent decoder of a share text spelled in full words: the nine fields"""
    idx = [SLI[w] for w in t.split(" ")]
    if len(idx) < 20 or ref_polymod(list(b"shamir") + idx) != 1:
        raise ValueError("not a share")
    nv = len(idx) - 7
    bits = 10 * nv // 16 * 16
    if 10 * nv - bits > 8:
        raise ValueError("more than 8 padding bits")
    allbits = 0
    for i in idx[:-3]:
        allbits = (allbits << 10) | i
    value, hdr = allbits & ((1 << (10 * nv)) - 1), allbits >> (10 * nv)
    if value >> bits:
        raise ValueError("padding bits set")
    if (hdr >> 12) & 15 > (hdr >> 8) & 15:
        raise ValueError("group threshold above group count")
    return [bits, hdr >> 25, (hdr >> 20) & 31, (hdr >> 16) & 15, ((hdr >> 12) & 15) + 1, ((hdr >> 8) & 15) + 1,
            (hdr >> 4) & 15, (hdr & 15) + 1, value]


BW = list(mnemonic.BIP39.words)


def ref_bip39(ent):
    """BIP39 sentence of an entropy string of 16/20/24/28/32 bytes (bit strings, hashlib)"""
    nb = len(ent) * 8
    s = bin(int.from_bytes(ent, "big"))[2:].zfill(nb) + bin(hashlib.sha256(ent).digest()[0])[2:].zfill(8)[: nb // 32]
    return " ".join(BW[int(s[i:i + 11], 2)] for i in range(0, len(s), 11))


def ref_bip39_entropy(words):
    """the entropy of a valid BIP39 sentence (list of words), None when it is not one"""
    if len(words) not in (12, 15, 18, 21, 24) or any(w not in BW for w in words):
        return None
    s = "".join(bin(BW.index(w))[2:].zfill(11) for w in words)
    nb = len(words) * 11 * 32 // 33
    ent = int(s[:nb], 2).to_bytes(nb // 8, "big")
    return ent if ref_bip39(ent).split(" ") == list(words) else None


def ref_feistel(p, ident, e, pw, kdf, rounds=(0, 1, 2, 3)):
    half = len(p) // 2
    left, right = p[:half], p[half:]
    salt = b"shamir" + ident.to_bytes(2, "big")
    for i in rounds:
        fo = kdf("sha256", bytes([i]) + pw, salt + right, 2500 << e, half)
        left, right = right, bytes(x ^ y for x, y in zip(left, fo))
    return right + left


def ref_split(secret, k, n, rnd):
    """the n shares (x = 0..n-1) of SLIP39 SplitSecret with the random strings taken from rnd in the order the
    library draws them: digest-share randomness first, then the k-2 random shares"""
    nb = len(secret)
    if k == 1:
        return [(i, secret) for i in range(n)]
    if len(rnd) < rnd_need(nb, k):
        raise ValueError("random stream too short")
    random = rnd[:nb - 4]
    base = [(i, rnd[nb - 4 + i * nb: nb - 4 + (i + 1) * nb]) for i in range(k - 2)]
    pts = base + [(254, hmac.new(random, secret, "sha256").digest()[:4] + random), (255, secret)]
    return base + [(i, ref_interp(i, pts)) for i in range(k - 2, n)]


def ref_generate(entropy, k, n, pw, e, ident, rnd, kdf):
    """the share texts SLIP39 prescribes for a single-level k-of-n split of `entropy` (one member per group)"""
    enc = ref_feistel(entropy, ident, e, pw, kdf)
    return [enc_share([len(entropy) * 8, ident, e, i, k, n, 0, 1, int.from_bytes(b, "big")])
            for i, b in ref_split(enc, k, n, rnd)]


def ref_two_level(secret, gt, gc, groups, rnd):
    """field lists of all member shares of a two-level split (id 77, exponent 0, passphrase b"pw", stub KDF), the
    random stream consumed group split first, then the member splits in group order"""
    nb, pos, out = len(secret), 0, []
    enc = ref_feistel(secret, 77, 0, b"pw", stub_kdf)
    need = rnd_need(nb, gt)
    gsplit = ref_split(enc, gt, gc, rnd[:need])
    pos = need
    for gi, gsh in gsplit:
        mt, mc = groups[gi]
        need = rnd_need(nb, mt)
        for mi, msh in ref_split(gsh, mt, mc, rnd[pos:pos + need]):
            out.append([nb * 8, 77, 0, gi, gt, gc, mi, mt, int.from_bytes(msh, "big")])
        pos += need
    return out


def _raises(f, *a):
    try:
        f(*a)
    except Exception:
        return True
    return False

# ---------------------------------------------------------------- property predicates


def p_gf():
    exp, log = ShareSet.exp, ShareSet.log2
    if len(exp) != 255 or len(log) != 256 or sorted(exp) != list(range(1, 256)):
        return "exp table is not a permutation of 1..255"
    for i in range(255):
        if log[exp[i]] != i:
            return "log(exp(i)) != i"
    for a in range(1, 256):
        if exp[log[a]] != a:
            return "exp(log(a)) != a"
        for b in range(1, 256):
            if exp[(log[a] + log[b]) % 255] != gf_mul(a, b):
                return f"table product {a}*{b} differs from carry-less multiplication mod 0x11B"
    if not _tables_ok():
        return "the tables are not exp[i] = (x+1)^i, log2 = its inverse with log2[0] = 0"
    return None


def p_split_recover(secret, k, n, rnd, subsets):
    with patched(Rnd(0, rnd)):
        data = ShareSet.split_secret(secret, k, n)
    if len(data) != n or [i for i, _ in data] != list(range(n)):
        return f"{k}-of-{n} split returned {len(data)} shares"
    if k == 1:
        if any(b != secret for _, b in data):
            return "1-of-n shares are not the secret"
        return None
    nb = len(secret)
    random = rnd[:nb - 4]
    base = [(i, rnd[nb - 4 + i * nb: nb - 4 + (i + 1) * nb]) for i in range(k - 2)]
    base += [(254, hmac.new(random, secret, "sha256").digest()[:4] + random), (255, secret)]
    for i, b in data:
        if b != ref_interp(i, base):
            return "share is not on the polynomial through the random shares, the digest and the secret"
    for sub in subsets:
        pts = [data[i] for i in sub]
        if len(set(sub)) >= k:
            try:
                got = ShareSet.recover_secret(pts)
            except Exception as e:  # noqa
                return f"{len(sub)} >= {k} distinct shares were refused: {e!r}"
            if got != secret:
                return f"{len(sub)} >= {k} shares recovered a different secret"
        elif pts:
            # below the threshold the interpolated digest cannot be expected to match
            try:
                got = ShareSet.recover_secret(pts)
            except Exception:
                continue
            if got == secret:
                return f"{len(sub)} < {k} shares recovered the secret"
    return None


def p_pipeline(entropy, k, n, pw, e, ident, rnd, subsets, fast):
    m = ref_bip39(entropy)
    with patched(Rnd(ident, rnd), bool(fast)):
        shares = ShareSet.generate_shares(m, k, n, pw, e)
        if len(shares) != n:
            return f"{k}-of-{n} produced {len(shares)} share mnemonics"
        if 0 <= ident < 32768 and 0 <= e < 32 and len(rnd) >= rnd_need(len(entropy), k):
            # every share text is the one SLIP39 prescribes: identifier drawn (15 bits), exponent, index i, k, n,
            # member 0 of 1, value = the share of the Feistel-encrypted secret (independent codec, split, Feistel)
            want = ref_generate(entropy, k, n, pw, e, ident, rnd, stub_kdf if fast else hashlib.pbkdf2_hmac)
            for i, (g, w) in enumerate(zip(shares, want)):
                if g != w:
                    try:
                        d = dec_share(g)
                    except Exception:
                        d = "not decodable"
                    return f"share {i} of {k}-of-{n} is not the SLIP39 share of the secret: fields {d}, expected {dec_share(w)}"
        for sub in subsets:
            ms = [shares[i] for i in sub]
            if len(set(sub)) >= k and len(set(sub)) == len(sub):
                try:
                    got = ShareSet.recover_mnemonic(ms, pw)
                except Exception as ex:  # noqa
                    return f"{len(sub)} >= {k} shares were refused: {ex!r}"
                if got != m:
                    return f"{len(sub)} >= {k} shares recovered a different mnemonic"
            else:
                try:
                    got = ShareSet.recover_mnemonic(ms, pw)
                except Exception:
                    continue
                return f"{len(set(sub))} distinct of {len(sub)} shares (< {k} or duplicated) returned a secret"
    return None


def p_recover_repeat(entropy, k, n, pw, pw2, ident, rnd):
    """recover() is a function of its arguments: repeated calls on ONE ShareSet object with different
    passphrases return what a fresh object returns for that passphrase (no result is remembered)"""
    m = ref_bip39(entropy)
    with patched(Rnd(ident, rnd), True):
        shares = [Share.parse(x) for x in ShareSet.generate_shares(m, k, n, pw, 0)][:k]

        def fresh(p):
            return ShareSet(list(shares)).recover(p)
        want1, want2 = fresh(pw), fresh(pw2)
        if want1 != entropy:
            return "fresh recovery with the right passphrase does not return the secret"
        for order in ((pw2, pw), (pw, pw2), (pw, pw), (pw2, pw, pw2)):
            ss = ShareSet(list(shares))
            for p in order:
                got = ss.recover(p)
                if got != (want1 if p == pw else want2):
                    return (f"recover() on a reused ShareSet returned a stale value for call sequence "
                            f"{[x.decode('latin1') for x in order]}")
    return None


def p_mixed(entropy, k, n, ident1, ident2, rnd, what):
    """shares of two different splits are never combined"""
    m = ref_bip39(entropy)
    with patched(Rnd(ident1, rnd), True):
        a = [Share.parse(x) for x in ShareSet.generate_shares(m, k, n, b"", 0)]
    e2, k2, n2, bits2 = 0, k, n, a[0].share_bit_length
    if what == 1:
        e2 = 1
    elif what == 2:
        k2 = k - 1 if k > 1 else k + 1
    elif what == 3:
        n2 = n + 1 if n < 16 else n - 1
    elif what == 4:
        bits2 = 384 - bits2
    if k2 > n2 or k2 < 1:
        return None
    other = []
    for s in a:
        if s.group_index < n2:
            v = s.value if bits2 >= s.share_bit_length else s.value >> 128
            other.append(Share(bits2, ident2 if what == 0 else ident1, e2, s.group_index, k2, n2, 0, 1, v))
    if not other:
        return None
    for take in range(1, len(a)):
        mix = a[:take] + other[take:take + max(1, k - take)]
        if len(mix) < 2 or all(x in a for x in mix):
            continue
        with patched(fast=True):
            try:
                ShareSet(mix).recover(b"")
            except Exception:
                continue
        return f"shares with different {['id', 'exponent', 'threshold', 'count', 'length'][what]} were combined"
    return None


def p_share_rt(f):
    s = Share(*f)
    m = s.mnemonic()
    ws = m.split(" ")
    want = 7 + -(-f[0] // 10)          # 4 header words, ceil(bits / 10) value words, 3 checksum words
    if len(ws) != want or any(w not in SLI for w in ws):
        return f"share mnemonic has {len(ws)} words, expected {want}"
    idx = [SLI[w] for w in ws]
    hdr = (f[1] << 25) | (f[2] << 20) | (f[3] << 16) | ((f[4] - 1) << 12) | ((f[5] - 1) << 8) | (f[6] << 4) | (f[7] - 1)
    allbits = (hdr << (10 * (want - 7))) | f[8]
    if idx[:-3] != [(allbits >> (10 * (want - 4 - i))) & 1023 for i in range(want - 3)]:
        return "header/value bit packing differs from SLIP39"
    t = Share.parse(m)
    if sfields(t) != list(f) or t.bytes != f[8].to_bytes(f[0] // 8, "big"):
        return "Share.parse(share.mnemonic()) differs from the share"
    if t.mnemonic() != m:
        return "mnemonic(parse(m)) differs from m"
    return None


def p_subst1_all(f, pos):
    """every one of the 1023 other words at position pos is rejected"""
    ws = Share(*f).mnemonic().split(" ")
    pos %= len(ws)
    for w in SL:
        if w != ws[pos]:
            bad = " ".join(ws[:pos] + [w] + ws[pos + 1:])
            if not _raises(Share.parse, bad):
                return f"single substitution at {pos} by {w!r} accepted"
    return None


def p_subst_multi(f, poss, news):
    ws = Share(*f).mnemonic().split(" ")
    bad = list(ws)
    for p, w in zip(poss, news):
        bad[p % len(ws)] = SL[w]
    diff = sum(1 for a, b in zip(ws, bad) if a != b)
    if 1 <= diff <= 3 and not _raises(Share.parse, " ".join(bad)):
        return f"{diff}-word substitution accepted"
    return None


def p_feistel(p, ident, e, pw, fast):
    with patched(fast=bool(fast)):
        c = ShareSet.encrypt(p, ident, e, pw)
        if len(c) != len(p):
            return "ciphertext length differs"
        back = ShareSet([Share(128, ident, e, 0, 1, 1, 0, 1, 0)]).decrypt(c, pw)
    if back != p:
        return "decrypt(encrypt(p)) != p"
    with patched(fast=bool(fast)):
        d = ShareSet([Share(128, ident, e, 0, 1, 1, 0, 1, 0)]).decrypt(p, pw)
        if ShareSet.encrypt(d, ident, e, pw) != p:
            return "encrypt(decrypt(c)) != c"
    if not fast:
        # independent Feistel with hashlib
        half = len(p) // 2
        left, right = p[:half], p[half:]
        salt = b"shamir" + ident.to_bytes(2, "big")
        for i in range(4):
            fo = hashlib.pbkdf2_hmac("sha256", bytes([i]) + pw, salt + right, 2500 << e, half)
            left, right = right, bytes(x ^ y for x, y in zip(left, fo))
        if c != right + left:
            return "ciphertext differs from the SLIP39 Feistel network"
    return None


def p_two_level(secret, gt, gc, groups, rnd, take):
    """group shares split again among members; `take` = per group the member indices handed in"""
    r = Rnd(0, rnd)
    shares = []
    with patched(r, True):
        enc = ShareSet.encrypt(secret, 77, 0, b"pw")
        for gi, gsh in ShareSet.split_secret(enc, gt, gc):
            mt, mc = groups[gi]
            for mi, msh in ShareSet.split_secret(gsh, mt, mc):
                shares.append(Share(len(secret) * 8, 77, 0, gi, gt, gc, mi, mt, int.from_bytes(msh, "big")))
        chosen = [s for s in shares if s.member_index in take[s.group_index]]
        complete = [gi for gi in range(gc) if len(set(take[gi])) >= groups[gi][0] and take[gi]]
        try:
            got = ShareSet(chosen).recover(b"pw")
        except Exception as ex:  # noqa
            # refused: fine unless every presented group is complete and there are enough of them
            if chosen and len(complete) >= gt and all((not take[gi]) or gi in complete for gi in range(gc)):
                return f"complete groups {complete} (threshold {gt}) were refused: {ex!r}"
            return None
    if got != secret:
        return "two-level share set returned a wrong secret"
    if len(complete) < gt:
        return "fewer than group_threshold complete groups returned the secret"
    return None


def p_mixed_pipeline(ent1, ent2, k1, n1, k2, n2, e1, e2, id1, id2, rnd1, rnd2, take1, take2):
    """share mnemonics of two generate_shares calls that differ in id, exponent, k, n or length are never
    combined by recover_mnemonic; the shares of each call alone are"""
    m1, m2 = ref_bip39(ent1), ref_bip39(ent2)
    with patched(Rnd(id1, rnd1), True):
        a = ShareSet.generate_shares(m1, k1, n1, b"", e1)
    with patched(Rnd(id2, rnd2), True):
        b = ShareSet.generate_shares(m2, k2, n2, b"", e2)
    differ = (id1, e1, k1, n1, len(ent1)) != (id2, e2, k2, n2, len(ent2))
    mix = [a[i % n1] for i in take1] + [b[i % n2] for i in take2]
    if not take1 or not take2 or not differ:
        return None
    with patched(fast=True):
        for order in (mix, mix[::-1]):
            try:
                got = ShareSet.recover_mnemonic(order, b"")
            except Exception:
                continue
            return f"shares of two different splits were combined into {got!r}"
        if ShareSet.recover_mnemonic(a[:k1], b"") != m1 or ShareSet.recover_mnemonic(b[:k2], b"") != m2:
            return "the shares of one call alone do not recover its mnemonic"
    return None


def p_subst_text(f, poss, kinds, news):
    """1..3 words replaced by another word (full or 4-letter prefix), by junk or by another case are rejected;
    words replaced by their OWN 4-letter prefix are not a corruption: same share"""
    s0 = Share(*f)
    ws = s0.mnemonic().split(" ")
    bad, own = list(ws), list(ws)
    for p, kd, w in zip(poss, kinds, news):
        p %= len(ws)
        other = SL[w] if SL[w] != ws[p] and SL[w][:4] != ws[p][:4] else SL[(w + 1) % 1024]
        bad[p] = [other, other[:4], "zz", ws[p].upper(), ws[p] + "x"][kd % 5]
        own[p] = ws[p][:4]
    diff = sum(1 for a, b in zip(ws, bad) if a != b)
    if not 1 <= diff <= 3:
        return None
    if not _raises(Share.parse, " ".join(bad)):
        return f"{diff}-word text corruption accepted: {bad}"
    t = Share.parse("  ".join(own))
    if sfields(t) != sfields(s0) or t.bytes != s0.bytes:
        return "prefix spelling of the same words parsed to a different share"
    return None


def p_canonical(idx, prefix_mask):
    """every text Share.parse accepts has at least 20 words and at most 8 padding bits, and re-encodes to the
    same words spelled in full (every accepted length, empty padding included: ddaa02c)"""
    ws = [SL[i][:4] if (prefix_mask >> j) & 1 else SL[i] for j, i in enumerate(idx)]
    try:
        s0 = Share.parse(" ".join(ws))
    except Exception:
        return None
    w = len(idx) - 7
    if len(idx) < 20 or (10 * w) % 16 > 8:
        return f"Share.parse accepted {len(idx)} words ({(10 * w) % 16} padding bits)"
    if s0.share_bit_length != 10 * w // 16 * 16:
        return "share_bit_length is not 10 * value words rounded down to a multiple of 16"
    back = s0.mnemonic()
    if back != " ".join(SL[i] for i in idx):
        return "mnemonic(parse(m)) is not m spelled in full words"
    t = Share.parse(back)
    if sfields(t) != sfields(s0) or t.bytes != s0.bytes:
        return "parse(mnemonic(parse(m))) differs from parse(m)"
    return None


def p_secrecy(secret, k, n, rnd, sub, secret2):
    """fewer than k shares are consistent with every other secret: recompute (independently of the library's
    tables) the random strings and digest share for which secret2 gives the same shares at the indices `sub`,
    and let the LIBRARY split secret2 with them"""
    nb = len(secret)
    with patched(Rnd(0, rnd)):
        data = ShareSet.split_secret(secret, k, n)
    sub = sorted(set(i % n for i in sub))[: k - 1]
    # complete to exactly k-1 observed indices
    for i in range(n):
        if len(sub) >= k - 1:
            break
        if i not in sub:
            sub.append(i)
    obs = [data[i] for i in sub]
    q = [(i, b) for i, b in obs] + [(255, secret2)]
    ds2 = ref_interp(254, q)
    held = dict(obs)
    sd2 = [(i, held[i] if i in held else ref_interp(i, q)) for i in range(k - 2)]
    other = split_with_impl(sd2, ds2, secret2, k, n)
    for i, b in obs:
        if other[i] != [i, b]:
            return f"share {i} of the alternative split of another secret differs from the observed share"
    if secret2 != secret and all(other[i] == [i, data[i][1]] for i in range(n)):
        return "the alternative split coincides in all n shares although the secrets differ"
    return None


def p_other_lengths(secret, ident, e, pw):
    """secrets of 144..320 bits other than 128/256: split_secret refuses them, generate_shares refuses the BIP39
    mnemonics of 15/18/21 words (160/192/224 bits) for every threshold; a 1-of-1 share of such a length built
    through the public pieces (encrypt, Share, mnemonic) is parsed, and recover_mnemonic returns the BIP39 mnemonic
    of the secret when one exists (160/192/224 bits) and refuses otherwise (144, 176, ... bits)"""
    nb = len(secret)
    bip = nb in (16, 20, 24, 28, 32)
    m = ref_bip39(secret) if bip else None
    with patched(Rnd(ident, bytes(600)), True):
        for k, n in ((1, 1), (1, 3), (2, 3), (3, 3), (16, 16)):
            if nb not in (16, 32):
                if not _raises(ShareSet.split_secret, secret, k, n):
                    return f"split_secret split a {nb * 8}-bit secret {k}-of-{n}"
                if bip and not _raises(ShareSet.generate_shares, m, k, n, pw, e):
                    return f"generate_shares split a {nb * 8}-bit secret ({len(m.split())} words) {k}-of-{n}"
        enc = ShareSet.encrypt(secret, ident, e, pw)
        if enc != ref_feistel(secret, ident, e, pw, stub_kdf):
            return "encrypt differs from the SLIP39 Feistel network"
        sh = Share(nb * 8, ident, e, 0, 1, 1, 0, 1, int.from_bytes(enc, "big"))
        txt = sh.mnemonic()
        if len(txt.split(" ")) != 7 + -(-nb * 8 // 10):
            return f"{nb * 8}-bit share mnemonic has {len(txt.split(' '))} words"
        if txt != enc_share(sfields(sh)):
            return f"{nb * 8}-bit share mnemonic differs from the SLIP39 encoding"
        back = Share.parse(txt)
        if sfields(back) != sfields(sh) or back.bytes != enc:
            return "parse(mnemonic(share)) differs from the share"
        if bip:
            if ShareSet.recover_mnemonic([txt], pw) != m:
                return "recover_mnemonic of the 1-of-1 share is not the BIP39 mnemonic of the secret"
        elif not _raises(ShareSet.recover_mnemonic, [txt], pw):
            return f"recover_mnemonic returned a mnemonic for a {nb * 8}-bit secret (no BIP39 sentence has that length)"
    return None


def p_parse_ref(idx, prefix_mask):
    """Share.parse against the independent decoder on a word list (full words or 4-letter prefixes): both refuse, or
    both accept with the same nine fields and the value as big-endian bytes"""
    ws = [SL[i][:4] if (prefix_mask >> j) & 1 else SL[i] for j, i in enumerate(idx)]
    try:
        want = dec_share(" ".join(SL[i] for i in idx))
    except Exception:
        want = None
    try:
        s0 = Share.parse(" ".join(ws))
        got = sfields(s0)
    except Exception:
        got = None
    if got is None and want is None:
        return None
    if want is None:
        return f"Share.parse accepted a text SLIP39 refuses ({len(idx)} words): fields {got}"
    if got is None:
        return f"Share.parse refused a valid share text ({len(idx)} words, fields {want})"
    if got != want or s0.bytes != want[8].to_bytes(want[0] // 8, "big"):
        return f"Share.parse returned {got}, the text encodes {want}"
    return None


def relabelled_fields(secret, kq, k, n, rnd, sub, level):
    """field lists of the shares `sub` of a kq-of-n split (id 99, exponent 0, empty passphrase, stub KDF) whose
    headers declare the threshold k: as group shares (level 0) or as the members of the only group (level 1)"""
    nb = len(secret)
    data = ref_split(ref_feistel(secret, 99, 0, b"", stub_kdf), kq, n, rnd)
    if level == 0:
        return [[nb * 8, 99, 0, i, k, n, 0, 1, int.from_bytes(data[i][1], "big")] for i in sub]
    return [[nb * 8, 99, 0, 0, 1, 1, i, k, int.from_bytes(data[i][1], "big")] for i in sub]


def p_relabelled(secret, kq, k, n, rnd, sub, level):
    """fewer shares than the threshold their headers declare are refused even when the interpolated digest verifies:
    the shares of a kq-of-n split, relabelled with a threshold k > kq, and kq <= len(sub) < k of them presented
    (group threshold at level 0, member threshold at level 1); with the honest threshold kq the same shares recover"""
    honest = relabelled_fields(secret, kq, kq, n, rnd, sub, level)
    lying = relabelled_fields(secret, kq, k, n, rnd, sub, level)
    with patched(fast=True):
        if ShareSet([Share(*f) for f in honest]).recover(b"") != secret:
            return f"{len(sub)} shares of a {kq}-of-{n} split do not recover the secret"
        for how in ("objects", "texts"):
            try:
                if how == "objects":
                    got = ShareSet([Share(*f) for f in lying]).recover(b"")
                else:
                    got = ShareSet.recover_mnemonic([enc_share(f) for f in lying], b"")
            except Exception:
                continue
            return (f"{len(sub)} shares declaring the {'group' if level == 0 else 'member'} threshold {k} returned a secret "
                    f"({how}): {got!r}")
    return None


def p_parse_ws(f, sep, lead, trail):
    """white space between / around the words does not matter: str.split() semantics"""
    ws = enc_share(f).split(" ")
    s0 = Share.parse(_txt(lead) + _txt(sep).join(ws) + _txt(trail))
    if sfields(s0) != list(f):
        return "a share text with other white space parsed to a different share"
    return None


def p_refused(entropy, k, n, ident, rnd):
    """generate_shares accepts exactly the valid BIP39 sentences of 12 and 24 words: 15/18/21 words (valid), word
    counts that are no BIP39 length, a wrong checksum word, unknown / upper-case words are refused (an exception, not
    a returned value) for every threshold; split_secret refuses every secret length other than 16 and 32 bytes"""
    nb = len(entropy)
    m = ref_bip39(entropy)
    ws = m.split(" ")
    if mnemonic.mnemonic_to_bytes(m) != entropy:
        return "mnemonic_to_bytes does not invert the BIP39 encoding"
    bad_last = BW[(BW.index(ws[-1]) ^ 1)]       # the last word carries the checksum bits: flipping its low bit breaks it
    cands = [("one word more", ws + [ws[0]]), ("one word less", ws[:-1]), ("no words", []), ("two words more", ws + ws[:2]),
             ("twice the words", ws + ws), ("wrong checksum word", ws[:-1] + [bad_last]),
             ("unknown word", ws[:3] + ["zzzz"] + ws[4:]), ("upper-case word", [ws[0].upper()] + ws[1:])]
    with patched(Rnd(ident, rnd), True):
        for what, c in cands:
            if ref_bip39_entropy(c) is not None and len(c) in (12, 24):
                continue                         # (a doubled 12-word sentence whose checksum happens to hold)
            try:
                got = ShareSet.generate_shares(" ".join(c), k, n, b"", 0)
            except Exception:
                continue
            return f"generate_shares accepted a sentence with {what} ({len(c)} words): returned {str(got)[:80]}"
        try:
            got = ShareSet.generate_shares(m, k, n, b"", 0)
        except Exception as ex:  # noqa
            if nb in (16, 32):
                return f"a valid {len(ws)}-word mnemonic was refused {k}-of-{n}: {ex!r}"
            got = None
        if nb in (16, 32):
            if not isinstance(got, list) or len(got) != n:
                return f"generate_shares returned {str(got)[:60]} for a valid {len(ws)}-word mnemonic"
        elif got is not None:
            return f"generate_shares split a {len(ws)}-word mnemonic: only 128- and 256-bit secrets are split"
    for ln in (0, 1, 4, 15, 17, 20, 24, 28, 31, 33, 48, 64):
        try:
            got = ShareSet.split_secret(bytes(ln), k, n)
        except Exception:
            continue
        return f"split_secret accepted a {ln}-byte secret: returned {str(got)[:60]}"
    return None


def p_mixed_lengths(ent16, ent32, k, n, ident, e, rnd16, rnd32):
    """a 128-bit and a 256-bit split that agree in identifier, exponent, k and n: a set containing shares of both
    lengths is refused wherever the odd share stands (first, middle, last) and whichever length is in the majority —
    by ShareSet(...) and by recover_mnemonic — although k or more shares are present"""
    a = ref_generate(ent16, k, n, b"", e, ident, rnd16, stub_kdf)
    b = ref_generate(ent32, k, n, b"", e, ident, rnd32, stub_kdf)
    with patched(fast=True):
        if ShareSet.recover_mnemonic(a[:k], b"") != ref_bip39(ent16) or ShareSet.recover_mnemonic(b[n - k:], b"") != ref_bip39(ent32):
            return "the shares of one split alone do not recover its mnemonic"
        sets = []
        for size in range(2, min(n, 4) + 1):
            for pos in range(size):
                for maj, odd in ((a, b), (b, a)):
                    sets.append((size, pos, maj[:pos] + [odd[pos]] + maj[pos + 1:size]))
        if n == 1:
            sets = [(2, 1, [a[0], b[0]]), (2, 0, [b[0], a[0]])]
        for size, pos, texts in sets:
            where = f"{size} shares, the one at position {pos} of the other length"
            try:
                ss = ShareSet([Share.parse(t) for t in texts])
            except Exception:
                ss = None
            if ss is not None:
                return f"ShareSet accepted shares of different lengths ({where}); share_bit_length = {ss.share_bit_length}"
            try:
                got = ShareSet.recover_mnemonic(texts, b"")
            except Exception:
                continue
            return f"recover_mnemonic combined shares of different lengths ({where}) into {got!r}"
    return None


def p_shareset_edited(fl, pos, what):
    """Share objects edited in place after construction: ShareSet re-reads the attributes, a set made inconsistent
    that way is refused (identifier, exponent, threshold, count, length of one share; K > N on every share)"""
    shares = [Share(*f) for f in fl]
    ShareSet(list(shares))                       # consistent as built
    t = shares[pos % len(shares)]
    if what == 0:
        t.id ^= 1
    elif what == 1:
        t.exponent += 1
    elif what == 2:
        t.group_threshold = t.group_threshold % t.group_count + 1 if t.group_count > 1 else 2
    elif what == 3:
        t.group_count = t.group_count % 16 + 1
    elif what == 4:
        t.share_bit_length = 384 - t.share_bit_length
    else:
        for s in shares:
            s.group_threshold = s.group_count + 1
    try:
        ss = ShareSet(shares)
    except Exception:
        return None
    return (f"ShareSet accepted a set made inconsistent by an in-place edit of "
            f"{['id', 'exponent', 'group_threshold', 'group_count', 'share_bit_length', 'group_threshold > group_count'][what if what < 5 else 5]}"
            f" (threshold {ss.group_threshold} of {ss.group_count})")


def p_rs1024(cs, l):
    """RS1024 against polynomial long division over GF(1024) (generator (x-a)(x-a^2)(x-a^3)): polymod, the created
    checksum, verification of the created code word and of the code word with one symbol changed"""
    l = list(l)
    if shamir.rs1024_polymod(list(cs) + l) != ref_polymod(list(cs) + l):
        return "rs1024_polymod differs from the remainder of the division by the generator polynomial"
    c = shamir.rs1024_create_checksum(cs, l)
    if list(c) != ref_rs_create(cs, l):
        return "rs1024_create_checksum differs from the reference"
    if shamir.rs1024_verify_checksum(cs, l + list(c)) is not True:
        return "the created checksum does not verify"
    full = l + list(c)
    for p in range(len(full)):
        bad = list(full)
        bad[p] ^= 1 + (p * 37 + len(l)) % 1023
        if shamir.rs1024_verify_checksum(cs, bad) is not False:
            return f"a code word with symbol {p} changed verifies"
    return None


# ---------------------------------------------------------------- audit round: entry points, defaults, byte classes,
# lenient decoding with compensation, reuse of sources after a result (all expectations from the independent helpers)


def ref_polymod_ext(values):
    """ref_polymod for symbols that are arbitrary integers, as a decoder that read an illegal word as -1 / 1024 / ...
    would feed them: bits 10..29 of the symbol fall on the two upper registers of the division (integers wrap modulo
    2^30: -1 acts as 0x3FFFFFFF); only meaningful when at least three symbols follow"""
    r2, r1, r0 = 0, 0, 1
    for v in values:
        v &= 0x3FFFFFFF
        r2, r1, r0 = (r1 ^ _RSMUL[0][r2] ^ (v >> 20), r0 ^ _RSMUL[1][r2] ^ ((v >> 10) & 1023),
                      (v & 1023) ^ _RSMUL[2][r2])
    return (r2 << 20) | (r1 << 10) | r0


def p_lenient(f, pos, token, readas):
    """no lenient decoding: a share text in which one word is replaced by the illegal token is refused ALSO when the
    rest of the text is chosen so that the checksum verifies if the token were read as the number `readas` (0, 1, 1023:
    the token stands where that word stood in a valid share; -1, 1024, 2047, ...: the three checksum words compensate;
    `pos` indexes the words before the checksum, or — for readas in 0..1023 — a checksum word, found by grinding the value)"""
    token = _txt(token)
    if token in SLI or any(token == w[:4] and len(w) > 4 for w in SL):
        return "harness: the token is a legal spelling"
    f = list(f)
    idx = [SLI[w] for w in enc_share(f).split(" ")]
    nw = len(idx)
    pos %= nw
    if pos >= nw - 3:
        if not 0 <= readas < 1024:
            return None
        for t in range(1 << 14):                 # grind the low value bits until that checksum word is `readas`
            g = f[:8] + [f[8] ^ t]
            idx = [SLI[w] for w in enc_share(g).split(" ")]
            if idx[pos] == readas:
                break
        else:
            return None
    else:
        data = idx[:-3]
        data[pos] = readas
        pm = ref_polymod_ext(list(b"shamir") + data + [0, 0, 0]) ^ 1
        idx = data + [(pm >> 20) & 1023, (pm >> 10) & 1023, pm & 1023]
        if ref_polymod_ext(list(b"shamir") + idx) != 1:
            return "harness: compensation failed"
    if 0 <= readas < 1024:
        # the text with the legal word in that place is a code word (and a share unless the header is out of range)
        if ref_polymod(list(b"shamir") + idx) != 1:
            return "harness: not a code word"
    ws = [SL[i] if j != pos else token for j, i in enumerate(idx)]
    for sep in (" ", "\t"):
        try:
            s = Share.parse(sep.join(ws))
        except Exception:
            continue
        return (f"Share.parse accepted the illegal word {token!r} at position {pos} (as if it were the number {readas}): "
                f"fields {sfields(s)}")
    return None


def p_sentence_lenient(entropy, k, n, pos, token, readas, ident, rnd):
    """generate_shares refuses a sentence with an illegal word ALSO when the neighbouring word is chosen so that the
    sentence would decode to a valid one if the token were read as the number `readas` (mnemonic_to_bytes ADDS the
    indices: (a, -1) would read as (a - 1, 2047); (a, 2048) as (a + 1, 0); 0 / 2047: the token stands for abandon / zoo)"""
    token = _txt(token)
    if token in BW or any(token == w[:4] and len(w) > 4 for w in BW):
        return "harness: the token is a legal spelling"
    nb = len(entropy)
    nwords = nb * 8 * 33 // 32 // 11
    pos = 1 + pos % (nwords - 2)                   # 1 .. nwords-2: both groups lie inside the entropy bits
    target, carry = readas % 2048, readas // 2048  # readas = carry * 2048 + target
    e = int.from_bytes(entropy, "big")

    def group(p):
        return (e >> (nb * 8 - 11 * (p + 1))) & 2047

    def setgroup(p, v):
        sh = nb * 8 - 11 * (p + 1)
        return (e & ~(2047 << sh)) | (v << sh)
    e = setgroup(pos, target)
    if not 0 <= group(pos - 1) - carry <= 2047:
        e = setgroup(pos - 1, 1000)
    ent = e.to_bytes(nb, "big")
    ws = ref_bip39(ent).split(" ")
    if BW.index(ws[pos]) != target:
        return "harness: group not set"
    bad = list(ws)
    bad[pos - 1] = BW[BW.index(ws[pos - 1]) - carry]
    bad[pos] = token
    with patched(Rnd(ident, rnd), True):
        got = ShareSet.generate_shares(" ".join(ws), k, n, b"", 0)
        if got != ref_generate(ent, k, n, b"", 0, ident, rnd, stub_kdf):
            return "the valid sentence is not split into the SLIP39 shares"
    with patched(Rnd(ident, rnd), True):
        try:
            got = ShareSet.generate_shares(" ".join(bad), k, n, b"", 0)
        except Exception:
            return None
    return (f"generate_shares accepted a sentence with the illegal word {token!r} at position {pos} "
            f"(as if it were the number {readas}): {str(got)[:80]}")


def p_sentence_spelling(entropy, k, n, pw, e, ident, rnd, mask, sep, lead, trail):
    """the BIP39 sentence spelled with unique four-letter prefixes and other white space is the same secret: the same
    shares as for the sentence spelled in full"""
    ws = ref_bip39(entropy).split(" ")
    ws = [w[:4] if (mask >> j) & 1 and len(w) > 4 else w for j, w in enumerate(ws)]
    text = _txt(lead) + _txt(sep).join(ws) + _txt(trail)
    want = ref_generate(entropy, k, n, pw, e, ident, rnd, stub_kdf)
    with patched(Rnd(ident, rnd), True):
        got = ShareSet.generate_shares(text, k, n, pw, e)
    if got != want:
        return "the sentence in prefix spelling / other white space is split into other shares than the sentence in full"
    return None


def p_defaults(entropy, k, n, pw, e, ident, rnd):
    """omitted optional arguments mean passphrase b"" and exponent 0, keyword and positional calls agree, share lists may
    be tuples / iterators, class methods may be called on an instance; an explicit call in between does not change what
    an omitted argument means"""
    m = ref_bip39(entropy)
    nb = len(entropy)

    def gen(*a, **kw):
        with patched(Rnd(ident, rnd), True):
            return ShareSet.generate_shares(*a, **kw)

    def want(p, x):
        return ref_generate(entropy, k, n, p, x, ident, rnd, stub_kdf)
    calls = [("no optional argument", lambda: gen(m, k, n), want(b"", 0)),
             ("passphrase and exponent by keyword", lambda: gen(m, k, n, exponent=e, passphrase=pw), want(pw, e)),
             ("no optional argument, after an explicit call", lambda: gen(m, k, n), want(b"", 0)),
             ("exponent only", lambda: gen(m, k, n, exponent=e), want(b"", e)),
             ("passphrase only (positional)", lambda: gen(m, k, n, pw), want(pw, 0)),
             ("all by keyword", lambda: gen(mnemonic=m, k=k, n=n, passphrase=pw, exponent=e), want(pw, e)),
             ("no optional argument, third time", lambda: gen(m, k, n), want(b"", 0))]
    for what, f, w in calls:
        got = f()
        if got != w:
            return f"generate_shares with {what} does not return the SLIP39 shares for that passphrase / exponent"
    plain, locked = want(b"", 0), want(pw, e)
    enc = ref_feistel(entropy, ident, e, pw, stub_kdf)
    nopw = ref_feistel(enc, ident, e, b"", stub_kdf, (3, 2, 1, 0))      # the locked shares opened with no passphrase
    with patched(fast=True):
        sub = list(range(n))[n - k:]
        for what, f, w in [
                ("recover_mnemonic(list)", lambda: ShareSet.recover_mnemonic([plain[i] for i in sub]), m),
                ("recover_mnemonic(list, passphrase=)", lambda: ShareSet.recover_mnemonic([locked[i] for i in sub], passphrase=pw), m),
                ("recover_mnemonic(tuple)", lambda: ShareSet.recover_mnemonic(tuple(plain[i] for i in sub)), m),
                ("recover_mnemonic(iterator, pw)", lambda: ShareSet.recover_mnemonic(iter([locked[i] for i in sub]), pw), m),
                ("recover_mnemonic(share_mnemonics=, passphrase=)",
                 lambda: ShareSet.recover_mnemonic(share_mnemonics=[locked[i] for i in sub[::-1]], passphrase=pw), m),
                ("recover_mnemonic(list) again", lambda: ShareSet.recover_mnemonic([plain[i] for i in sub]), m),
                ("recover_mnemonic on an instance", lambda: ShareSet([Share.parse(plain[0])]).recover_mnemonic([locked[i] for i in sub], pw), m)]:
            try:
                got = f()
            except Exception as ex:  # noqa
                return f"{what} raised {ex!r}"
            if got != w:
                return f"{what} returned another mnemonic"
        objs = [Share.parse(locked[i]) for i in sub]
        for what, cont in (("list", list), ("tuple", tuple)):
            ss = ShareSet(cont(objs))
            seq = [("recover()", lambda: ss.recover(), nopw), ("recover(pw)", lambda: ss.recover(pw), entropy),
                   ("recover() after recover(pw)", lambda: ss.recover(), nopw),
                   ("recover(passphrase=pw)", lambda: ss.recover(passphrase=pw), entropy),
                   ("decrypt(c)", lambda: ss.decrypt(enc), nopw), ("decrypt(c, pw)", lambda: ss.decrypt(enc, pw), entropy),
                   ("decrypt(c) after decrypt(c, pw)", lambda: ss.decrypt(enc), nopw),
                   ("decrypt(secret=, passphrase=)", lambda: ss.decrypt(secret=enc, passphrase=pw), entropy),
                   # encrypt is a class method: the identifier / exponent are the ARGUMENTS, not those of the instance
                   ("instance.encrypt(p, id', e')", lambda: ss.encrypt(entropy, ident ^ 1, e + 1, pw),
                    ref_feistel(entropy, ident ^ 1, e + 1, pw, stub_kdf)),
                   ("instance.encrypt(p, id', e') without passphrase", lambda: ss.encrypt(entropy, ident ^ 1, e + 1),
                    ref_feistel(entropy, ident ^ 1, e + 1, b"", stub_kdf))]
            for w2, f, w in seq:
                try:
                    got = f()
                except Exception as ex:  # noqa
                    return f"ShareSet({what}).{w2} raised {ex!r}"
                if got != w:
                    return f"ShareSet({what}).{w2} is not the SLIP39 value for that passphrase"
        for what, f, w in [("encrypt(p, id, e)", lambda: ShareSet.encrypt(entropy, ident, e), ref_feistel(entropy, ident, e, b"", stub_kdf)),
                           ("encrypt(p, id, e, passphrase=)", lambda: ShareSet.encrypt(entropy, ident, e, passphrase=pw), enc),
                           ("encrypt(payload=, id=, exponent=)", lambda: ShareSet.encrypt(payload=entropy, id=ident, exponent=e),
                            ref_feistel(entropy, ident, e, b"", stub_kdf)),
                           ("encrypt(p, id, e) again", lambda: ShareSet.encrypt(entropy, ident, e), ref_feistel(entropy, ident, e, b"", stub_kdf))]:
            if f() != w:
                return f"ShareSet.{what} differs from the SLIP39 Feistel network for that passphrase"
    if nb in (16, 32) and Share(share_bit_length=nb * 8, id=ident, exponent=e, group_index=1, group_threshold=k, group_count=n,
                                member_index=2, member_threshold=3, value=5).mnemonic() != enc_share([nb * 8, ident, e, 1, k, n, 2, 3, 5]):
        return "Share built with keyword arguments encodes other fields"
    return None


def _ref_tables():
    exp, log, cur = [0] * 255, [0] * 256, 1
    for i in range(255):
        exp[i], log[cur] = cur, i
        cur = gf_mul(cur, 3)
    return exp, log


def _tables_ok():
    exp, log = _ref_tables()
    return list(ShareSet.exp) == exp and list(ShareSet.log2) == log


def p_reuse(secret, gt, gc, groups, rnd, drop):
    """sources used again after a result: the share objects, the lists handed in and the class tables are unchanged by
    ShareSet(...), recover(), recover_mnemonic(), interpolate() and recover_secret(); a refused (insufficient / foreign)
    set followed by a retry with the full set recovers; the same objects serve several sets; _load() is repeatable"""
    nb = len(secret)
    fl = ref_two_level(secret, gt, gc, groups, rnd)          # id 77, exponent 0, passphrase b"pw", stub KDF
    texts = [enc_share(f) for f in fl]
    m = ref_bip39(secret)
    objs = [Share(*f) for f in fl]

    def snap():
        return [sfields(o) + [o.bytes] for o in objs]
    s0 = snap()
    # an insufficient subset: one group too few, or one member too few in group `drop`
    by_group = {}
    for j, f in enumerate(fl):
        by_group.setdefault(f[3], []).append(j)
    gsel = sorted(by_group)[:gt]
    minimal = [j for g in gsel for j in by_group[g][:groups[g][0]]]
    dg = gsel[drop % len(gsel)]
    short = [j for j in minimal if fl[j][3] != dg] + by_group[dg][:groups[dg][0] - 1]
    insufficient = short if (gt > 1 or groups[dg][0] > 1) else None
    with patched(fast=True):
        if not _tables_ok():
            return "the GF(256) tables differ from the powers of x+1 modulo x^8+x^4+x^3+x+1 (before the case)"
        for rnd_no in range(2):
            order = objs[::-1] if rnd_no else list(objs)         # as built, then in reverse order
            full = list(order)
            ss = ShareSet(full)
            if full != order or len(ss.shares) != len(objs):
                return "ShareSet(...) changed the list it was given / holds another number of shares"
            for p, w in ((b"pw", secret), (b"other", ref_feistel(ref_feistel(secret, 77, 0, b"pw", stub_kdf), 77, 0, b"other", stub_kdf, (3, 2, 1, 0))),
                         (b"pw", secret)):
                if ss.recover(p) != w:
                    return f"recover({p!r}) on the full two-level set (call sequence pw, other, pw; round {rnd_no}) is wrong"
                if full != order or snap() != s0 or len(ss.shares) != len(objs):
                    return "recover() changed the share objects or the list of the set"
            mn = ShareSet([objs[j] for j in minimal][::-1])
            if mn.recover(b"pw") != secret or mn.recover(b"pw") != secret:
                return "a minimal set of the same share objects (reversed) does not recover twice"
            if insufficient is not None:
                for how in ("objects", "texts"):
                    try:
                        if how == "objects":
                            got = ShareSet([objs[j] for j in insufficient]).recover(b"pw")
                        else:
                            got = ShareSet.recover_mnemonic([texts[j] for j in insufficient], b"pw")
                    except Exception:
                        continue
                    if got in (secret, m):
                        return f"an insufficient set ({how}) returned the secret"
            # a foreign share (other identifier) makes the set refused; the retry without it succeeds
            foreign = Share(*([fl[0][0], 78] + fl[0][2:]))
            try:
                ShareSet(objs + [foreign])
                return "a set with a share of another identifier was accepted"
            except Exception:
                pass
            if snap() != s0:
                return "a refused set changed the share objects"
            tl = [texts[j] for j in minimal]
            tb = list(tl)
            for _ in range(2):
                if nb in (16, 32) and ShareSet.recover_mnemonic(tl, b"pw") != m:
                    return "recover_mnemonic on the same list of texts (second use included) is wrong"
                if tl != tb:
                    return "recover_mnemonic changed the list of texts it was given"
        # interpolate / recover_secret leave their point lists alone and are repeatable
        k = max(2, min(4, gt + 1))
        pts = [(i, b) for i, b in ref_split(secret, k, 5, (rnd + bytes(range(200)))[:rnd_need(nb, k)])][5 - k:]
        pb = list(pts)
        for _ in range(2):
            if ShareSet.interpolate(255, pts) != secret or ShareSet.recover_secret(pts) != secret or pts != pb:
                return "interpolate / recover_secret changed their point list or are not repeatable"
            if ShareSet.interpolate(0, pts) != ref_interp(0, pts):
                return "interpolate at x = 0 differs from Lagrange interpolation over GF(256)"
        if not _tables_ok():
            return "the GF(256) tables were changed by the calls"
        exp_id, log_id = ShareSet.exp, ShareSet.log2
        ShareSet._load()
        if not _tables_ok() or len(ShareSet.exp) != 255 or len(ShareSet.log2) != 256:
            return "ShareSet._load() called again builds other tables"
        if ShareSet(list(objs)).recover(b"pw") != secret:
            return "recovery after _load() was called again is wrong"
        del exp_id, log_id
    return None


def p_repr(f):
    """repr(share) shows the share text (it calls mnemonic()) and leaves the object alone"""
    s = Share(*f)
    before = sfields(s) + [s.bytes]
    lines = [x for x in repr(s).split("\n") if x.strip()]
    if not lines or lines[0] != enc_share(f):
        return "the first line of repr(share) is not the SLIP39 text of the share"
    if sfields(s) + [s.bytes] != before or s.mnemonic() != enc_share(f):
        return "repr(share) changed the share"
    return None


PROPS = {"lenient": p_lenient, "sentence_lenient": p_sentence_lenient, "sentence_spelling": p_sentence_spelling,
         "defaults": p_defaults, "reuse": p_reuse, "repr": p_repr,
         "other_lengths": p_other_lengths, "refused": p_refused, "mixed_lengths": p_mixed_lengths,
         "shareset_edited": p_shareset_edited, "rs1024": p_rs1024, "parse_ref": p_parse_ref, "relabelled": p_relabelled, "parse_ws": p_parse_ws, "mixed_pipeline": p_mixed_pipeline, "subst_text": p_subst_text, "canonical": p_canonical, "secrecy": p_secrecy,
         "recover_repeat": p_recover_repeat, "gf": p_gf, "split_recover": p_split_recover, "pipeline": p_pipeline, "mixed": p_mixed,
         "share_rt": p_share_rt, "subst1_all": p_subst1_all, "subst_multi": p_subst_multi, "feistel": p_feistel,
         "two_level": p_two_level}

# ---------------------------------------------------------------- generators

PASS = [b"", b"TREZOR", "пароль".encode(), b"\xff\x00\x80", b"a" * 70, b"b" * 63, b"c" * 64]


def rnd_need(nb, k):
    return 0 if k == 1 else (nb - 4) + (k - 2) * nb


def rfields(ctx, bits=None, edge=False):
    r = ctx.rng
    bits = bits or r.choice([128, 256])
    gc = r.choice([1, 16, r.randrange(1, 17)])
    gt = r.choice([1, gc, r.randrange(1, gc + 1)])
    pick = (lambda lo, hi: r.choice([lo, hi, r.randrange(lo, hi + 1)])) if edge else (lambda lo, hi: r.randrange(lo, hi + 1))
    value = r.choice([0, (1 << bits) - 1, 1 << (bits - 1), r.getrandbits(bits)]) if edge else r.getrandbits(bits)
    return [bits, pick(0, 32767), pick(0, 31), pick(0, 15), gt, gc, pick(0, 15), pick(1, 16), value]


def subsets_for(r, k, n, budget, exhaustive):
    """index lists: all subsets when exhaustive, else sizes k-1, k, k+1, n and random ones"""
    if exhaustive:
        out = []
        for size in range(0, n + 1):
            out += [list(c) for c in itertools.combinations(range(n), size)]
        return out
    out = [list(range(n)), r.sample(range(n), k)]
    if k > 1:
        out.append(r.sample(range(n), k - 1))
    if k < n:
        out.append(r.sample(range(n), k + 1))
    out.append(sorted(r.sample(range(n), k)))
    out.append(list(range(n - k, n)))
    for _ in range(budget):
        out.append(r.sample(range(n), r.randrange(0, n + 1)))
    return out


def generate(ctx):
    r = ctx.rng
    thorough = ctx.tier != "quick"
    yield ("corr", "gf_tables", [])
    yield ("prop", "gf", [])
    # --- RS1024
    for _ in range(ctx.n(150, 5000)):
        l = [r.randrange(1024) for _ in range(r.choice([0, 1, 2, 3, 17, 20, 30, 33, r.randrange(0, 45)]))]
        cs = r.choice([b"shamir", b"", b"x", ctx.rbytes(r.randrange(0, 8))])
        yield ("corr", "rs1024_polymod", [l])
        yield ("corr", "rs1024_create", [cs, l])
        full = l + ref_rs_create(cs, l)
        yield ("corr", "rs1024_verify", [cs, full])
        if full:
            bad = list(full)
            bad[r.randrange(len(bad))] ^= 1 << r.randrange(10)
            yield ("corr", "rs1024_verify", [cs, bad])
        if _ % 4 == 0:
            ctx.label("rs1024/vs-polynomial-division-over-GF(1024)")
            yield ("prop", "rs1024", [cs, l])
    # symbols outside 0..1023 (no caller produces them; the model mirrors the integer arithmetic all the same:
    # `<< 10 ^ v` is an exclusive or, which differs from `|` only here)
    for _ in range(ctx.n(12, 100)):
        l = [r.choice([r.randrange(1024), 1024, 1025, 2047, 0xFFFFF, 1 << 30, (1 << 30) + 5, r.getrandbits(40)])
             for _ in range(r.randrange(1, 12))]
        ctx.label("rs1024/out-of-domain-symbols")
        yield ("corr", "rs1024_polymod", [l])
        yield ("corr", "rs1024_verify", [b"shamir", l])
    # --- ShareSet.digest (HMAC-SHA256 truncated to 4 bytes)
    for _ in range(ctx.n(12, 200)):
        ctx.label("digest")
        yield ("corr", "digest", [ctx.rbytes(r.choice([0, 12, 28, 64, 65, 130])), ctx.rbytes(r.choice([0, 16, 32, 33]))])
    # --- share codec: in-range headers incl. every boundary, then out-of-range constructions
    shares = []
    for i in range(ctx.n(150, 6000)):
        f = rfields(ctx, edge=(i % 3 == 0))
        ctx.label(f"share/{f[0]}-bit")
        shares.append(f)
        yield ("prop", "share_rt", [f])
        yield ("corr", "share_mnemonic", [f])
        yield ("corr", "share_parse", [enc_share(f).encode()])
    for _ in range(ctx.n(80, 2500)):
        f = rfields(ctx)
        j = r.randrange(9)
        f[j] = r.choice({0: [0, 8, 120, 136, 160, 192, 264, -8, 127], 1: [32768, 65535, 65536, -1], 2: [32, -1, 100],
                         3: [16, -1], 4: [0, 17, f[5] + 1], 5: [0, 17], 6: [16, -1], 7: [0, 17],
                         8: [1 << f[0], -1, (1 << f[0]) + 5]}[j])
        ctx.label("share/out-of-range-field")
        yield ("corr", "share_mnemonic", [f])
        try:
            yield ("corr", "share_parse", [Share(*f).mnemonic().encode()])
        except Exception:
            pass
    # parse: arbitrary lengths with a valid checksum, padding bits set, unknown words, prefixes
    for _ in range(ctx.n(150, 5000)):
        ln = r.choice([0, 1, 3, 4, 6, 7, 8, 16, 17, 18, 19, 20, 21, 22, 23, 30, 31, 32, 33, 34, 36, r.randrange(0, 45)])
        idx = [r.randrange(1024) for _ in range(ln)]
        if ln > 4 and r.random() < 0.7:
            idx[4] = r.choice([0, 0, 1, 2, 255, 256])      # value padding
        if ln > 5 and r.random() < 0.5:
            idx[5] = r.choice([0, idx[5]])
        if ln > 3 and r.random() < 0.8:
            gc = r.randrange(1, 17)
            gt = r.randrange(1, gc + 1) if r.random() < 0.9 else r.randrange(1, 17)
            idx[2] = (idx[2] & 0x3C0) | ((gt - 1) << 2) | ((gc - 1) >> 2)
            idx[3] = (idx[3] & 0xFF) | (((gc - 1) & 3) << 8)
        full = idx + ref_rs_create(b"shamir", idx)
        yield ("prop", "parse_ref", [full, r.getrandbits(len(full)) if r.random() < 0.3 else 0])
        ws = [SL[i] for i in full]
        k = r.random()
        if k < 0.1:
            p = r.randrange(len(ws))
            ws[p] = r.choice([ws[p].upper(), ws[p][:3], "zzzz", ws[p] + "s"])
            ctx.label("parse/unknown-word")
        elif k < 0.3:
            ws = [w[:4] if r.random() < 0.5 else w for w in ws]
            ctx.label("parse/prefix-spelling")
        elif k < 0.4 and len(ws) > 0:
            p = r.randrange(len(ws))
            ws[p] = SL[r.randrange(1024)]
            ctx.label("parse/substituted")
        ctx.label(f"parse/len={'20' if len(ws) == 20 else '33' if len(ws) == 33 else 'other'}")
        yield ("corr", "share_parse", [" ".join(ws).encode()])
        yield ("corr", "share_reencode", [" ".join(ws).encode()])
    # converse round trip: accepted 20-/33-word texts (zero padding, any accepted spelling) re-encode to themselves;
    # other lengths: accepted only with at most 8 (zero) padding bits (ec24589), then re-encoded to themselves
    for i in range(ctx.n(120, 1600)):
        f = rfields(ctx, edge=(i % 4 == 0))
        idx = [SLI[w] for w in enc_share(f).split(" ")]
        nw = len(idx)
        kind = i % 4
        if kind == 0:
            ctx.label("canonical/generated-share")
        elif kind == 1:
            # the same data words with the checksum of another customisation string / a flipped data word
            data = idx[:-3]
            data[r.randrange(4, len(data))] ^= 1 << r.randrange(10)
            idx = data + ref_rs_create(b"shamir", data)
            ctx.label("canonical/recomputed-checksum")
        elif kind == 2:
            # arbitrary header words (may violate K <= N), valid checksum
            data = [r.randrange(1024) for _ in range(4)] + idx[4:-3]
            idx = data + ref_rs_create(b"shamir", data)
            ctx.label("canonical/random-header")
        else:
            # k extra zero words in front of the value: 21..23 (34..36) words — a longer share or too much padding
            extra = r.choice([1, 1, 2, 3])
            if idx[4] < (256 if nw == 20 else 16):
                data = idx[:4] + [0] * extra + idx[4:-3]
                idx = data + ref_rs_create(b"shamir", data)
                ctx.label(f"canonical/non-standard-length-{len(idx)}-words")
        mask = r.getrandbits(len(idx)) if r.random() < 0.5 else 0
        yield ("prop", "canonical", [idx, mask])
        ws = [SL[j][:4] if (mask >> t) & 1 else SL[j] for t, j in enumerate(idx)]
        yield ("corr", "share_reencode", [" ".join(ws).encode()])
        yield ("corr", "share_parse", [" ".join(ws).encode()])
    # every SLIP39 share length from 128 to 320 bits: codec both ways (23 words for 160 bits since ddaa02c)
    for bits in range(128, 321, 16):
        for j in range(ctx.n(3, 40)):
            f = rfields(ctx, bits=bits, edge=(j % 2 == 0))
            ctx.label(f"share/length-sweep/{bits}-bit")
            yield ("prop", "share_rt", [f])
            yield ("corr", "share_mnemonic", [f])
            txt = enc_share(f)
            yield ("corr", "share_parse", [txt.encode()])
            yield ("corr", "share_reencode", [txt.encode()])
            yield ("prop", "canonical", [[SLI[w] for w in txt.split(" ")], r.getrandbits(8)])
    # 160/192/224-bit secrets end to end as far as the API goes (1-of-1 share through encrypt/Share/recover_mnemonic)
    for nb in range(16, 42, 2):
        for j in range(ctx.n(2, 30) if nb in (20, 24, 28) else ctx.n(1, 8)):
            secret, ident, e, pw = ctx.rbytes(nb), r.getrandbits(15), r.choice([0, 1]), r.choice(PASS)
            ctx.label(f"other-lengths/{nb * 8}-bit-secret")
            yield ("prop", "other_lengths", [secret, ident, e, pw])
            enc = ref_feistel(secret, ident, e, pw, stub_kdf)
            txt = enc_share([nb * 8, ident, e, 0, 1, 1, 0, 1, int.from_bytes(enc, "big")])
            yield ("corr", "recover_mnemonic_fast", [[txt.encode()], pw])
            yield ("corr", "recover_shares_fast", [[[nb * 8, ident, e, 0, 1, 1, 0, 1, int.from_bytes(enc, "big")]], pw])
    # the witnesses of C15_share_parse_rejects_21 (21 words with 12 zero padding bits: rejected since ec24589; they
    # parsed to the share of the 20 words) and of C15_share_mnemonic_160_ok (23 words = 160 bits, what Share.mnemonic emits since ddaa02c)
    ctx.label("canonical/witnesses-21-20-23-words")
    for wit in ([38, 577, 0, 0, 0, 1, 141, 86, 482, 427, 823, 752, 72, 837, 414, 154, 755, 495, 350, 791, 577],
                [38, 577, 0, 0, 1, 141, 86, 482, 427, 823, 752, 72, 837, 414, 154, 755, 495, 645, 54, 170],
                [38, 577, 0, 0] + [1023] * 15 + [1019, 879, 513, 281]):
        yield ("prop", "canonical", [wit, 0])
        yield ("corr", "share_parse", [" ".join(SL[j] for j in wit).encode()])
        yield ("corr", "share_reencode", [" ".join(SL[j] for j in wit).encode()])
    # every number of words from 18 to 40 with zero padding and a valid checksum: accepted exactly for the lengths of
    # C15_share_parse_lengths
    for nw in range(18, 41):
        data = [r.randrange(1024) for _ in range(2)] + [0, 0] + [0, 0] + [r.randrange(1024) for _ in range(nw - 9)]
        idx = data + ref_rs_create(b"shamir", data)
        ctx.label(f"canonical/length-sweep/{'accepted' if nw >= 20 and (10 * (nw - 7)) % 16 <= 8 else 'rejected'}")
        yield ("prop", "canonical", [idx, 0])
        yield ("prop", "parse_ref", [idx, 0])
        yield ("corr", "share_parse", [" ".join(SL[j] for j in idx).encode()])
        yield ("corr", "share_reencode", [" ".join(SL[j] for j in idx).encode()])
        # the top value word on both sides of the padding boundary: 2^(10-pad) - 1 (all share bits set, accepted),
        # 2^(10-pad) (lowest padding bit set, refused), 1023; header words random (threshold/count any)
        pad = (10 * (nw - 7)) % 16
        for top in sorted({(1 << (10 - pad)) - 1, min(1 << (10 - pad), 1023), 1023, 1 << 9} if pad <= 10 else {0, 1, 1023}):
            for hdr in ([0, 0], [r.randrange(1024), r.randrange(1024)]):
                d2 = data[:2] + hdr + [top] + data[5:]
                i2 = d2 + ref_rs_create(b"shamir", d2)
                ctx.label("parse/padding-boundary")
                yield ("prop", "parse_ref", [i2, r.getrandbits(nw) if hdr[0] else 0])
                yield ("prop", "canonical", [i2, 0])
                yield ("corr", "share_parse", [" ".join(SL[j] for j in i2).encode()])
    # corruption: every single-word substitution of sampled shares, sampled double/triple
    for j, f in enumerate(shares[: ctx.n(4, 60)]):
        nw = 20 if f[0] == 128 else 33
        for pos in (range(nw) if j < ctx.n(2, 12) else r.sample(range(nw), 3)):
            ctx.label(f"substitution/single-all-1023/{nw}-word")
            yield ("prop", "subst1_all", [f, pos])
        ws = enc_share(f).split(" ")
        for _ in range(ctx.n(60, 1500)):
            cnt = r.choice([1, 2, 2, 3, 3, 3])
            poss = r.sample(range(nw), cnt)
            news = [r.randrange(1024) for _ in range(cnt)]
            ctx.label(f"substitution/{cnt}-word")
            yield ("prop", "subst_multi", [f, poss, news])
            if not thorough or r.random() < 0.2:
                ctx.label("substitution/text-level(prefix,junk,case)")
                yield ("prop", "subst_text", [f, poss, [r.randrange(5) for _ in range(cnt)], news])
            if r.random() < 0.2:
                bad = list(ws)
                for p, w in zip(poss, news):
                    bad[p] = SL[w]
                yield ("corr", "share_parse", [" ".join(bad).encode()])
    # --- split / interpolate / recover for all 136 (k, n)
    for n in range(1, 17):
        for k in range(1, n + 1):
            for rep in range(ctx.n(1, 4)):
                nb = r.choice([16, 32])
                secret = r.choice([bytes(nb), b"\xff" * nb, ctx.rbytes(nb), ctx.rbytes(nb)])
                rnd = ctx.rbytes(rnd_need(nb, k))
                exhaustive = (n <= 8 and thorough and rep == 0) or (n <= 4)
                subs = subsets_for(r, k, n, ctx.n(2, 12), exhaustive)
                ctx.label(f"split/k={'1' if k == 1 else 'n' if k == n else 'mid'}")
                ctx.label("split/subsets", len(subs))
                yield ("corr", "split_secret", [secret, k, n, rnd])
                yield ("prop", "split_recover", [secret, k, n, rnd, subs])
                data = [[i, b] for i, b in ref_split(secret, k, n, rnd)]
                if k > 1:
                    random = rnd[:nb - 4]
                    ds = hmac.new(random, secret, "sha256").digest()[:4] + random
                    sd = [[i, rnd[nb - 4 + i * nb: nb - 4 + (i + 1) * nb]] for i in range(k - 2)]
                    ctx.label("split_with")
                    yield ("corr", "split_with", [sd, ds, secret, k, n])
                    yield ("corr", "split_with", [sd, ctx.rbytes(nb), ctx.rbytes(nb), k, n])
                    for sub in subs[: ctx.n(2, 4)]:
                        ctx.label("secrecy/k-1-shares-consistent-with-another-secret")
                        yield ("prop", "secrecy", [secret, k, n, rnd, list(sub), r.choice([ctx.rbytes(nb), bytes(nb), secret])])
                if k > 1:
                    for sub in subs[: ctx.n(6, 40)] if not exhaustive else r.sample(subs, min(len(subs), ctx.n(6, 60))):
                        pts = [data[i] for i in sub]
                        ctx.label("recover_secret/>=k" if len(sub) >= k else "recover_secret/<k")
                        yield ("corr", "recover_secret", [pts])
                        if pts:
                            yield ("corr", "interpolate", [r.choice([255, 254, r.randrange(16, 254)]), pts])
    # split_secret argument checks
    for (k, n, nb) in [(0, 3, 16), (4, 3, 16), (1, 0, 16), (2, 17, 16), (1, 17, 32), (2, 3, 15), (2, 3, 33), (2, 3, 0),
                       (-1, 3, 16), (3, 3, 20)]:
        ctx.label("split/bad-arguments")
        yield ("corr", "split_secret", [ctx.rbytes(nb), k, n, ctx.rbytes(600)])
    for (k, n, nb, dl, sdx) in [(1, 3, 16, 16, []), (2, 1, 16, 16, []), (2, 17, 16, 16, []), (3, 4, 16, 16, []), (3, 4, 16, 16, [1]),
                                (2, 3, 20, 20, []), (2, 3, 16, 15, []), (3, 4, 32, 32, [0]), (4, 5, 16, 16, [0, 1])]:
        ctx.label("split_with/domain-guard")
        yield ("corr", "split_with", [[[i, ctx.rbytes(nb if (k, nb) != (4, 16) else 15)] for i in sdx], ctx.rbytes(dl), ctx.rbytes(nb), k, n])
    # interpolate on malformed point lists: empty, repeated x, x equal to a share x, unequal lengths, big x
    for _ in range(ctx.n(80, 3000)):
        m = r.randrange(0, 6)
        pts = [[r.choice([0, 1, 15, 254, 255, r.randrange(256), 256, 300]) if r.random() < 0.3 else r.randrange(16),
                ctx.rbytes(r.choice([16, 16, 16, 32, 4, 0, 5]))] for _ in range(m)]
        x = r.choice([255, 254, 0, 1, 256, r.randrange(256)])
        ctx.label("interpolate/malformed")
        yield ("corr", "interpolate", [x, pts])
        yield ("corr", "recover_secret", [pts])
    # --- Feistel
    for i in range(ctx.n(60, 2500)):
        p = ctx.rbytes(r.choice([16, 32, 16, 32, 0, 2, 4, 15, 17, 64, 66]))
        ident = r.choice([0, 1, 32767, r.randrange(32768), 65535, 65536, -1])
        e = r.choice([0, 0, 1, 2, 5, 20, -1])
        pw = r.choice(PASS + [ctx.rbytes(r.randrange(0, 20))])
        ctx.label("feistel/stub-kdf")
        yield ("corr", "encrypt_fast", [p, ident, e, pw])
        yield ("corr", "decrypt_fast", [p, ident, e, pw])
        ctx.label("feistel/_crypt-any-round-list")
        yield ("corr", "crypt_fast", [p, ident, e, pw, r.choice([b"\x00\x01\x02\x03", b"\x03\x02\x01\x00", b"", b"\x05", b"\x00\x00",
                                                                ctx.rbytes(r.randrange(0, 7))])])
        if len(p) % 2 == 0 and 2 <= len(p) <= 64 and 0 <= ident < 65536 and 0 <= e <= 20:
            yield ("prop", "feistel", [p, ident, e, pw, 1])
    for i, e in enumerate([0, 0] + ([1, 2, 0, 1, 2, 0] if thorough else [])):
        p = ctx.rbytes([16, 32][i % 2])
        ident, pw = r.randrange(32768), PASS[i % len(PASS)]
        ctx.label(f"feistel/pbkdf2/e={e}")
        yield ("prop", "feistel", [p, ident, e, pw, 0])
        yield ("corr", "encrypt", [p, ident, e, pw])
        yield ("corr", "decrypt", [ref_feistel(p, ident, e, pw, hashlib.pbkdf2_hmac), ident, e, pw])
    for e in ([1, 2] if not thorough else []):
        yield ("prop", "feistel", [ctx.rbytes(16), r.randrange(32768), e, b"pw", 0])
    # --- whole pipeline with the stub KDF, all 136 (k, n)
    for n in range(1, 17):
        for k in range(1, n + 1):
            nb = [16, 32][(n + k) % 2]
            entropy = r.choice([ctx.rbytes(nb)] * 5 + [bytes(nb), b"\xff" * nb, bytes(3) + ctx.rbytes(nb - 3), ctx.rbytes(nb - 1) + b"\x00"])
            pw, e, ident = r.choice(PASS), r.choice([0, 1, 2, 3]), r.choice([r.getrandbits(15)] * 4 + [0, 1, 31, 32, 32767, 1 << 14])
            rnd = ctx.rbytes(rnd_need(nb, k))
            m = ref_bip39(entropy)
            subs = subsets_for(r, k, n, 1, n <= 3)
            subs.append([0, 0] if n == 1 or k > 2 else [0, 0, 1])          # duplicated share
            ctx.label("pipeline/stub-kdf")
            yield ("prop", "pipeline", [entropy, k, n, pw, e, ident, rnd, subs, 1])
            yield ("corr", "generate_shares_fast", [m.encode(), k, n, pw, e, ident, rnd])
            sh = ref_generate(entropy, k, n, pw, e, ident, rnd, stub_kdf)
            for sub in subs[: ctx.n(3, 8)]:
                ctx.label("recover_mnemonic/>=k" if len(set(sub)) >= k else "recover_mnemonic/<k")
                yield ("corr", "recover_mnemonic_fast", [[sh[i].encode() for i in sub], pw])
            yield ("corr", "recover_mnemonic_fast", [[sh[i].encode() for i in subs[0]], pw + b"x"])
    # other mnemonic lengths (15/18/21 words are refused), invalid mnemonic, bad k/n
    for nb in (20, 24, 28):
        m = ref_bip39(ctx.rbytes(nb))
        yield ("corr", "generate_shares_fast", [m.encode(), 2, 3, b"", 0, 5, ctx.rbytes(200)])
    m16 = ref_bip39(ctx.rbytes(16))
    for (k, n) in [(0, 1), (2, 1), (1, 17), (17, 17), (3, 2)]:
        yield ("corr", "generate_shares_fast", [m16.encode(), k, n, b"", 0, 5, ctx.rbytes(600)])
    yield ("corr", "generate_shares_fast", [(m16 + " abandon").encode(), 1, 1, b"", 0, 5, b""])
    yield ("corr", "generate_shares_fast", [m16.encode(), 2, 3, b"", 0, 5, ctx.rbytes(5)])      # random stream too short
    # sentences generate_shares must refuse (15/18/21 words, non-BIP39 word counts, wrong checksum, unknown words) and
    # secret lengths split_secret must refuse, for several thresholds; valid 12/24-word sentences are accepted
    for nb in (16, 20, 24, 28, 32):
        for (k, n) in [(1, 1), (2, 3), (3, 3), (1, 16), (16, 16)][: ctx.n(3, 5)]:
            ctx.label(f"refused-sentences/{nb * 8 * 33 // 32 // 11}-words")
            yield ("prop", "refused", [ctx.rbytes(nb), k, n, r.getrandbits(15), ctx.rbytes(rnd_need(nb, k))])
    # --- shares of a 128-bit and a 256-bit split with the same id/exponent/k/n in one set, odd one at every position
    for (k, n) in [(1, 1), (1, 2), (1, 3), (2, 2), (2, 3), (1, 4), (2, 4), (3, 4), (4, 4), (3, 5), (2, 16), (4, 16)][: ctx.n(12, 12)]:
        for _ in range(ctx.n(1, 6)):
            ctx.label(f"mixed-lengths/{'k=1' if k == 1 else 'k=n' if k == n else 'mid'}")
            yield ("prop", "mixed_lengths", [ctx.rbytes(16), ctx.rbytes(32), k, n, r.getrandbits(15), r.choice([0, 1]),
                                             ctx.rbytes(rnd_need(16, k)), ctx.rbytes(rnd_need(32, k))])
    # --- fewer shares than the DECLARED threshold although their digest verifies (shares of a lower-threshold split)
    for i in range(ctx.n(40, 400)):
        nb = r.choice([16, 32])
        kq = r.choice([2, 2, 3, 4])
        k = r.choice([kq + 1, kq + 1, 16, r.randrange(kq + 1, 17)])
        n = r.choice([k, 16, r.randrange(k, 17)])
        m = r.choice([kq, k - 1, r.randrange(kq, k)])
        sub = r.sample(range(n), m)
        level = i % 2
        secret, rnd = ctx.rbytes(nb), ctx.rbytes(rnd_need(nb, kq))
        ctx.label(f"relabelled-threshold/{'group' if level == 0 else 'member'}-level")
        yield ("prop", "relabelled", [secret, kq, k, n, rnd, sub, level])
        yield ("corr", "recover_shares_fast", [relabelled_fields(secret, kq, k, n, rnd, sub, level), b""])
        yield ("corr", "recover_shares_fast", [relabelled_fields(secret, kq, kq, n, rnd, sub, level), b""])
    # --- white space of share texts
    for i in range(ctx.n(24, 300)):
        f = rfields(ctx)
        sep = r.choice([b"\t", b"\n", b"  ", b" \r\n", b"\xa0", b"\x1f", b"\x85", b"\x0b\x0c"])
        lead, trail = r.choice([b"", b" ", b"\n\t"]), r.choice([b"", b" ", b"\n", b"\xa0 "])
        ctx.label("parse/white-space")
        yield ("prop", "parse_ws", [f, sep, lead, trail])
        yield ("corr", "share_parse", [lead + sep.join(w.encode() for w in enc_share(f).split(" ")) + trail])
    # --- Share objects edited in place, then handed to ShareSet
    for i in range(ctx.n(36, 600)):
        bits = r.choice([128, 256])
        n = r.randrange(2, 17)
        k = r.randrange(1, n + 1)
        ident, e = r.getrandbits(15), r.choice([0, 1, 31])
        fl = [[bits, ident, e, gi, k, n, 0, 1, r.getrandbits(bits)] for gi in r.sample(range(n), r.randrange(2, min(n, 5) + 1))]
        ctx.label(f"shareset/in-place-edit-{i % 6}")
        yield ("prop", "shareset_edited", [fl, r.choice([0, len(fl) - 1, r.randrange(len(fl))]), i % 6])
    # --- a few runs through real PBKDF2 (2500 << e iterations x 4 rounds, model side over the HMAC oracle)
    for i in range(ctx.n(2, 6)):
        nb = [16, 32][i % 2]
        entropy = ctx.rbytes(nb)
        k, n = [(2, 3), (3, 5), (1, 2), (5, 5), (2, 16), (16, 16)][i % 6]
        e = 0 if not thorough else i % 3
        pw, ident, rnd = PASS[i % len(PASS)], r.getrandbits(15), ctx.rbytes(rnd_need(nb, k))
        m = ref_bip39(entropy)
        ctx.label(f"pipeline/pbkdf2/e={e}")
        yield ("prop", "pipeline", [entropy, k, n, pw, e, ident, rnd, [list(range(k)), list(range(n))[::-1][:k], list(range(k - 1))], 0])
        yield ("corr", "generate_shares", [m.encode(), k, n, pw, e, ident, rnd])
        sh = ref_generate(entropy, k, n, pw, e, ident, rnd, hashlib.pbkdf2_hmac)
        yield ("corr", "recover_mnemonic", [[s.encode() for s in sh[n - k:]], pw])
    # --- repeated recover() calls on one object with different passphrases
    for i in range(ctx.n(4, 30)):
        nb = [16, 32][i % 2]
        k, n = [(2, 3), (1, 2), (3, 5), (2, 2)][i % 4]
        ctx.label("recover/repeated-calls-on-one-object")
        yield ("prop", "recover_repeat", [ctx.rbytes(nb), k, n, b"right", b"typo" + bytes([65 + i % 26]),
                                          r.getrandbits(15), ctx.rbytes(rnd_need(nb, k))])
    # --- two generate_shares calls, share mnemonics mixed at the recover_mnemonic level
    for i in range(ctx.n(40, 500)):
        nb1 = r.choice([16, 32])
        n1 = r.randrange(1, 7)
        k1 = r.randrange(1, n1 + 1)
        what = i % 6
        nb2, n2, k2, e1, e2 = nb1, n1, k1, r.choice([0, 1]), None
        id1 = r.getrandbits(15)
        id2 = id1
        e2 = e1
        if what == 0:
            id2 = id1 ^ (1 + r.getrandbits(14))
        elif what == 1:
            e2 = e1 + 1
        elif what == 2:
            k2 = r.choice([x for x in range(1, n1 + 1) if x != k1] or [k1])
        elif what == 3:
            n2 = n1 + 1
        elif what == 4:
            nb2 = 48 - nb1
        else:
            id2, n2, k2 = r.getrandbits(15), r.randrange(1, 7), None
            k2 = r.randrange(1, n2 + 1)
        ctx.label(f"mixed-pipeline/{['id', 'exponent', 'threshold', 'count', 'length', 'all'][what]}")
        yield ("prop", "mixed_pipeline", [ctx.rbytes(nb1), ctx.rbytes(nb2), k1, n1, k2, n2, e1, e2, id1, id2,
                                          ctx.rbytes(rnd_need(nb1, k1)), ctx.rbytes(rnd_need(nb2, k2)),
                                          [r.randrange(n1) for _ in range(r.randrange(1, n1 + 1))],
                                          [r.randrange(n2) for _ in range(r.randrange(1, n2 + 1))]])
    # --- consistency checks of ShareSet.__init__/recover: mixed splits, duplicates, bad group index
    for i in range(ctx.n(60, 2000)):
        nb = r.choice([16, 32])
        n = r.randrange(2, 9)
        k = r.randrange(1, n + 1)
        what = i % 5
        ctx.label(f"mixed/{['id', 'exponent', 'threshold', 'count', 'length'][what]}")
        id1 = r.getrandbits(15)
        yield ("prop", "mixed", [ctx.rbytes(nb), k, n, id1, id1 ^ (1 + r.getrandbits(14)), ctx.rbytes(rnd_need(nb, k)), what])
    for i in range(ctx.n(150, 5000)):
        bits = r.choice([128, 256])
        n = r.randrange(1, 7)
        k = r.randrange(1, n + 1)
        ident, e = r.getrandbits(15), r.choice([0, 1])
        base = [[bits, ident, e, gi, k, n, 0, 1, r.getrandbits(bits)] for gi in range(n)]
        fl = [list(x) for x in r.sample(base, r.randrange(0, n + 1))]
        mut = r.randrange(10)
        if fl and mut < 8:
            t = fl[r.randrange(len(fl))]
            if mut == 0:
                t[1] ^= 1 + r.getrandbits(10)
            elif mut == 1:
                t[2] ^= 1
            elif mut == 2:
                t[4] = r.randrange(1, t[5] + 1)
            elif mut == 3:
                t[5] = r.randrange(max(t[4], 1), 17)
            elif mut == 4:
                t[0] = 384 - t[0]
                t[8] &= (1 << t[0]) - 1
            elif mut == 5:
                fl.append(list(t))                       # duplicated (group, member) index
            elif mut == 6:
                t[3] = r.choice([t[5], 15, t[5] - 1])     # group index >= group count
            elif mut == 7:
                # a second member of a 1-of-m group carrying ANOTHER value, before or after the first
                t2 = t[:6] + [r.randrange(1, 16), 1, r.getrandbits(t[0])]
                fl.insert(r.choice([0, len(fl), fl.index(t)]), t2)
            ctx.label(f"shareset/mutation-{mut}")
        else:
            ctx.label("shareset/consistent")
        yield ("corr", "recover_shares_fast", [fl, b"pw"])
        yield ("corr", "shareset_fields", [fl])
        if i % 3 == 0:
            yield ("corr", "decrypt_ss_fast", [fl, ctx.rbytes(r.choice([16, 32, 32, 15, 0])), r.choice(PASS)])
    for ident in (0, 1, 255, 256, 32767, 65535, 65536, 70000, -1):
        ctx.label("shareset/salt-and-id-boundaries")
        yield ("corr", "shareset_fields", [[[128, ident, 0, 0, 1, 1, 0, 1, 5]]])
        yield ("corr", "decrypt_ss_fast", [[[128, ident, 1, 0, 1, 1, 0, 1, 5]], ctx.rbytes(16), b"pw"])
    # two-level sets (member thresholds > 1)
    for i in range(ctx.n(40, 1200)):
        nb = r.choice([16, 32])
        gc = r.randrange(1, 5) if i % 8 else 16
        gt = r.randrange(1, gc + 1)
        groups = []
        for _ in range(gc):
            mc = r.randrange(1, 5) if i % 8 != 1 else 16
            groups.append([r.randrange(1, mc + 1), mc])
        take = [r.sample(range(mc), r.randrange(0, mc + 1)) for (_, mc) in groups]
        if r.random() < 0.5:
            take = [r.sample(range(mc), r.choice([mt, mc])) if r.random() < 0.8 else [] for (mt, mc) in groups]
        rnd = ctx.rbytes(rnd_need(nb, gt) + sum(rnd_need(nb, mt) for mt, _ in groups) + 8)
        secret = ctx.rbytes(nb)
        ctx.label("two-level" + ("/16-groups" if gc == 16 else "/16-members" if i % 8 == 1 else ""))
        yield ("prop", "two_level", [secret, gt, gc, groups, rnd, take])
        fl = [f for f in ref_two_level(secret, gt, gc, groups, rnd) if f[6] in take[f[3]]]
        if r.random() < 0.2 and fl:
            fl[r.randrange(len(fl))][7] = r.randrange(1, 5)   # inconsistent member threshold in a group
            ctx.label("two-level/member-threshold-mismatch")
        yield ("corr", "recover_shares_fast", [fl, b"pw"])
    # ================= audit round: entry points x blind-spot kinds (all cases deterministic in the seed, hand-built
    # with the independent encoder) =================
    # (d) byte classes: shares whose every header/value bit is 0 (17 / 30 times the word number 0) or 1, one-hot values
    ZERO = lambda bits: [bits, 0, 0, 0, 1, 1, 0, 1, 0]                                   # noqa: E731
    ONES = lambda bits: [bits, 32767, 31, 15, 16, 16, 15, 16, (1 << bits) - 1]           # noqa: E731
    special = [ZERO(128), ZERO(256), ONES(128), ONES(256), [128, 0, 0, 0, 1, 1, 0, 1, 1], [256, 0, 0, 0, 1, 1, 0, 1, 1 << 255],
               [128, 32767, 31, 15, 16, 16, 15, 16, 0], [128, 0, 0, 15, 1, 16, 15, 1, (1 << 128) - 1]]
    for f in special:
        ctx.label("audit/share-all-zero-all-one-fields")
        txt = enc_share(f)
        yield ("prop", "share_rt", [f])
        yield ("prop", "repr", [f])
        yield ("corr", "share_mnemonic", [f])
        yield ("corr", "share_parse", [txt.encode()])
        yield ("corr", "share_reencode", [txt.encode()])
        yield ("prop", "canonical", [[SLI[w] for w in txt.split(" ")], r.getrandbits(20)])
        yield ("prop", "parse_ref", [[SLI[w] for w in txt.split(" ")], 0])
        for pos in (0, 4, len(txt.split(" ")) - 1):
            yield ("prop", "subst1_all", [f, pos])
        yield ("corr", "recover_shares_fast", [[f], b""])
        yield ("corr", "shareset_fields", [[f]])
    for i in range(ctx.n(12, 100)):
        ctx.label("audit/repr-shows-the-share-text")
        yield ("prop", "repr", [rfields(ctx, bits=r.choice([128, 256, 160]), edge=(i % 2 == 0))])
    for nb in (16, 32):
        for ent in (bytes(nb), b"\xff" * nb):
            for (k, n, ident) in ((1, 1, 0), (2, 2, 0), (2, 3, 32767)):
                # secret, identifier, passphrase, exponent and random stream all zero (all one)
                ctx.label("audit/pipeline-all-zero-all-one-inputs")
                rnd = ent[:1] * rnd_need(nb, k)
                yield ("prop", "pipeline", [ent, k, n, b"", 0, ident, rnd, subsets_for(r, k, n, 0, True), 1])
                yield ("corr", "generate_shares_fast", [ref_bip39(ent).encode(), k, n, b"", 0, ident, rnd])
    # (d) whole texts of an unusual class through Share.parse: empty, white space only, digits, one word, every word in
    # capitals / capitalised, separators that are not white space
    t0 = enc_share(rfields(ctx, bits=128))
    for txt in (b"", b" ", b"\n\t ", b"0", b"0 1 2 3", b"-1", " ".join(str(SLI[w]) for w in t0.split(" ")).encode(), b"academic",
                t0.upper().encode(), t0.title().encode(), t0.replace(" ", ",").encode(), t0.replace(" ", "").encode(),
                (t0 + " ").encode() * 2, t0.encode() + b"\x00", b"\x00" + t0.encode(), t0.swapcase().encode()):
        ctx.label("audit/parse-text-classes")
        yield ("corr", "share_parse", [txt])
        yield ("corr", "recover_mnemonic_fast", [[txt], b""])
    # (e) lenient decoding + compensation: an illegal token where the checksum would verify had it been read as a number
    TOKENS = [b"zz", b"0", b"-1", b"1023", b"aca", b"ACADEMIC", b"Zoo", b"abandon", b"academicx", b"?", b"\xe9"]
    READAS = [0, 1, 1023, -1, 1024, 2047, -2, 1 << 20]
    for j, f in enumerate([ZERO(128), rfields(ctx, bits=128), rfields(ctx, bits=256), ONES(256)]):
        nw = 20 if f[0] == 128 else 33
        for pos in [0, 1, 2, 3, 4, nw - 4, nw - 3, nw - 2, nw - 1, r.randrange(5, nw - 4)]:
            for v in READAS:
                if not 0 <= v < 1024 and (pos >= nw - 3 or j % 2 == 1 and pos not in (0, nw - 4)):
                    continue
                ctx.label("audit/lenient-word-with-compensated-checksum")
                yield ("prop", "lenient", [f, pos, TOKENS[(pos + v + j) % len(TOKENS)], v])
    BTOKENS = [b"zz", b"0", b"-1", b"2047", b"ABANDON", b"aba", b"abandonx", b"academic", b"?"]
    for j, (nb, k, n) in enumerate([(16, 1, 1), (16, 2, 3), (32, 1, 2), (32, 3, 3)]):
        for v in (0, 2047, -1, 2048, 1, -2048):
            for pos in (0, r.randrange(1, 9), nb * 33 // 44 - 3):
                ctx.label("audit/lenient-sentence-word-with-compensated-neighbour")
                yield ("prop", "sentence_lenient", [ctx.rbytes(nb), k, n, pos, BTOKENS[(j + v + pos) % len(BTOKENS)], v,
                                                    r.getrandbits(15), ctx.rbytes(rnd_need(nb, k))])
    # (a)/(d) the sentence handed to generate_shares in prefix spelling / other white space
    for i in range(ctx.n(10, 100)):
        nb = [16, 32][i % 2]
        k, n = [(1, 1), (2, 3), (3, 3), (1, 4), (2, 2)][i % 5]
        ctx.label("audit/sentence-prefix-spelling-and-white-space")
        yield ("prop", "sentence_spelling", [ctx.rbytes(nb), k, n, r.choice(PASS), r.choice([0, 1]), r.getrandbits(15),
                                             ctx.rbytes(rnd_need(nb, k)), [0, (1 << 24) - 1, r.getrandbits(24)][i % 3],
                                             r.choice([b" ", b"\t", b"\n", b"  ", b" \r\n"]), r.choice([b"", b" ", b"\n"]),
                                             r.choice([b"", b" ", b"\n\n"])])
    # (b)/(a) omitted optional arguments, keyword calls, tuples / iterators, class methods on instances
    for i in range(ctx.n(10, 120)):
        nb = [16, 32][i % 2]
        k, n = [(1, 1), (2, 3), (3, 5), (1, 3), (2, 2), (16, 16)][i % 6]
        ctx.label("audit/default-and-keyword-arguments")
        yield ("prop", "defaults", [ctx.rbytes(nb), k, n, [b"TREZOR", b"x", b"\x00", b" "][i % 4], [1, 2, 1, 0][i % 4],
                                    r.choice([0, 1, 32767, r.getrandbits(15)]), ctx.rbytes(rnd_need(nb, k))])
    # (f) two-level sets whose groups DIFFER in member threshold / count (the first, the last, the middle one odd), exactly
    # the thresholds presented; (g) the same objects, lists and tables used again after results and after refusals
    TL = [(3, 3, [[1, 1], [2, 3], [3, 5]]), (3, 3, [[3, 5], [2, 3], [1, 1]]), (2, 3, [[2, 2], [1, 3], [2, 2]]), (2, 2, [[1, 2], [4, 4]]),
          (2, 2, [[16, 16], [1, 1]]), (1, 2, [[2, 3], [3, 3]]), (1, 1, [[1, 1]]), (1, 1, [[2, 2]]), (4, 4, [[2, 2], [3, 3], [4, 4], [5, 5]]),
          (2, 16, [[1 + g % 3, 3] for g in range(16)])]
    for i, (gt, gc, groups) in enumerate(TL):
        nb = [16, 32][i % 2]
        rnd = ctx.rbytes(rnd_need(nb, gt) + sum(rnd_need(nb, mt) for mt, _ in groups) + 8)
        secret = ctx.rbytes(nb)
        take = [list(range(mc))[mc - mt:] for (mt, mc) in groups]
        ctx.label("audit/two-level-groups-differing-in-member-threshold")
        yield ("prop", "two_level", [secret, gt, gc, groups, rnd, take])
        yield ("prop", "two_level", [secret, gt, gc, groups, rnd, [t[1:] if g == i % gc else t for g, t in enumerate(take)]])
        fl = ref_two_level(secret, gt, gc, groups, rnd)
        yield ("corr", "recover_shares_fast", [[f for f in fl if f[6] in take[f[3]]], b"pw"])
        yield ("corr", "recover_shares_fast", [[f for f in fl if f[6] in take[f[3]]][::-1], b"pw"])
        for drop in range(min(gt, 2)):
            ctx.label("audit/sources-reused-after-results-and-refusals")
            yield ("prop", "reuse", [secret, gt, gc, groups, rnd, drop])
    # (g) the class-level tables once more, after everything above has run
    ctx.label("audit/gf-tables-after-all-cases")
    yield ("corr", "gf_tables", [])
    yield ("prop", "gf", [])
