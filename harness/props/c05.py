"""C05 — signature hashes: legacy / BIP143 / BIP341(+342), dispatch, history independence."""
import contextlib
import copy
import hashlib
import io
import itertools

import buidl.tx as btx
import buidl.taproot as btap
from buidl.script import Script
from buidl.timelock import Locktime, Sequence
from buidl.tx import Tx, TxIn, TxOut
from buidl.witness import Witness
from vp.sexp import ERR

PID = "C05"
BUDGET_S = {"quick": 900, "thorough": 3300}
HASH_TYPES = [0, 1, 2, 3, 0x81, 0x82, 0x83]
RULE = ("Transactions with every (inputs, outputs) pair in 1..6 x 0..6, every input index, the seven hash types "
        "{0,1,2,3,0x81,0x82,0x83}; spent outputs of every standard kind (p2pkh, p2sh multisig, p2wpkh, p2sh-p2wpkh, "
        "p2wsh, p2sh-p2wsh, p2tr key path, p2tr script path, bare), annex present/absent, amounts incl. 0, 2^32, "
        "2^63-1; the implementation's hash functions are wrapped so that the hashed PREIMAGES are compared with the "
        "extracted model and the extracted specification; an independent Python reference written from the BIPs is "
        "the property oracle; histories over {Query x2, EditOutput, EditInput, EditSequence, EditLocktime, "
        "EditWitness} are enumerated completely up to 4 steps (quick) / 5 steps plus sampled 6 (thorough), every "
        "Query compared with a fresh Tx object.  THE DIGEST AT THE POINT OF USE: hand-assembled spends of ten kinds "
        "(p2pkh, p2wpkh, p2sh-p2wpkh, bare / p2sh / p2wsh / p2sh-p2wsh multisig, p2tr key path, tapscript CHECKSIG and "
        "CHECKSIGADD) with real secp256k1 signatures made over the REFERENCE digest of each signature's own hash type, "
        "mixed hash types inside one multisig input, relabelled / truncated / bit-flipped / empty / over-long "
        "signatures, malformed keys and short stacks: op_checksig, op_checkmultisig, op_checksig_schnorr, "
        "op_checksigadd_schnorr, Tx.verify_input, Tx.get_sig_legacy / get_sig_segwit / get_sig_taproot, "
        "check_sig_legacy / check_sig_segwit, Tx.sign_input and the four sign_* methods, and sequences of sign_input "
        "calls on ONE object followed by verify_input of every input, each compared with the extracted model "
        "(Model/SighashSig.v with the primitives of Model/Pecc.v on secp256k1); predicates: the library's signatures "
        "verify under the reference digest of the hash type they carry, signing one input never invalidates another.  "
        "OBJECTS BUILT THROUGH THE CONSTRUCTORS' DEFAULTS: every transaction value of this module is built either with "
        "every field passed explicitly or — where a value equals the documented default — by TxIn(prev_tx, prev_index) "
        "alone (Script(), Sequence(), a never-assigned Witness()), Script() for an empty script, Tx(...) without "
        "locktime, chosen from the content of the value; unsigned transactions (no witness, no scriptSig) of every "
        "witness-dependent kind; the edit alphabet includes IN-PLACE list operations (append / insert / extend / += / "
        "pop / del / slice assignment / reverse / clear) on witness.items, script_sig.commands, output and spent "
        "script commands, tx_ins and tx_outs; history_world runs histories over SEVERAL Tx objects (five ways of "
        "building them, incl. Tx.parse and bare constructors filled in place; objects made before and after the "
        "edits of the others) and compares every digest with the reference for that object's own current fields; "
        "where nothing defines a digest (p2wsh without witness, p2sh without redeem script) Tx.sig_hash must fail.  "
        "ENTRY POINTS BESIDE THE CENTRAL ONES: every call of sig_hash_legacy / sig_hash_bip143 / sig_hash_bip341 / "
        "get_sig_* / check_sig_* / sign_input / sign_p2tr_keypath is written either with every argument or with the "
        "arguments that equal the documented defaults LEFT OUT (chosen from the content: inputs + index odd); "
        "Tx.initialize_p2tr_multisig + finalize_p2tr_multisig with signatures of mutually different hash types made over "
        "the reference digests (any order, empty and foreign entries, annex); spent outputs LOOKED UP through "
        "TxIn.value() / script_pubkey() (TxFetcher cache filled from reference-serialised previous transactions with "
        "several different outputs, inputs pointing at different indices, some inputs preset and some not, four network "
        "names, network access replaced by a failure); Witness.tap_script / control_block / tap_leaf against the positions "
        "BIP341 gives, witness unchanged; digests before and after Tx.verify_input on the same object (valid annex / "
        "multisig spends and early failures), verdict repeated; Tx.clone(): source and clone edited and queried "
        "independently (in-place edits of the spent-script OBJECT excluded: clone() shares it, see the report); P2SH redeem "
        "scripts that are themselves P2TR / P2PKH / P2SH templates or empty, empty witness scripts, witness programs spent "
        "with a scriptSig.")
TRUSTED = ["hashlib sha256 (hash256, sha256 and the tagged hashes are universally quantified functions in the theorems)",
           "the Python reference implementation of the three algorithms in harness/props/c05.py (test oracle only)",
           "modelled, not verified: TxIn.value()/script_pubkey() are taken as given inputs (pre-set _value/_script_pubkey, "
           "no fetch); S256Point.parse_xonly inside ControlBlock.parse is a parameter of the model (instantiated with "
           "the extracted Model/Pecc.v code in the driver)",
           "the signature primitives of buidl/pecc.py (S256Point.parse / verify / verify_schnorr, Signature.parse, "
           "SchnorrSignature.parse, PrivateKey.sign / sign_schnorr, point.sec) are universally quantified in the C05 "
           "theorems (record sigprims); their correctness is C01 / C02 / C03; the correspondence runs the sites with "
           "the extracted Model/Pecc.v on secp256k1",
           "Script.evaluate / Tx.verify_input: the C06 model Model/Verify.v, run here with the digests of the Tx object"]
ASSUMPTIONS = ["input_index >= 0 (a negative Python index wraps around; outside the model's domain)",
               "OP_CODESEPARATOR / FindAndDelete are out of scope: script codes are taken after those steps",
               "script codes are canonically encoded scripts (the library re-serialises the parsed redeem / witness / "
               "tap script; for a non-minimally pushed script the bytes differ — reported as known finding "
               "C05-script-code-reserialized)"]


# ---------------------------------------------------------------------------
# canonical argument encodings  <->  library objects

def mk_script(v, lazy=False):
    """lazy: an empty script is made by the constructor's default, Script(), instead of Script([])"""
    cmds, raw = v
    if lazy and not cmds and not raw:
        return Script()
    s = Script(list(cmds))
    if raw:
        s.raw = raw[0]
    return s


def mk_opt_script(v):
    return mk_script(v[0]) if v else None


DEFAULT_SEQUENCE = 0xffffffff        # what the documentation (and BIP68 "final") says TxIn(...) without a sequence has
DEFAULT_LOCKTIME = 0                 # ... and Tx(...) without a locktime


def _lazy_style(pt):
    """The canonical argument value does not say HOW an object with these field values is built.  Two ways exist:
    every field passed / assigned explicitly, or left to the constructor's default wherever the value equals the
    documented default (TxIn(prev_tx, prev_index) alone: Script(), Sequence(), a never-assigned Witness()).  The way
    is derived from the content (last byte of the outpoint hash odd = through the defaults) so that every generator
    of this module exercises both and a replay rebuilds the same objects."""
    return isinstance(pt, (bytes, bytearray)) and len(pt) > 0 and pt[-1] & 1 == 1


def mk_txin(v, spent=None, lazy=None):
    pt, pi, sc, sq, wit = v
    if lazy is None:
        lazy = _lazy_style(pt)
    if not lazy:
        ti = TxIn(pt, pi, mk_script(sc), sq)
        ti.witness = Witness(list(wit))
    else:
        kw = {}
        if sc[0] or sc[1]:
            kw["script_sig"] = mk_script(sc)
        if sq != DEFAULT_SEQUENCE:
            kw["sequence"] = sq
        ti = TxIn(pt, pi, **kw)
        if wit:                                   # an empty witness is the one the constructor made: never assigned
            ti.witness = Witness(list(wit))
    if spent is not None:
        ti._value = spent[0]
        ti._script_pubkey = mk_script(spent[1], lazy)
    return ti


def mk_txout(v, lazy=None):
    if lazy is None:
        lazy = v[0] & 1 == 1
    return TxOut(v[0], mk_script(v[1], lazy))


def mk_tx(v, spent):
    ver, ins, outs, lt = v
    tins = [mk_txin(i, spent[k] if k < len(spent) else None) for k, i in enumerate(ins)]
    touts = [mk_txout(o) for o in outs]
    if lt == DEFAULT_LOCKTIME and ver & 1 == 0:
        return Tx(ver, tins, touts, network="mainnet", segwit=True)         # locktime left to the default
    return Tx(ver, tins, touts, lt, network="mainnet", segwit=True)


def _copy_script(s):
    """A new Script object with the same commands / raw bytes (nothing memoised on the old object is shared)."""
    if s is None:
        return None
    n = Script([bytes(c) if isinstance(c, (bytes, bytearray)) else c for c in s.commands])
    n.raw = s.raw
    return n


def fresh_copy(t):
    """A new Tx object (empty memo fields) with the current field values of t; inputs, outputs, scripts and
    witnesses are new objects too, so that a value memoised on any of them is not carried over."""
    ins = []
    for ti in t.tx_ins:
        n = TxIn(bytes(ti.prev_tx), ti.prev_index, _copy_script(ti.script_sig), int(ti.sequence))
        n.witness = Witness([bytes(x) for x in ti.witness.items])
        n._value = ti._value
        n._script_pubkey = _copy_script(ti._script_pubkey)
        ins.append(n)
    outs = [TxOut(o.amount, _copy_script(o.script_pubkey)) for o in t.tx_outs]
    return Tx(t.version, ins, outs, int(t.locktime), network=t.network, segwit=t.segwit)


# ---------------------------------------------------------------------------
# recording wrappers around the library's hash functions

class Rec:
    """Replaces buidl.tx.hash256 / sha256 / hash_tapsighash and buidl.taproot.hash_tapleaf by recording
    wrappers, and notes which of the three builders Tx.sig_hash entered."""

    def __enter__(self):
        self.calls = []
        self.alg = None
        self.saved = (btx.hash256, btx.sha256, btx.hash_tapsighash, btap.hash_tapleaf,
                      Tx.sig_hash_legacy, Tx.sig_hash_bip143, Tx.sig_hash_bip341)
        h256, s256, tsh, tlf, leg, b143, b341 = self.saved
        rec = self

        def w(name, f):
            def g(x):
                rec.calls.append((name, bytes(x)))
                return f(x)
            return g

        def m(tag, f):
            def g(self_, *a, **k):
                rec.alg = tag
                return f(self_, *a, **k)
            return g
        btx.hash256 = w("hash256", h256)
        btx.sha256 = w("sha256", s256)
        btx.hash_tapsighash = w("tapsighash", tsh)
        btap.hash_tapleaf = w("tapleaf", tlf)
        Tx.sig_hash_legacy = m(0, leg)
        Tx.sig_hash_bip143 = m(143, b143)
        Tx.sig_hash_bip341 = m(341, b341)
        return self

    def __exit__(self, *a):
        (btx.hash256, btx.sha256, btx.hash_tapsighash, btap.hash_tapleaf,
         Tx.sig_hash_legacy, Tx.sig_hash_bip143, Tx.sig_hash_bip341) = self.saved
        return False

    def last(self, name):
        for n, x in reversed(self.calls):
            if n == name:
                return x
        return None


def _omit_defaults(n_in, idx):
    """HOW a call is written is not part of a canonical argument value: an argument that equals the documented default
    of the method (hash_type=SIGHASH_ALL / SIGHASH_DEFAULT, ext_flag=0, redeem_script=None, witness_script=None,
    aux=32 zero bytes) can be passed or left out.  Both ways are exercised; the way is derived from the content
    (number of inputs + input index odd = left out), so that a replay makes the same call."""
    return (n_in + idx) & 1 == 1


def q_legacy(t, idx, redeem, ht):
    lazy = _omit_defaults(len(t.tx_ins), idx)
    kw = {} if (lazy and ht == 1) else {"hash_type": ht}
    with Rec() as r:
        if lazy and redeem is None:
            d = t.sig_hash_legacy(idx, **kw)
        else:
            d = t.sig_hash_legacy(idx, redeem, **kw)
    p = r.last("hash256")
    return [0, [] if p is None else [p], d]


def q_bip143(t, idx, redeem, ws, ht):
    lazy = _omit_defaults(len(t.tx_ins), idx)
    kw = {} if (lazy and ht == 1) else {"hash_type": ht}
    if not (lazy and redeem is None):
        kw["redeem_script"] = redeem
    if not (lazy and ws is None):
        kw["witness_script"] = ws
    with Rec() as r:
        d = t.sig_hash_bip143(idx, **kw)
    return [143, [r.last("hash256")], d]


def q_bip341(t, idx, ext, ht):
    lazy = _omit_defaults(len(t.tx_ins), idx)
    kw = {}
    if not (lazy and ext == 0):
        kw["ext_flag"] = ext
    if not (lazy and ht == 0):
        kw["hash_type"] = ht
    with Rec() as r:
        d = t.sig_hash_bip341(idx, **kw)
    return [341, [r.last("tapsighash")], d]


def q_dispatch(t, idx, ht):
    with Rec() as r:
        d = t.sig_hash(idx, ht)
    if r.alg == 341:
        p = r.last("tapsighash")
    else:
        p = r.last("hash256")
    return [r.alg, [] if p is None else [p], d]


def run_query(t, alg, idx, ht):
    k = alg[0]
    if k == 0:
        return q_legacy(t, idx, mk_opt_script(alg[1]), ht)
    if k == 1:
        return q_bip143(t, idx, mk_opt_script(alg[1]), mk_opt_script(alg[2]), ht)
    if k == 2:
        return q_bip341(t, idx, alg[1], ht)
    return q_dispatch(t, idx, ht)


def apply_op(t, op):
    k = op[0]
    if k == 1:
        if op[1] == len(t.tx_outs):
            t.tx_outs.append(mk_txout(op[2]))
        else:
            t.tx_outs[op[1]] = mk_txout(op[2])
    elif k == 2:
        ti = mk_txin(op[2], op[3])
        if op[1] == len(t.tx_ins):
            t.tx_ins.append(ti)
        else:
            t.tx_ins[op[1]] = ti
    elif k == 3:
        t.tx_ins[op[1]].sequence = Sequence(op[2])
    elif k == 4:
        t.locktime = Locktime(op[1])
    elif k == 5:
        _set_witness(t.tx_ins[op[1]], op[2])


def _set_witness(ti, items):
    """'the witness of this input becomes items': by assigning a new Witness object (what the finalize_* helpers
    do) when the number of items is even, by editing the list of the Witness object the input already has, in
    place, when it is odd (what finalize_p2tr_multisig and hand-written signing code do).  Same value either way."""
    if len(items) & 1:
        ti.witness.items[:] = list(items)
    else:
        ti.witness = Witness(list(items))


def guarded(f):
    try:
        return f()
    except Exception:  # noqa
        return ERR


# ---------------------------------------------------------------------------
# IMPL: implementation side of the correspondence

def i_has_annex(w):
    return Witness(list(w)).has_annex()


def i_legacy(tx, spent, idx, redeem, ht):
    r = q_legacy(mk_tx(tx, spent), idx, mk_opt_script(redeem), ht)
    return [r[1], r[2]]


def i_bip143(tx, spent, idx, redeem, ws, ht):
    r = q_bip143(mk_tx(tx, spent), idx, mk_opt_script(redeem), mk_opt_script(ws), ht)
    return [r[1][0], r[2]]


def i_bip341(tx, spent, idx, ext, ht):
    r = q_bip341(mk_tx(tx, spent), idx, ext, ht)
    return [r[1][0], r[2]]


def i_tap_leaf(w):
    with Rec() as r:
        h = Witness(list(w)).tap_leaf().hash()
    return [r.last("tapleaf"), h]


def i_sig_hash(tx, spent, idx, ht):
    return q_dispatch(mk_tx(tx, spent), idx, ht)


def _scrub(*txs):
    """Empties, in place, every list that a case may have edited in place (witness items, script commands of the
    Tx objects of the case).  Run when a case is over, after its verdict: should one of those lists turn out to be
    shared with objects outside the case (a process-wide default), nothing the case put there outlives the case, so
    that every case — and every replay — is judged on its own inputs."""
    for t in txs:
        try:
            for ti in t.tx_ins:
                for lst in (getattr(ti.witness, "items", None), getattr(ti.script_sig, "commands", None),
                            getattr(ti._script_pubkey, "commands", None)):
                    if isinstance(lst, list):
                        del lst[:]
            for to in t.tx_outs:
                lst = getattr(to.script_pubkey, "commands", None)
                if isinstance(lst, list):
                    del lst[:]
        except Exception:  # noqa
            pass


def i_history(tx, spent, ops):
    t = mk_tx(tx, spent)
    out = []
    try:
        for op in ops:
            if op[0] == 0:
                out.append(guarded(lambda: run_query(t, op[1], op[2], op[3])))
            else:
                apply_op(t, op)
    finally:
        _scrub(t)
    return out



# ---------------------------------------------------------------------------
# signature sites (Model/SighashSig.v): the op codes and Tx methods that pick a hash type, ask Tx.sig_hash*
# for the digest and hand it to a signature primitive.  Signatures are real (secp256k1, buidl/pecc.py).

def _quiet(f, *a, **k):
    with contextlib.redirect_stdout(io.StringIO()):
        return f(*a, **k)


def _i_stack_op(name):
    import buidl.op as bop
    f = getattr(bop, name)

    def g(tx, spent, idx, stack):
        t = mk_tx(tx, spent)
        st = [bytes(x) for x in stack]
        if not _quiet(f, st, t, idx):
            raise ValueError("op code function returned False")
        return st
    return g


def _priv(secret, compressed=1):
    from buidl.pecc import PrivateKey
    return PrivateKey(secret, compressed=bool(compressed))


def _opt_script_kw(n_in, idx, **scripts):
    """keyword arguments for optional script parameters: None is left out when the style bit says so"""
    lazy = _omit_defaults(n_in, idx)
    return {k: mk_opt_script(v) for k, v in scripts.items() if not (lazy and not v)}


def i_get_sig_legacy(tx, spent, idx, secret, redeem):
    return mk_tx(tx, spent).get_sig_legacy(idx, _priv(secret), **_opt_script_kw(len(tx[1]), idx, redeem_script=redeem))


def i_get_sig_segwit(tx, spent, idx, secret, redeem, ws):
    return mk_tx(tx, spent).get_sig_segwit(idx, _priv(secret),
                                           **_opt_script_kw(len(tx[1]), idx, redeem_script=redeem, witness_script=ws))


ZERO_AUX = bytes(32)


def i_get_sig_taproot(tx, spent, idx, secret, ext, ht, aux):
    lazy = _omit_defaults(len(tx[1]), idx)
    kw = {}
    if not (lazy and ext == 0):
        kw["ext_flag"] = ext
    if not (lazy and ht == 0):
        kw["hash_type"] = ht
    if not (lazy and aux == ZERO_AUX):
        kw["aux"] = aux
    return mk_tx(tx, spent).get_sig_taproot(idx, _priv(secret), **kw)


def i_check_sig_legacy(tx, spent, idx, sec, der, redeem):
    from buidl.pecc import S256Point, Signature
    return mk_tx(tx, spent).check_sig_legacy(idx, S256Point.parse(sec), Signature.parse(der),
                                             **_opt_script_kw(len(tx[1]), idx, redeem_script=redeem))


def i_check_sig_segwit(tx, spent, idx, sec, der, redeem, ws):
    from buidl.pecc import S256Point, Signature
    return mk_tx(tx, spent).check_sig_segwit(idx, S256Point.parse(sec), Signature.parse(der),
                                             **_opt_script_kw(len(tx[1]), idx, redeem_script=redeem, witness_script=ws))


def i_verify_input(tx, spent, idx):
    t = mk_tx(tx, spent)
    if not 0 <= idx < len(t.tx_ins):
        raise IndexError("input index")
    try:
        return 1 if _quiet(t.verify_input, idx) else 0
    except Exception:  # noqa  (an exception inside Script.evaluate is "not accepted", as in the C06 model)
        return 0


def _v_script(s):
    return [list(s.commands), [s.raw] if s.raw else []]


def _signed(t, idx, call):
    """runs a Tx.sign_* call; the verdict is verify_input's (an exception raised inside verify_input counts as
    False, as in the model; one raised before — no digest, no signature — is the call's own failure)"""
    orig = Tx.verify_input

    def vi(self_, i):
        try:
            return bool(orig(self_, i))
        except Exception:  # noqa
            return False
    Tx.verify_input = vi
    try:
        ok = _quiet(call)
    finally:
        Tx.verify_input = orig
    ti = t.tx_ins[idx]
    return [_v_script(ti.script_sig), list(ti.witness.items), 1 if ok else 0]


def _sign_input_kw(n_in, idx, redeem, ht):
    """keyword arguments of a Tx.sign_input call: those equal to the defaults (redeem_script=None,
    hash_type=SIGHASH_ALL) are left out when the style bit says so (see _omit_defaults)"""
    lazy = _omit_defaults(n_in, idx)
    kw = {}
    red = mk_opt_script(redeem)
    if not (lazy and red is None):
        kw["redeem_script"] = red
    if not (lazy and ht == 1):
        kw["hash_type"] = ht
    return kw


def i_sign_input(tx, spent, idx, secret, compressed, redeem, ht):
    t = mk_tx(tx, spent)
    return _signed(t, idx, lambda: t.sign_input(idx, _priv(secret, compressed), **_sign_input_kw(len(tx[1]), idx, redeem, ht)))


def _i_sign(name):
    def g(tx, spent, idx, secret, compressed):
        t = mk_tx(tx, spent)
        return _signed(t, idx, lambda: getattr(t, name)(idx, _priv(secret, compressed)))
    return g


def i_sign_p2tr_keypath(tx, spent, idx, secret, ht, aux):
    t = mk_tx(tx, spent)
    lazy = _omit_defaults(len(tx[1]), idx)
    kw = {}
    if not (lazy and ht == 0):
        kw["hash_type"] = ht
    if not (lazy and aux == ZERO_AUX):
        kw["aux"] = aux
    return _signed(t, idx, lambda: t.sign_p2tr_keypath(idx, _priv(secret), **kw))


def i_taproot_sig_rule(sig):
    """BIP341 'signature validation rules', written from the BIP text (model side: Spec/SigHashType.v)."""
    if len(sig) == 64:
        return [[sig, 0]]
    if len(sig) == 65 and sig[64] in (0x01, 0x02, 0x03, 0x81, 0x82, 0x83):     # non-zero AND SigMsg defined
        return [[sig[:64], sig[64]]]
    return []



def i_sign_many(tx, spent, steps):
    """several sign_input calls on ONE Tx object, then verify_input of every input on that same object"""
    t = mk_tx(tx, spent)
    orig = Tx.verify_input

    def vi(self_, i):
        try:
            return bool(orig(self_, i))
        except Exception:  # noqa
            return False
    Tx.verify_input = vi
    try:
        res = []
        for idx, secret, compressed, redeem, ht in steps:
            ok = _quiet(t.sign_input, idx, _priv(secret, compressed), **_sign_input_kw(len(t.tx_ins), idx, redeem, ht))
            res.append(1 if ok else 0)
        final = [1 if _quiet(t.verify_input, i) else 0 for i in range(len(t.tx_ins))]
    finally:
        Tx.verify_input = orig
    return [[[_v_script(ti.script_sig), list(ti.witness.items)] for ti in t.tx_ins], res, final]


def p_sign_all_then_verify(tx, spent, steps):
    """Every input of one Tx object is signed with Tx.sign_input, in the given order, by the key that can spend it:
    every call returns True, afterwards EVERY input verifies on the same object and on a brand-new object with the
    resulting fields (signing one input never invalidates another)."""
    t = mk_tx(tx, spent)
    for n, (idx, secret, compressed, redeem, ht) in enumerate(steps):
        if not _quiet(t.sign_input, idx, _priv(secret, compressed), **_sign_input_kw(len(t.tx_ins), idx, redeem, ht)):
            return f"step {n}: sign_input({idx}) returned False"
        for j, *_r in steps[: n + 1]:
            if not _quiet(t.verify_input, j):
                return f"after signing input {idx} (step {n}), the earlier signed input {j} no longer verifies"
    f = fresh_copy(t)
    for i in range(len(t.tx_ins)):
        if not _quiet(f.verify_input, i):
            return f"input {i} does not verify on a fresh object with the signed fields"
    return None


# 256-bit curve arithmetic: too slow for the in-Coq re-evaluation of sampled cases
VM_SKIP = {"op_checksig", "op_checkmultisig", "op_checksig_schnorr", "op_checksigadd_schnorr", "get_sig_legacy",
           "get_sig_segwit", "get_sig_taproot", "check_sig_legacy", "check_sig_segwit", "verify_input", "sign_input",
           "sign_p2pkh", "sign_p2wpkh", "sign_p2sh_p2wpkh", "sign_p2tr_keypath", "sign_many"}


IMPL = {
    "has_annex": i_has_annex,
    "legacy": i_legacy,
    "bip143": i_bip143,
    "bip341": i_bip341,
    "tap_leaf": i_tap_leaf,
    "sig_hash": i_sig_hash,
    "spec_sig_hash": i_sig_hash,      # model side = the extracted SPECIFICATION (Spec/SighashStd.v)
    "history": i_history,
    "op_checksig": _i_stack_op("op_checksig"),
    "op_checkmultisig": _i_stack_op("op_checkmultisig"),
    "op_checksig_schnorr": _i_stack_op("op_checksig_schnorr"),
    "op_checksigadd_schnorr": _i_stack_op("op_checksigadd_schnorr"),
    "get_sig_legacy": i_get_sig_legacy,
    "get_sig_segwit": i_get_sig_segwit,
    "get_sig_taproot": i_get_sig_taproot,
    "check_sig_legacy": i_check_sig_legacy,
    "check_sig_segwit": i_check_sig_segwit,
    "verify_input": i_verify_input,
    "sign_input": i_sign_input,
    "sign_p2pkh": _i_sign("sign_p2pkh"),
    "sign_p2wpkh": _i_sign("sign_p2wpkh"),
    "sign_p2sh_p2wpkh": _i_sign("sign_p2sh_p2wpkh"),
    "sign_p2tr_keypath": i_sign_p2tr_keypath,
    "taproot_sig_rule": i_taproot_sig_rule,
    "sign_many": i_sign_many,
}


# ---------------------------------------------------------------------------
# independent reference implementation (written from Bitcoin Core's SignatureHash and the BIP
# texts; uses nothing of buidl).  Works on raw values: scripts are byte strings.

def _sha(b):
    return hashlib.sha256(b).digest()


def _dsha(b):
    return _sha(_sha(b))


def _tagged(tag, m):
    t = _sha(tag)
    return _sha(t + t + m)


def _cs(n):
    if n < 253:
        return bytes([n])
    if n <= 0xffff:
        return b"\xfd" + n.to_bytes(2, "little")
    if n <= 0xffffffff:
        return b"\xfe" + n.to_bytes(4, "little")
    return b"\xff" + n.to_bytes(8, "little")


def _u32(n):
    return n.to_bytes(4, "little")


def _i64(n):
    return (n % (1 << 64)).to_bytes(8, "little")


def _sscript(b):
    return _cs(len(b)) + b


def ref_raw_script(v):
    """Raw bytes of a canonical script value: minimal pushes (direct, PUSHDATA1, PUSHDATA2)."""
    cmds, raw = v
    if raw and raw[0]:
        return raw[0]
    out = b""
    for c in cmds:
        if isinstance(c, int):
            out += bytes([c])
        else:
            n = len(c)
            if n <= 75:
                out += bytes([n])
            elif n <= 255:
                out += b"\x4c" + bytes([n])
            elif n <= 520:
                out += b"\x4d" + n.to_bytes(2, "little")
            else:
                raise ValueError("push too long")
            out += c
    return out


class RTx:
    def __init__(self, tx, spent):
        ver, ins, outs, lt = tx
        self.version, self.locktime = ver, lt
        self.vin = [(pt[::-1], pi, ref_raw_script(sc), sq, list(w)) for (pt, pi, sc, sq, w) in ins]
        self.vout = [(am, ref_raw_script(sc)) for (am, sc) in outs]
        self.coins = [(am, ref_raw_script(sc)) for (am, sc) in spent]
        self.scriptsig_cmds = [sc[0] for (pt, pi, sc, sq, w) in ins]


def _ser_in(prevhash, n, script, seq):
    return prevhash + _u32(n) + _sscript(script) + _u32(seq)


def _ser_out(o):
    return _i64(o[0]) + _sscript(o[1])


ONE = b"\x01" + b"\x00" * 31


def ref_legacy(t, code, n_in, ht):
    """Returns (preimage or None, 32-byte digest)."""
    if n_in >= len(t.vin):
        return None, ONE
    vin = []
    for i, (h, n, _s, seq, _w) in enumerate(t.vin):
        vin.append([h, n, code if i == n_in else b"", seq])
    vout = list(t.vout)
    if (ht & 0x1f) == 2:
        vout = []
        for i in range(len(vin)):
            if i != n_in:
                vin[i][3] = 0
    elif (ht & 0x1f) == 3:
        if n_in >= len(vout):
            return None, ONE
        vout = [(-1, b"")] * n_in + [vout[n_in]]
        for i in range(len(vin)):
            if i != n_in:
                vin[i][3] = 0
    if ht & 0x80:
        vin = [vin[n_in]]
    s = _u32(t.version) + _cs(len(vin)) + b"".join(_ser_in(*x) for x in vin)
    s += _cs(len(vout)) + b"".join(_ser_out(o) for o in vout) + _u32(t.locktime) + _u32(ht)
    return s, _dsha(s)


def ref_bip143(t, code, amount, n_in, ht):
    acp = bool(ht & 0x80)
    base = ht & 0x1f
    zero = b"\x00" * 32
    hp = zero if acp else _dsha(b"".join(h + _u32(n) for (h, n, *_r) in t.vin))
    hs = zero if (acp or base in (2, 3)) else _dsha(b"".join(_u32(x[3]) for x in t.vin))
    if base not in (2, 3):
        ho = _dsha(b"".join(_ser_out(o) for o in t.vout))
    elif base == 3 and n_in < len(t.vout):
        ho = _dsha(_ser_out(t.vout[n_in]))
    else:
        ho = zero
    h, n, _s, seq, _w = t.vin[n_in]
    s = _u32(t.version) + hp + hs + h + _u32(n) + _sscript(code) + _i64(amount) + _u32(seq) + ho
    s += _u32(t.locktime) + _u32(ht)
    return s, _dsha(s)


def ref_split_annex(w):
    if len(w) >= 2 and len(w[-1]) > 0 and w[-1][0] == 0x50:
        return w[-1], w[:-1]
    return None, w


P = 2 ** 256 - 2 ** 32 - 977


def lift_ok(x32):
    x = int.from_bytes(x32, "big")
    if x >= P:
        return False
    if x == 0:
        return True      # the library's parse_xonly accepts 0 (as the point at infinity); noted in the report
    c = (pow(x, 3, P) + 7) % P
    y = pow(c, (P + 1) // 4, P)
    return y * y % P == c


def ref_bip341(t, n_in, ht, witness):
    """Returns (message, digest) or None when BIP341 defines no digest."""
    if ht not in (0, 1, 2, 3, 0x81, 0x82, 0x83) or n_in >= len(t.vin) or len(t.coins) != len(t.vin):
        return None
    annex, stack = ref_split_annex(witness)
    if len(stack) == 0:
        return None
    ext = b""
    ext_flag = 0
    if len(stack) >= 2:
        c, s = stack[-1], stack[-2]
        if len(c) < 33 or len(c) > 33 + 32 * 128 or (len(c) - 33) % 32 != 0 or not lift_ok(c[1:33]):
            return None
        ext_flag = 1
        leaf = _tagged(b"TapLeaf", bytes([c[0] & 0xfe]) + _cs(len(s)) + s)
        ext = leaf + b"\x00" + b"\xff\xff\xff\xff"
    m = bytes([ht]) + _u32(t.version) + _u32(t.locktime)
    if ht & 0x80 != 0x80:
        m += _sha(b"".join(h + _u32(n) for (h, n, *_r) in t.vin))
        m += _sha(b"".join(_i64(a) for (a, _s) in t.coins))
        m += _sha(b"".join(_sscript(s) for (_a, s) in t.coins))
        m += _sha(b"".join(_u32(x[3]) for x in t.vin))
    if ht & 3 not in (2, 3):
        m += _sha(b"".join(_ser_out(o) for o in t.vout))
    m += bytes([ext_flag * 2 + (1 if annex is not None else 0)])
    h, n, _s, seq, _w = t.vin[n_in]
    if ht & 0x80 == 0x80:
        m += h + _u32(n) + _i64(t.coins[n_in][0]) + _sscript(t.coins[n_in][1]) + _u32(seq)
    else:
        m += _u32(n_in)
    if annex is not None:
        m += _sha(_cs(len(annex)) + annex)
    if ht & 3 == 3:
        if n_in >= len(t.vout):
            return None
        m += _sha(_ser_out(t.vout[n_in]))
    msg = b"\x00" + m + ext
    return msg, _tagged(b"TapSighash", msg)


def ref_classify(spk):
    if len(spk) == 25 and spk[:3] == b"\x76\xa9\x14" and spk[23:] == b"\x88\xac":
        return "p2pkh", None
    if len(spk) == 23 and spk[:2] == b"\xa9\x14" and spk[22:] == b"\x87":
        return "p2sh", None
    if len(spk) == 22 and spk[:2] == b"\x00\x14":
        return "p2wpkh", spk[2:]
    if len(spk) == 34 and spk[:2] == b"\x00\x20":
        return "p2wsh", None
    if len(spk) == 34 and spk[:2] == b"\x51\x20":
        return "p2tr", None
    return "other", None


def ref_sig_hash(tx, spent, n_in, ht):
    """[alg, preimage?, digest] in the library's conventions, or None = no digest defined."""
    t = RTx(tx, spent)
    if n_in >= len(t.vin) or n_in >= len(t.coins):
        return None
    amount, spk = t.coins[n_in]
    witness = t.vin[n_in][4]
    kind, h = ref_classify(spk)

    def leg(code):
        p, d = ref_legacy(t, code, n_in, ht)
        return [0, [] if p is None else [p], int.from_bytes(d, "big")]

    def segwit(code):
        p, d = ref_bip143(t, code, amount, n_in, ht)
        return [143, [p], int.from_bytes(d, "big")]

    def p2wpkh_code(h20):
        return b"\x76\xa9\x14" + h20 + b"\x88\xac"
    if kind in ("p2pkh", "other"):
        return leg(spk)
    if kind == "p2wpkh":
        return segwit(p2wpkh_code(h))
    if kind == "p2wsh":
        return segwit(witness[-1]) if witness else None
    if kind == "p2tr":
        r = ref_bip341(t, n_in, ht, witness)
        return None if r is None else [341, [r[0]], r[1]]
    cmds = t.scriptsig_cmds[n_in]
    if not cmds or isinstance(cmds[-1], int):
        return None
    redeem = cmds[-1]
    k2, h2 = ref_classify(redeem)
    if k2 == "p2wpkh":
        return segwit(p2wpkh_code(h2))
    if k2 == "p2wsh":
        return segwit(witness[-1]) if witness else None
    return leg(redeem)


# ---------------------------------------------------------------------------
# PROPS: the property evaluated on the implementation

def _show(v):
    if v is ERR or v is None:
        return str(v)
    alg, pre, d = v
    ds = d.hex() if isinstance(d, bytes) else hex(d)
    return f"alg={alg} preimage={pre[0].hex() if pre else None} digest={ds}"


def p_digest_eq_reference(tx, spent, idx, ht):
    """Tx.sig_hash (algorithm, preimage, digest) equals the reference; both 'no digest' otherwise."""
    ref = ref_sig_hash(tx, spent, idx, ht)
    got = guarded(lambda: i_sig_hash(tx, spent, idx, ht))
    if ref is None:
        if got is ERR:
            return None
        return "the standards define no digest here but the library returned " + _show(got)
    if got is ERR:
        return "library raised, reference gives " + _show(ref)
    if got != ref:
        return "library " + _show(got) + " != reference " + _show(ref)
    return None


def p_builders_eq_reference(tx, spent, idx, ht, code):
    """The three builders called directly (explicit script code / ext_flag 0) equal the reference."""
    t = RTx(tx, spent)
    raw = ref_raw_script(code)
    amount = t.coins[idx][0]
    # legacy with the script code passed as redeem script
    got = guarded(lambda: i_legacy(tx, spent, idx, [code], ht))
    p, d = ref_legacy(t, raw, idx, ht)
    want = [[] if p is None else [p], int.from_bytes(d, "big")]
    if got != want:
        return f"sig_hash_legacy: {got} != {want}"
    # BIP143 with the script code passed as witness script
    got = guarded(lambda: i_bip143(tx, spent, idx, [], [code], ht))
    p, d = ref_bip143(t, raw, amount, idx, ht)
    if got != [p, int.from_bytes(d, "big")]:
        return f"sig_hash_bip143: {got} != {[p, d]}"
    # BIP341 key path (ext_flag 0) with the annex as the witness says
    w = t.vin[idx][4]
    _annex, stack = ref_split_annex(w)
    r = ref_bip341(t, idx, ht, ([stack[0]] if stack else [b"\x00" * 64]) + ([_annex] if _annex is not None else []))
    got = guarded(lambda: i_bip341(tx, spent, idx, 0, ht))
    if r is None:
        if got is not ERR:
            return f"sig_hash_bip341: BIP341 defines no digest, library returned {got}"
    elif got != [r[0], r[1]]:
        return f"sig_hash_bip341: {got} != {r}"
    return None


def p_single_no_output(tx, spent, idx, ht):
    """SINGLE without a matching output: legacy = 1<<248, BIP143 = zero hashOutputs, BIP341 = no digest."""
    assert ht & 3 == 3 and idx >= len(tx[2])
    code = spent[idx][1]
    got = guarded(lambda: i_legacy(tx, spent, idx, [code], ht))
    if got != [[], 1 << 248]:
        return f"legacy returned {got}, expected the constant 1<<248 without hashing"
    got = guarded(lambda: i_bip143(tx, spent, idx, [], [code], ht))
    if got is ERR:
        return "BIP143 raised"
    pre = got[0]
    if pre[-40:-8] != b"\x00" * 32:
        return "BIP143 hashOutputs is not the zero hash: " + pre[-40:-8].hex()
    got = guarded(lambda: i_bip341(tx, spent, idx, 0, ht))
    if got is not ERR:
        return f"BIP341 returned a digest {got} although there is no corresponding output"
    return None


def p_has_annex(w):
    got = Witness(list(w)).has_annex()
    want = ref_split_annex(list(w))[0] is not None
    if bool(got) != want:
        return f"has_annex={got}, BIP341 says annex present={want}"
    return None


def p_history_fresh(tx, spent, ops):
    """Every Query on the long-lived object equals the same Query on a fresh object built from the
    current fields (and, for dispatch queries, the reference)."""
    t = mk_tx(tx, spent)
    try:
        for step, op in enumerate(ops):
            if op[0] != 0:
                apply_op(t, op)
                continue
            f = fresh_copy(t)
            a = guarded(lambda: run_query(t, op[1], op[2], op[3]))
            b = guarded(lambda: run_query(f, op[1], op[2], op[3]))
            if a != b:
                return f"step {step}: object with history returned {_show(a)}, fresh object {_show(b)}"
    finally:
        _scrub(t)
    return None


# ---------------------------------------------------------------------------
# extended histories (property predicate only; the Coq history model knows operations 0..5)
#
# operations 1..5 as above (indices taken modulo the current length, == length appends) plus
#   6 remove output        7 insert output         8 remove input          9 insert input
#  10 set version          11 spent amount of an input (TxIn._value)       12 spent scriptPubKey of an input
#  13 output amount, in place on the TxOut object     14 output script replaced on the TxOut object
#  15 outpoint (prev_tx, prev_index) in place         16 script_sig replaced
#  17 witness items mutated in place (append / pop / replace last) on the SAME Witness object
#  18 a data element of an output script overwritten in place (same Script object)
#  19 a data element of the spent scriptPubKey overwritten in place (same length, same template)
#  20 list-level edits: outputs reversed in place, first/last input swapped in place, tx_outs / tx_ins rebound to a copy
#  21 segwit flag toggled (no influence on any digest)
# IN-PLACE list edits on the objects the transaction ALREADY HAS (also the ones a constructor made by default):
#  22 witness.items: append / insert(0) / extend / += / pop(0) / del [:] / [:] = / reverse / clear
#  23 script_sig.commands: append / insert(0) / extend / pop / del [:]
#  24 tx_ins list: extend / += / pop(i) / reverse           25 tx_outs list: extend / += / pop(i) / del [:]
#  26 commands of an output script: append / insert(0) / extend / pop / del [:] / [:] = template
#  27 commands of the spent scriptPubKey object of an input: the same six
EDIT_NAMES = {1: "output-replace/append", 2: "input-replace/append", 3: "sequence", 4: "locktime", 5: "witness-replace",
              6: "output-remove", 7: "output-insert", 8: "input-remove", 9: "input-insert", 10: "version",
              11: "spent-amount", 12: "spent-scriptpubkey", 13: "output-amount-in-place", 14: "output-script-in-place",
              15: "outpoint-in-place", 16: "script_sig", 17: "witness-items-in-place", 18: "output-script-element-in-place",
              19: "spent-script-element-in-place", 20: "list-level", 21: "segwit-flag",
              22: "witness-list-ops-in-place", 23: "script_sig-commands-in-place", 24: "tx_ins-list-ops-in-place",
              25: "tx_outs-list-ops-in-place", 26: "output-script-commands-in-place",
              27: "spent-script-commands-in-place"}
LIST_SUBOPS = ["append", "insert0", "extend", "iadd", "pop0", "del-slice", "slice-assign", "reverse", "clear", "pop"]


def _list_edit(sub, lst, shadow, new):
    """the same in-place edit on the library object's list and on the shadow value's list; new: list of elements"""
    name = LIST_SUBOPS[sub % len(LIST_SUBOPS)]
    for target in (lst, shadow):
        vals = list(new)
        if name == "append":
            for x in vals[:1]:
                target.append(x)
        elif name == "insert0":
            for x in vals[:1]:
                target.insert(0, x)
        elif name == "extend":
            target.extend(vals)
        elif name == "iadd":
            target += vals
        elif name == "pop0":
            if target:
                target.pop(0)
        elif name == "del-slice":
            del target[:]
        elif name == "slice-assign":
            target[:] = vals
        elif name == "reverse":
            target.reverse()
        elif name == "clear":
            target.clear()
        elif target:
            target.pop()


def _first_data(cmds):
    for j, c in enumerate(cmds):
        if isinstance(c, bytes) and len(c) > 0:
            return j
    return None


def apply_ext(t, sh, op):
    """Applies one edit to the Tx object t and, in parallel, to the shadow canonical value sh = [tx, spent]."""
    tx, spent = sh
    ins, outs = tx[1], tx[2]
    op = copy.deepcopy(op)          # values stored in the shadow are edited in place later on
    k = op[0]
    if k == 1:
        i = op[1] % (len(outs) + 1)
        if i == len(outs):
            t.tx_outs.append(mk_txout(op[2]))
            outs.append(op[2])
        else:
            t.tx_outs[i] = mk_txout(op[2])
            outs[i] = op[2]
    elif k == 2:
        i = op[1] % (len(ins) + 1)
        if i == len(ins):
            t.tx_ins.append(mk_txin(op[2], op[3]))
            ins.append(op[2])
            spent.append(op[3])
        else:
            t.tx_ins[i] = mk_txin(op[2], op[3])
            ins[i], spent[i] = op[2], op[3]
    elif k == 3:
        i = op[1] % len(ins)
        t.tx_ins[i].sequence = Sequence(op[2])
        ins[i][3] = op[2]
    elif k == 4:
        t.locktime = Locktime(op[1])
        tx[3] = op[1]
    elif k == 5:
        i = op[1] % len(ins)
        _set_witness(t.tx_ins[i], op[2])
        ins[i][4] = list(op[2])
    elif k == 6:
        if outs:
            i = op[1] % len(outs)
            del t.tx_outs[i]
            del outs[i]
    elif k == 7:
        i = op[1] % (len(outs) + 1)
        t.tx_outs.insert(i, mk_txout(op[2]))
        outs.insert(i, op[2])
    elif k == 8:
        if len(ins) > 1:
            i = op[1] % len(ins)
            del t.tx_ins[i]
            del ins[i]
            del spent[i]
    elif k == 9:
        i = op[1] % (len(ins) + 1)
        t.tx_ins.insert(i, mk_txin(op[2], op[3]))
        ins.insert(i, op[2])
        spent.insert(i, op[3])
    elif k == 10:
        t.version = op[1]
        tx[0] = op[1]
    elif k == 11:
        i = op[1] % len(ins)
        t.tx_ins[i]._value = op[2]
        spent[i][0] = op[2]
    elif k == 12:
        i = op[1] % len(ins)
        t.tx_ins[i]._script_pubkey = mk_script(op[2])
        spent[i][1] = op[2]
    elif k == 13:
        if outs:
            i = op[1] % len(outs)
            t.tx_outs[i].amount = op[2]
            outs[i][0] = op[2]
    elif k == 14:
        if outs:
            i = op[1] % len(outs)
            t.tx_outs[i].script_pubkey = mk_script(op[2])
            outs[i][1] = op[2]
    elif k == 15:
        i = op[1] % len(ins)
        t.tx_ins[i].prev_tx, t.tx_ins[i].prev_index = op[2], op[3]
        ins[i][0], ins[i][1] = op[2], op[3]
    elif k == 16:
        i = op[1] % len(ins)
        t.tx_ins[i].script_sig = mk_script(op[2])
        ins[i][2] = op[2]
    elif k == 17:
        i = op[1] % len(ins)
        items, w = t.tx_ins[i].witness.items, ins[i][4]
        if op[2] == 0 or not w:
            items.append(op[3])
            w.append(op[3])
        elif op[2] == 1:
            items.pop()
            w.pop()
        else:
            items[-1] = op[3]
            w[-1] = op[3]
    elif k in (18, 19):
        if k == 18 and not outs:
            return
        i = op[1] % len(outs if k == 18 else ins)
        obj = t.tx_outs[i].script_pubkey if k == 18 else t.tx_ins[i]._script_pubkey
        val = outs[i][1] if k == 18 else spent[i][1]
        j = _first_data(val[0])
        if j is None or val[1]:
            return
        n = len(val[0][j])
        new = (op[2] * (n // len(op[2]) + 1))[:n]
        obj.commands[j] = new
        val[0][j] = new
    elif k == 20:
        if op[1] == 0:
            t.tx_outs.reverse()
            outs.reverse()
        elif op[1] == 1:
            t.tx_ins[0], t.tx_ins[-1] = t.tx_ins[-1], t.tx_ins[0]
            ins[0], ins[-1] = ins[-1], ins[0]
            spent[0], spent[-1] = spent[-1], spent[0]
        elif op[1] == 2:
            t.tx_outs = list(t.tx_outs)
        else:
            t.tx_ins = list(t.tx_ins)
    elif k == 21:
        t.segwit = not t.segwit
    elif k == 22:
        i = op[1] % len(ins)
        _list_edit(op[2], t.tx_ins[i].witness.items, ins[i][4], op[3])
    elif k == 23:
        i = op[1] % len(ins)
        if not ins[i][2][1]:
            _list_edit(op[2], t.tx_ins[i].script_sig.commands, ins[i][2][0], op[3])
    elif k == 24:
        name = LIST_SUBOPS[op[1] % len(LIST_SUBOPS)]
        new = [mk_txin(v, sp) for v, sp in zip(op[3], op[4])]
        if name in ("extend", "append", "insert0", "slice-assign"):
            t.tx_ins.extend(new)
            ins.extend(op[3])
            spent.extend(op[4])
        elif name == "iadd":
            t.tx_ins += new
            ins += op[3]
            spent += op[4]
        elif name == "reverse":
            for lst in (t.tx_ins, ins, spent):
                lst.reverse()
        elif len(ins) > 1:
            i = op[2] % len(ins)
            for lst in (t.tx_ins, ins, spent):
                lst.pop(i)
    elif k == 25:
        name = LIST_SUBOPS[op[1] % len(LIST_SUBOPS)]
        new = [mk_txout(v) for v in op[3]]
        if name in ("extend", "append", "insert0", "slice-assign"):
            t.tx_outs.extend(new)
            outs.extend(op[3])
        elif name == "iadd":
            t.tx_outs += new
            outs += op[3]
        elif name in ("del-slice", "clear"):
            del t.tx_outs[:]
            del outs[:]
        elif name == "reverse":
            t.tx_outs.reverse()
            outs.reverse()
        elif outs:
            i = op[2] % len(outs)
            t.tx_outs.pop(i)
            outs.pop(i)
    elif k in (26, 27):
        if k == 26 and not outs:
            return
        i = op[1] % len(outs if k == 26 else ins)
        obj = t.tx_outs[i].script_pubkey if k == 26 else t.tx_ins[i]._script_pubkey
        val = outs[i][1] if k == 26 else spent[i][1]
        if val[1]:
            return
        _list_edit(op[2], obj.commands, val[0], op[3])
    else:
        raise ValueError("unknown operation %r" % (k,))


NO_DIGEST = "no-digest-defined"


def _canon_script_bytes(raw):
    """raw is a complete sequence of op codes and pushes, every push in the shortest of the forms the library's
    serialiser emits (direct <= 75, PUSHDATA1 <= 255, PUSHDATA2 <= 520): exactly the byte strings that
    Script.parse followed by raw_serialize reproduces.  Everything else is the domain of the known finding
    C05-script-code-reserialized (the library hashes the RE-serialisation of the script code)."""
    i, n = 0, len(raw)
    while i < n:
        b = raw[i]
        i += 1
        if 1 <= b <= 75:
            ln = b
        elif b == 76:
            if i + 1 > n:
                return False
            ln = raw[i]
            i += 1
            if ln <= 75:
                return False
        elif b == 77:
            if i + 2 > n:
                return False
            ln = int.from_bytes(raw[i:i + 2], "little")
            i += 2
            if ln <= 255 or ln > 520:
                return False
        elif b == 78:
            return False
        else:
            continue
        if i + ln > n:
            return False
        i += ln
    return True


def _dispatch_script_code(tx, spent, idx):
    """the raw bytes Tx.sig_hash takes as script code / tap script from the witness or the scriptSig of input idx
    (None when the script code comes from the spent output itself)"""
    kind = ref_classify(ref_raw_script(spent[idx][1]))[0]
    witness = list(tx[1][idx][4])
    cmds = tx[1][idx][2][0]
    if kind == "p2wsh":
        return witness[-1] if witness else None
    if kind == "p2tr":
        _annex, stack = ref_split_annex(witness)
        return stack[-2] if len(stack) >= 2 else None
    if kind == "p2sh" and cmds and isinstance(cmds[-1], bytes):
        k2 = ref_classify(cmds[-1])[0]
        if k2 == "p2wsh":
            return witness[-1] if witness else None
        if k2 == "p2wpkh":
            return None
        return cmds[-1]
    return None


def ref_query(sh, alg, idx, ht):
    """What the standards say for this query on the shadow value: [alg, [preimage], digest]; None = no claim;
    NO_DIGEST = Tx.sig_hash has nothing to hash here (a p2wsh / p2tr spend without witness, a p2sh spend without
    redeem script, ...: the call must fail, as in digest_eq_reference)."""
    tx, spent = sh
    if idx >= len(tx[1]):
        return None
    k = alg[0]
    if k == 3:
        if idx < len(spent):
            code = _dispatch_script_code(tx, spent, idx)
            if code is not None and not _canon_script_bytes(code):
                return None          # no claim: known finding C05-script-code-reserialized (replayed by script_code_raw)
        r = ref_sig_hash(tx, spent, idx, ht)
        if r is None and not tx[1][idx][4] and ref_classify(ref_raw_script(spent[idx][1]))[0] == "p2tr":
            # an UNSIGNED taproot input: the digest a key-path signer needs (BIP341 message, no annex, no extension)
            m = ref_bip341(RTx(tx, spent), idx, ht, [bytes(64)])
            r = None if m is None else [341, [m[0]], m[1]]
        return NO_DIGEST if r is None else r
    t = RTx(tx, spent)
    if k == 0:
        code = ref_raw_script(alg[1][0] if alg[1] else spent[idx][1])
        p, d = ref_legacy(t, code, idx, ht)
        return [0, [] if p is None else [p], int.from_bytes(d, "big")]
    if k == 1:
        if not alg[2]:
            return None
        p, d = ref_bip143(t, ref_raw_script(alg[2][0]), t.coins[idx][0], idx, ht)
        return [143, [p], int.from_bytes(d, "big")]
    w = t.vin[idx][4]
    annex, stack = ref_split_annex(w)
    if alg[1] == 0:
        r = ref_bip341(t, idx, ht, ([stack[0]] if stack else [b"\x00" * 64]) + ([annex] if annex is not None else []))
    elif len(stack) >= 2:
        r = ref_bip341(t, idx, ht, w)
    else:
        return None
    return None if r is None else [341, [r[0]], r[1]]


def p_history_ext(tx, spent, ops):
    """One Tx object through a sequence of digest queries (all three builders and the dispatcher, any input, any hash
    type) and edits of every public field: each query equals (a) the same query on a brand-new object tree built
    from the current fields and (b) the independent reference evaluated on a shadow copy of the current values."""
    with contextlib.redirect_stdout(io.StringIO()):      # Script.parse prints a note for inexact parses
        return _history_ext(tx, spent, ops)


def _ext_query(t, sh, op, step, stats=None):
    """one digest query of an extended history: None, or the description of the failure"""
    idx = op[2] % len(t.tx_ins)
    f = fresh_copy(t)
    a = guarded(lambda: run_query(t, op[1], idx, op[3]))
    b = guarded(lambda: run_query(f, op[1], idx, op[3]))
    if a != b:
        return (f"step {step}: the object with this history returned {_show(a)}, a fresh object with the same "
                f"fields {_show(b)}")
    ref = ref_query(sh, op[1], idx, op[3])
    if stats is not None:
        stats[(op[1][0], "raises" if a is ERR else "digest",
               "no-claim" if ref is None else "no-digest" if ref is NO_DIGEST else "reference")] += 1
    if ref is NO_DIGEST:
        if a is not ERR:
            return (f"step {step}: input {idx}, hash type {hex(op[3])}: the current transaction and spent outputs "
                    f"define no digest here (nothing to take the script code from), the object with this history "
                    f"returned {_show(a)}; witness of that input as the object holds it: "
                    f"{[bytes(x).hex()[:24] for x in t.tx_ins[idx].witness.items]}, as it was built and edited: "
                    f"{[x.hex()[:24] for x in sh[0][1][idx][4]]}")
    elif ref is not None and a != ref:
        return (f"step {step}: input {idx}, hash type {hex(op[3])}: the object with this history returned {_show(a)}, "
                f"the reference for the current transaction gives {_show(ref)}; witness of that input as the object "
                f"holds it: {[bytes(x).hex()[:24] for x in t.tx_ins[idx].witness.items]}, as it was built and edited: "
                f"{[x.hex()[:24] for x in sh[0][1][idx][4]]}")
    return None


def _history_ext(tx, spent, ops, stats=None):
    t = mk_tx(tx, spent)
    sh = copy.deepcopy([tx, spent])
    try:
        for step, op in enumerate(ops):
            if op[0] != 0:
                apply_ext(t, sh, op)
                continue
            msg = _ext_query(t, sh, op, step, stats)
            if msg is not None:
                return msg
    finally:
        _scrub(t)
    return None


# ---------------------------------------------------------------------------
# several objects: "the digest depends only on the current transaction and spent outputs" ACROSS objects.
#
# A world is a list of transactions, each built in one of the ways a caller can build it; the history interleaves
# edits (the whole extended alphabet, on any object) with digest queries on any input of any object; objects may be
# created in the middle of the history (after edits of the others).  Every query must equal the independent
# reference evaluated on the shadow value of ITS OWN object: nothing done to another object, before or after this
# one was created, may show.
BUILD_STYLES = ["constructor-defaults", "explicit-arguments", "parsed-from-bytes", "defaults-then-filled-in-place",
                "as-mk_tx"]


def ref_serialize(tx):
    """consensus serialisation of a canonical transaction value (legacy form when no input has a witness)"""
    ver, ins, outs, lt = tx
    segwit = any(i[4] for i in ins)
    s = _u32(ver) + (b"\x00\x01" if segwit else b"") + _cs(len(ins))
    for pt, pi, sc, sq, _w in ins:
        s += _ser_in(pt[::-1], pi, ref_raw_script(sc), sq)
    s += _cs(len(outs)) + b"".join(_ser_out((a, ref_raw_script(sc))) for a, sc in outs)
    if segwit:
        for i in ins:
            s += _cs(len(i[4])) + b"".join(_sscript(x) for x in i[4])
    return s + _u32(lt)


def build_tx(style, tx, spent):
    """A Tx object with the field values of the canonical value tx (and the spent outputs preset), built the way
    BUILD_STYLES[style] says."""
    ver, ins, outs, lt = tx
    name = BUILD_STYLES[style % len(BUILD_STYLES)]
    if name == "as-mk_tx":
        return mk_tx(tx, spent)
    if name == "explicit-arguments":
        tins = [mk_txin(i, spent[k], lazy=False) for k, i in enumerate(ins)]
        return Tx(ver, tins, [mk_txout(o, lazy=False) for o in outs], lt, network="mainnet", segwit=True)
    if name == "parsed-from-bytes":
        t = Tx.parse(io.BytesIO(ref_serialize(tx)))
        for ti, sp in zip(t.tx_ins, spent):
            ti._value = sp[0]
            ti._script_pubkey = Script.parse(io.BytesIO(_sscript(ref_raw_script(sp[1]))))
        return t
    if name == "constructor-defaults":
        tins = [mk_txin(i, spent[k], lazy=True) for k, i in enumerate(ins)]
        touts = [mk_txout(o, lazy=True) for o in outs]
        return Tx(ver, tins, touts) if lt == DEFAULT_LOCKTIME else Tx(ver, tins, touts, lt)
    # everything from the bare constructors, then filled in with in-place list operations
    t = Tx(ver, [], [])
    if lt != DEFAULT_LOCKTIME:
        t.locktime = Locktime(lt)
    for k, (pt, pi, sc, sq, wit) in enumerate(ins):
        ti = TxIn(pt, pi)
        if sq != DEFAULT_SEQUENCE:
            ti.sequence = Sequence(sq)
        if sc[1]:
            ti.script_sig = mk_script(sc)
        else:
            for c in sc[0]:
                ti.script_sig.commands.append(c)
        ti.witness.items.extend(wit)
        ti._value = spent[k][0]
        ti._script_pubkey = Script()
        if spent[k][1][1]:
            ti._script_pubkey = mk_script(spent[k][1])
        else:
            ti._script_pubkey.commands.extend(spent[k][1][0])
        t.tx_ins.append(ti)
    for am, sc in outs:
        to = TxOut(am, Script())
        if sc[1]:
            to.script_pubkey = mk_script(sc)
        else:
            to.script_pubkey.commands += list(sc[0])
        t.tx_outs.append(to)
    return t


def p_history_world(txs, ops):
    """txs: [[build style, tx, spent], ...]; ops: [[object, op], ...] with op a query or an edit of the extended
    alphabet, or [-1] = 'object number `object` is created now' (objects without such a step exist from the start).
    Every query on every object equals the reference for that object's own current fields (and a fresh copy)."""
    with contextlib.redirect_stdout(io.StringIO()):
        return _history_world(txs, ops)


def _history_world(txs, ops, stats=None):
    later = {j for j, op in ops if op[0] == -1}
    world = {}

    def create(j):
        style, tx, spent = txs[j]
        world[j] = (build_tx(style, tx, spent), copy.deepcopy([tx, spent]))
    try:
        for j in range(len(txs)):
            if j not in later:
                create(j)
        for step, (j, op) in enumerate(ops):
            if op[0] == -1:
                create(j)
                continue
            if j not in world:
                continue
            t, sh = world[j]
            if op[0] != 0:
                apply_ext(t, sh, op)
                continue
            msg = _ext_query(t, sh, op, step, stats)
            if msg is not None:
                made = "made during the history" if j in later else "made at the start"
                return f"object {j} ({BUILD_STYLES[txs[j][0] % len(BUILD_STYLES)]}, {made}): " + msg
    finally:
        _scrub(*[t for t, _sh in world.values()])
    return None


def p_script_code_raw(tx, spent, idx, ht):
    """(known finding) the script code of a P2WSH / P2SH spend is the witness / redeem script AS GIVEN."""
    return p_digest_eq_reference(tx, spent, idx, ht)



# ---------------------------------------------------------------------------
# "the digest the library signs and VERIFIES": spends assembled by hand, every signature made over the REFERENCE
# digest of its own hash type (so the signing side is the reference, not the library), then judged by
# Tx.verify_input; relabelled signatures (hash-type byte replaced) must be judged by the digest of the NEW label.

VD_KINDS = ["p2pkh", "p2wpkh", "p2sh-p2wpkh", "bare-multisig", "p2sh-multisig", "p2wsh-multisig", "p2sh-p2wsh-multisig",
            "p2tr-key", "p2tr-script-checksig", "p2tr-script-checksigadd"]


def _vd_spend(kind_i, n_in, n_out, idx, hts, salt):
    """returns (tx value, spent, place) where place(sigs) gives the tx value with the signatures put in;
    sigs: list aligned with the signing keys (script key order)"""
    import random
    from buidl.helper import hash160
    from buidl.pecc import PrivateKey
    from buidl.taproot import TapLeaf, TapScript as TapScr
    kind = VD_KINDS[kind_i]
    r = random.Random(salt * 1000003 + kind_i)
    rb = lambda n: bytes(r.getrandbits(8) for _ in range(n))          # noqa: E731
    multi = "multisig" in kind or kind.endswith("checksigadd")
    n_keys = 1 if not multi else 2 + (salt % 2)
    m = 1 if not multi else 2
    privs = [PrivateKey(r.randrange(1, 2 ** 255)) for _ in range(n_keys)]
    signers = sorted(r.sample(range(n_keys), m))
    secs = [pk.point.sec() for pk in privs]
    msig = [0x50 + m] + secs + [0x50 + n_keys, 0xae]
    ins, spent = [], []
    for k in range(n_in):
        ins.append([rb(32), r.randrange(0, 4), S([]), r.choice([0xffffffff, 0xfffffffe, 0, 5]), []])
        spent.append([r.randrange(600, 10 ** 8), S([0x76, 0xa9, rb(20), 0x88, 0xac])])
    outs = [[r.randrange(600, 10 ** 6), S([0x76, 0xa9, rb(20), 0x88, 0xac])] for _ in range(n_out)]
    annex = [b"\x50" + rb(salt % 5)] if kind.startswith("p2tr") and salt % 3 == 0 else []
    me = ins[idx]
    schnorr = kind.startswith("p2tr")
    if kind == "p2pkh":
        spent[idx][1] = S([0x76, 0xa9, hash160(secs[0]), 0x88, 0xac])
        place = lambda sg: (S([sg[0], secs[0]]), [])                                    # noqa: E731
    elif kind == "p2wpkh":
        spent[idx][1] = S([0, hash160(secs[0])])
        place = lambda sg: (S([]), [sg[0], secs[0]])                                    # noqa: E731
    elif kind == "p2sh-p2wpkh":
        redeem = b"\x00\x14" + hash160(secs[0])
        spent[idx][1] = S([0xa9, hash160(redeem), 0x87])
        place = lambda sg: (S([redeem]), [sg[0], secs[0]])                              # noqa: E731
    elif kind == "bare-multisig":
        spent[idx][1] = S(msig)
        place = lambda sg: (S([0] + [sg[k] for k in signers]), [])                     # noqa: E731
    elif kind == "p2sh-multisig":
        redeem = ref_raw_script(S(msig))
        spent[idx][1] = S([0xa9, hash160(redeem), 0x87])
        place = lambda sg: (S([0] + [sg[k] for k in signers] + [redeem]), [])          # noqa: E731
    elif kind == "p2wsh-multisig":
        ws = ref_raw_script(S(msig))
        spent[idx][1] = S([0, _sha(ws)])
        place = lambda sg: (S([]), [b""] + [sg[k] for k in signers] + [ws])            # noqa: E731
    elif kind == "p2sh-p2wsh-multisig":
        ws = ref_raw_script(S(msig))
        redeem = b"\x00\x20" + _sha(ws)
        spent[idx][1] = S([0xa9, hash160(redeem), 0x87])
        place = lambda sg: (S([redeem]), [b""] + [sg[k] for k in signers] + [ws])      # noqa: E731
    elif kind == "p2tr-key":
        spent[idx][1] = S([0x51, privs[0].point.tweaked_key().xonly()])
        privs = [privs[0].tweaked_key()]
        place = lambda sg: (S([]), [sg[0]] + annex)                                     # noqa: E731
    else:
        xs = [pk.point.xonly() for pk in privs]
        if kind.endswith("checksig"):
            cmds = [xs[0], 0xac]
        else:
            cmds = [xs[0], 0xac]
            for x in xs[1:]:
                cmds += [x, 0xba]
            cmds += [0x50 + m, 0x9c]
        leaf = TapLeaf(TapScr(cmds))
        internal = PrivateKey(r.randrange(1, 2 ** 255)).point
        spent[idx][1] = S([0x51, internal.tweaked_key(leaf.hash()).xonly()])
        tail = [ref_raw_script(S(cmds)), leaf.control_block(internal).serialize()] + annex
        place = lambda sg: (S([]), [sg[k] if k in signers else b"" for k in reversed(range(n_keys))] + tail)  # noqa: E731
    return kind, privs, signers, schnorr, [2, ins, outs, salt % 7], spent, place


def p_verifier_digest(kind_i, n_in, n_out, idx, hts, salt, nalt=0):
    """A spend whose signatures are made over the REFERENCE digest of each signature's own hash type verifies; a
    signature relabelled with another hash type verifies exactly when the reference digests of the two labels are
    equal (SINGLE without a matching output under the legacy algorithm).  Different signatures of one multisig
    input carry different hash types."""
    kind, privs, signers, schnorr, txv, spent, place = _vd_spend(kind_i, n_in, n_out, idx, hts, salt)
    n_keys = len(privs)

    def with_sigs(sg):
        ss, wit = place(sg)
        v = copy.deepcopy(txv)
        v[1][idx][2] = ss
        v[1][idx][4] = wit
        return v

    def digest(ht):
        d = ref_sig_hash(with_sigs([b"\x30" * 70] * n_keys), spent, idx, ht)
        if d is None:
            return None
        return d[2] if isinstance(d[2], int) else int.from_bytes(d[2], "big")

    def verdict(sg):
        tx = mk_tx(with_sigs(sg), spent)
        try:
            with contextlib.redirect_stdout(io.StringIO()):
                return bool(tx.verify_input(idx))
        except Exception:  # noqa
            return False

    std = [0, 1, 2, 3, 0x81, 0x82, 0x83] if schnorr else [1, 2, 3, 0x81, 0x82, 0x83]
    label = {}
    for pos, k in enumerate(signers):
        ht = hts[pos % len(hts)]
        if ht not in std or digest(ht) is None:
            ht = 1
        label[k] = ht

    def sign(k, ht_digest, ht_label):
        z = digest(ht_digest)
        if schnorr:
            sig = privs[k].sign_schnorr(z.to_bytes(32, "big"), bytes(32)).serialize()
            return sig if ht_label == 0 else sig + bytes([ht_label])
        return privs[k].sign(z).der() + bytes([ht_label])

    good = [sign(k, label[k], label[k]) if k in label else b"" for k in range(n_keys)]
    if not verdict(good):
        return (f"{kind}: a spend whose signatures are made over the reference digests of hash types "
                f"{[hex(label[k]) for k in signers]} is rejected by verify_input")
    for k in signers:
        alts = [a for a in std if a != label[k]]
        if nalt:                       # quick tier: nalt relabellings per signature, rotating with the salt
            alts = [alts[(salt + k + j) % len(alts)] for j in range(nalt)]
        for alt in alts:
            da = digest(alt)
            want = da is not None and da == digest(label[k])
            bad = list(good)
            bad[k] = sign(k, label[k], alt)
            got = verdict(bad)
            if got != want:
                return (f"{kind}: signature of key {k} made over the digest of hash type {hex(label[k])} and relabelled "
                        f"{hex(alt)} (other signatures: {[hex(label[j]) for j in signers if j != k]}) is "
                        f"{'accepted' if got else 'rejected'}; the reference digests of the two labels are "
                        f"{'equal' if want else 'different'}")
    return None


def _ref_digest_int(txv, spent, idx, ht):
    d = ref_sig_hash(txv, spent, idx, ht)
    if d is None:
        return None
    return d[2] if isinstance(d[2], int) else int.from_bytes(d[2], "big")


def p_signer_digest(kind, txv, spent, idx, secret, redeem, ws):
    """The digest the library SIGNS: the signature returned by Tx.get_sig_legacy / get_sig_segwit / get_sig_taproot
    verifies under the REFERENCE digest of the hash type it carries (and that is SIGHASH_ALL for the ECDSA signers,
    the requested type for taproot, no byte for DEFAULT)."""
    from buidl.pecc import Signature, SchnorrSignature
    if isinstance(kind, bytes):          # replayed arguments are canonical values: text arrives as bytes
        kind = kind.decode()
    priv = _priv(secret)
    if kind.startswith("p2tr"):
        ext = 0 if kind == "p2tr-key" else 1
        for ht in HASH_TYPES:
            want = _ref_digest_int(txv, spent, idx, ht)
            try:
                sig = i_get_sig_taproot(txv, spent, idx, secret, ext, ht, ZERO_AUX)
            except Exception as e:  # noqa
                if want is None:
                    continue
                return f"get_sig_taproot(hash_type={hex(ht)}) raised {type(e).__name__}, the reference has a digest"
            if want is None:
                return f"get_sig_taproot(hash_type={hex(ht)}) signed although BIP341 defines no digest"
            rule = i_taproot_sig_rule(sig)
            if not rule or rule[0][1] != ht:
                return f"get_sig_taproot(hash_type={hex(ht)}) returned {len(sig)} bytes ending {sig[-1:].hex()}: BIP341 reads {rule}"
            if not priv.point.verify_schnorr(want.to_bytes(32, "big"), SchnorrSignature.parse(rule[0][0])):
                return f"get_sig_taproot(hash_type={hex(ht)}): the signature does not verify under the reference digest"
        return None
    if kind in ("p2pkh", "bare-multisig", "p2sh-multisig"):
        sig = i_get_sig_legacy(txv, spent, idx, secret, redeem)
    else:
        sig = i_get_sig_segwit(txv, spent, idx, secret, redeem, ws)
    if sig[-1] != 1:
        return f"the ECDSA signer appended hash type {sig[-1]}, it hashes SIGHASH_ALL"
    want = _ref_digest_int(txv, spent, idx, 1)
    if not priv.point.verify(want, Signature.parse(sig[:-1])):
        return f"{kind}: the signature made by the library does not verify under the reference SIGHASH_ALL digest"
    return None


def p_sign_then_verify(tx, spent, idx, secret, compressed, redeem, ht):
    """Tx.sign_input on an input the key can spend returns True; the signature it placed carries a hash type whose
    REFERENCE digest it verifies under; a brand-new Tx object with the resulting fields verifies too."""
    from buidl.pecc import Signature, SchnorrSignature
    t = mk_tx(tx, spent)
    priv = _priv(secret, compressed)
    ok = _quiet(t.sign_input, idx, priv, **_sign_input_kw(len(t.tx_ins), idx, redeem, ht))
    if not ok:
        return "sign_input returned False for an input the key can spend"
    if not _quiet(fresh_copy(t).verify_input, idx):
        return "a fresh Tx object with the signed fields does not verify"
    ti = t.tx_ins[idx]
    after = copy.deepcopy(tx)
    after[1][idx][2] = _v_script(ti.script_sig)
    after[1][idx][4] = list(ti.witness.items)
    spk = spent[idx][1][0]
    if len(spk) == 2 and spk[0] == 0x51:
        rule = i_taproot_sig_rule(ti.witness.items[0])
        if not rule:
            return "the taproot signature placed by sign_input is invalid under BIP341's length / hash type rule"
        s64, sht = rule[0]
        if sht != ht:
            return f"signed for hash type {hex(ht)}, the signature says {hex(sht)}"
        want = _ref_digest_int(after, spent, idx, sht)
        if want is None or not priv.point.verify_schnorr(want.to_bytes(32, "big"), SchnorrSignature.parse(s64)):
            return "the taproot signature does not verify under the reference digest of its hash type"
        return None
    sig = ti.witness.items[0] if ti.witness.items else ti.script_sig.commands[0]
    want = _ref_digest_int(after, spent, idx, sig[-1])
    if not priv.point.verify(want, Signature.parse(sig[:-1])):
        return "the signature does not verify under the reference digest of the hash type it carries"
    return None



TSR_VARIANTS = ["explicit-default-65-bytes", "two-trailing-bytes", "ten-trailing-bytes", "undefined-hash-type-04",
                "undefined-hash-type-80", "undefined-hash-type-ff"]


def p_taproot_sig_rule(variant, salt):
    """(fixed by 746b81a) BIP341 signature validation: a signature is 64 bytes (SIGHASH_DEFAULT) or 65 bytes with a
    DEFINED, non-zero hash type; anything else fails.  A key-path spend whose only defect is the form of the
    signature must be rejected by Tx.verify_input (a well-formed one is accepted)."""
    c = _site_spend(VD_KINDS.index("p2tr-key"), 1 + salt % 2, 1, 0, 7000 + salt)
    good = c["sign"](0, 0, 0)
    t = mk_tx(c["with_sigs"]([good]), c["spent"])
    if not _quiet(t.verify_input, 0):
        return "a well-formed key-path spend (64-byte signature) is rejected"
    name = TSR_VARIANTS[variant]
    if name == "explicit-default-65-bytes":
        sig = good + b"\x00"
    elif name == "two-trailing-bytes":
        sig = good + b"\x01\x02"
    elif name == "ten-trailing-bytes":
        sig = good + bytes(10)
    else:
        ht = int(name[-2:], 16)
        # signed over the digest the LIBRARY computes for that byte (BIP341 defines none)
        probe = mk_tx(c["with_sigs"]([good]), c["spent"])
        msg = probe.sig_hash_bip341(0, ext_flag=0, hash_type=ht)
        sig = c["privs"][0].sign_schnorr(msg, bytes(32)).serialize() + bytes([ht])
    rule = i_taproot_sig_rule(sig)
    if rule and rule[0][1] in HASH_TYPES:
        return "harness error: the mutated signature is well-formed"
    t = mk_tx(c["with_sigs"]([sig]), c["spent"])
    try:
        ok = bool(_quiet(t.verify_input, 0))
    except Exception:  # noqa
        ok = False
    if ok:
        return (f"{name}: Tx.verify_input accepts a taproot key-path spend whose signature ({len(sig)} bytes, last byte "
                f"{sig[-1]:02x}) is invalid by BIP341's signature validation rule")
    return None


def p_hash_type_mask(tx, spent, idx, ht):
    """(fixed by 9c0cf6b) ECDSA hash types outside the standard set: consensus selects NONE / SINGLE with `& 0x1f`."""
    return p_digest_eq_reference(tx, spent, idx, ht)


# ---------------------------------------------------------------------------
# entry points beside the central ones (audit of alternative entry points / per-element attributes / shared state)

def _tap_msig_case(n_keys, k, n_in, n_out, idx, salt, annex):
    """A single-leaf taproot k-of-n output in the form MultiSigTapScript gives it (x-only keys sorted, CHECKSIG /
    CHECKSIGADD, k EQUAL), assembled by hand: raw tap script, leaf hash, control block, the spending transaction
    value and a function giving the REFERENCE digest of a hash type for the script-path spend."""
    import random
    from buidl.pecc import PrivateKey
    r = random.Random(0xF17A0000 + salt)
    rb = lambda n: bytes(r.getrandbits(8) for _ in range(n))          # noqa: E731
    privs = sorted([PrivateKey(r.randrange(1, 2 ** 255)) for _ in range(n_keys)], key=lambda pk: pk.point.xonly())
    xs = [pk.point.xonly() for pk in privs]
    cmds = [xs[0], 0xac]
    for x in xs[1:]:
        cmds += [x, 0xba]
    if n_keys > 1:
        cmds += [0x50 + k, 0x87]
    raw = ref_raw_script(S(cmds))
    leaf = _tagged(b"TapLeaf", b"\xc0" + _cs(len(raw)) + raw)
    internal = PrivateKey(r.randrange(1, 2 ** 255)).point.even_point()
    q = internal.tweaked_key(leaf)
    cb = bytes([0xc0 | q.parity]) + internal.xonly()
    ins = [[rb(32), r.randrange(0, 4), S([]), r.choice([0xffffffff, 0xfffffffe, 0, 5]), []] for _ in range(n_in)]
    spent = [[r.randrange(600, 10 ** 8), S([0x76, 0xa9, rb(20), 0x88, 0xac])] for _ in range(n_in)]
    spent[idx] = [r.randrange(600, 10 ** 8), S([0x51, q.xonly()])]
    outs = [[r.randrange(600, 10 ** 6), S([0x00, rb(20)])] for _ in range(n_out)]
    txv = [2, ins, outs, salt % 5]
    tail = [raw, cb] + ([b"\x50" + rb(1 + salt % 4)] if annex else [])

    def digest(ht):
        v = copy.deepcopy(txv)
        v[1][idx][4] = [b""] * n_keys + tail
        d = ref_sig_hash(v, spent, idx, ht)
        return None if d is None else d[2]
    return privs, xs, raw, cb, tail, txv, spent, digest


def p_finalize_p2tr_multisig(n_keys, k, n_in, n_out, idx, hts, salt, annex, extra):
    """Tx.initialize_p2tr_multisig + Tx.finalize_p2tr_multisig: the signatures of k of the n keys, EACH made over the
    reference digest of ITS OWN hash type (the hash types differ), handed over in any order (extra: also an empty
    entry and a signature of a foreign key), are all recognised: the witness is the stack BIP342 needs (signature or
    empty vector per key, last key first), the call returns True and a fresh object with these fields verifies."""
    import random
    from buidl.pecc import PrivateKey, S256Point
    from buidl.taproot import ControlBlock, MultiSigTapScript
    privs, xs, raw, cb, tail, txv, spent, digest = _tap_msig_case(n_keys, k, n_in, n_out, idx, salt, annex)
    r = random.Random(salt)
    signers = sorted(r.sample(range(n_keys), k))
    sig_of = {}
    for pos, j in enumerate(signers):
        ht = hts[pos % len(hts)]
        z = digest(ht)
        if z is None:
            return f"harness error: no reference digest for hash type {hex(ht)}"
        sig_of[j] = privs[j].sign_schnorr(z, bytes(32)).serialize() + (bytes([ht]) if ht else b"")
    sigs = [sig_of[j] for j in signers]
    r.shuffle(sigs)
    if extra:
        sigs.insert(r.randrange(len(sigs) + 1), b"")
        sigs.insert(r.randrange(len(sigs) + 1), PrivateKey(r.randrange(1, 2 ** 255)).sign_schnorr(digest(hts[0]), bytes(32)).serialize())
    t = mk_tx(txv, spent)
    ti = t.tx_ins[idx]
    t.initialize_p2tr_multisig(idx, ControlBlock.parse(cb), MultiSigTapScript([S256Point.parse_xonly(x) for x in reversed(xs)], k))
    if [bytes(x) for x in ti.witness.items] != [raw, cb]:
        return f"initialize_p2tr_multisig left the witness {[bytes(x).hex() for x in ti.witness.items]}, expected [tap script, control block]"
    if annex:
        ti.witness.items.append(tail[-1])
    ok = _quiet(t.finalize_p2tr_multisig, idx, sigs)
    want = [sig_of.get(j, b"") for j in reversed(range(n_keys))] + tail
    got = [bytes(x) for x in ti.witness.items]
    if got != want:
        return (f"signatures with hash types {[hex(hts[p % len(hts)]) for p in range(k)]} of keys {signers} (of {n_keys}, sorted): "
                f"finalize_p2tr_multisig built the witness {[x.hex()[:16] + '/' + str(len(x)) for x in got]}, BIP342 needs "
                f"{[x.hex()[:16] + '/' + str(len(x)) for x in want]}")
    if not ok:
        return "finalize_p2tr_multisig returned False for a complete set of valid signatures"
    if not _quiet(fresh_copy(t).verify_input, idx):
        return "a fresh Tx object with the finalized witness does not verify"
    return None


def ref_txid(tx):
    """transaction id (as TxIn.prev_tx holds it) of a canonical transaction value without witnesses"""
    return _dsha(ref_serialize([tx[0], [i[:4] + [[]] for i in tx[1]], tx[2], tx[3]]))[::-1]


def p_fetched_spent(tx, prevs, preset, idx, ht, network):
    """TxIn.value() / TxIn.script_pubkey() WITHOUT preset fields: the spent outputs are looked up (TxFetcher cache,
    filled from reference-serialised previous transactions; no network) by (prev_tx, prev_index) of EACH input;
    bit k of preset = input k has _value / _script_pubkey preset instead.  The digest of Tx.sig_hash equals the
    reference for the outputs really spent; asked twice; the accessors return those outputs."""
    if isinstance(network, bytes):
        network = network.decode()
    ver, ins, outs, lt = tx
    spent = [copy.deepcopy(prevs[k][2][ins[k][1]]) for k in range(len(ins))]
    want = ref_sig_hash(tx, spent, idx, ht)
    saved = (btx.TxFetcher.cache, btx.urlopen)

    def no_network(*a, **k):
        raise RuntimeError("network access attempted: the previous transaction was not found in the cache")
    btx.urlopen = no_network
    btx.TxFetcher.cache = {}
    try:
        with contextlib.redirect_stdout(io.StringIO()):
            for k, pv in enumerate(prevs):
                if ref_txid(pv) != ins[k][0]:
                    return "harness error: prev_tx of input %d is not the id of its previous transaction" % k
                btx.TxFetcher.cache[ins[k][0].hex()] = Tx.parse(io.BytesIO(ref_serialize(pv)))
            tins = [mk_txin(i, spent[k] if (preset >> k) & 1 else None) for k, i in enumerate(ins)]
            t = Tx(ver, tins, [mk_txout(o) for o in outs], lt, network=network, segwit=True)
            for rnd in (1, 2):
                got = guarded(lambda: q_dispatch(t, idx, ht))
                if want is None:
                    if got is not ERR:
                        return f"query {rnd}: the standards define no digest here but the library returned {_show(got)}"
                elif got != want:
                    return (f"query {rnd} (inputs with preset spent outputs: {[k for k in range(len(ins)) if (preset >> k) & 1]}, "
                            f"prev_index of the inputs: {[i[1] for i in ins]}): library {_show(got)} != reference "
                            f"{_show(want)} for the outputs really spent")
            for k, ti in enumerate(t.tx_ins):
                v = guarded(lambda: ti.value() if k & 1 else ti.value(network))
                sp = guarded(lambda: (ti.script_pubkey(network) if k & 1 else ti.script_pubkey()).raw_serialize())
                if v != spent[k][0] or sp != ref_raw_script(spent[k][1]):
                    return (f"input {k} spends output {ins[k][1]} of its previous transaction (amount {spent[k][0]}, script "
                            f"{ref_raw_script(spent[k][1]).hex()}); value() = {v}, script_pubkey() = "
                            f"{sp.hex() if isinstance(sp, bytes) else sp}")
    finally:
        btx.TxFetcher.cache, btx.urlopen = saved
    return None


def p_witness_accessors(w):
    """Witness.tap_script() / control_block() / tap_leaf() pick the BIP341 positions (annex, if any, set aside; control
    block last, script before it) and leave the witness as it was."""
    w = [bytes(x) for x in w]
    annex, stack = ref_split_annex(w)
    if len(stack) < 2:
        return None
    wit = Witness(list(w))
    with contextlib.redirect_stdout(io.StringIO()):
        ts = guarded(lambda: wit.tap_script().raw_serialize())
        cbs = guarded(lambda: wit.control_block().serialize())
        ver = guarded(lambda: wit.tap_leaf().tapleaf_version)
    c = stack[-1]
    cb_ok = 33 <= len(c) <= 33 + 32 * 128 and (len(c) - 33) % 32 == 0 and lift_ok(c[1:33]) and any(c[1:33])
    if ts != stack[-2]:
        return f"tap_script() = {ts.hex() if isinstance(ts, bytes) else ts}, the script of this witness is {stack[-2].hex()}"
    if cb_ok and (cbs != c or ver != c[0] & 0xfe):
        return (f"control_block() = {cbs.hex() if isinstance(cbs, bytes) else cbs} (leaf version {ver}), the control block "
                f"of this witness is {c.hex()}")
    if not cb_ok and len(c) != 33 + 32 * ((len(c) - 33) // 32) and cbs is not ERR:
        return f"control_block() accepted a control block of {len(c)} bytes"
    if [bytes(x) for x in wit.items] != w:
        return "the accessors changed the witness"
    return None


def p_verify_then_digest(tx, spent, idx, hts, expect):
    """Tx.verify_input is an observation: the digests of every input asked on the SAME object before and after it are
    the reference digests of the unchanged transaction, the witness and scriptSig are what they were, a second
    verify_input gives the same verdict (expect = 1: the spend is valid, the verdict must be True)."""
    t = mk_tx(tx, spent)

    def verdict():
        try:
            return bool(_quiet(t.verify_input, idx))
        except Exception:  # noqa
            return False

    def digests(when):
        for i in range(len(tx[1])):
            for ht in hts:
                want = ref_sig_hash(tx, spent, i, ht)
                got = guarded(lambda: q_dispatch(t, i, ht))
                if want is None:
                    if got is not ERR:
                        return f"{when}: input {i}, hash type {hex(ht)}: no digest is defined, the library returned {_show(got)}"
                elif got != want:
                    return f"{when}: input {i}, hash type {hex(ht)}: library {_show(got)} != reference {_show(want)}"
        return None
    try:
        msg = digests("before verify_input")
        if msg:
            return msg
        v1 = verdict()
        if expect and not v1:
            return "a spend signed over the reference digest is rejected by verify_input"
        for k, ti in enumerate(t.tx_ins):
            if [bytes(x) for x in ti.witness.items] != list(tx[1][k][4]) or _v_script(ti.script_sig) != [list(tx[1][k][2][0]), list(tx[1][k][2][1])]:
                return (f"verify_input({idx}) changed input {k}: witness {[bytes(x).hex()[:16] for x in ti.witness.items]}, "
                        f"scriptSig {ti.script_sig.commands}")
        msg = digests(f"after verify_input({idx})")
        if msg:
            return msg
        v2 = verdict()
        if v1 != v2:
            return f"verify_input({idx}) said {v1} the first time and {v2} the second time on the same object"
    finally:
        _scrub(t)
    return None


def p_clone_world(tx, spent, pre, ops):
    """Tx.clone(): after some digest queries on the source (pre), a clone is made; then edits and queries go to the
    source (object 0) and the clone (object 1): every query equals the reference for THAT object's own current fields
    (nothing is shared between the two that an edit of one could show through)."""
    with contextlib.redirect_stdout(io.StringIO()):
        t = mk_tx(tx, spent)
        sh = [copy.deepcopy([tx, spent]), None]
        objs = [t, None]
        try:
            for step, q in enumerate(pre):
                msg = _ext_query(t, sh[0], q, step)
                if msg:
                    return "source, before the clone is made: " + msg
            objs[1] = t.clone()
            sh[1] = copy.deepcopy(sh[0])
            for step, (j, op) in enumerate(ops):
                if op[0] != 0:
                    apply_ext(objs[j], sh[j], op)
                    continue
                msg = _ext_query(objs[j], sh[j], op, step)
                if msg:
                    return ("the clone: " if j else "the source, after the clone was made: ") + msg
        finally:
            _scrub(*[o for o in objs if o is not None])
    return None



def p_clone_spent_script_shared(tx, spent, pre, ops):
    """(observation, NOT generated) Tx.clone() copies the REFERENCE of every input's _script_pubkey: an in-place edit of
    the spent script object reached through the clone (edit kinds 19 / 27) changes the digests of the source.  Same
    predicate as clone_world; kept under its own name so that it can be registered as a known finding."""
    return p_clone_world(tx, spent, pre, ops)


PROPS = {
    "digest_eq_reference": p_digest_eq_reference,
    "builders_eq_reference": p_builders_eq_reference,
    "single_no_output": p_single_no_output,
    "has_annex_bip341": p_has_annex,
    "history_fresh": p_history_fresh,
    "history_ext": p_history_ext,
    "history_world": p_history_world,
    "script_code_raw": p_script_code_raw,
    "verifier_digest": p_verifier_digest,
    "signer_digest": p_signer_digest,
    "sign_then_verify": p_sign_then_verify,
    "taproot_sig_rule": p_taproot_sig_rule,
    "hash_type_mask": p_hash_type_mask,
    "sign_all_then_verify": p_sign_all_then_verify,
    "finalize_p2tr_multisig": p_finalize_p2tr_multisig,
    "fetched_spent": p_fetched_spent,
    "witness_accessors": p_witness_accessors,
    "verify_then_digest": p_verify_then_digest,
    "clone_world": p_clone_world,
    "clone_spent_script_shared": p_clone_spent_script_shared,
}


def classify(v):
    if v.get("kind") == "prop" and v.get("name") == "script_code_raw":
        return "C05-script-code-reserialized"
    if v.get("kind") == "prop" and v.get("name") == "clone_spent_script_shared":
        return "C05-clone-shares-spent-script"      # not generated: proposed to the lead (see p_clone_spent_script_shared)
    return None


# ---------------------------------------------------------------------------
# generators

def S(cmds, raw=None):
    return [list(cmds), [] if raw is None else [raw]]


def valid_x(ctx):
    while True:
        x = ctx.rbytes(32)
        if lift_ok(x) and any(x):
            return x


def invalid_x(ctx):
    while True:
        x = ctx.rbytes(32)
        if not lift_ok(x):
            return x


def r_amount(r):
    return r.choice([0, 1, 546, 2 ** 32 - 1, 2 ** 32, 2 ** 63 - 1, r.getrandbits(62), r.getrandbits(40), r.getrandbits(20)])


def r_seq(r):
    return r.choice([0, 1, 0xffffffff, 0xfffffffe, 0x80000000, 1 << 22, r.getrandbits(32)])


def r_lock(r):
    return r.choice([0, 1, 499999999, 500000000, 0xffffffff, r.getrandbits(32)])


def r_version(r):
    return r.choice([1, 2, 2, 0, 0xffffffff, r.getrandbits(32)])


def r_sig(ctx, n=None):
    r = ctx.rng
    return ctx.rbytes(n if n is not None else r.choice([70, 71, 72, 73]))


def multisig_cmds(ctx, m=2, n=3):
    return [0x50 + m] + [bytes([2 + ctx.rng.randrange(2)]) + ctx.rbytes(32) for _ in range(n)] + [0x50 + n, 0xae]


def r_out_script(ctx):
    r = ctx.rng
    k = r.randrange(8)
    if k == 0:
        return S([0x76, 0xa9, ctx.rbytes(20), 0x88, 0xac])
    if k == 1:
        return S([0xa9, ctx.rbytes(20), 0x87])
    if k == 2:
        return S([0x00, ctx.rbytes(20)])
    if k == 3:
        return S([0x00, ctx.rbytes(32)])
    if k == 4:
        return S([0x51, ctx.rbytes(32)])
    if k == 5:
        return S([0x6a, ctx.rbytes(r.choice([0, 1, 20, 75, 76, 80]))])
    if k == 6:
        return S([])
    return S([ctx.rbytes(33), 0xac])


KINDS = ["p2pkh", "p2sh-multisig", "p2wpkh", "p2sh-p2wpkh", "p2wsh", "p2sh-p2wsh", "p2tr-key", "p2tr-key-annex",
         "p2tr-script", "p2tr-script-annex", "bare"]


def control_block(ctx, m=None, ver=0xc0):
    r = ctx.rng
    if m is None:
        m = r.choice([0, 0, 1, 2, 5])
    return bytes([ver | r.randrange(2)]) + valid_x(ctx) + ctx.rbytes(32 * m)


def r_annex(ctx):
    return b"\x50" + ctx.rbytes(ctx.rng.choice([0, 1, 2, 30, 252, 253, 300]))


def make_input(ctx, kind, signed=True):
    """Returns (txin value, spent value) for a spend of the given kind."""
    r = ctx.rng
    script_sig, wit = S([]), []
    am = r_amount(r)
    if kind == "p2pkh":
        spk = S([0x76, 0xa9, ctx.rbytes(20), 0x88, 0xac])
        if signed:
            script_sig = S([r_sig(ctx), b"\x02" + ctx.rbytes(32)])
    elif kind == "p2sh-multisig":
        red = S(multisig_cmds(ctx, *r.choice([(1, 1), (2, 3), (3, 5), (2, 2)])))
        spk = S([0xa9, ctx.rbytes(20), 0x87])
        script_sig = S([0, r_sig(ctx), r_sig(ctx), ref_raw_script(red)] if signed else [ref_raw_script(red)])
    elif kind == "p2wpkh":
        spk = S([0x00, ctx.rbytes(20)])
        if signed:
            wit = [r_sig(ctx), b"\x03" + ctx.rbytes(32)]
    elif kind == "p2sh-p2wpkh":
        spk = S([0xa9, ctx.rbytes(20), 0x87])
        script_sig = S([b"\x00\x14" + ctx.rbytes(20)])
        if signed:
            wit = [r_sig(ctx), b"\x03" + ctx.rbytes(32)]
    elif kind in ("p2wsh", "p2sh-p2wsh"):
        style = r.randrange(4)
        if style == 0:
            ws = S(multisig_cmds(ctx, *r.choice([(1, 1), (2, 3), (3, 5)])))
        elif style == 1:   # pushes of every encoding class
            ws = S([ctx.rbytes(r.choice([1, 74, 75])), 0x75, ctx.rbytes(r.choice([76, 77, 255])), 0x75,
                    ctx.rbytes(r.choice([256, 300, 520])), 0x75, 0x51])
        elif style == 2:
            ws = S([0x63, ctx.rbytes(33), 0xac, 0x67, r.randrange(0x52, 0x60), 0xb2, 0x75, ctx.rbytes(33), 0xac, 0x68])
        else:
            ws = S([0x51])
        raw = ref_raw_script(ws)
        if kind == "p2wsh":
            spk = S([0x00, ctx.rbytes(32)])
        else:
            spk = S([0xa9, ctx.rbytes(20), 0x87])
            script_sig = S([b"\x00\x20" + ctx.rbytes(32)])
        wit = ([b"", r_sig(ctx), r_sig(ctx)] if signed else []) + [raw]
    elif kind in ("p2tr-key", "p2tr-key-annex"):
        spk = S([0x51, ctx.rbytes(32)])
        wit = [ctx.rbytes(r.choice([64, 65]))]
        if kind.endswith("annex"):
            wit.append(r_annex(ctx))
    elif kind in ("p2tr-script", "p2tr-script-annex"):
        spk = S([0x51, ctx.rbytes(32)])
        style = r.randrange(3)
        if style == 0:
            ts = S([ctx.rbytes(32), 0xac])
        elif style == 1:
            ts = S([ctx.rbytes(32), 0xac, ctx.rbytes(32), 0xba, ctx.rbytes(32), 0xba, 0x52, 0x87])
        else:
            ts = S([ctx.rbytes(r.choice([1, 75, 76, 255, 256, 520])), 0x75, ctx.rbytes(32), 0xac])
        wit = [ctx.rbytes(64) for _ in range(r.choice([0, 1, 1, 2]))] + [ref_raw_script(ts), control_block(ctx)]
        if kind.endswith("annex"):
            wit.append(r_annex(ctx))
    else:  # bare
        spk = r.choice([S([ctx.rbytes(33), 0xac]), S(multisig_cmds(ctx, 1, 2)), S([0x51]), S([])])
        if signed:
            script_sig = S([r_sig(ctx)])
    return [ctx.rbytes(32), r.choice([0, 1, 2, 0xffffffff, r.getrandbits(32)]), script_sig, r_seq(r), wit], [am, spk]


def make_tx(ctx, n_in, n_out, kinds=None):
    r = ctx.rng
    ins, spent = [], []
    for k in range(n_in):
        kind = kinds[k] if kinds else r.choice(KINDS)
        i, s = make_input(ctx, kind, signed=r.random() < 0.7)
        ins.append(i)
        spent.append(s)
    outs = [[r_amount(r), r_out_script(ctx)] for _ in range(n_out)]
    return [r_version(r), ins, outs, r_lock(r)], spent


def history_alphabet(ctx, tx, spent, variant):
    """Seven concrete operations on a 2-input transaction."""
    r = ctx.rng
    hts = [[1, 0], [3, 0x83], [0x82, 2], [0x81, 3]][variant % 4]
    q1 = [0, [3], 0, hts[0]]
    q2 = [0, [3], 1, hts[1]]
    if variant % 3 == 2:      # direct calls of the builders instead of the dispatcher
        q1 = [0, [1, [], [S([0x51])]], 0, hts[0]]
        q2 = [0, [2, 0], 1, hts[1]]
    ni, ns = make_input(ctx, r.choice(["p2wpkh", "p2tr-key", "p2pkh", "p2wsh"]))
    return [
        q1, q2,
        [1, r.choice([0, len(tx[2])]), [r_amount(r), r_out_script(ctx)]],
        [2, r.choice([0, 1]), ni, ns],
        [3, r.choice([0, 1]), r.choice([0, 5, 0xfffffffd])],
        [4, r.choice([0, 7, 500000001])],
        [5, 1, r.choice([[ctx.rbytes(64)], [ctx.rbytes(64), r_annex(ctx)], [ctx.rbytes(65)]])],
    ]


def r_edit(ctx, k):
    """one random edit of kind k (indices are reduced modulo the current length when applied)"""
    r = ctx.rng
    i = r.randrange(12)
    if k in (1, 7):
        return [k, i, [r_amount(r), r_out_script(ctx)]]
    if k in (2, 9):
        ni, ns = make_input(ctx, r.choice(KINDS))
        return [k, i, ni, ns]
    if k == 3:
        return [3, i, r_seq(r)]
    if k == 4:
        return [4, r_lock(r)]
    if k == 5:
        return [5, i, r.choice([[ctx.rbytes(64)], [ctx.rbytes(64), r_annex(ctx)], [ctx.rbytes(65)],
                                [ctx.rbytes(64), ref_raw_script(S([ctx.rbytes(32), 0xac])), control_block(ctx)],
                                [b"", r_sig(ctx), ref_raw_script(S([0x51]))]])]
    if k in (6, 8):
        return [k, i]
    if k == 10:
        return [10, r_version(r)]
    if k == 11:
        return [11, i, r_amount(r)]
    if k == 12:
        return [12, i, r.choice([S([0x76, 0xa9, ctx.rbytes(20), 0x88, 0xac]), S([0x00, ctx.rbytes(20)]),
                                 S([0x51, ctx.rbytes(32)]), S([0x00, ctx.rbytes(32)]), S([ctx.rbytes(33), 0xac])])]
    if k == 13:
        return [13, i, r_amount(r)]
    if k == 14:
        return [14, i, r_out_script(ctx)]
    if k == 15:
        return [15, i, ctx.rbytes(32), r.choice([0, 1, 0xffffffff, r.getrandbits(32)])]
    if k == 16:
        return [16, i, r.choice([S([]), S([r_sig(ctx), b"\x02" + ctx.rbytes(32)]), S([b"\x00\x14" + ctx.rbytes(20)]),
                                 S([0, r_sig(ctx), ref_raw_script(S(multisig_cmds(ctx, 1, 2)))])])]
    if k == 17:
        return [17, i, r.randrange(3), r.choice([r_annex(ctx), ctx.rbytes(64), ref_raw_script(S([0x51])), b"\x50"])]
    if k in (18, 19):
        return [k, i, ctx.rbytes(4)]
    if k == 20:
        return [20, r.randrange(4)]
    if k == 22:
        return [22, i, r.randrange(len(LIST_SUBOPS)), witness_payload(ctx, r.randrange(len(PAYLOADS)))]
    if k == 23:
        return [23, i, r.randrange(len(LIST_SUBOPS)),
                r.choice([[b"\x00\x20" + ctx.rbytes(32)], [b"\x00\x14" + ctx.rbytes(20)], [r_sig(ctx), b"\x02" + ctx.rbytes(32)],
                          [0x51], [0, r_sig(ctx), ref_raw_script(S(multisig_cmds(ctx, 1, 2)))]])]
    if k == 24:
        new = [unsigned_input(ctx, r.choice(U_KINDS), r.random() < 0.8) for _ in range(r.choice([1, 1, 2]))]
        return [24, r.randrange(len(LIST_SUBOPS)), i, [a for a, _b in new], [b for _a, b in new]]
    if k == 25:
        return [25, r.randrange(len(LIST_SUBOPS)), i,
                [[r_amount(r), r.choice([S([]), r_out_script(ctx)])] for _ in range(r.choice([1, 1, 2]))]]
    if k in (26, 27):
        return [k, i, r.randrange(len(LIST_SUBOPS)),
                r.choice([[0x51, ctx.rbytes(32)], [0x00, ctx.rbytes(32)], [0x00, ctx.rbytes(20)], [0xa9, ctx.rbytes(20), 0x87],
                          [0x76, 0xa9, ctx.rbytes(20), 0x88, 0xac], [0x6a, ctx.rbytes(r.choice([1, 20, 80]))], [0x51]])]
    return [21]


# ---------------------------------------------------------------------------
# unsigned inputs (what a wallet has before signing: no witness, no or only the redeem-script scriptSig, default
# sequence), the shape in which objects made by the constructors' defaults occur; and the witnesses that signing
# code then puts there

U_KINDS = ["p2tr", "p2wsh", "p2sh-p2wsh", "p2sh", "p2wpkh", "p2pkh", "p2sh-p2wpkh", "bare-empty"]
PAYLOADS = ["key-sig+annex", "script-path", "script-path+annex", "p2wsh-stack", "key-sig", "single-0x50-item", "two-sigs"]


def unsigned_input(ctx, kind, lazy=True, default_seq=True):
    r = ctx.rng
    script_sig = S([])
    if kind == "p2tr":
        spk = S([0x51, ctx.rbytes(32)])
    elif kind == "p2wsh":
        spk = S([0x00, ctx.rbytes(32)])
    elif kind == "p2sh-p2wsh":
        spk, script_sig = S([0xa9, ctx.rbytes(20), 0x87]), S([b"\x00\x20" + ctx.rbytes(32)])
    elif kind == "p2sh":
        spk = S([0xa9, ctx.rbytes(20), 0x87])
    elif kind == "p2wpkh":
        spk = S([0x00, ctx.rbytes(20)])
    elif kind == "p2pkh":
        spk = S([0x76, 0xa9, ctx.rbytes(20), 0x88, 0xac])
    elif kind == "p2sh-p2wpkh":
        spk, script_sig = S([0xa9, ctx.rbytes(20), 0x87]), S([b"\x00\x14" + ctx.rbytes(20)])
    else:
        spk = S([])
    pt = ctx.rbytes(31) + bytes([(r.randrange(128) << 1) | (1 if lazy else 0)])
    return [pt, r.choice([0, 1, 7]), script_sig, DEFAULT_SEQUENCE if default_seq else r_seq(r), []], [r_amount(r), spk]


def unsigned_tx(ctx, kinds, n_out=2, lazy=True, empty_out_scripts=False):
    r = ctx.rng
    both = [unsigned_input(ctx, k, lazy, default_seq=(j % 3 != 2)) for j, k in enumerate(kinds)]
    outs = [[r_amount(r), S([]) if empty_out_scripts else r_out_script(ctx)] for _ in range(n_out)]
    return [r.choice([1, 2, 2]), [a for a, _b in both], outs, r.choice([0, 0, r_lock(r)])], [b for _a, b in both]


def witness_payload(ctx, k):
    name = PAYLOADS[k % len(PAYLOADS)]
    ts = ref_raw_script(S([ctx.rbytes(32), 0xac]))
    if name == "key-sig+annex":
        return [ctx.rbytes(64), r_annex(ctx)]
    if name == "script-path":
        return [ctx.rbytes(64), ts, control_block(ctx)]
    if name == "script-path+annex":
        return [ctx.rbytes(64), ts, control_block(ctx), r_annex(ctx)]
    if name == "p2wsh-stack":
        return [b"", r_sig(ctx), ref_raw_script(S(multisig_cmds(ctx, 1, 2)))]
    if name == "key-sig":
        return [ctx.rbytes(65)]
    if name == "single-0x50-item":
        return [b"\x50" + ctx.rbytes(63)]
    return [ctx.rbytes(64), ctx.rbytes(64)]


def sweep(ctx, txs, objs, rot=0):
    """digest queries on every input of the given objects: the dispatcher and the BIP341 builder on each"""
    out = []
    n = rot
    for j in objs:
        for i in range(len(txs[j][1][1])):
            out.append([j, [0, [3], i, HASH_TYPES[n % 7]]])
            out.append([j, [0, [2, 0], i, HASH_TYPES[(n + 3) % 7]]])
            n += 1
    return out


def world_histories(ctx):
    r = ctx.rng
    n_styles = len(BUILD_STYLES)
    # (a) a witness is put in place on ONE input of ONE object; every other input of every object — made before,
    #     made afterwards — must keep its digest.  build style x payload x form of the edit.
    forms = [("append-each", None)] + [(LIST_SUBOPS[s], s) for s in (1, 2, 3, 6)] + [("op17-append", None), ("set-witness", None)]
    n = 0
    for style in range(n_styles):
        for pk in range(len(PAYLOADS)):
            for form, sub in forms:
                n += 1
                txs = [[style, *unsigned_tx(ctx, ["p2tr", "p2tr", "p2wsh"], 2, lazy=(style != 1))],
                       [(style + n) % n_styles, *unsigned_tx(ctx, ["p2sh-p2wsh", "p2tr"], 3, lazy=bool(n & 1))],
                       [style, *unsigned_tx(ctx, ["p2tr", "p2wsh", "p2tr"], 1, lazy=(style != 1))]]
                pay = witness_payload(ctx, pk)

                def edit(obj, i):
                    if form == "append-each":
                        return [[obj, [22, i, 0, [x]]] for x in pay]
                    if form == "op17-append":
                        return [[obj, [17, i, 0, x]] for x in pay]
                    if form == "set-witness":
                        return [[obj, [5, i, pay]]]
                    if form == "insert0":
                        return [[obj, [22, i, sub, [x]]] for x in reversed(pay)]
                    return [[obj, [22, i, sub, pay]]]
                ops = (sweep(ctx, txs, [0], n) if n % 4 == 0 else []) + edit(0, n % 2) + sweep(ctx, txs, [0, 1], n)
                ops += [[2, [-1]]] + sweep(ctx, txs, [2], n + 1) + edit(2, 1 + n % 2) + sweep(ctx, txs, [1, 2, 0], n + 2)
                ctx.label("history-world/witness-in-place/" + BUILD_STYLES[style] + "/" + PAYLOADS[pk])
                ctx.label("history-world/edit-form/" + form)
                yield ("prop", "history_world", [txs, ops])
    # (b) the same for scripts made by Script(): scriptSig commands, output scripts, spent scriptPubKey objects
    tmpl = [[b"\x00\x20" + ctx.rbytes(32)], [0x51, ctx.rbytes(32)], [0x00, ctx.rbytes(32)], [0x6a, ctx.rbytes(20)],
            [b"\x00\x14" + ctx.rbytes(20)], [0xa9, ctx.rbytes(20), 0x87]]
    for style in range(n_styles):
        for k in (23, 26, 27):
            for sub in (0, 1, 2, 3, 6):
                n += 1
                txs = [[style, *unsigned_tx(ctx, ["p2sh", "p2sh", "bare-empty", "bare-empty"], 3, lazy=(style != 1), empty_out_scripts=True)],
                       [(style + n) % n_styles, *unsigned_tx(ctx, ["bare-empty", "p2sh", "p2tr"], 2, lazy=bool(n & 1), empty_out_scripts=True)],
                       [style, *unsigned_tx(ctx, ["p2sh", "bare-empty"], 2, lazy=(style != 1), empty_out_scripts=True)]]
                t1, t2 = tmpl[n % len(tmpl)], tmpl[(n + 1) % len(tmpl)]

                def q(j, i, m):
                    return [j, [0, [[3], [0, []], [3], [2, 0]][m % 4], i, HASH_TYPES[(n + m) % 7]]]

                def allq(objs):
                    return [q(j, i, i + j + x) for j in objs for i in range(len(txs[j][1][1])) for x in (0, 1)]
                first = 2 * (n % 2) if k == 27 else n % 2      # p2sh inputs for scriptSig edits, the empty spk for 27
                ops = [[0, [k, first, sub, t1]]] + allq([0, 1]) + [[2, [-1]]] + allq([2])
                ops += [[2, [k, 1 if k != 23 else 0, sub, t2]]] + allq([0, 1, 2])
                ctx.label("history-world/script-in-place/" + EDIT_NAMES[k] + "/" + BUILD_STYLES[style])
                yield ("prop", "history_world", [txs, ops])
    # (c) inputs / outputs added to the lists in place (tx_ins / tx_outs of a transaction that started empty or not)
    for style in range(n_styles):
        for k in (24, 25):
            for sub in (2, 3, 4, 7):
                n += 1
                txs = [[style, *unsigned_tx(ctx, ["p2tr", "p2wpkh"], 1, lazy=(style != 1))],
                       [(style + 1) % n_styles, *unsigned_tx(ctx, ["p2tr", "p2pkh"], 2, lazy=True)]]
                e = r_edit(ctx, k)
                e[1] = sub
                ops = sweep(ctx, txs, [0, 1], n) + [[0, e]] + sweep(ctx, txs, [0, 1], n + 1)
                ops += [[0, [22, 9, 2, witness_payload(ctx, n)]]] + [[j, [0, [3], i, 1]] for j in (0, 1) for i in range(4)]
                ctx.label("history-world/list-in-place/" + EDIT_NAMES[k])
                yield ("prop", "history_world", [txs, ops])
    # (d) random walks over a world of 2..3 objects: any edit of the extended alphabet on any object, creation in
    #     the middle, queries everywhere
    for _ in range(ctx.n(80, 1500)):
        kinds = [[r.choice(U_KINDS[:4]) for _ in range(r.choice([2, 3]))] for _ in range(r.choice([2, 3]))]
        txs = [[r.randrange(n_styles), *unsigned_tx(ctx, ks, r.choice([1, 2, 3]), lazy=r.random() < 0.8,
                                                    empty_out_scripts=r.random() < 0.3)] for ks in kinds]
        ops = []
        if r.random() < 0.6:
            ops.append([len(txs) - 1, [-1]])
        for _ in range(r.randrange(3, 8)):
            j = r.randrange(len(txs))
            k = r.choice([22, 22, 17, 23, 26, 27, 5, 24, 25] + EDIT_KINDS)
            ctx.label("history-world/walk/" + EDIT_NAMES[k])
            ops.append([j, r_edit(ctx, k)])
            for _ in range(r.choice([1, 2, 3])):
                ops.append([r.randrange(len(txs)), r_query(ctx, dispatch_only=r.random() < 0.5)])
        r.shuffle(ops)
        ops += [[j, r_query(ctx)] for j in range(len(txs)) for _ in range(2)]
        yield ("prop", "history_world", [txs, ops])


def r_query(ctx, dispatch_only=False):
    r = ctx.rng
    ht = r.choice(HASH_TYPES)
    i = r.randrange(12)
    k = r.random()
    if dispatch_only or k < 0.5:
        return [0, [3], i, ht]
    if k < 0.65:
        return [0, [0, r.choice([[], [S(multisig_cmds(ctx, 1, 2))], [S([0x76, 0xa9, ctx.rbytes(20), 0x88, 0xac])]])], i, ht]
    if k < 0.8:
        return [0, [1, [], r.choice([[S([0x51])], [S(multisig_cmds(ctx, 2, 2))], []])], i, ht]
    return [0, [2, r.choice([0, 0, 1])], i, ht]


EDIT_KINDS = sorted(EDIT_NAMES)


def ext_histories(ctx):
    r = ctx.rng
    bases = [["p2wpkh", "p2tr-key", "p2pkh"], ["p2tr-script", "p2wsh"], ["p2sh-p2wpkh", "p2tr-key-annex", "bare", "p2wpkh"],
             ["p2sh-multisig", "p2tr-script-annex"], ["p2sh-p2wsh", "p2pkh", "p2tr-key"]]
    # unsigned transactions whose inputs are made through the constructors' defaults (see _lazy_style): the edits
    # then act on the Script() / Witness() objects the constructors made
    ubases = [["p2tr", "p2tr", "p2wsh"], ["p2sh-p2wsh", "p2tr", "p2sh"], ["p2wsh", "bare-empty", "p2tr", "bare-empty"]]
    for bi in range(ctx.n(4, 10) + ctx.n(2, 6)):
        if bi < ctx.n(4, 10):
            kinds = bases[bi % len(bases)]
            tx, spent = make_tx(ctx, len(kinds), r.choice([2, 3]), kinds)
        else:
            kinds = ubases[bi % len(ubases)]
            tx, spent = unsigned_tx(ctx, kinds, r.choice([2, 3]), lazy=True, empty_out_scripts=bool(bi & 1))
            ctx.label("history-ext/base-unsigned-default-constructed")
        # (a) ask, edit, ask the same again — every kind of edit x one query per builder and input
        queries = [[0, [3], i, ht] for i in range(len(kinds)) for ht in (1, 3, 0x81)]
        queries += [[0, [0, [S(multisig_cmds(ctx, 1, 2))]], 0, 1], [0, [0, []], len(kinds) - 1, 0x83],
                    [0, [1, [], [S([0x51])]], 0, 1], [0, [1, [], [S([0x51])]], 1, 2],
                    [0, [2, 0], 1, 0], [0, [2, 0], 0, 0x83]]
        for k in EDIT_KINDS:
            for q in queries:
                ctx.label("history-ext/ask-edit-ask/" + EDIT_NAMES[k])
                yield ("prop", "history_ext", [tx, spent, [q, r_edit(ctx, k), q]])
        # (b) the three builders and the dispatcher interleaved on one object around one edit
        for k in EDIT_KINDS:
            for _ in range(ctx.n(2, 12)):
                pre = [r_query(ctx) for _ in range(3)]
                ctx.label("history-ext/interleaved-builders")
                yield ("prop", "history_ext", [tx, spent, pre + [r_edit(ctx, k)] + [r.choice(pre), r_query(ctx), r.choice(pre)]])
        # (c) random walks: queries and edits of every kind mixed, 6..14 steps
        for _ in range(ctx.n(120, 1500)):
            ops = [r_query(ctx)]
            for _ in range(r.randrange(2, 6)):
                for _ in range(r.choice([1, 1, 2])):
                    k = r.choice(EDIT_KINDS)
                    ctx.label("history-ext/walk/" + EDIT_NAMES[k])
                    ops.append(r_edit(ctx, k))
                ops.append(r_query(ctx))
                if r.random() < 0.4:
                    ops.append(list(r.choice([o for o in ops if o[0] == 0])))
            yield ("prop", "history_ext", [tx, spent, ops])



# ---------------------------------------------------------------------------
# generators for the signature sites

def _enc_num(n):
    """script number encoding (reference, as in Bitcoin Core's CScriptNum::serialize)"""
    if n == 0:
        return b""
    a, out = abs(n), bytearray()
    while a:
        out.append(a & 0xff)
        a >>= 8
    if out[-1] & 0x80:
        out.append(0x80 if n < 0 else 0)
    elif n < 0:
        out[-1] |= 0x80
    return bytes(out)


def _site_spend(kind_i, n_in, n_out, idx, salt):
    """A hand-assembled spend of kind VD_KINDS[kind_i] with real keys: returns a dict with the transaction value
    builder, the reference digest of each hash type and a signing function."""
    kind, privs, signers, schnorr, txv, spent, place = _vd_spend(kind_i, n_in, n_out, idx, [1], salt)
    n_keys = len(privs)

    def with_sigs(sg):
        ss, wit = place(sg)
        v = copy.deepcopy(txv)
        v[1][idx][2] = ss
        v[1][idx][4] = wit
        return v

    def digest(ht):
        d = ref_sig_hash(with_sigs([b"\x30" * 70] * n_keys), spent, idx, ht)
        if d is None:
            return None
        return d[2] if isinstance(d[2], int) else int.from_bytes(d[2], "big")

    def sign(k, ht_digest, ht_label, explicit=False):
        z = digest(ht_digest)
        if z is None:
            z = 1
        if schnorr:
            sig = privs[k].sign_schnorr(z.to_bytes(32, "big"), bytes(32)).serialize()
            return sig if (ht_label == 0 and not explicit) else sig + bytes([ht_label])
        return privs[k].sign(z).der() + bytes([ht_label])
    keys = [pk.point.xonly() if schnorr else pk.point.sec() for pk in privs]
    return {"kind": kind, "privs": privs, "signers": signers, "schnorr": schnorr, "spent": spent, "with_sigs": with_sigs,
            "digest": digest, "sign": sign, "keys": keys, "n_keys": n_keys}


def _mutations(ctx, sig):
    """malformed variants of a signature (with its hash-type byte)"""
    r = ctx.rng
    j = r.randrange(max(1, len(sig) - 1))
    yield "bit-flip", sig[:j] + bytes([sig[j] ^ (1 << r.randrange(8))]) + sig[j + 1:]
    yield "truncated", sig[: r.randrange(1, len(sig))]
    yield "one-byte", sig[-1:]
    yield "empty", b""
    yield "extended", sig[:-1] + bytes([r.randrange(256)]) + sig[-1:]


def sig_sites(ctx):
    r = ctx.rng
    shapes = [(1, 1, 0), (2, 1, 1), (3, 2, 2), (2, 3, 0), (1, 0, 0), (3, 1, 1)]
    std_e = [1, 2, 3, 0x81, 0x82, 0x83]
    salt = 1000
    for kind_i, kind in enumerate(VD_KINDS):
        for j in range(ctx.n(2, 10)):
            salt += 1
            n_in, n_out, idx = shapes[(j + kind_i) % len(shapes)]
            c = _site_spend(kind_i, n_in, n_out, idx, salt)
            schnorr, keys, nk, spent = c["schnorr"], c["keys"], c["n_keys"], c["spent"]
            std = ([0] if schnorr else []) + std_e
            hts = [std[(salt + k) % len(std)] for k in range(nk)]
            hts = [h if c["digest"](h) is not None else 1 for h in hts]
            good = [c["sign"](k, hts[k], hts[k]) for k in range(nk)]
            placed = [good[k] if k in c["signers"] else b"" for k in range(nk)]
            txv = c["with_sigs"](placed)
            ctx.label("sites/" + kind)
            # ---- the complete verifier on the assembled spend, and on a relabelled one
            yield ("corr", "verify_input", [txv, spent, idx])
            k0 = c["signers"][0]
            alt = [a for a in std if a != hts[k0]][salt % (len(std) - 1)]
            bad = list(placed)
            bad[k0] = c["sign"](k0, hts[k0], alt)
            yield ("corr", "verify_input", [c["with_sigs"](bad), spent, idx])
            if not schnorr:
                # ---- op_checksig: [sig, sec]
                for k in range(min(nk, 2)):
                    yield ("corr", "op_checksig", [txv, spent, idx, [good[k], keys[k]]])
                yield ("corr", "op_checksig", [txv, spent, idx, [b"\x07", c["sign"](0, hts[0], alt), keys[0]]])
                yield ("corr", "op_checksig", [txv, spent, idx, [good[0], keys[(1 % nk)] if nk > 1 else c["privs"][0].point.sec(False)]])
                if j == 0 and (ctx.tier != "quick" or kind in ("p2pkh", "p2wpkh", "p2sh-multisig")):
                    for lbl, sg in _mutations(ctx, good[0]):
                        ctx.label("sites/ecdsa-sig-" + lbl)
                        yield ("corr", "op_checksig", [txv, spent, idx, [sg, keys[0]]])
                    for lbl, pk in [("bad-prefix", b"\x05" + keys[0][1:]), ("34-bytes", keys[0] + b"\x00"), ("empty", b""),
                                    ("not-on-curve", b"\x02" + invalid_x(ctx)), ("xonly-32", keys[0][1:]),
                                    ("uncompressed", c["privs"][0].point.sec(False))]:
                        ctx.label("sites/ecdsa-key-" + lbl)
                        yield ("corr", "op_checksig", [txv, spent, idx, [good[0], pk]])
                    yield ("corr", "op_checksig", [txv, spent, idx, [good[0]]])
                    yield ("corr", "op_checksig", [txv, spent, idx, []])
                    yield ("corr", "op_checksig", [txv, spent, n_in, [good[0], keys[0]]])
                    # a hash type outside the standard set: the byte is hashed as it is
                    for ht in (0, 4, 0x80, 0x41, 0xff):
                        yield ("corr", "op_checksig", [txv, spent, idx, [c["sign"](0, 1, ht), keys[0]]])
                # ---- Tx.get_sig_* / check_sig_* with the library's own signer
                secret = c["privs"][0].secret
                ti = txv[1][idx]
                if kind in ("p2pkh", "bare-multisig"):
                    args = [txv, spent, idx, secret, []]
                    yield ("corr", "get_sig_legacy", args)
                    yield ("prop", "signer_digest", [kind, txv, spent, idx, secret, [], []])
                elif kind == "p2sh-multisig":
                    red = S(list(Script.parse(raw=ti[2][0][-1]).commands))
                    yield ("corr", "get_sig_legacy", [txv, spent, idx, secret, [red]])
                    yield ("prop", "signer_digest", [kind, txv, spent, idx, secret, [red], []])
                elif kind == "p2wpkh":
                    yield ("corr", "get_sig_segwit", [txv, spent, idx, secret, [], []])
                    yield ("prop", "signer_digest", [kind, txv, spent, idx, secret, [], []])
                elif kind == "p2sh-p2wpkh":
                    red = S(list(Script.parse(raw=ti[2][0][-1]).commands))
                    yield ("corr", "get_sig_segwit", [txv, spent, idx, secret, [red], []])
                    yield ("prop", "signer_digest", [kind, txv, spent, idx, secret, [red], []])
                else:
                    ws = S(list(Script.parse(raw=ti[4][-1]).commands))
                    yield ("corr", "get_sig_segwit", [txv, spent, idx, secret, [], [ws]])
                    yield ("prop", "signer_digest", [kind, txv, spent, idx, secret, [], [ws]])
                der_all = c["sign"](0, 1, 1)[:-1]
                if kind in ("p2pkh", "bare-multisig"):
                    yield ("corr", "check_sig_legacy", [txv, spent, idx, keys[0], der_all, []])
                    yield ("corr", "check_sig_legacy", [txv, spent, idx, keys[0], good[0][:-1], []])
                elif kind == "p2wpkh":
                    yield ("corr", "check_sig_segwit", [txv, spent, idx, keys[0], der_all, [], []])
                    yield ("corr", "check_sig_segwit", [txv, spent, idx, keys[0], der_all[:-1], [], []])
                elif kind == "p2wsh-multisig":
                    ws = S(list(Script.parse(raw=ti[4][-1]).commands))
                    yield ("corr", "check_sig_segwit", [txv, spent, idx, keys[0], der_all, [], [ws]])
                    yield ("corr", "check_sig_segwit", [txv, spent, idx, keys[1], der_all, [], [ws]])
                # ---- op_checkmultisig on the same transaction: [dummy, sigs.., m, keys.., n]
                if nk >= 2:
                    sg = c["signers"]
                    sigs = [good[k] for k in sg]

                    def ms(sigs_, keys_, m_=None, n_=None, dummy=(b"",)):
                        return list(dummy) + list(sigs_) + [_enc_num(len(sigs_) if m_ is None else m_)] + list(keys_) + \
                            [_enc_num(len(keys_) if n_ is None else n_)]
                    ctx.label("sites/checkmultisig")
                    yield ("corr", "op_checkmultisig", [txv, spent, idx, ms(sigs, keys)])
                    yield ("corr", "op_checkmultisig", [txv, spent, idx, [b"\x55"] + ms(sigs, keys)])
                    yield ("corr", "op_checkmultisig", [txv, spent, idx, ms(sigs[::-1], keys)])
                    yield ("corr", "op_checkmultisig", [txv, spent, idx, ms([sigs[0], sigs[0]], keys)])
                    yield ("corr", "op_checkmultisig", [txv, spent, idx, ms(sigs[:1], keys)])
                    yield ("corr", "op_checkmultisig", [txv, spent, idx, ms([bad[k] for k in sg], keys)])
                    yield ("corr", "op_checkmultisig", [txv, spent, idx, ms(sigs, keys[::-1])])
                    if j == 0 and (ctx.tier != "quick" or kind in ("bare-multisig", "p2wsh-multisig")):
                        yield ("corr", "op_checkmultisig", [txv, spent, idx, ms([], keys)])
                        yield ("corr", "op_checkmultisig", [txv, spent, idx, ms([], [])])
                        yield ("corr", "op_checkmultisig", [txv, spent, idx, ms(sigs, keys, dummy=())])
                        yield ("corr", "op_checkmultisig", [txv, spent, idx, ms(sigs, keys, n_=nk + 1)])
                        yield ("corr", "op_checkmultisig", [txv, spent, idx, ms(sigs, keys, n_=-1)])
                        yield ("corr", "op_checkmultisig", [txv, spent, idx, ms(sigs, keys, m_=len(sigs) + 1)])
                        yield ("corr", "op_checkmultisig", [txv, spent, idx, ms(sigs, keys, m_=-1)])
                        yield ("corr", "op_checkmultisig", [txv, spent, idx, ms([sigs[0], b""], keys)])
                        yield ("corr", "op_checkmultisig", [txv, spent, idx, ms([sigs[0][:5] + sigs[0][-1:], sigs[1]], keys)])
                        yield ("corr", "op_checkmultisig", [txv, spent, idx, ms(sigs, [keys[0], b"\x05" + keys[1][1:]] + keys[2:])])
                        yield ("corr", "op_checkmultisig", [txv, spent, idx, []])
                        yield ("corr", "op_checkmultisig", [txv, spent, idx, [_enc_num(1)]])
            else:
                # ---- op_checksig_schnorr: [sig, xonly key]; op_checksigadd_schnorr: [sig, n, xonly key]
                k0 = c["signers"][0]
                base = c["sign"](k0, 0, 0)            # 64 bytes over the DEFAULT digest
                variants = [("good", good[k0]), ("relabelled", c["sign"](k0, hts[k0], alt)),
                            ("65-bytes-hash-type-00", c["sign"](k0, 0, 0, explicit=True)),
                            ("65-bytes-undefined-hash-type", c["sign"](k0, 1, r.choice([4, 0x80, 0x84, 0x41, 0xff]))),
                            ("66-bytes", base + ctx.rbytes(2)), ("63-bytes", base[:-1]), ("empty", b""),
                            ("wrong-key", c["sign"]((k0 + 1) % nk, hts[k0], hts[k0]) if nk > 1 else good[k0][::-1])]
                for lbl, sg in variants:
                    ctx.label("sites/schnorr-sig-" + lbl)
                    yield ("corr", "op_checksig_schnorr", [txv, spent, idx, [sg, keys[k0]]])
                    yield ("corr", "op_checksigadd_schnorr", [txv, spent, idx, [sg, _enc_num(r.choice([0, 1, 2, 16, 127, 128, -1])), keys[k0]]])
                    yield ("corr", "taproot_sig_rule", [sg])
                if j == 0:
                    for lbl, pk in [("not-on-curve", invalid_x(ctx)), ("33-bytes", b"\x02" + keys[k0]), ("empty", b""),
                                    ("zero", bytes(32))]:
                        ctx.label("sites/schnorr-key-" + lbl)
                        yield ("corr", "op_checksig_schnorr", [txv, spent, idx, [good[k0], pk]])
                        yield ("corr", "op_checksigadd_schnorr", [txv, spent, idx, [good[k0], b"", pk]])
                    yield ("corr", "op_checksig_schnorr", [txv, spent, idx, [good[k0]]])
                    yield ("corr", "op_checksigadd_schnorr", [txv, spent, idx, [good[k0], keys[k0]]])
                    yield ("corr", "op_checksigadd_schnorr", [txv, spent, idx, [good[k0], b"\x01\x00\x00\x00\x80", keys[k0]]])
                    # digest of the wrong Python type: the ECDSA op code on a taproot input
                    yield ("corr", "op_checksig", [txv, spent, idx, [privs_der(c, 1), c["privs"][k0].point.sec()]])
                    yield ("corr", "op_checksig", [txv, spent, idx, [bytes.fromhex("3006020100020101") + b"\x01", c["privs"][k0].point.sec()]])
                secret = c["privs"][k0].secret
                ext = 0 if kind == "p2tr-key" else 1
                for ht in ([hts[k0], 0] if j else [0] + std_e + [4]):
                    yield ("corr", "get_sig_taproot", [txv, spent, idx, secret, ext, ht, ctx.rbytes(32)])
                yield ("prop", "signer_digest", [kind, txv, spent, idx, secret, [], []])
    # ---- the Schnorr op codes on a non-taproot input (the digest is an int)
    c = _site_spend(VD_KINDS.index("p2wpkh"), 1, 1, 0, 4242)
    txv = c["with_sigs"]([c["sign"](0, 1, 1)])
    x = c["privs"][0].point.xonly()
    yield ("corr", "op_checksig_schnorr", [txv, c["spent"], 0, [ctx.rbytes(64), x]])
    yield ("corr", "op_checksig_schnorr", [txv, c["spent"], 0, [bytes(32) + ctx.rbytes(32), x]])
    yield ("corr", "op_checksigadd_schnorr", [txv, c["spent"], 0, [x + bytes(31) + b"\x01", b"\x01", x]])

    # ---- Tx.sign_input and the four sign_* methods on unsigned transactions
    from buidl.helper import hash160 as _h160
    from buidl.pecc import PrivateKey
    for j in range(ctx.n(14, 80)):
        secret = r.randrange(1, 2 ** 250)
        compressed = 0 if j % 5 == 4 else 1
        priv = PrivateKey(secret, compressed=bool(compressed))
        sec = priv.point.sec(bool(compressed))
        kind = ["p2pkh", "p2wpkh", "p2sh-p2wpkh", "p2tr", "p2pkh-other-key", "p2wsh", "p2sh-p2wpkh-no-redeem"][j % 7]
        n_in = 1 + j % 3
        idx = j % n_in
        tx, spent = make_tx(ctx, n_in, 1 + j % 2, ["p2wpkh"] * n_in)
        for ti in tx[1]:
            ti[2], ti[4] = S([]), []
        tx[0], tx[3] = 2, r.choice([0, 5])
        redeem = []
        ht = 1
        if kind == "p2pkh":
            spent[idx][1] = S([0x76, 0xa9, _h160(sec), 0x88, 0xac])
        elif kind == "p2pkh-other-key":
            spent[idx][1] = S([0x76, 0xa9, ctx.rbytes(20), 0x88, 0xac])
        elif kind == "p2wpkh":
            spent[idx][1] = S([0, _h160(sec)])
        elif kind.startswith("p2sh-p2wpkh"):
            red = [0, _h160(priv.point.sec(True))]
            spent[idx][1] = S([0xa9, _h160(ref_raw_script(S(red))), 0x87])
            redeem = [S(red)] if kind == "p2sh-p2wpkh" else []
        elif kind == "p2tr":
            tw = priv.tweaked_key()
            secret = tw.secret
            spent[idx][1] = S([0x51, tw.point.xonly()])
            ht = r.choice(HASH_TYPES + [1])
            if ht & 3 == 3 and idx >= len(tx[2]):
                ht = 1
            if j % 4 == 3:       # a witness with an annex before signing: signed with, verified without
                tx[1][idx][4] = [ctx.rbytes(64), r_annex(ctx)]
        else:
            spent[idx][1] = S([0, ctx.rbytes(32)])
        ctx.label("sites/sign_input/" + kind)
        yield ("corr", "sign_input", [tx, spent, idx, secret, compressed, redeem, ht])
        if kind in ("p2pkh", "p2wpkh"):
            yield ("corr", "sign_" + kind, [tx, spent, idx, secret, compressed])
            yield ("prop", "sign_then_verify", [tx, spent, idx, secret, compressed, redeem, ht])
        elif kind == "p2sh-p2wpkh":
            yield ("corr", "sign_p2sh_p2wpkh", [tx, spent, idx, secret, compressed])
            if compressed:     # the redeem script commits to the compressed key, the witness carries key.sec(compressed)
                yield ("prop", "sign_then_verify", [tx, spent, idx, secret, compressed, redeem, ht])
        elif kind == "p2tr":
            yield ("corr", "sign_p2tr_keypath", [tx, spent, idx, secret, ht, ctx.rbytes(32)])
            if not tx[1][idx][4]:
                yield ("prop", "sign_then_verify", [tx, spent, idx, secret, compressed, redeem, ht])
        if j == 0:
            yield ("corr", "sign_input", [tx, spent, n_in, secret, compressed, redeem, ht])
            yield ("corr", "verify_input", [tx, spent, n_in])

    # ---- one object, every input signed by Tx.sign_input in a random order, then every input verified
    for j in range(ctx.n(3, 20)):
        n_in = 2 + j % 3
        tx, spent = make_tx(ctx, n_in, 1 + j % 3, ["p2wpkh"] * n_in)
        tx[0], tx[3] = 2, 0
        steps = []
        for idx in range(n_in):
            tx[1][idx][2], tx[1][idx][4] = S([]), []
            secret = r.randrange(1, 2 ** 250)
            priv = PrivateKey(secret)
            sec = priv.point.sec()
            kind = ["p2pkh", "p2wpkh", "p2sh-p2wpkh", "p2tr"][(idx + j) % 4]
            redeem, ht = [], 1
            if kind == "p2pkh":
                spent[idx][1] = S([0x76, 0xa9, _h160(sec), 0x88, 0xac])
            elif kind == "p2wpkh":
                spent[idx][1] = S([0, _h160(sec)])
            elif kind == "p2sh-p2wpkh":
                red = [0, _h160(sec)]
                spent[idx][1] = S([0xa9, _h160(ref_raw_script(S(red))), 0x87])
                redeem = [S(red)]
            else:
                tw = priv.tweaked_key()
                secret = tw.secret
                spent[idx][1] = S([0x51, tw.point.xonly()])
                ht = r.choice([0, 1, 2, 0x81, 0x82] + ([3, 0x83] if idx < len(tx[2]) else []))
            steps.append([idx, secret, 1, redeem, ht])
        r.shuffle(steps)
        ctx.label(f"sites/sign_many/inputs={n_in}")
        yield ("corr", "sign_many", [tx, spent, steps])
        yield ("prop", "sign_all_then_verify", [tx, spent, steps])
        if j == 0:       # an input signed twice, and a step that cannot be signed (the call raises)
            yield ("corr", "sign_many", [tx, spent, steps + steps[:1]])
            bad = copy.deepcopy(spent)
            bad[0][1] = S([0x51])
            yield ("corr", "sign_many", [tx, bad, steps])

    # ---- the form of taproot signatures, the hash type mask (both fixed in /repo: regression cases)
    for variant in range(len(TSR_VARIANTS)):
        ctx.label("sites/taproot-signature-form/" + TSR_VARIANTS[variant])
        yield ("prop", "taproot_sig_rule", [variant, variant + ctx.n(0, 3)])
    tx, spent = make_tx(ctx, 2, 2, ["p2pkh", "p2wpkh"])
    for idx in (0, 1):
        for ht in (6, 7, 0x86):
            ctx.label("sites/hash-type-mask-0x1f")
            yield ("prop", "hash_type_mask", [tx, spent, idx, ht])
        for ht in (4, 5, 0x20, 0x21, 0x22, 0x41, 0xc1):        # bytes on which `& 3` and `& 0x1f` agree
            yield ("prop", "digest_eq_reference", [tx, spent, idx, ht])

    # ---- BIP341 signature rule: lengths around 64 / 65 and every last byte
    for n in (0, 1, 32, 63, 64, 65, 66, 96, 128):
        yield ("corr", "taproot_sig_rule", [ctx.rbytes(n)])
    for b in range(256):
        yield ("corr", "taproot_sig_rule", [ctx.rbytes(64) + bytes([b])])


def privs_der(c, ht):
    """an ECDSA signature (made with key 0 of the case) with hash-type byte ht"""
    return c["privs"][0].sign(12345).der() + bytes([ht])


def audit_cases(ctx):
    """Entry points that most callers bypass, arguments left to their defaults, per-element attributes that differ
    between the elements, state shared between a result and its source (cheap, deterministic cases)."""
    r = ctx.rng
    # ---- (1) default arguments of the three builders, of get_sig_taproot / sign_p2tr_keypath / sign_input: the call
    #      style follows _omit_defaults; here shapes of BOTH parities with the argument values that equal the defaults
    for n_in, idx in ((1, 0), (2, 0), (2, 1), (3, 1)):
        style = "defaults-left-out" if _omit_defaults(n_in, idx) else "every-argument-passed"
        for kinds in (["p2tr-key", "p2tr-key-annex", "p2tr-script"], ["p2wpkh", "p2pkh", "p2tr-script-annex"]):
            tx, spent = make_tx(ctx, n_in, 2, [kinds[(idx + k) % 3] for k in range(n_in)])
            code = S([0x76, 0xa9, ctx.rbytes(20), 0x88, 0xac])
            ctx.label("call-style/builders/" + style)
            for ht in (0, 1):
                yield ("prop", "builders_eq_reference", [tx, spent, idx, ht, code])
                yield ("corr", "bip341", [tx, spent, idx, 0, ht])
                yield ("corr", "bip341", [tx, spent, idx, 1, ht])
                yield ("corr", "legacy", [tx, spent, idx, [], ht])
                yield ("corr", "bip143", [tx, spent, idx, [], [], ht])
            yield ("prop", "history_ext", [tx, spent, [[0, [2, 0], idx, 0], [0, [0, []], idx, 1], [4, 9], [0, [2, 0], idx, 0],
                                                       [0, [0, []], idx, 1], [0, [3], idx, 0]]])
    from buidl.pecc import PrivateKey
    for n_in, idx in ((1, 0), (2, 0)):
        style = "defaults-left-out" if _omit_defaults(n_in, idx) else "every-argument-passed"
        c = _site_spend(VD_KINDS.index("p2tr-key"), n_in, 1, idx, 8800 + n_in)
        txv = c["with_sigs"]([c["sign"](0, 0, 0)])
        ctx.label("call-style/get_sig_taproot/" + style)
        yield ("corr", "get_sig_taproot", [txv, c["spent"], idx, c["privs"][0].secret, 0, 0, ZERO_AUX])
        if _omit_defaults(n_in, idx):
            yield ("prop", "signer_digest", ["p2tr-key", txv, c["spent"], idx, c["privs"][0].secret, [], []])
        # unsigned p2tr input: sign_p2tr_keypath() with hash_type / aux at their defaults, sign_input() with hash_type at its
        secret = r.randrange(1, 2 ** 250)
        tw = PrivateKey(secret).tweaked_key()
        tx, spent = make_tx(ctx, n_in, 1, ["p2wpkh"] * n_in)
        for ti in tx[1]:
            ti[2], ti[4] = S([]), []
        tx[0], tx[3] = 2, 0
        spent[idx][1] = S([0x51, tw.point.xonly()])
        ctx.label("call-style/sign_p2tr/" + style)
        yield ("corr", "sign_p2tr_keypath", [tx, spent, idx, tw.secret, 0, ZERO_AUX])
        yield ("corr", "sign_input", [tx, spent, idx, tw.secret, 1, [], 1])
        yield ("prop", "sign_then_verify", [tx, spent, idx, tw.secret, 1, [], 1])

    # ---- (2) finalize_p2tr_multisig: every signature has its own hash type
    for j, (n_keys, k, n_in, n_out, idx, hts, annex, extra) in enumerate(
            [(2, 2, 2, 2, 1, [0x81, 3], 0, 0), (3, 2, 1, 1, 0, [0, 0x82], 1, 1)] +
            ([] if ctx.tier == "quick" else [(3, 3, 3, 3, 2, [1, 0x83, 2], 0, 1), (2, 1, 2, 0, 0, [2], 1, 0),
                                             (1, 1, 1, 1, 0, [0x83], 0, 0), (4, 2, 2, 2, 0, [3, 0], 1, 1)])):
        ctx.label("finalize_p2tr_multisig/" + ("mixed-hash-types" if len(set(hts[:k])) > 1 else "one-hash-type"))
        yield ("prop", "finalize_p2tr_multisig", [n_keys, k, n_in, n_out, idx, hts, 100 + j, annex, extra])

    # ---- (3) spent outputs that are LOOKED UP (no preset _value / _script_pubkey): previous transactions with several,
    #      different outputs; the inputs point at different output indices (two of them into the same transaction)
    for j in range(ctx.n(12, 60)):
        n_in = 2 + j % 3
        kinds = [["p2tr-key", "p2tr-script", "p2wpkh", "p2tr-key-annex"][(j + k) % 4] for k in range(n_in)]
        tx, spent = make_tx(ctx, n_in, 1 + j % 3, kinds)
        prevs = []
        for k in range(n_in):
            if k == 1 and j % 2 == 0:
                pv = prevs[0]                       # inputs 0 and 1 spend two outputs of ONE transaction
                pos = (tx[1][0][1] + 1 + j % 2) % len(pv[2])
            else:
                n_po = r.choice([2, 3, 4])
                pv = [r.choice([1, 2]), [[ctx.rbytes(32), r.randrange(4), S([ctx.rbytes(71), ctx.rbytes(33)]), r_seq(r), []]],
                      [[r_amount(r), r_out_script(ctx)] for _ in range(n_po)], r_lock(r)]
                pos = (j + k) % n_po
            pv[2][pos] = copy.deepcopy(spent[k])
            prevs.append(pv)
            tx[1][k][1] = pos
        for k in range(n_in):
            tx[1][k][0] = ref_txid(prevs[k])
        preset = [0, 0, 1, 2, (1 << n_in) - 2, 5][j % 6]
        network = ["mainnet", "testnet", "signet", "regtest"][j % 4]
        ctx.label("fetched-spent/" + ("none-preset" if preset == 0 else "some-preset"))
        for idx in range(n_in):
            yield ("prop", "fetched_spent", [tx, prevs, preset, idx, HASH_TYPES[(j + idx) % 7], network])

    # ---- (4) Witness accessors on script-path witnesses with / without annex, with extra stack items
    for j in range(ctx.n(40, 400)):
        ts = ref_raw_script(S([ctx.rbytes(32), 0xac] + ([ctx.rbytes(32), 0xba] if j % 3 == 0 else [])))
        cb = control_block(ctx, r.choice([0, 1, 2]), r.choice([0xc0, 0xc0, 0xc2, 0x50, 0xfe]))
        if j % 7 == 6:
            cb = cb[:-1] if len(cb) > 33 else cb + b"\x00"
        w = [ctx.rbytes(64) for _ in range(j % 3)] + [ts, cb] + ([r_annex(ctx)] if j % 2 else [])
        if j % 11 == 10:
            w = [ts, cb, b"\x50"]
        ctx.label("witness-accessors/" + ("annex" if ref_split_annex(w)[0] is not None else "no-annex"))
        yield ("prop", "witness_accessors", [w])
        yield ("corr", "tap_leaf", [w])

    # ---- (5) verify_input, then the digests again on the same object: real spends with an annex / several signatures,
    #      and spends that fail early (after the verifier has taken the witness apart)
    salt = 9100
    for kind, want_annex in (("p2tr-key", True), ("p2tr-script-checksigadd", True), ("p2wsh-multisig", False)):
        kind_i = VD_KINDS.index(kind)
        while True:
            salt += 1
            if not want_annex or salt % 3 == 0:
                break
        n_in, n_out, idx = [(2, 2, 1), (1, 1, 0), (2, 1, 0)][kind_i % 3]
        c = _site_spend(kind_i, n_in, n_out, idx, salt)
        ht = 0x81 if c["schnorr"] else 0x82
        placed = [c["sign"](k, ht, ht) if k in c["signers"] else b"" for k in range(c["n_keys"])]
        ctx.label("verify-then-digest/" + kind)
        yield ("prop", "verify_then_digest", [c["with_sigs"](placed), c["spent"], idx, [ht, 1], 1])
    for j in range(ctx.n(16, 120)):
        kinds = [["p2tr-key-annex", "p2tr-script-annex", "p2wsh", "p2sh-p2wsh", "p2sh-multisig", "p2tr-script", "p2wpkh", "p2pkh"][(j + k) % 8]
                 for k in range(1 + j % 2)]
        tx, spent = make_tx(ctx, len(kinds), 1 + j % 2, kinds)
        if kinds[0].startswith("p2tr") and j % 4 < 2:
            spent[0][1] = S([0x51, valid_x(ctx)])
        ctx.label("verify-then-digest/unsigned-or-invalid/" + kinds[0])
        yield ("prop", "verify_then_digest", [tx, spent, 0, [HASH_TYPES[j % 7]], 0])

    # ---- (6) Tx.clone(): source and clone edited and queried independently
    for j in range(ctx.n(30, 300)):
        kinds = [["p2tr-key", "p2wsh", "p2tr-script"], ["p2tr-key-annex", "p2wpkh"], ["p2sh-p2wsh", "p2tr-script-annex", "p2pkh"],
                 ["p2tr-key", "p2tr-key"]][j % 4]
        tx, spent = make_tx(ctx, len(kinds), 1 + j % 3, kinds)
        tx[0] = r.choice([1, 2, 0xffffffff])
        for sp in spent:
            sp[0] = min(sp[0], 2 ** 63 - 1)
        pre = [[0, [3], i, HASH_TYPES[(i + j) % 7]] for i in range(len(kinds))] if j % 3 else []
        ops = []
        kinds_ok = [k for k in EDIT_KINDS if k not in (19, 27, 21)]
        for step in range(3):
            obj = (j + step) % 2
            k = [22, 17, 5, 23, 3, 11, 12, 1, 13, 15, 18, 26][(j // 2 + step * 5) % 12] if step < 2 else r.choice(kinds_ok)
            ctx.label("clone/edit-" + ("clone" if obj else "source") + "/" + EDIT_NAMES[k])
            ops.append([obj, r_edit(ctx, k)])
            for o in (1 - obj, obj):
                for i in range(len(kinds)):
                    ops.append([o, [0, [3], i, HASH_TYPES[(i + j + step) % 7]]])
                ops.append([o, [0, [2, 0], step, 0x81 if step else 0]])
        yield ("prop", "clone_world", [tx, spent, pre, ops])

    # ---- (7) coincidences the kind generators never make: a P2SH redeem script that is itself a P2TR / P2PKH / P2SH
    #      template or empty; an EMPTY witness script; witness programs spent with a non-empty scriptSig
    for j in range(ctx.n(2, 12)):
        for red in (b"\x51\x20" + ctx.rbytes(32), b"\x76\xa9\x14" + ctx.rbytes(20) + b"\x88\xac", b"\xa9\x14" + ctx.rbytes(20) + b"\x87",
                    b"", b"\x51", b"\x00\x14" + ctx.rbytes(19), b"\x00\x20" + ctx.rbytes(33)):
            tx, spent = make_tx(ctx, 2, 2, ["p2sh-multisig", "p2tr-key"])
            tx[1][0][2] = S([0, r_sig(ctx), red])
            tx[1][0][4] = r.choice([[], [ctx.rbytes(64)], [b"", ref_raw_script(S([0x51]))]])
            ctx.label("odd/p2sh-redeem-script-of-another-template")
            for ht in (1, 0x83):
                yield ("corr", "sig_hash", [tx, spent, 0, ht])
                yield ("prop", "digest_eq_reference", [tx, spent, 0, ht])
        for kind in ("p2wsh", "p2sh-p2wsh"):
            for w in ([b""], [b"", b""], [r_sig(ctx), b""]):
                tx, spent = make_tx(ctx, 2, 2, [kind, "p2wpkh"])
                tx[1][0][4] = w
                ctx.label("odd/empty-witness-script")
                for ht in (1, 3, 0x82):
                    yield ("corr", "sig_hash", [tx, spent, 0, ht])
                    yield ("prop", "digest_eq_reference", [tx, spent, 0, ht])
        for kind in ("p2wpkh", "p2wsh", "p2tr-key", "p2tr-script-annex"):
            tx, spent = make_tx(ctx, 1, 1, [kind])
            tx[1][0][2] = r.choice([S([b"\x00\x14" + ctx.rbytes(20)]), S([b"\x00\x20" + ctx.rbytes(32)]), S([r_sig(ctx), 0x51])])
            ctx.label("odd/witness-program-with-scriptsig")
            yield ("corr", "sig_hash", [tx, spent, 0, HASH_TYPES[j % 7]])
            yield ("prop", "digest_eq_reference", [tx, spent, 0, HASH_TYPES[j % 7]])



def generate(ctx):
    r = ctx.rng
    # --- Witness.has_annex: exhaustive small shapes + random
    shapes = [b"", b"\x50", b"\x50\x01", b"\x51", b"\x4f\x50", b"\x00", b"\x50" * 40]
    for n in range(0, 4):
        for w in itertools.product(shapes, repeat=n):
            yield ("corr", "has_annex", [list(w)])
            yield ("prop", "has_annex_bip341", [list(w)])
            ctx.label(f"has_annex/items={n}")
    for _ in range(ctx.n(100, 3000)):
        w = [ctx.rbytes(r.choice([0, 1, 2, 33, 64])) for _ in range(r.randrange(0, 5))]
        if w and r.random() < 0.5:
            w[-1] = b"\x50" + w[-1][1:]
        yield ("corr", "has_annex", [w])
        yield ("prop", "has_annex_bip341", [w])

    # --- tap_leaf: control block lengths, versions, invalid internal keys, annex
    for _ in range(ctx.n(200, 3000)):
        ts = ref_raw_script(S([ctx.rbytes(32), 0xac]))
        m = r.choice([0, 1, 2, 128, 129])
        cb = control_block(ctx, m, r.choice([0xc0, 0xc2, 0x50, 0xfe]))
        k = r.randrange(6)
        if k == 0:
            cb = cb[:-1]
        elif k == 1:
            cb = cb + b"\x00"
        elif k == 2:
            cb = cb[:1] + invalid_x(ctx) + cb[33:]
            ctx.label("tap_leaf/invalid-internal-key")
        elif k == 3:
            cb = cb[: r.randrange(0, 34)]
        w = [ctx.rbytes(64)] * r.randrange(0, 2) + [ts, cb] + ([r_annex(ctx)] if r.random() < 0.4 else [])
        yield ("corr", "tap_leaf", [w])
    for w in ([], [b"\x01"], [b"\x50"], [b"\x01", b"\x50"]):
        yield ("corr", "tap_leaf", [w])

    # --- alternative entry points, default arguments, per-element attributes, shared state
    yield from audit_cases(ctx)

    # --- the digest at the point of use: hand-assembled spends verified by Tx.verify_input
    combos = [[1], [2], [3], [0x81], [0x82], [0x83], [0], [1, 0x82], [0x83, 1], [3, 2], [0, 0x81], [2, 0]]
    salt = 0
    for kind_i in range(len(VD_KINDS)):
        shapes = [(1, 1, 0), (2, 1, 1), (3, 2, 2), (2, 3, 0), (1, 0, 0), (3, 1, 1)]
        for j in range(ctx.n(3, 12)):
            n_in, n_out, idx = shapes[(j + kind_i) % len(shapes)]
            hts = combos[(j * 5 + kind_i) % len(combos)]
            multi = "multisig" in VD_KINDS[kind_i] or VD_KINDS[kind_i].endswith("checksigadd")
            if multi and len(hts) < 2:
                hts = [hts[0], [1, 0x82, 3, 0x81][(j + kind_i) % 4]]
            salt += 1
            ctx.label("verifier_digest/" + VD_KINDS[kind_i] + ("/mixed-hash-types" if len(set(hts)) > 1 else ""))
            yield ("prop", "verifier_digest", [kind_i, n_in, n_out, idx, hts, salt, 2 if ctx.tier == "quick" else 0])

    # --- the signature sites: op codes and Tx methods that choose the hash type and use the digest
    yield from sig_sites(ctx)

    # --- the grid: 1..6 inputs x 0..6 outputs, every index, all hash types, every kind
    per_cell = ctx.n(4, 25)
    kind_cycle = itertools.cycle(KINDS)
    for n_in in range(1, 7):
        for n_out in range(0, 7):
            for _ in range(per_cell):
                kinds = [next(kind_cycle) for _ in range(n_in)]
                r.shuffle(kinds)
                tx, spent = make_tx(ctx, n_in, n_out, kinds)
                for idx in range(n_in):
                    ctx.label("kind/" + kinds[idx])
                    for ht in HASH_TYPES:
                        yield ("corr", "sig_hash", [tx, spent, idx, ht])
                        yield ("prop", "digest_eq_reference", [tx, spent, idx, ht])
                        yield ("corr", "spec_sig_hash", [tx, spent, idx, ht])
                        if ht & 3 == 3 and idx >= n_out:
                            ctx.label("single-without-output/" + kinds[idx].split("-")[0])
                            yield ("prop", "single_no_output", [tx, spent, idx, ht])
                # direct builder calls with an explicit script code, incl. an out-of-range index
                idx = r.randrange(n_in)
                code = r.choice([S(multisig_cmds(ctx)), S([0x76, 0xa9, ctx.rbytes(20), 0x88, 0xac]), S([]),
                                 S([ctx.rbytes(r.choice([75, 76, 255, 256, 520]))])])
                for ht in HASH_TYPES:
                    yield ("prop", "builders_eq_reference", [tx, spent, idx, ht, code])
                    yield ("corr", "legacy", [tx, spent, idx, [code], ht])
                    yield ("corr", "legacy", [tx, spent, idx, [], ht])
                    yield ("corr", "bip143", [tx, spent, idx, [], [code], ht])
                    yield ("corr", "bip143", [tx, spent, idx, [], [], ht])
                    yield ("corr", "bip143", [tx, spent, idx, [code], [], ht])
                    yield ("corr", "bip341", [tx, spent, idx, 0, ht])
                    yield ("corr", "bip341", [tx, spent, idx, 1, ht])
                yield ("corr", "legacy", [tx, spent, n_in, [code], r.choice(HASH_TYPES)])
                yield ("corr", "legacy", [tx, spent, n_in + 1, [], r.choice(HASH_TYPES)])
                yield ("corr", "bip143", [tx, spent, n_in, [], [code], 1])
                yield ("corr", "bip341", [tx, spent, n_in, 0, 0])
                yield ("corr", "sig_hash", [tx, spent, n_in, 1])

    # --- malformed / unusual spends: what the dispatcher does (model vs implementation), and
    #     where the standards define a digest, the reference too
    for _ in range(ctx.n(400, 6000)):
        tx, spent = make_tx(ctx, r.randrange(1, 4), r.randrange(0, 3))
        idx = r.randrange(len(tx[1]))
        ti = tx[1][idx]
        k = r.randrange(9)
        lbl = ["p2sh-empty-scriptsig", "p2sh-scriptsig-ends-with-opcode", "p2wsh-empty-witness", "p2tr-empty-witness",
               "p2tr-single-0x50-item", "p2tr-bad-control-block", "huge-values", "raw-script", "unknown-hash-type"][k]
        ctx.label("odd/" + lbl)
        if k == 0:
            spent[idx][1] = S([0xa9, ctx.rbytes(20), 0x87])
            ti[2] = S([])
        elif k == 1:
            spent[idx][1] = S([0xa9, ctx.rbytes(20), 0x87])
            ti[2] = S([ctx.rbytes(22), 0x51])
        elif k == 2:
            spent[idx][1] = S([0x00, ctx.rbytes(32)])
            ti[4] = []
        elif k == 3:
            spent[idx][1] = S([0x51, ctx.rbytes(32)])
            ti[4] = []
        elif k == 4:
            spent[idx][1] = S([0x51, ctx.rbytes(32)])
            ti[4] = [b"\x50" + ctx.rbytes(63)]
        elif k == 5:
            spent[idx][1] = S([0x51, ctx.rbytes(32)])
            ti[4] = [ctx.rbytes(64), ref_raw_script(S([0x51])),
                     r.choice([ctx.rbytes(32), b"\xc0" + invalid_x(ctx), ctx.rbytes(34), b""])]
        elif k == 6:
            spent[idx][0] = r.choice([2 ** 64 - 1, 2 ** 64, -1])
            if tx[2]:
                tx[2][0][0] = r.choice([2 ** 64 - 1, 2 ** 64, -1, 2 ** 63])
        elif k == 7:
            # a script object that kept its raw bytes (inexact parse): serialised from .raw
            spent[idx][1] = S([ctx.rbytes(3)], raw=b"\x05" + ctx.rbytes(3))
        ht = r.choice(HASH_TYPES) if k != 8 else r.choice([4, 0x80, 0x84, 0x41, 0xff, 0x100, -1, 0x1ff])
        yield ("corr", "sig_hash", [tx, spent, idx, ht])
        if k in (0, 1, 2, 4, 5):
            yield ("prop", "digest_eq_reference", [tx, spent, idx, ht])
            yield ("corr", "spec_sig_hash", [tx, spent, idx, ht])

    # --- known finding: non-minimally encoded witness / redeem script is re-serialised
    for _ in range(ctx.n(3, 30)):
        tx, spent = make_tx(ctx, 1, 1, ["p2wsh"])
        tx[1][0][4] = [b"", b"\x4c\x03" + ctx.rbytes(3) + b"\x75\x51"]
        ctx.label("odd/non-minimal-witness-script")
        yield ("corr", "sig_hash", [tx, spent, 0, 1])
        yield ("prop", "script_code_raw", [tx, spent, 0, 1])

    # --- histories: complete enumeration over a 7-symbol alphabet
    full = 4 if ctx.tier == "quick" else 5
    n_base = ctx.n(1, 2)
    for variant in range(n_base * 3):
        kinds = [["p2wpkh", "p2tr-key"], ["p2pkh", "p2tr-script"], ["p2wsh", "p2tr-key-annex"]][variant % 3]
        tx, spent = make_tx(ctx, 2, 2, kinds)
        alpha = history_alphabet(ctx, tx, spent, variant)
        for ln in range(1, full + 1):
            for ops in itertools.product(alpha, repeat=ln):
                if not any(o[0] == 0 for o in ops):
                    continue
                ops = [list(o) for o in ops]
                ctx.label(f"history/len={ln}")
                yield ("corr", "history", [tx, spent, ops])
                yield ("prop", "history_fresh", [tx, spent, ops])
        for _ in range(ctx.n(150, 6000)):
            ln = r.choice([5, 6]) if ctx.tier == "quick" else 6
            ops = [list(r.choice(alpha)) for _ in range(ln)]
            ops[-1] = list(alpha[r.randrange(2)])
            ctx.label(f"history/len={ln}")
            yield ("corr", "history", [tx, spent, ops])
            yield ("prop", "history_fresh", [tx, spent, ops])

    # --- the same alphabet on unsigned transactions built through the constructors' defaults; the witness edit
    #     of odd length is done in place (see _set_witness); model, implementation and the reference-based predicate
    for variant in range(ctx.n(2, 6)):
        tx, spent = unsigned_tx(ctx, [["p2tr", "p2tr"], ["p2wsh", "p2tr"], ["p2tr", "p2sh-p2wsh"]][variant % 3], 2, lazy=True)
        ni, ns = unsigned_input(ctx, r.choice(["p2tr", "p2wsh"]))
        alpha = [[0, [3], 0, HASH_TYPES[variant % 7]], [0, [2, 0], 0, HASH_TYPES[(variant + 2) % 7]],
                 [0, [3], 1, HASH_TYPES[(variant + 4) % 7]],
                 [1, len(tx[2]), [r_amount(r), r_out_script(ctx)]], [2, 2, ni, ns], [3, 0, r.choice([0, 5])], [4, 7],
                 [5, 1, witness_payload(ctx, variant)], [5, 1, witness_payload(ctx, variant + 1)],
                 [5, 0, witness_payload(ctx, variant + 3)], [5, 1, []]]
        seqs = [list(x) for ln in (1, 2, 3) for x in itertools.product(alpha, repeat=ln) if x[-1][0] == 0]
        for ops in seqs if ctx.tier != "quick" else r.sample(seqs, 250):
            ops = [list(o) for o in ops]
            ctx.label("history/default-constructed-inputs")
            yield ("corr", "history", [tx, spent, ops])
            yield ("prop", "history_ext", [tx, spent, ops])

    # --- extended histories: every public field edited, inputs/outputs added and removed, all builders on one object
    yield from ext_histories(ctx)

    # --- several objects: edits of one never show in the digests of another (made before or afterwards)
    yield from world_histories(ctx)
